// Package rawx implements RAW.stride: code outside package mat that reaches
// into the backing slice of a caller-supplied matrix accounts for its stride.
//
// A *mat.Dense handed in by a caller may be a view (Slice, ColView, Grow)
// whose rows are Stride > Cols elements apart; its RawMatrix().Data then also
// contains elements that are not part of the matrix. Sweeping or indexing
// that slice with the column count (`for i := range data { data[i] = 0 }`,
// `data[i*cols+j]`) is right only for matrices the function allocated itself.
// The rule: a function that takes `.Data` of `P.RawMatrix()` (directly or
// through a local holding the blas64.General) where P is rooted at one of its
// parameters mentions `.Stride` of such a value somewhere in its body.
package rawx

import (
	"fmt"
	"go/ast"
	"go/types"

	"gverif/core"
)

// Only the general matrix is armed: the vectors and symmetric matrices whose
// backing slices are read outside mat today (graph/network's *Unitary helpers,
// optimize's resizeSymDense and BFGS state) are internal values known to be
// contiguous, so no exact rule exists for them.
var accessor = map[string]string{"RawMatrix": "Stride"}

func Run(cfg core.Config, scope core.Scope) *core.Result {
	res := core.NewResult("RAW")
	res.Rules = append(res.Rules, "RAW.stride: outside package mat, a function that reads .Data of P.RawMatrix() with P rooted at one of its parameters also reads the .Stride of such a value")
	res.Configs = append(res.Configs, cfg.String())
	pkgs, err := core.Load(cfg, scope.Patterns...)
	if err != nil {
		res.Brokenf("%v", err)
		return res
	}
	for _, pkg := range pkgs {
		if pkg.PkgPath == core.ModPath+"/mat" {
			continue
		}
		info := pkg.TypesInfo
		for _, file := range pkg.Syntax {
			if !scope.InFile(file.Pos()) {
				continue
			}
			for _, d := range file.Decls {
				fd, ok := d.(*ast.FuncDecl)
				if !ok || fd.Body == nil {
					continue
				}
				name := core.FuncName(pkg, fd)
				params := map[types.Object]bool{}
				add := func(fl *ast.FieldList) {
					if fl == nil {
						return
					}
					for _, f := range fl.List {
						for _, n := range f.Names {
							if o := info.Defs[n]; o != nil {
								params[o] = true
							}
						}
					}
				}
				add(fd.Type.Params)
				ast.Inspect(fd.Body, func(n ast.Node) bool {
					if fl, ok := n.(*ast.FuncLit); ok {
						add(fl.Type.Params)
					}
					return true
				})
				rootIsParam := func(e ast.Expr) bool {
					for {
						switch x := ast.Unparen(e).(type) {
						case *ast.SelectorExpr:
							e = x.X
						case *ast.IndexExpr:
							e = x.X
						case *ast.StarExpr:
							e = x.X
						case *ast.Ident:
							return params[core.ObjOf(info, x)]
						default:
							return false
						}
					}
				}
				// rawCall: P.RawXxx() on a gonum mat type
				rawCall := func(e ast.Expr) (recv ast.Expr, field string, ok bool) {
					c, isCall := ast.Unparen(e).(*ast.CallExpr)
					if !isCall || len(c.Args) != 0 {
						return nil, "", false
					}
					sel, isSel := c.Fun.(*ast.SelectorExpr)
					if !isSel {
						return nil, "", false
					}
					f, has := accessor[sel.Sel.Name]
					if !has {
						return nil, "", false
					}
					fn, _ := info.Uses[sel.Sel].(*types.Func)
					if fn == nil || fn.Pkg() == nil || fn.Pkg().Path() != core.ModPath+"/mat" {
						return nil, "", false
					}
					return sel.X, f, true
				}
				// locals bound to P.RawXxx()
				locals := map[types.Object]string{}
				ast.Inspect(fd.Body, func(n ast.Node) bool {
					as, ok := n.(*ast.AssignStmt)
					if !ok || len(as.Lhs) != len(as.Rhs) {
						return true
					}
					for i, r := range as.Rhs {
						if recv, f, ok := rawCall(r); ok && rootIsParam(recv) {
							if id, ok := as.Lhs[i].(*ast.Ident); ok {
								if o := core.ObjOf(info, id); o != nil {
									locals[o] = f
								}
							}
						}
					}
					return true
				})
				type use struct {
					pos   ast.Node
					field string
					what  string
				}
				var uses []use
				strideRead := map[string]bool{}
				ast.Inspect(fd.Body, func(n ast.Node) bool {
					sel, ok := n.(*ast.SelectorExpr)
					if !ok {
						return true
					}
					var field string
					var what string
					if recv, f, ok := rawCall(sel.X); ok {
						res.Count("raw_accessor_field_reads", 1)
						if !rootIsParam(recv) {
							return true
						}
						field, what = f, types.ExprString(sel.X)
					} else if id, ok := ast.Unparen(sel.X).(*ast.Ident); ok {
						f, has := locals[core.ObjOf(info, id)]
						if !has {
							return true
						}
						res.Count("raw_accessor_field_reads", 1)
						field, what = f, id.Name
					} else {
						return true
					}
					switch sel.Sel.Name {
					case "Data":
						uses = append(uses, use{sel, field, what})
					case "Stride", "Inc":
						strideRead[sel.Sel.Name] = true
					}
					return true
				})
				for _, u := range uses {
					res.Obligations++
					res.Count("data_reads_of_caller_supplied_matrices", 1)
					if !strideRead[u.field] {
						res.Add(core.Finding{Rule: "RAW.stride", Key: fmt.Sprintf("RAW.stride|%s|%s", name, u.what), Pos: core.Pos(u.pos.Pos()), Func: name,
							Msg: fmt.Sprintf("%s takes %s.Data of a caller-supplied matrix but never reads its .%s: for a view (Stride > Cols) the backing slice also holds elements outside the matrix, which are then read or overwritten", name, u.what, u.field)})
					}
				}
			}
		}
	}
	return res
}
