// Package zeroed implements ZEROED.paths: a function of package mat whose
// name promises zeroed storage delivers it on every path.
//
// mat has two families of allocation helpers, use/reuseAsNonZeroed (old
// content kept) and useZeroed/reuseAsZeroed (content cleared); callers pick
// the Zeroed form where they go on to accumulate into the result (products,
// rank updates, ReuseAs* for user-visible matrices). For every function whose
// name contains "Zeroed", and for the exported ReuseAs* methods, every path
// from the entry to a return passes a zeroing step: a call of a function whose
// name contains "zero" (useZeroed, zero, Zero, reuseAsZeroed, …) or a make.
// An arm that obtains its storage from use() instead hands back whatever the
// receiver's spare capacity held (reachable after Reset).
package zeroed

import (
	"fmt"
	"go/ast"
	"strings"

	"gverif/cfgx"
	"gverif/core"

	"golang.org/x/tools/go/cfg"
)

func Run(conf core.Config) *core.Result {
	res := core.NewResult("ZEROED")
	res.Rules = append(res.Rules, "ZEROED.paths: in package mat every path to a return of a function named *Zeroed* or of an exported ReuseAs* method passes a zeroing step (a call of a function whose name contains 'zero', or make)")
	res.Configs = append(res.Configs, conf.String())
	pkgs, err := core.Load(conf, "./mat")
	if err != nil {
		res.Brokenf("%v", err)
		return res
	}
	for _, pkg := range pkgs {
		info := pkg.TypesInfo
		for _, file := range pkg.Syntax {
			for _, d := range file.Decls {
				fd, ok := d.(*ast.FuncDecl)
				if !ok || fd.Body == nil {
					continue
				}
				n := fd.Name.Name
				if strings.Contains(n, "NonZeroed") || (!strings.Contains(n, "Zeroed") && !(fd.Recv != nil && strings.HasPrefix(n, "ReuseAs"))) {
					continue
				}
				name := core.FuncName(pkg, fd)
				res.Count("functions_promising_zeroed_storage", 1)
				zeroing := func(nd ast.Node) bool {
					found := false
					ast.Inspect(nd, func(y ast.Node) bool {
						c, ok := y.(*ast.CallExpr)
						if !ok {
							return !found
						}
						var callee string
						switch f := c.Fun.(type) {
						case *ast.Ident:
							callee = f.Name
						case *ast.SelectorExpr:
							callee = f.Sel.Name
						}
						if callee == "make" || strings.Contains(strings.ToLower(callee), "zero") {
							if !strings.Contains(callee, "NonZeroed") {
								found = true
							}
						}
						return !found
					})
					return found
				}
				g := cfgx.New(fd.Body, info)
				must := g.MustPass(func(b *cfg.Block) bool {
					for _, nd := range b.Nodes {
						if zeroing(nd) {
							return true
						}
					}
					return false
				})
				reach := g.Reachable()
				for _, b := range g.Blocks {
					if !reach[b.Index] || len(b.Succs) != 0 {
						continue
					}
					// exit block: a return or the end of the body (panics
					// have no successors either; skip them)
					isPanic := false
					if len(b.Nodes) > 0 {
						if es, ok := b.Nodes[len(b.Nodes)-1].(*ast.ExprStmt); ok {
							if c, ok := es.X.(*ast.CallExpr); ok && cfgx.IsPanic(info, c) {
								isPanic = true
							}
						}
					}
					if isPanic {
						continue
					}
					res.Obligations++
					res.Count("return_paths", 1)
					ok := must[b.Index]
					for _, nd := range b.Nodes {
						if zeroing(nd) {
							ok = true
						}
					}
					if !ok {
						pos := fd.Body.Rbrace
						if len(b.Nodes) > 0 {
							pos = b.Nodes[len(b.Nodes)-1].Pos()
						}
						res.Add(core.Finding{Rule: "ZEROED.paths", Key: fmt.Sprintf("ZEROED.paths|%s|%d", name, exitOrdinal(g, b)), Pos: core.Pos(pos), Func: name,
							Msg: fmt.Sprintf("%s returns here on a path that passes no zeroing step (useZeroed, zero, Zero, make, …): the storage handed back keeps whatever the spare capacity held, although the name promises zeroed content", name)})
					}
				}
			}
		}
	}
	return res
}

// exitOrdinal numbers the exit blocks of a function in block order, so that
// finding keys do not depend on line numbers.
func exitOrdinal(g *cfgx.Graph, b *cfg.Block) int {
	n := 0
	for _, x := range g.Blocks {
		if len(x.Succs) == 0 {
			if x == b {
				return n
			}
			n++
		}
	}
	return n
}
