package zeroed

import (
	"fmt"
	"go/ast"
	"go/constant"
	"go/token"
	"go/types"

	"gverif/cfgx"
	"gverif/core"
)

// RunUseEmpty implements USE.empty: use(recv.mat.Data, n) and useZeroed hand
// back the first n elements of the receiver's backing slice as a fresh
// contiguous matrix. That is sound only for an empty receiver (after Reset
// the slice is the receiver's own spare capacity); a non-empty receiver may
// be a strided view of someone else's matrix, whose elements between the
// view's own would be overwritten. So in every method of a mat type the call
// is unreachable on the control-flow graph pruned under "the receiver is not
// empty" (recv.IsEmpty() false, recv.mat.Rows/Cols/N == 0 false) "and, for a
// vector, strided" (recv.mat.Inc == 1 false). A non-empty contiguous vector
// may reuse its own elements; whether the count fits them is not decided.
func RunUseEmpty(conf core.Config) *core.Result {
	res := core.NewResult("USEEMPTY")
	res.Rules = append(res.Rules, "USE.empty: use/useZeroed of the receiver's own mat.Data is unreachable for a receiver that is not empty and, if a vector, has a non-unit increment")
	res.Configs = append(res.Configs, conf.String())
	pkgs, err := core.Load(conf, "./mat")
	if err != nil {
		res.Brokenf("%v", err)
		return res
	}
	for _, pkg := range pkgs {
		info := pkg.TypesInfo
		emptyHelpers := map[types.Object]bool{}
		for _, f := range pkg.Syntax {
			for _, d := range f.Decls {
				fd, ok := d.(*ast.FuncDecl)
				if !ok || fd.Body == nil || fd.Recv == nil || len(fd.Recv.List) != 1 || len(fd.Recv.List[0].Names) != 1 || fd.Type.Results == nil || len(fd.Type.Results.List) != 1 {
					continue
				}
				rv := info.Defs[fd.Recv.List[0].Names[0]]
				trues, under := 0, 0
				var stack []ast.Node
				ast.Inspect(fd.Body, func(n ast.Node) bool {
					if n == nil {
						stack = stack[:len(stack)-1]
						return true
					}
					stack = append(stack, n)
					rs, ok := n.(*ast.ReturnStmt)
					if !ok || len(rs.Results) != 1 {
						return true
					}
					if id, ok := rs.Results[0].(*ast.Ident); !ok || id.Name != "true" {
						return true
					}
					trues++
					for i := len(stack) - 2; i >= 0; i-- {
						is, ok := stack[i].(*ast.IfStmt)
						if !ok || i+1 >= len(stack) || stack[i+1] != ast.Node(is.Body) {
							continue
						}
						if c, ok := ast.Unparen(is.Cond).(*ast.CallExpr); ok && len(c.Args) == 0 {
							if sel, ok := c.Fun.(*ast.SelectorExpr); ok && sel.Sel.Name == "IsEmpty" {
								if id, ok := ast.Unparen(sel.X).(*ast.Ident); ok && rv != nil && core.ObjOf(info, id) == rv {
									under++
									break
								}
							}
						}
					}
					return true
				})
				if trues > 0 && trues == under {
					emptyHelpers[info.Defs[fd.Name]] = true
				}
			}
		}
		for _, f := range pkg.Syntax {
			for _, d := range f.Decls {
				fd, ok := d.(*ast.FuncDecl)
				if !ok || fd.Body == nil || fd.Recv == nil || len(fd.Recv.List) != 1 || len(fd.Recv.List[0].Names) != 1 {
					continue
				}
				recv := info.Defs[fd.Recv.List[0].Names[0]]
				if recv == nil {
					continue
				}
				name := core.FuncName(pkg, fd)
				isRecv := func(e ast.Expr) bool {
					id, ok := ast.Unparen(e).(*ast.Ident)
					return ok && core.ObjOf(info, id) == recv
				}
				// recv.mat.<F>
				recvMat := func(e ast.Expr) (string, bool) {
					sel, ok := ast.Unparen(e).(*ast.SelectorExpr)
					if !ok {
						return "", false
					}
					in, ok := ast.Unparen(sel.X).(*ast.SelectorExpr)
					if !ok || in.Sel.Name != "mat" || !isRecv(in.X) {
						return "", false
					}
					return sel.Sel.Name, true
				}
				var sites []*ast.CallExpr
				ast.Inspect(fd.Body, func(n ast.Node) bool {
					c, ok := n.(*ast.CallExpr)
					if !ok || len(c.Args) != 2 {
						return true
					}
					id, ok := c.Fun.(*ast.Ident)
					if !ok || (id.Name != "use" && id.Name != "useZeroed") {
						return true
					}
					// Data of a type with a stride or increment; the three
					// owned, contiguous diagonals of Tridiag are not views
					if fld, ok := recvMat(c.Args[0]); ok && fld == "Data" {
						sites = append(sites, c)
					}
					return true
				})
				if len(sites) == 0 {
					continue
				}
				g := cfgx.New(fd.Body, info)
				g.Keep = cfgx.KeepUnder(cfgx.WithBoolDefs(info, fd.Body, func(e ast.Expr) (bool, bool) {
					e = ast.Unparen(e)
					if c, ok := e.(*ast.CallExpr); ok && len(c.Args) == 0 {
						if sel, ok := c.Fun.(*ast.SelectorExpr); ok && sel.Sel.Name == "IsEmpty" && isRecv(sel.X) {
							return false, true
						}
					}
					// a helper of the receiver that reports emptiness:
					// every `return true` of it sits under `if recv.IsEmpty()`
					if c, ok := e.(*ast.CallExpr); ok {
						if sel, ok := c.Fun.(*ast.SelectorExpr); ok && isRecv(sel.X) && emptyHelpers[info.Uses[sel.Sel]] {
							return false, true
						}
					}
					if be, ok := e.(*ast.BinaryExpr); ok && (be.Op == token.EQL || be.Op == token.NEQ) {
						fld, ok := recvMat(be.X)
						if ok && fld == "Inc" {
							// … and a strided view
							if tv, ok := info.Types[be.Y]; ok && tv.Value != nil && tv.Value.Kind() == constant.Int && tv.Value.ExactString() == "1" {
								return be.Op == token.NEQ, true
							}
							return false, false
						}
						if !ok || (fld != "Rows" && fld != "Cols" && fld != "N") {
							return false, false
						}
						if tv, ok := info.Types[be.Y]; ok && tv.Value != nil && tv.Value.Kind() == constant.Int && constant.Sign(tv.Value) == 0 {
							return be.Op == token.NEQ, true
						}
					}
					return false, false
				}))
				reach := g.Reachable()
				for _, c := range sites {
					res.Obligations++
					res.Count("reuses_of_the_receivers_backing_slice", 1)
					loc, ok := g.Where[c]
					if !ok || !reach[loc.Block] {
						continue
					}
					res.Add(core.Finding{Rule: "USE.empty", Key: fmt.Sprintf("USE.empty|%s|%s", name, types.ExprString(c)), Pos: core.Pos(c.Pos()), Func: name,
						Msg: fmt.Sprintf("%s takes %s as fresh contiguous storage although the receiver may be non-empty: a receiver that is a strided view of another matrix has that matrix's elements between its own overwritten", name, types.ExprString(c))})
				}
			}
		}
	}
	return res
}

// RunResetCaps implements RESET.caps: Reset makes a mat value empty; the
// capacity fields (cap, capRows, capCols) bound what Slice* and Grow* may
// expose of the backing array and describe the old shape, so the Reset method
// of every type that has such a field assigns it (to zero), as Dense.Reset
// does. A stale capacity lets GrowSym copy "elements not currently visible"
// out of the emptied value and lets SliceTri carve a view out of it.
func RunResetCaps(conf core.Config) *core.Result {
	res := core.NewResult("RESETCAPS")
	res.Rules = append(res.Rules, "RESET.caps: the Reset method of a mat type with capacity fields (cap, capRows, capCols) assigns each of them")
	res.Configs = append(res.Configs, conf.String())
	pkgs, err := core.Load(conf, "./mat")
	if err != nil {
		res.Brokenf("%v", err)
		return res
	}
	for _, pkg := range pkgs {
		info := pkg.TypesInfo
		for _, f := range pkg.Syntax {
			for _, d := range f.Decls {
				fd, ok := d.(*ast.FuncDecl)
				if !ok || fd.Body == nil || fd.Name.Name != "Reset" || fd.Recv == nil || len(fd.Recv.List) != 1 || len(fd.Recv.List[0].Names) != 1 {
					continue
				}
				recv := info.Defs[fd.Recv.List[0].Names[0]]
				if recv == nil {
					continue
				}
				pt, ok := recv.Type().(*types.Pointer)
				if !ok {
					continue
				}
				st, ok := pt.Elem().Underlying().(*types.Struct)
				if !ok {
					continue
				}
				name := core.FuncName(pkg, fd)
				assigned := map[string]bool{}
				ast.Inspect(fd.Body, func(n ast.Node) bool {
					as, ok := n.(*ast.AssignStmt)
					if !ok {
						return true
					}
					for _, l := range as.Lhs {
						if sel, ok := ast.Unparen(l).(*ast.SelectorExpr); ok {
							if id, ok := ast.Unparen(sel.X).(*ast.Ident); ok && core.ObjOf(info, id) == recv {
								assigned[sel.Sel.Name] = true
							}
						}
						if se, ok := ast.Unparen(l).(*ast.StarExpr); ok {
							if id, ok := ast.Unparen(se.X).(*ast.Ident); ok && core.ObjOf(info, id) == recv {
								for i := 0; i < st.NumFields(); i++ {
									assigned[st.Field(i).Name()] = true
								}
							}
						}
					}
					return true
				})
				for i := 0; i < st.NumFields(); i++ {
					fn := st.Field(i).Name()
					if len(fn) < 3 || fn[:3] != "cap" {
						continue
					}
					res.Obligations++
					res.Count("capacity_fields_of_resettable_types", 1)
					if !assigned[fn] {
						res.Add(core.Finding{Rule: "RESET.caps", Key: fmt.Sprintf("RESET.caps|%s|%s", name, fn), Pos: core.Pos(fd.Pos()), Func: name,
							Msg: fmt.Sprintf("%s empties the receiver but leaves %s at the capacity of the old shape: a later Grow*/Slice* of the emptied value works on storage that is no longer part of it", name, fn)})
					}
				}
			}
		}
	}
	return res
}
