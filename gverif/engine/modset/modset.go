// Package modset implements the MODSET engine: which parameters a function
// may write through, computed bottom-up over the SSA call graph.
// See DESIGN.md §3.4.
package modset

import (
	"fmt"
	"go/token"
	"go/types"
	"sort"
	"strings"

	"gverif/core"

	"golang.org/x/tools/go/callgraph"
	"golang.org/x/tools/go/callgraph/cha"
	"golang.org/x/tools/go/callgraph/vta"
	"golang.org/x/tools/go/packages"
	"golang.org/x/tools/go/ssa"
	"golang.org/x/tools/go/ssa/ssautil"
)

type bits uint64

// absval abstracts what a pointer-like SSA value may refer to, relative to
// the parameters of the function being analysed.
type absval struct {
	p0  bits // points into the root object of parameter k (no load crossed)
	pd  bits // points into memory reached from parameter k through a load
	f0  bits // points to a fresh object that holds pointers to k's root object
	fd  bits // points to a fresh object that holds pointers into k's deeper memory
	loc map[*ssa.Alloc]bool
}

func (a *absval) join(b absval) bool {
	ch := false
	if b.p0&^a.p0 != 0 || b.pd&^a.pd != 0 || b.f0&^a.f0 != 0 || b.fd&^a.fd != 0 {
		a.p0 |= b.p0
		a.pd |= b.pd
		a.f0 |= b.f0
		a.fd |= b.fd
		ch = true
	}
	for l := range b.loc {
		if !a.loc[l] {
			if a.loc == nil {
				a.loc = map[*ssa.Alloc]bool{}
			}
			a.loc[l] = true
			ch = true
		}
	}
	return ch
}

type summary struct {
	shallow bits // parameters whose root object may be stored into
	deep    bits // parameters through whose pointers deeper memory may be stored into
	// what a result may refer to, in terms of the parameters
	r0, rd, rf0, rfd bits
	// esc[k]: parameters whose memory may become reachable from the object
	// of parameter k (a pointer into j's memory is stored into k's object)
	esc [64]bits
}

func (s *summary) writes() bits { return s.shallow | s.deep }

type analysis struct {
	prog  *ssa.Program
	cg    *callgraph.Graph
	sums  map[*ssa.Function]*summary
	funcs []*ssa.Function
}

func pointerLike(t types.Type) bool {
	switch u := t.Underlying().(type) {
	case *types.Pointer, *types.Slice, *types.Map, *types.Interface, *types.Chan, *types.Signature:
		return true
	case *types.Struct:
		for i := 0; i < u.NumFields(); i++ {
			if pointerLike(u.Field(i).Type()) {
				return true
			}
		}
	case *types.Array:
		return pointerLike(u.Elem())
	case *types.Tuple:
		for i := 0; i < u.Len(); i++ {
			if pointerLike(u.At(i).Type()) {
				return true
			}
		}
	}
	return false
}

// build loads the packages with syntax for all dependencies and builds SSA.
func build(conf core.Config, patterns ...string) (*analysis, []*packages.Package, error) {
	pkgs, err := core.LoadAll(conf, patterns...)
	if err != nil {
		return nil, nil, err
	}
	prog, _ := ssautil.AllPackages(pkgs, ssa.InstantiateGenerics)
	prog.Build()
	all := ssautil.AllFunctions(prog)
	cg := vta.CallGraph(all, cha.CallGraph(prog))
	a := &analysis{prog: prog, cg: cg, sums: map[*ssa.Function]*summary{}}
	for f := range all {
		if f.Blocks == nil {
			continue
		}
		if f.Pkg == nil && f.Parent() == nil {
			// synthetic wrappers: keep (they forward to the real method)
		}
		a.funcs = append(a.funcs, f)
		a.sums[f] = &summary{}
	}
	sort.Slice(a.funcs, func(i, j int) bool { return a.funcs[i].String() < a.funcs[j].String() })
	return a, pkgs, nil
}

func inGonum(f *ssa.Function) bool {
	if f == nil {
		return false
	}
	for f.Parent() != nil {
		f = f.Parent()
	}
	if f.Pkg != nil {
		return strings.HasPrefix(f.Pkg.Pkg.Path(), core.ModPath)
	}
	// wrappers and instantiations: judge by the receiver / origin
	if o := f.Origin(); o != nil && o.Pkg != nil {
		return strings.HasPrefix(o.Pkg.Pkg.Path(), core.ModPath)
	}
	if f.Signature.Recv() != nil {
		t := f.Signature.Recv().Type()
		if p, ok := t.(*types.Pointer); ok {
			t = p.Elem()
		}
		if n, ok := t.(*types.Named); ok && n.Obj().Pkg() != nil {
			return strings.HasPrefix(n.Obj().Pkg().Path(), core.ModPath)
		}
	}
	return false
}

// callees of a call instruction.
func (a *analysis) callees(site ssa.CallInstruction) []*ssa.Function {
	if f := site.Common().StaticCallee(); f != nil {
		return []*ssa.Function{f}
	}
	var out []*ssa.Function
	if n := a.cg.Nodes[site.Parent()]; n != nil {
		for _, e := range n.Out {
			if e.Site == site {
				out = append(out, e.Callee.Func)
			}
		}
	}
	return out
}

// analyse recomputes the summary of f; reports change.
func (a *analysis) analyse(f *ssa.Function) bool {
	sum := a.sums[f]
	val := map[ssa.Value]*absval{}
	cell := map[*ssa.Alloc]*absval{}
	get := func(v ssa.Value) absval {
		if av := val[v]; av != nil {
			return *av
		}
		return absval{}
	}
	for i, p := range f.Params {
		if i < 64 && pointerLike(p.Type()) {
			val[p] = &absval{p0: 1 << uint(i)}
		}
	}
	for j, fv := range f.FreeVars {
		k := len(f.Params) + j
		if k < 64 {
			val[fv] = &absval{p0: 1 << uint(k)}
		}
	}
	deref := func(av absval) absval {
		// value loaded from the object(s) av points to
		out := absval{p0: av.f0, pd: av.fd | av.p0 | av.pd}
		for l := range av.loc {
			if c := cell[l]; c != nil {
				out.join(*c)
			}
		}
		return out
	}
	var shallow, deep bits
	var r0, rd, rf0, rfd bits
	var esc [64]bits
	refs := func(av absval) bits { return av.p0 | av.pd | av.f0 | av.fd }
	noteEsc := func(target absval, v absval) {
		b := target.p0 | target.pd
		for k := 0; k < 64 && b != 0; k++ {
			if b&(1<<uint(k)) != 0 {
				esc[k] |= refs(v)
				b &^= 1 << uint(k)
			}
		}
	}
	for iter := 0; iter < 30; iter++ {
		changed := false
		set := func(v ssa.Value, b absval) {
			if val[v] == nil {
				val[v] = &absval{}
			}
			if val[v].join(b) {
				changed = true
			}
		}
		setCell := func(l *ssa.Alloc, b absval) {
			if cell[l] == nil {
				cell[l] = &absval{}
			}
			if cell[l].join(b) {
				changed = true
			}
		}
		for _, blk := range f.Blocks {
			for _, ins := range blk.Instrs {
				switch x := ins.(type) {
				case *ssa.Alloc:
					set(x, absval{loc: map[*ssa.Alloc]bool{x: true}})
				case *ssa.FieldAddr:
					set(x, get(x.X))
				case *ssa.IndexAddr:
					set(x, get(x.X))
				case *ssa.Field:
					if pointerLike(x.Type()) {
						set(x, get(x.X))
					}
				case *ssa.Index:
					if pointerLike(x.Type()) {
						set(x, get(x.X))
					}
				case *ssa.Slice:
					set(x, get(x.X))
				case *ssa.ChangeType:
					set(x, get(x.X))
				case *ssa.ChangeInterface:
					set(x, get(x.X))
				case *ssa.Convert:
					if pointerLike(x.Type()) {
						set(x, get(x.X))
					}
				case *ssa.SliceToArrayPointer:
					set(x, get(x.X))
				case *ssa.MakeInterface:
					if pointerLike(x.X.Type()) {
						set(x, get(x.X))
					}
				case *ssa.TypeAssert:
					set(x, get(x.X))
				case *ssa.Extract:
					if pointerLike(x.Type()) {
						set(x, get(x.Tuple))
					}
				case *ssa.Phi:
					for _, e := range x.Edges {
						set(x, get(e))
					}
				case *ssa.UnOp:
					if x.Op == token.MUL && pointerLike(x.Type()) {
						set(x, deref(get(x.X)))
					}
				case *ssa.Lookup:
					if pointerLike(x.Type()) {
						set(x, deref(get(x.X)))
					}
				case *ssa.Range:
					set(x, get(x.X))
				case *ssa.Next:
					if pointerLike(x.Type()) {
						set(x, deref(get(x.Iter)))
					}
				case *ssa.MakeClosure:
					// the closure object holds its bindings
					fn, _ := x.Fn.(*ssa.Function)
					cs := a.sums[fn]
					for j, bd := range x.Bindings {
						bv := get(bd)
						if cs == nil || fn == nil {
							continue
						}
						k := len(fn.Params) + j
						if k >= 64 {
							continue
						}
						bit := bits(1) << uint(k)
						// the closure may run: map its writes through free variable j
						if cs.shallow&bit != 0 {
							shallow |= bv.p0
							deep |= bv.pd
						}
						if cs.deep&bit != 0 {
							d := deref(bv)
							shallow |= d.p0
							deep |= d.pd | bv.p0&0
							// pointers stored in captured cells
							deep |= bv.pd
						}
					}
				case *ssa.Store:
					av := get(x.Addr)
					shallow |= av.p0
					deep |= av.pd
					if pointerLike(x.Val.Type()) {
						for l := range av.loc {
							setCell(l, get(x.Val))
						}
						noteEsc(av, get(x.Val))
					}
				case *ssa.MapUpdate:
					av := get(x.Map)
					shallow |= av.p0
					deep |= av.pd
				case ssa.CallInstruction:
					com := x.Common()
					var args []ssa.Value
					if com.IsInvoke() {
						args = append(args, com.Value)
					}
					args = append(args, com.Args...)
					resv, hasRes := x.(ssa.Value)
					if b, ok := com.Value.(*ssa.Builtin); ok {
						switch b.Name() {
						case "copy", "clear":
							if len(com.Args) >= 1 {
								av := get(com.Args[0])
								shallow |= av.p0
								deep |= av.pd
							}
						case "append":
							if hasRes && len(com.Args) > 0 {
								set(resv, get(com.Args[0]))
							}
						}
						continue
					}
					if com.IsInvoke() && !mutatorName(com.Method.Name()) {
						// accessor of a read-only interface: no write; the
						// result may be the receiver, something inside it, or
						// a fresh wrapper holding it
						if hasRes && pointerLike(resv.Type()) {
							rv := get(com.Value)
							out := rv
							out.pd |= rv.p0 | rv.pd
							out.f0 |= rv.p0
							out.fd |= rv.pd | rv.fd
							set(resv, out)
						}
						continue
					}
					for _, callee := range a.callees(x) {
						cs := a.sums[callee]
						if cs == nil {
							continue
						}
						for k, arg := range args {
							if k >= 64 {
								break
							}
							bit := bits(1) << uint(k)
							av := get(arg)
							if cs.shallow&bit != 0 {
								shallow |= av.p0
								deep |= av.pd
							}
							// pointers the callee stores into the object we passed
							if e := cs.esc[k]; e != 0 {
								for j, other := range args {
									if j < 64 && e&(1<<uint(j)) != 0 && pointerLike(other.Type()) {
										ov := get(other)
										for l := range av.loc {
											setCell(l, ov)
											if c := cell[l]; c != nil {
												_ = c
											}
										}
										noteEsc(av, ov)
									}
								}
							}
							if cs.deep&bit != 0 {
								d := deref(av)
								shallow |= d.p0
								deep |= d.pd
							}
							if hasRes && pointerLike(resv.Type()) {
								if cs.r0&bit != 0 {
									set(resv, av)
								}
								if cs.rd&bit != 0 {
									set(resv, deref(av))
								}
								if cs.rf0&bit != 0 {
									set(resv, absval{f0: av.p0, fd: av.pd | av.f0 | av.fd})
									for l := range av.loc {
										if c := cell[l]; c != nil {
											set(resv, absval{fd: c.p0 | c.pd | c.f0 | c.fd})
										}
									}
								}
								if cs.rfd&bit != 0 {
									d := deref(av)
									set(resv, absval{f0: d.p0, fd: d.pd | d.f0 | d.fd | av.p0&0})
								}
							}
						}
					}
				case *ssa.Return:
					for _, r := range x.Results {
						if !pointerLike(r.Type()) {
							continue
						}
						rv := get(r)
						r0 |= rv.p0
						rd |= rv.pd
						rf0 |= rv.f0
						rfd |= rv.fd
						for l := range rv.loc {
							if c := cell[l]; c != nil {
								rf0 |= c.p0
								rfd |= c.pd | c.f0 | c.fd
							}
						}
					}
				}
			}
		}
		if !changed {
			break
		}
	}
	ch := false
	upd := func(dst *bits, v bits) {
		if v&^*dst != 0 {
			*dst |= v
			ch = true
		}
	}
	upd(&sum.shallow, shallow)
	upd(&sum.deep, deep)
	upd(&sum.r0, r0)
	upd(&sum.rd, rd)
	upd(&sum.rf0, rf0)
	upd(&sum.rfd, rfd)
	for k := range esc {
		upd(&sum.esc[k], esc[k])
	}
	return ch
}

func (a *analysis) solve() int {
	iters := 0
	for changed := true; changed && iters < 50; iters++ {
		changed = false
		for _, f := range a.funcs {
			if a.analyse(f) {
				changed = true
			}
		}
	}
	return iters
}

// mutatorName: interface methods that modify their receiver by contract.
func mutatorName(n string) bool {
	switch {
	case strings.HasPrefix(n, "Set"), strings.HasPrefix(n, "Reset"), strings.HasPrefix(n, "Zero"),
		strings.HasPrefix(n, "Copy"), strings.HasPrefix(n, "Clone"), strings.HasPrefix(n, "Reuse"),
		strings.HasPrefix(n, "Write"), strings.HasPrefix(n, "Read"), strings.HasPrefix(n, "Unmarshal"),
		strings.HasPrefix(n, "Swap"), strings.HasPrefix(n, "Scale"), strings.HasPrefix(n, "Add"), strings.HasPrefix(n, "Mul"),
		strings.HasPrefix(n, "Solve"), strings.HasPrefix(n, "Seed"), strings.HasPrefix(n, "Grow"):
		return true
	}
	return false
}

// paramNames returns ssa param index -> name.
func paramName(f *ssa.Function, i int) string {
	if i < len(f.Params) {
		return f.Params[i].Name()
	}
	return fmt.Sprintf("#%d", i)
}

// blasOutputs maps a routine stem to the operands the BLAS standard lets
// it modify.
var blasOutputs = map[string][]string{
	"rot": {"x", "y"}, "rotm": {"x", "y"}, "swap": {"x", "y"}, "scal": {"x"}, "copy": {"y"}, "axpy": {"y"},
	"dot": nil, "dotu": nil, "dotc": nil, "nrm2": nil, "asum": nil, "amax": nil, "rotg": nil, "rotmg": nil, "sdot": nil, "dsdot": nil,
	"gemv": {"y"}, "gbmv": {"y"}, "symv": {"y"}, "sbmv": {"y"}, "spmv": {"y"}, "hemv": {"y"}, "hbmv": {"y"}, "hpmv": {"y"},
	"trmv": {"x"}, "tbmv": {"x"}, "tpmv": {"x"}, "trsv": {"x"}, "tbsv": {"x"}, "tpsv": {"x"},
	"ger": {"a"}, "geru": {"a"}, "gerc": {"a"}, "syr": {"a"}, "syr2": {"a"}, "her": {"a"}, "her2": {"a"},
	"spr": {"ap"}, "spr2": {"ap"}, "hpr": {"ap"}, "hpr2": {"ap"},
	"gemm": {"c"}, "symm": {"c"}, "hemm": {"c"}, "syrk": {"c"}, "herk": {"c"}, "syr2k": {"c"}, "her2k": {"c"},
	"trmm": {"b"}, "trsm": {"b"},
}

func blasStem(name string) (string, bool) {
	n := strings.ToLower(name)
	for _, pre := range []string{"sds", "ds", "dz", "sc", "zd", "cs", "is", "id", "ic", "iz", "s", "d", "c", "z"} {
		if strings.HasPrefix(n, pre) {
			if _, ok := blasOutputs[n[len(pre):]]; ok {
				return n[len(pre):], true
			}
		}
	}
	return "", false
}

// Run computes the summaries and checks the BLAS and mat obligations.
func Run(conf core.Config) *core.Result {
	res := core.NewResult("MODSET")
	res.Rules = append(res.Rules,
		"MODSET.blas: the set of slice operands a BLAS routine may write through (SSA store/copy/call summaries, bottom-up over the VTA call graph) equals the output operands of the BLAS standard for its stem, in every precision",
		"MODSET.mat: no exported function or method of mat may write through a matrix-typed parameter other than the receiver or a parameter named dst")
	res.Configs = append(res.Configs, conf.String())
	a, pkgs, err := build(conf, "./blas/gonum", "./mat")
	if err != nil {
		res.Brokenf("%v", err)
		return res
	}
	iters := a.solve()
	res.Count("functions_summarised", len(a.funcs))
	res.Count("fixpoint_iterations", iters)
	for _, p := range pkgs {
		sp := a.prog.Package(p.Types)
		if sp == nil {
			continue
		}
		switch {
		case strings.HasSuffix(p.PkgPath, "blas/gonum"):
			a.checkBLAS(res, sp)
		case strings.HasSuffix(p.PkgPath, "gonum/mat"):
			a.checkMat(res, sp)
		}
	}
	return res
}

func (a *analysis) checkBLAS(res *core.Result, sp *ssa.Package) {
	impl := sp.Type("Implementation")
	if impl == nil {
		res.Brokenf("MODSET: blas/gonum.Implementation not found")
		return
	}
	ms := a.prog.MethodSets.MethodSet(impl.Type())
	for i := 0; i < ms.Len(); i++ {
		f := a.prog.MethodValue(ms.At(i))
		if f == nil || !f.Object().Exported() {
			continue
		}
		sum := a.sums[f]
		if sum == nil {
			continue
		}
		stem, ok := blasStem(f.Name())
		if !ok {
			res.Brokenf("MODSET: no output table entry for BLAS routine %s", f.Name())
			continue
		}
		res.Count("blas_routines", 1)
		want := map[string]bool{}
		for _, n := range blasOutputs[stem] {
			want[n] = true
		}
		name := "blas/gonum.Implementation." + f.Name()
		var got []string
		for k, p := range f.Params {
			if _, isSlice := p.Type().Underlying().(*types.Slice); !isSlice {
				continue
			}
			res.Obligations++
			res.Count("blas_slice_operands", 1)
			written := sum.writes()&(1<<uint(k)) != 0
			if written {
				got = append(got, p.Name())
			}
			if written && !want[p.Name()] {
				res.Add(core.Finding{Rule: "MODSET.blas", Key: fmt.Sprintf("MODSET.blas|%s|%s", name, p.Name()), Pos: core.Pos(f.Pos()), Func: name,
					Msg: fmt.Sprintf("%s may write through read-only operand %q (the standard's outputs for %s are %v)", f.Name(), p.Name(), stem, blasOutputs[stem])})
			}
			if !written && want[p.Name()] {
				res.Add(core.Finding{Rule: "MODSET.blas", Key: fmt.Sprintf("MODSET.blas|%s|%s-unwritten", name, p.Name()), Pos: core.Pos(f.Pos()), Func: name,
					Msg: fmt.Sprintf("%s never writes its output operand %q", f.Name(), p.Name())})
			}
		}
		if len(res.Samples) < 6 {
			res.Sample(map[string]any{"rule": "MODSET.blas", "routine": f.Name(), "stem": stem, "written": got})
		}
	}
}

func hasDims(t types.Type) bool {
	for _, tt := range []types.Type{t, types.NewPointer(t)} {
		ms := types.NewMethodSet(tt)
		for i := 0; i < ms.Len(); i++ {
			if ms.At(i).Obj().Name() == "Dims" {
				return true
			}
		}
	}
	return false
}

func (a *analysis) checkMat(res *core.Result, sp *ssa.Package) {
	check := func(f *ssa.Function) {
		if f == nil || f.Blocks == nil || f.Object() == nil || !f.Object().Exported() {
			return
		}
		sum := a.sums[f]
		if sum == nil {
			return
		}
		name := "mat." + f.Name()
		first := 0
		if f.Signature.Recv() != nil {
			first = 1
			t := f.Signature.Recv().Type()
			if p, ok := t.(*types.Pointer); ok {
				t = p.Elem()
			}
			if n, ok := t.(*types.Named); ok {
				name = "mat." + n.Obj().Name() + "." + f.Name()
			}
		}
		for k := first; k < len(f.Params); k++ {
			p := f.Params[k]
			if !hasDims(p.Type()) {
				continue
			}
			res.Obligations++
			res.Count("mat_matrix_parameters", 1)
			if sum.writes()&(1<<uint(k)) == 0 {
				continue
			}
			if p.Name() == "dst" {
				res.Count("mat_dst_parameters_written", 1)
				continue
			}
			res.Add(core.Finding{Rule: "MODSET.mat", Key: fmt.Sprintf("MODSET.mat|%s|%s", name, p.Name()), Pos: core.Pos(f.Pos()), Func: name,
				Msg: fmt.Sprintf("%s may write through its operand %q, which is neither the receiver nor a dst parameter: mat operations must not modify their inputs", name, p.Name())})
		}
	}
	for _, m := range sp.Members {
		switch x := m.(type) {
		case *ssa.Function:
			check(x)
		case *ssa.Type:
			for _, t := range []types.Type{x.Type(), types.NewPointer(x.Type())} {
				ms := a.prog.MethodSets.MethodSet(t)
				for i := 0; i < ms.Len(); i++ {
					f := a.prog.MethodValue(ms.At(i))
					if f != nil && f.Synthetic == "" {
						check(f)
					}
				}
			}
		}
	}
}
