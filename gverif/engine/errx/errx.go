// Package errx implements two rules on error values.
//
// ERR.overwrite: the error returned by a call is looked at before the
// variable that holds it is assigned the result of another call. On the
// control-flow graph, walking backwards from every assignment `err = g(…)`
// (or a redeclaration-free `x, err = g(…)`), no path reaches an earlier
// assignment of a call result to the same variable without passing a read of
// it (a test, a return, a hand-over). `err = run(); if rec != nil { err =
// rec.Record() }` replaces the failure of the run by the recorder's nil.
//
// ERR.swallow: a local error variable is never assigned the constant nil
// (`if _, ok := err.(mat.Condition); ok { err = nil }`): that turns a reported
// failure into success for everything downstream.
package errx

import (
	"fmt"
	"go/ast"
	"go/token"
	"go/types"

	"gverif/cfgx"
	"gverif/core"

	"golang.org/x/tools/go/cfg"
)

// OverwriteExempt lists "function|variable" pairs where the overwritten value
// cannot be a failure, with the reason.
var OverwriteExempt = map[string]string{
	"graph/formats/rdf.translateURNA|err": "extract's error is overwritten only in the IRI and Literal arms of `switch kind`, and extract returns kind == Invalid together with every error, so the arms are not taken then (correlation through kind, not visible to the rule)",
}

// SwallowExempt lists "function|variable" sites where resetting the error is
// the documented behaviour.
var SwallowExempt = map[string]string{}

func Run(conf core.Config, scope core.Scope) *core.Result {
	res := core.NewResult("ERR")
	res.Rules = append(res.Rules,
		"ERR.overwrite: no assignment of a call result to an error variable is reachable from an earlier such assignment to the same variable without an intervening read of the variable",
		"ERR.swallow: no local error variable is assigned the constant nil")
	res.Configs = append(res.Configs, conf.String())
	pkgs, err := core.Load(conf, scope.Patterns...)
	if err != nil {
		res.Brokenf("%v", err)
		return res
	}
	errType := types.Universe.Lookup("error").Type()
	usedExempt := map[string]bool{}
	for _, pkg := range pkgs {
		info := pkg.TypesInfo
		for _, file := range pkg.Syntax {
			if !scope.InFile(file.Pos()) {
				continue
			}
			for _, d := range file.Decls {
				fd, ok := d.(*ast.FuncDecl)
				if !ok || fd.Body == nil {
					continue
				}
				name := core.FuncName(pkg, fd)
				// definitions: assignment statements giving an error variable a call result
				type def struct {
					as  *ast.AssignStmt
					obj types.Object
				}
				var defs []def
				lhsIdent := map[*ast.Ident]bool{}
				ast.Inspect(fd.Body, func(n ast.Node) bool {
					if _, ok := n.(*ast.FuncLit); ok {
						return false
					}
					as, ok := n.(*ast.AssignStmt)
					if !ok {
						return true
					}
					for i, l := range as.Lhs {
						id, ok := l.(*ast.Ident)
						if !ok || id.Name == "_" {
							continue
						}
						lhsIdent[id] = true
						o := core.ObjOf(info, id)
						if o == nil || !types.Identical(o.Type(), errType) {
							continue
						}
						if _, isVar := o.(*types.Var); !isVar || o.Parent() == pkg.Types.Scope() {
							continue
						}
						var rhs ast.Expr
						if len(as.Rhs) == len(as.Lhs) {
							rhs = as.Rhs[i]
						} else if len(as.Rhs) == 1 {
							rhs = as.Rhs[0]
						}
						if rhs == nil {
							continue
						}
						if rid, ok := ast.Unparen(rhs).(*ast.Ident); ok {
							if _, isNil := info.Uses[rid].(*types.Nil); isNil && as.Tok == token.ASSIGN {
								res.Obligations++
								key := name + "|" + id.Name
								if _, ok := SwallowExempt[key]; ok {
									res.Count("error_resets_exempt_by_table", 1)
								} else {
									res.Add(core.Finding{Rule: "ERR.swallow", Key: "ERR.swallow|" + key, Pos: core.Pos(as.Pos()), Func: name,
										Msg: fmt.Sprintf("%s is reset to nil: whatever failure it held is reported as success from here on", id.Name)})
								}
							}
							continue
						}
						if _, isCall := ast.Unparen(rhs).(*ast.CallExpr); isCall {
							defs = append(defs, def{as, o})
						}
					}
					return true
				})
				if len(defs) < 2 {
					res.Count("error_definitions", len(defs))
					continue
				}
				res.Count("error_definitions", len(defs))
				g := cfgx.New(fd.Body, info)
				preds := map[int32][]*cfg.Block{}
				for _, b := range g.Blocks {
					for _, s := range b.Succs {
						preds[s.Index] = append(preds[s.Index], b)
					}
				}
				// classify a node with respect to variable o: 'r' read, 'd' call-result definition, 0 neither.
				// Within one node a read that feeds the definition itself (err = wrap(err)) is a read.
				classify := func(nd ast.Node, o types.Object) (reads bool, d *ast.AssignStmt) {
					ast.Inspect(nd, func(y ast.Node) bool {
						switch x := y.(type) {
						case *ast.FuncLit:
							// a closure capturing the variable may read it
							ast.Inspect(x, func(z ast.Node) bool {
								if id, ok := z.(*ast.Ident); ok && info.Uses[id] == o {
									reads = true
								}
								return true
							})
							return false
						case *ast.Ident:
							if !lhsIdent[x] && info.Uses[x] == o {
								reads = true
							}
						case *ast.AssignStmt:
							for _, dd := range defs {
								if dd.as == x && dd.obj == o {
									d = x
								}
							}
						}
						return true
					})
					return
				}
				for _, d2 := range defs {
					loc, ok := g.Where[d2.as]
					if !ok {
						continue
					}
					res.Obligations++
					// the definition may read the variable itself: err = f(err)
					selfReads := false
					for _, r := range d2.as.Rhs {
						ast.Inspect(r, func(y ast.Node) bool {
							if id, ok := y.(*ast.Ident); ok && info.Uses[id] == d2.obj {
								selfReads = true
							}
							return true
						})
					}
					if selfReads {
						continue
					}
					var lost *ast.AssignStmt
					seen := map[int32]bool{}
					var scan func(b *cfg.Block, from int)
					scan = func(b *cfg.Block, from int) {
						for i := from; i >= 0 && lost == nil; i-- {
							reads, d1 := classify(b.Nodes[i], d2.obj)
							if reads {
								return
							}
							if d1 != nil && d1 != d2.as {
								lost = d1
								return
							}
						}
						for _, p := range preds[b.Index] {
							if lost != nil {
								return
							}
							if seen[p.Index] {
								continue
							}
							seen[p.Index] = true
							scan(p, len(p.Nodes)-1)
						}
					}
					scan(g.Blocks[loc.Block], loc.Index-1)
					if lost != nil {
						ek := name + "|" + d2.obj.Name()
						if _, ok := OverwriteExempt[ek]; ok {
							usedExempt[ek] = true
							res.Count("overwrites_exempt_by_table", 1)
							continue
						}
						res.Add(core.Finding{Rule: "ERR.overwrite", Key: fmt.Sprintf("ERR.overwrite|%s|%s|%s", name, d2.obj.Name(), types.ExprString(ast.Unparen(d2.as.Rhs[len(d2.as.Rhs)-1]).(*ast.CallExpr).Fun)),
							Pos: core.Pos(d2.as.Pos()), Func: name,
							Msg:  fmt.Sprintf("%s receives the result of another call here while a path reaches this point from the assignment at %s without the earlier value having been looked at: an error of the earlier call is replaced, possibly by nil", d2.obj.Name(), core.Pos(lost.Pos())),
							Path: []string{"first assignment at " + core.Pos(lost.Pos()), "overwritten at " + core.Pos(d2.as.Pos())}})
					}
				}
			}
		}
	}
	for k := range OverwriteExempt {
		if !usedExempt[k] {
			res.Stale("ERR.overwrite: exemption %s not used in this scope", k)
		}
	}
	return res
}
