package errx

import (
	"fmt"
	"go/ast"
	"go/token"
	"go/types"

	"gverif/cfgx"
	"gverif/core"
)

// RunStatusDropped implements STATUS.dropped: where a function returns a
// (Status, error) pair and has a return whose error is nil while its status
// is not the constant NotTerminated (it can report convergence without an
// error), a caller that stores the pair in locals reads the status on the
// path where the error is nil: on the control-flow graph pruned under
// "err == nil", some read of the status variable is reachable from the call.
// Otherwise a terminal status of the callee (the starting point already
// satisfies the gradient threshold) is silently discarded.
func RunStatusDropped(conf core.Config, scope core.Scope) *core.Result {
	res := core.NewResult("STATUSDROP")
	res.Rules = append(res.Rules, "STATUS.dropped: the Status of a (Status, error) call whose callee can return a terminal status with a nil error is read on the path where the error is nil")
	res.Configs = append(res.Configs, conf.String())
	pkgs, err := core.Load(conf, scope.Patterns...)
	if err != nil {
		res.Brokenf("%v", err)
		return res
	}
	for _, pkg := range pkgs {
		info := pkg.TypesInfo
		isStatus := func(t types.Type) bool {
			n, ok := t.(*types.Named)
			return ok && n.Obj().Name() == "Status"
		}
		// callees that can return (terminal status, nil)
		terminal := map[*types.Func]bool{}
		for _, f := range pkg.Syntax {
			for _, d := range f.Decls {
				fd, ok := d.(*ast.FuncDecl)
				if !ok || fd.Body == nil || fd.Type.Results == nil {
					continue
				}
				fn, _ := info.Defs[fd.Name].(*types.Func)
				if fn == nil {
					continue
				}
				sig := fn.Type().(*types.Signature)
				if sig.Results().Len() != 2 || !isStatus(sig.Results().At(0).Type()) {
					continue
				}
				ast.Inspect(fd.Body, func(n ast.Node) bool {
					if _, ok := n.(*ast.FuncLit); ok {
						return false
					}
					rs, ok := n.(*ast.ReturnStmt)
					if !ok || len(rs.Results) != 2 {
						return true
					}
					if id, ok := ast.Unparen(rs.Results[1]).(*ast.Ident); !ok || id.Name != "nil" {
						return true
					}
					if id, ok := ast.Unparen(rs.Results[0]).(*ast.Ident); ok && id.Name == "NotTerminated" {
						return true
					}
					terminal[fn] = true
					return true
				})
			}
		}
		res.Count("functions_that_can_return_a_terminal_status_without_error", len(terminal))
		for _, f := range pkg.Syntax {
			if !scope.InFile(f.Pos()) {
				continue
			}
			for _, d := range f.Decls {
				fd, ok := d.(*ast.FuncDecl)
				if !ok || fd.Body == nil {
					continue
				}
				name := core.FuncName(pkg, fd)
				ast.Inspect(fd.Body, func(n ast.Node) bool {
					as, ok := n.(*ast.AssignStmt)
					if !ok || len(as.Lhs) != 2 || len(as.Rhs) != 1 {
						return true
					}
					call, ok := as.Rhs[0].(*ast.CallExpr)
					if !ok {
						return true
					}
					var callee *types.Func
					switch fun := call.Fun.(type) {
					case *ast.SelectorExpr:
						callee, _ = info.Uses[fun.Sel].(*types.Func)
					case *ast.Ident:
						callee, _ = info.Uses[fun].(*types.Func)
					}
					if callee == nil || !terminal[callee] {
						return true
					}
					sid, ok1 := as.Lhs[0].(*ast.Ident)
					eid, ok2 := as.Lhs[1].(*ast.Ident)
					if !ok1 || !ok2 || sid.Name == "_" {
						return true
					}
					sObj, eObj := core.ObjOf(info, sid), core.ObjOf(info, eid)
					if sObj == nil {
						return true
					}
					res.Obligations++
					res.Count("status_error_pairs_stored", 1)
					g := cfgx.New(fd.Body, info)
					g.Keep = cfgx.KeepUnder(func(e ast.Expr) (bool, bool) {
						be, ok := ast.Unparen(e).(*ast.BinaryExpr)
						if !ok || (be.Op != token.EQL && be.Op != token.NEQ) {
							return false, false
						}
						x, ok1 := ast.Unparen(be.X).(*ast.Ident)
						y, ok2 := ast.Unparen(be.Y).(*ast.Ident)
						if !ok1 || !ok2 || eObj == nil || core.ObjOf(info, x) != eObj || y.Name != "nil" {
							return false, false
						}
						return be.Op == token.EQL, true
					})
					loc, ok := g.Where[as]
					if !ok {
						return true
					}
					from := g.From(g.Blocks[loc.Block])
					read := false
					ast.Inspect(fd.Body, func(m ast.Node) bool {
						id, ok := m.(*ast.Ident)
						if !ok || id == sid || core.ObjOf(info, id) != sObj {
							return true
						}
						// a later assignment to the variable is not a read
						l2, ok := g.Where[id]
						if !ok {
							return true
						}
						if from[l2.Block] || (l2.Block == loc.Block && l2.Index > loc.Index) {
							// exclude pure re-definitions: identifier on the left of an assignment
							isDef := false
							ast.Inspect(g.Blocks[l2.Block].Nodes[l2.Index], func(k ast.Node) bool {
								if a2, ok := k.(*ast.AssignStmt); ok {
									for _, l := range a2.Lhs {
										if l == ast.Expr(id) {
											isDef = true
										}
									}
								}
								return true
							})
							if !isDef {
								read = true
							}
						}
						return true
					})
					if !read {
						res.Add(core.Finding{Rule: "STATUS.dropped", Key: fmt.Sprintf("STATUS.dropped|%s|%s", name, callee.Name()), Pos: core.Pos(as.Pos()), Func: name,
							Msg: fmt.Sprintf("%s stores the status of %s in %s but never reads it on the path where the error is nil, although %s can return a terminal status without an error: that outcome is discarded and the run continues", name, callee.Name(), sid.Name, callee.Name())})
					}
					return true
				})
			}
		}
	}
	return res
}
