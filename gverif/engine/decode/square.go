package decode

import (
	"fmt"
	"go/ast"
	"go/token"
	"go/types"

	"golang.org/x/tools/go/cfg"

	"gverif/cfgx"
	"gverif/core"
)

// RunSquare implements DECODE.square for the graph6 family: the node count
// of a graph6/digraph6 string is decoded from up to 36 bits of its header by
// numberOf, and the validity test compares the length of the data with the
// number of bits an n×n adjacency matrix needs, a product of two values
// derived from that count. In the validity gate IsValid such a product is preceded on every path by a
// guard that bounds the count from above (a comparison of the count with a
// constant, or a division-based overflow test): otherwise a header whose
// square wraps around passes IsValid with no data behind it and the
// accessors fault.
func RunSquare(conf core.Config, patterns ...string) *core.Result {
	res := core.NewResult("DECODESQUARE")
	res.Rules = append(res.Rules, "DECODE.square: a product of two values derived from numberOf(…) is preceded on every path by an upper bound on the count (comparison with a constant or a division-based overflow guard)")
	res.Configs = append(res.Configs, conf.String())
	pkgs, err := core.Load(conf, patterns...)
	if err != nil {
		res.Brokenf("%v", err)
		return res
	}
	for _, pkg := range pkgs {
		info := pkg.TypesInfo
		for _, f := range pkg.Syntax {
			for _, d := range f.Decls {
				fd, ok := d.(*ast.FuncDecl)
				// the validity gate: every accessor runs behind it (DECODE.gate)
				if !ok || fd.Body == nil || fd.Name.Name != "IsValid" {
					continue
				}
				name := core.FuncName(pkg, fd)
				tainted := map[types.Object]bool{}
				mentions := func(e ast.Node) bool {
					hit := false
					ast.Inspect(e, func(n ast.Node) bool {
						switch x := n.(type) {
						case *ast.Ident:
							if tainted[core.ObjOf(info, x)] {
								hit = true
							}
						case *ast.CallExpr:
							if id, ok := x.Fun.(*ast.Ident); ok && id.Name == "numberOf" {
								hit = true
							}
						}
						return !hit
					})
					return hit
				}
				for changed := true; changed; {
					changed = false
					ast.Inspect(fd.Body, func(n ast.Node) bool {
						as, ok := n.(*ast.AssignStmt)
						if !ok || len(as.Lhs) != len(as.Rhs) {
							return true
						}
						for i, r := range as.Rhs {
							if id, ok := as.Lhs[i].(*ast.Ident); ok && mentions(r) {
								if o := core.ObjOf(info, id); o != nil && !tainted[o] {
									if b, ok := o.Type().Underlying().(*types.Basic); ok && b.Info()&types.IsInteger != 0 {
										tainted[o] = true
										changed = true
									}
								}
							}
						}
						return true
					})
				}
				if len(tainted) == 0 {
					continue
				}
				var g *cfgx.Graph
				ast.Inspect(fd.Body, func(n ast.Node) bool {
					be, ok := n.(*ast.BinaryExpr)
					if !ok || be.Op != token.MUL || !mentions(be.X) || !mentions(be.Y) {
						return true
					}
					res.Obligations++
					res.Count("products_of_the_decoded_node_count", 1)
					if g == nil {
						g = cfgx.New(fd.Body, info)
					}
					loc, ok := g.Where[be]
					if !ok {
						return true
					}
					bound := func(c ast.Expr) bool {
						ok := false
						ast.Inspect(c, func(m ast.Node) bool {
							x, isBin := m.(*ast.BinaryExpr)
							if !isBin {
								return true
							}
							switch x.Op {
							case token.GTR, token.GEQ, token.LSS, token.LEQ:
								// count against a constant, or against a quotient
								for _, pair := range [][2]ast.Expr{{x.X, x.Y}, {x.Y, x.X}} {
									if !mentions(pair[0]) {
										continue
									}
									if tv, has := info.Types[pair[1]]; has && tv.Value != nil {
										// n < 0 is a sign test, not an upper bound
										if s := tv.Value.ExactString(); s != "0" {
											ok = true
										}
									}
									if q, isQ := ast.Unparen(pair[1]).(*ast.BinaryExpr); isQ && q.Op == token.QUO {
										ok = true
									}
								}
							}
							return !ok
						})
						return ok
					}
					in := g.MustPass(func(b *cfg.Block) bool {
						c := cfgx.Cond(b)
						return c != nil && bound(c)
					})
					if in[loc.Block] {
						return true
					}
					res.Add(core.Finding{Rule: "DECODE.square", Key: fmt.Sprintf("DECODE.square|%s|%s", name, types.ExprString(be)), Pos: core.Pos(be.Pos()), Func: name,
						Msg: fmt.Sprintf("%s multiplies two values derived from the decoded node count (%s) without an upper bound on the count on every path: a 36-bit count whose product wraps around is accepted with no data behind it", name, types.ExprString(be))})
					return true
				})
			}
		}
	}
	return res
}
