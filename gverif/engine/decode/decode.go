// Package decode implements the DECODE engine: decoders validate what
// they read. See DESIGN.md §3.10.
package decode

import (
	"fmt"
	"go/ast"
	"go/token"
	"go/types"
	"strings"

	"gverif/cfgx"
	"gverif/core"

	"golang.org/x/tools/go/cfg"
	"golang.org/x/tools/go/packages"
	"golang.org/x/tools/go/types/typeutil"
)

func isDecoderName(n string) bool {
	switch n {
	case "UnmarshalBinary", "UnmarshalBinaryFrom", "UnmarshalText", "GobDecode", "UnmarshalJSON":
		return true
	}
	return false
}

// Run checks the decoders of the given packages.
func Run(conf core.Config, patterns ...string) *core.Result {
	res := core.NewResult("DECODE")
	res.Rules = append(res.Rules,
		"DECODE.mul: a product of two integers decoded from the input is preceded on every path by a division-based overflow guard",
		"DECODE.range: a decoded integer used as a shift count or allocation size is range-checked (a comparison in an error-returning branch) on every path before that use",
		"DECODE.len: a variable-length field decoded into the receiver is length-checked before the decoder returns success",
		"DECODE.selfcmp: a compatibility comparison never has two sides that denote the same expression",
		"DECODE.gate: every exported method of a graph6/digraph6 string type that touches the raw bytes first passes the IsValid test")
	res.Configs = append(res.Configs, conf.String())
	pkgs, err := core.Load(conf, patterns...)
	if err != nil {
		res.Brokenf("%v", err)
		return res
	}
	for _, pkg := range pkgs {
		for _, f := range pkg.Syntax {
			for _, d := range f.Decls {
				fd, ok := d.(*ast.FuncDecl)
				if !ok || fd.Body == nil {
					continue
				}
				if fd.Recv != nil && isDecoderName(fd.Name.Name) {
					checkDecoder(res, pkg, fd, nil)
				} else if seed := headerParams(pkg, fd); len(seed) > 0 {
					// a helper that receives a decoded header (a struct type
					// with an unmarshalBinary* method) validates on behalf
					// of the decoder that called it
					checkDecoder(res, pkg, fd, seed)
				}
				checkSelfCmp(res, pkg, fd)
			}
		}
		if strings.HasSuffix(pkg.PkgPath, "graph6") {
			checkGate(res, pkg)
		}
	}
	return res
}

// ---------------------------------------------------------------------

type dec struct {
	pkg   *packages.Package
	info  *types.Info
	fd    *ast.FuncDecl
	name  string
	res   *core.Result
	recv  types.Object
	taint map[string]bool // canonical lvalue text -> decoded
	g     *cfgx.Graph
}

func (d *dec) text(e ast.Expr) string { return types.ExprString(e) }

// collect finds decoded cells.
func (d *dec) collect() {
	add := func(e ast.Expr) {
		if u, ok := e.(*ast.UnaryExpr); ok && u.Op == token.AND {
			e = u.X
		}
		d.taint[d.text(e)] = true
	}
	ast.Inspect(d.fd.Body, func(n ast.Node) bool {
		switch s := n.(type) {
		case *ast.CallExpr:
			sel, ok := s.Fun.(*ast.SelectorExpr)
			if !ok {
				return true
			}
			switch {
			case sel.Sel.Name == "Decode" && len(s.Args) == 1:
				add(s.Args[0])
			case sel.Sel.Name == "Read" && len(s.Args) == 3:
				// binary.Read(r, order, &x)
				add(s.Args[2])
			case strings.HasPrefix(sel.Sel.Name, "unmarshalBinary"):
				// header.unmarshalBinary(...): every integer field of header
				if tv, ok := d.info.Types[sel.X]; ok {
					t := tv.Type
					if p, ok := t.(*types.Pointer); ok {
						t = p.Elem()
					}
					if st, ok := t.Underlying().(*types.Struct); ok {
						for i := 0; i < st.NumFields(); i++ {
							if b, ok := st.Field(i).Type().Underlying().(*types.Basic); ok && b.Info()&types.IsInteger != 0 {
								d.taint[d.text(sel.X)+"."+st.Field(i).Name()] = true
							}
						}
					}
				}
			}
		case *ast.AssignStmt:
			if len(s.Lhs) != len(s.Rhs) {
				return true
			}
			for i, r := range s.Rhs {
				// x := binary.LittleEndian.Uint64(...)
				if c, ok := r.(*ast.CallExpr); ok {
					if sel, ok := c.Fun.(*ast.SelectorExpr); ok && strings.HasPrefix(sel.Sel.Name, "Uint") {
						if tv, ok := d.info.Types[sel.X]; ok && strings.Contains(tv.Type.String(), "encoding/binary") {
							d.taint[d.text(s.Lhs[i])] = true
						}
					}
				}
			}
		}
		return true
	})
	// propagate through plain copies: rows := header.Rows, int(rows)
	for iter := 0; iter < 5; iter++ {
		changed := false
		ast.Inspect(d.fd.Body, func(n ast.Node) bool {
			as, ok := n.(*ast.AssignStmt)
			if !ok || len(as.Lhs) != len(as.Rhs) {
				return true
			}
			for i, r := range as.Rhs {
				if d.isTaintedValue(r) && !d.taint[d.text(as.Lhs[i])] {
					if tv, ok := d.info.Types[as.Lhs[i]]; ok || true {
						_ = tv
						d.taint[d.text(as.Lhs[i])] = true
						changed = true
					}
				}
			}
			return true
		})
		if !changed {
			break
		}
	}
}

// copiesOf returns cell together with the cells it is a plain copy of or is
// copied to (x = y with both sides identifiers or selectors), transitively.
func (d *dec) copiesOf(cell string) []string {
	adj := map[string][]string{}
	ast.Inspect(d.fd.Body, func(n ast.Node) bool {
		as, ok := n.(*ast.AssignStmt)
		if !ok || len(as.Lhs) != len(as.Rhs) {
			return true
		}
		for i := range as.Lhs {
			switch as.Rhs[i].(type) {
			case *ast.Ident, *ast.SelectorExpr:
				switch as.Lhs[i].(type) {
				case *ast.Ident, *ast.SelectorExpr:
					a, b := d.text(as.Lhs[i]), d.text(as.Rhs[i])
					adj[a] = append(adj[a], b)
					adj[b] = append(adj[b], a)
				}
			}
		}
		return true
	})
	seen := map[string]bool{cell: true}
	out := []string{cell}
	for i := 0; i < len(out); i++ {
		for _, nb := range adj[out[i]] {
			if !seen[nb] {
				seen[nb] = true
				out = append(out, nb)
			}
		}
	}
	return out
}

// isTaintedValue: e is a decoded cell or a conversion of one (not an
// arithmetic combination, which is handled by the sinks).
func (d *dec) isTaintedValue(e ast.Expr) bool {
	switch x := e.(type) {
	case *ast.ParenExpr:
		return d.isTaintedValue(x.X)
	case *ast.CallExpr:
		if tv, ok := d.info.Types[x.Fun]; ok && tv.IsType() && len(x.Args) == 1 {
			return d.isTaintedValue(x.Args[0])
		}
		return false
	case *ast.Ident, *ast.SelectorExpr:
		return d.taint[d.text(e)]
	}
	return false
}

func (d *dec) mentionsTainted(e ast.Node, cell string) bool {
	found := false
	ast.Inspect(e, func(n ast.Node) bool {
		if x, ok := n.(ast.Expr); ok {
			switch x.(type) {
			case *ast.Ident, *ast.SelectorExpr:
				if d.text(x) == cell {
					found = true
				}
			}
		}
		return !found
	})
	return found
}

// errorBranch: block ends in a condition one of whose arms returns a non-nil error.
func (d *dec) validatingCond(b *cfg.Block) ast.Expr {
	c := cfgx.Cond(b)
	if c == nil {
		return nil
	}
	for _, s := range b.Succs {
		for _, n := range s.Nodes {
			if rs, ok := n.(*ast.ReturnStmt); ok && len(rs.Results) > 0 {
				last := rs.Results[len(rs.Results)-1]
				if id, ok := last.(*ast.Ident); ok && id.Name == "nil" {
					continue
				}
				return c
			}
			if es, ok := n.(*ast.ExprStmt); ok {
				if call, ok := es.X.(*ast.CallExpr); ok && cfgx.IsPanic(d.info, call) {
					return c
				}
			}
		}
	}
	return nil
}

// headerParams returns the decoded cells a function receives through
// parameters of a header type (a struct with an unmarshalBinary* method):
// "param.Field" for every integer field.
func headerParams(pkg *packages.Package, fd *ast.FuncDecl) map[string]bool {
	if strings.HasPrefix(fd.Name.Name, "unmarshalBinary") || strings.HasPrefix(fd.Name.Name, "marshalBinary") {
		return nil
	}
	out := map[string]bool{}
	fields := fd.Type.Params.List
	if fd.Recv != nil {
		fields = append(append([]*ast.Field{}, fd.Recv.List...), fields...)
	}
	for _, fl := range fields {
		for _, n := range fl.Names {
			o := pkg.TypesInfo.Defs[n]
			if o == nil {
				continue
			}
			t := o.Type()
			if p, ok := t.(*types.Pointer); ok {
				t = p.Elem()
			}
			nt, ok := t.(*types.Named)
			if !ok || nt.Obj().Pkg() != pkg.Types {
				continue
			}
			st, ok := nt.Underlying().(*types.Struct)
			if !ok {
				continue
			}
			isHeader := false
			for i := 0; i < nt.NumMethods(); i++ {
				if strings.HasPrefix(nt.Method(i).Name(), "unmarshalBinary") {
					isHeader = true
				}
			}
			if !isHeader {
				continue
			}
			for i := 0; i < st.NumFields(); i++ {
				if b, ok := st.Field(i).Type().Underlying().(*types.Basic); ok && b.Info()&types.IsInteger != 0 {
					out[n.Name+"."+st.Field(i).Name()] = true
				}
			}
		}
	}
	return out
}

func checkDecoder(res *core.Result, pkg *packages.Package, fd *ast.FuncDecl, seed map[string]bool) {
	d := &dec{pkg: pkg, info: pkg.TypesInfo, fd: fd, name: core.FuncName(pkg, fd), res: res, taint: map[string]bool{}}
	if fd.Recv != nil && len(fd.Recv.List[0].Names) == 1 {
		d.recv = d.info.Defs[fd.Recv.List[0].Names[0]]
	}
	for k := range seed {
		d.taint[k] = true
	}
	d.collect()
	res.Count("decoder_methods", 1)
	if len(d.taint) == 0 {
		return
	}
	res.Count("decoded_cells", len(d.taint))
	d.g = cfgx.New(fd.Body, d.info)
	var cells []string
	for c := range d.taint {
		cells = append(cells, c)
	}
	res.Sample(map[string]any{"rule": "DECODE", "decoder": d.name, "decoded_cells": cells})

	validatedBefore := func(cell string, at ast.Node, wantLen bool) bool {
		loc, ok := d.g.Where[at]
		if !ok {
			return false
		}
		gen := func(b *cfg.Block) bool {
			c := d.validatingCond(b)
			if c == nil {
				return false
			}
			if wantLen {
				found := false
				ast.Inspect(c, func(n ast.Node) bool {
					if call, ok := n.(*ast.CallExpr); ok {
						if id, ok := call.Fun.(*ast.Ident); ok && id.Name == "len" && len(call.Args) == 1 && d.text(call.Args[0]) == cell {
							found = true
						}
					}
					return !found
				})
				return found
			}
			// a relational comparison mentioning the cell
			found := false
			ast.Inspect(c, func(n ast.Node) bool {
				if be, ok := n.(*ast.BinaryExpr); ok {
					switch be.Op {
					case token.LSS, token.LEQ, token.GTR, token.GEQ, token.NEQ, token.EQL:
						if d.mentionsTainted(be, cell) {
							found = true
						}
					}
				}
				return !found
			})
			return found
		}
		in := d.g.MustPass(gen)
		return in[loc.Block]
	}

	// sinks
	ast.Inspect(fd.Body, func(n ast.Node) bool {
		switch x := n.(type) {
		case *ast.BinaryExpr:
			switch x.Op {
			case token.SHL:
				for cell := range d.taint {
					if d.mentionsTainted(x.Y, cell) {
						res.Obligations++
						res.Count("decoded_shift_counts", 1)
						if !validatedBefore(cell, x, false) {
							res.Add(core.Finding{Rule: "DECODE.range", Key: fmt.Sprintf("DECODE.range|%s|%s", d.name, cell), Pos: core.Pos(x.Pos()), Func: d.name,
								Msg: fmt.Sprintf("decoded value %s is used as a shift count without a range check on every path: arbitrary input yields an internally inconsistent object", cell)})
						}
					}
				}
			case token.MUL:
				var l, r string
				for cell := range d.taint {
					if d.isTaintedValue(x.X) && d.mentionsTainted(x.X, cell) {
						l = cell
					}
					if d.isTaintedValue(x.Y) && d.mentionsTainted(x.Y, cell) {
						r = cell
					}
				}
				if l != "" && r != "" {
					res.Obligations++
					res.Count("decoded_products", 1)
					if !d.divisionGuardBefore(x, l, r) {
						res.Add(core.Finding{Rule: "DECODE.mul", Key: fmt.Sprintf("DECODE.mul|%s|%s*%s", d.name, l, r), Pos: core.Pos(x.Pos()), Func: d.name,
							Msg: fmt.Sprintf("the product %s*%s of two decoded integers is not preceded by a division-based overflow guard (such as %s > max/%s): a wrapped product passes the size checks", l, r, l, r)})
					}
				}
			}
		case *ast.CallExpr:
			// allocation sizes
			isAlloc := false
			switch f := x.Fun.(type) {
			case *ast.Ident:
				isAlloc = f.Name == "make"
			case *ast.SelectorExpr:
				isAlloc = strings.HasPrefix(f.Sel.Name, "reuseAs") || strings.HasPrefix(f.Sel.Name, "New")
			}
			if !isAlloc {
				return true
			}
			for _, a := range x.Args {
				for cell := range d.taint {
					if d.mentionsTainted(a, cell) {
						res.Obligations++
						res.Count("decoded_allocation_sizes", 1)
						if !validatedBefore(cell, x, false) {
							res.Add(core.Finding{Rule: "DECODE.range", Key: fmt.Sprintf("DECODE.range|%s|%s", d.name, cell), Pos: core.Pos(x.Pos()), Func: d.name,
								Msg: fmt.Sprintf("decoded value %s sizes an allocation without a range check on every path", cell)})
						}
					}
				}
			}
		}
		return true
	})
	// variable-length receiver fields
	for cell := range d.taint {
		if d.recv == nil || !strings.HasPrefix(cell, d.recv.Name()+".") {
			continue
		}
		// type of the field
		var isSlice bool
		ast.Inspect(fd.Body, func(n ast.Node) bool {
			if e, ok := n.(ast.Expr); ok && d.text(e) == cell {
				if tv, ok := d.info.Types[e]; ok {
					_, isSlice = tv.Type.Underlying().(*types.Slice)
				}
			}
			return true
		})
		if !isSlice {
			continue
		}
		res.Obligations++
		res.Count("decoded_variable_length_fields", 1)
		// every successful return must be preceded by a len check
		okAll := true
		for _, b := range d.g.Blocks {
			for _, n := range b.Nodes {
				rs, ok := n.(*ast.ReturnStmt)
				if !ok || len(rs.Results) == 0 {
					continue
				}
				if id, ok := rs.Results[len(rs.Results)-1].(*ast.Ident); !ok || id.Name != "nil" {
					continue
				}
				// the check may have been made on the local the field
				// was copied from (decode into temporaries, validate,
				// then assign)
				valid := false
				for _, alias := range d.copiesOf(cell) {
					if validatedBefore(alias, rs, true) {
						valid = true
					}
				}
				if !valid {
					okAll = false
				}
			}
		}
		if !okAll {
			res.Add(core.Finding{Rule: "DECODE.len", Key: fmt.Sprintf("DECODE.len|%s|%s", d.name, cell), Pos: core.Pos(fd.Pos()), Func: d.name,
				Msg: fmt.Sprintf("the decoder returns success without checking len(%s), a variable-length field read from the input: the object can be internally inconsistent", cell)})
		}
	}
}

// divisionGuardBefore: a comparison with a quotient by one factor against
// the other factor is passed on every path to the product.
func (d *dec) divisionGuardBefore(at ast.Node, l, r string) bool {
	loc, ok := d.g.Where[at]
	if !ok {
		return false
	}
	gen := func(b *cfg.Block) bool {
		c := d.validatingCond(b)
		if c == nil {
			return false
		}
		found := false
		ast.Inspect(c, func(n ast.Node) bool {
			be, ok := n.(*ast.BinaryExpr)
			if !ok {
				return true
			}
			switch be.Op {
			case token.LSS, token.LEQ, token.GTR, token.GEQ:
			default:
				return true
			}
			quoBy := func(e ast.Expr, cell string) bool {
				q := false
				ast.Inspect(e, func(m ast.Node) bool {
					if qe, ok := m.(*ast.BinaryExpr); ok && qe.Op == token.QUO && d.mentionsTainted(qe.Y, cell) {
						q = true
					}
					return !q
				})
				return q
			}
			if (quoBy(be.X, r) && d.mentionsTainted(be.Y, l)) || (quoBy(be.Y, r) && d.mentionsTainted(be.X, l)) ||
				(quoBy(be.X, l) && d.mentionsTainted(be.Y, r)) || (quoBy(be.Y, l) && d.mentionsTainted(be.X, r)) {
				found = true
			}
			return !found
		})
		return found
	}
	in := d.g.MustPass(gen)
	return in[loc.Block]
}

// ---------------------------------------------------------------------

// checkSelfCmp: == / != whose two sides are the same expression after
// inlining locals that are assigned exactly once from a call-free or
// reflect.TypeOf/len expression.
func checkSelfCmp(res *core.Result, pkg *packages.Package, fd *ast.FuncDecl) {
	info := pkg.TypesInfo
	name := core.FuncName(pkg, fd)
	defs := map[types.Object][]ast.Expr{}
	ast.Inspect(fd.Body, func(n ast.Node) bool {
		switch s := n.(type) {
		case *ast.AssignStmt:
			for i, l := range s.Lhs {
				if id, ok := l.(*ast.Ident); ok {
					if o := core.ObjOf(info, id); o != nil {
						var r ast.Expr
						if len(s.Lhs) == len(s.Rhs) {
							r = s.Rhs[i]
						}
						defs[o] = append(defs[o], r)
					}
				}
			}
		case *ast.IncDecStmt:
			if id, ok := s.X.(*ast.Ident); ok {
				if o := core.ObjOf(info, id); o != nil {
					defs[o] = append(defs[o], nil)
				}
			}
		case *ast.RangeStmt:
			for _, e := range []ast.Expr{s.Key, s.Value} {
				if id, ok := e.(*ast.Ident); ok {
					if o := core.ObjOf(info, id); o != nil {
						defs[o] = append(defs[o], nil)
					}
				}
			}
		case *ast.UnaryExpr:
			if s.Op == token.AND {
				if id, ok := s.X.(*ast.Ident); ok {
					if o := core.ObjOf(info, id); o != nil {
						defs[o] = append(defs[o], nil)
					}
				}
			}
		}
		return true
	})
	pure := func(e ast.Expr) bool {
		ok := true
		ast.Inspect(e, func(n ast.Node) bool {
			if c, isCall := n.(*ast.CallExpr); isCall {
				fn := typeutil.Callee(info, c)
				switch {
				case fn != nil && fn.Pkg() != nil && fn.Pkg().Path() == "reflect" && fn.Name() == "TypeOf":
				case fn == nil && isBuiltinLen(c):
				default:
					if tv, isT := info.Types[c.Fun]; !(isT && tv.IsType()) {
						ok = false
					}
				}
			}
			return ok
		})
		return ok
	}
	var expand func(e ast.Expr, depth int) string
	expand = func(e ast.Expr, depth int) string {
		if id, ok := e.(*ast.Ident); ok && depth < 4 {
			if o := core.ObjOf(info, id); o != nil {
				if ds := defs[o]; len(ds) == 1 && ds[0] != nil && pure(ds[0]) {
					return expand(ds[0], depth+1)
				}
			}
		}
		return "(" + types.ExprString(e) + ")"
	}
	ast.Inspect(fd.Body, func(n ast.Node) bool {
		be, ok := n.(*ast.BinaryExpr)
		if !ok || (be.Op != token.EQL && be.Op != token.NEQ) {
			return true
		}
		if !pure(be.X) || !pure(be.Y) {
			return true
		}
		// floating point x != x is the NaN test idiom
		if tv, ok := info.Types[be.X]; ok {
			if b, ok := tv.Type.Underlying().(*types.Basic); ok && b.Info()&(types.IsFloat|types.IsComplex) != 0 {
				return true
			}
		}
		res.Obligations++
		res.Count("equality_comparisons", 1)
		if expand(be.X, 0) == expand(be.Y, 0) {
			res.Add(core.Finding{Rule: "DECODE.selfcmp", Key: fmt.Sprintf("DECODE.selfcmp|%s|%s", name, types.ExprString(be)), Pos: core.Pos(be.Pos()), Func: name,
				Msg: fmt.Sprintf("both sides of %q denote the same expression %s: the compatibility check can never fail", types.ExprString(be), expand(be.X, 0))})
		}
		return true
	})
}

func isBuiltinLen(c *ast.CallExpr) bool {
	id, ok := c.Fun.(*ast.Ident)
	return ok && (id.Name == "len" || id.Name == "cap")
}

// ---------------------------------------------------------------------

// checkGate: graph6/digraph6.
func checkGate(res *core.Result, pkg *packages.Package) {
	info := pkg.TypesInfo
	graphT := pkg.Types.Scope().Lookup("Graph")
	if graphT == nil {
		res.Brokenf("%s: type Graph not found", pkg.PkgPath)
		return
	}
	isGraph := func(t types.Type) bool { return types.Identical(t, graphT.Type()) }
	decls := map[*types.Func]*ast.FuncDecl{}
	for _, f := range pkg.Syntax {
		for _, d := range f.Decls {
			if fd, ok := d.(*ast.FuncDecl); ok && fd.Body != nil {
				if fn, ok := info.Defs[fd.Name].(*types.Func); ok {
					decls[fn] = fd
				}
			}
		}
	}
	// raw helpers: functions in which some index/slice of a Graph value is
	// not preceded on every path by a branch on len() of a Graph value.
	// IsValid and numberOf are the validation vocabulary itself.
	raw := map[*types.Func]bool{}
	for fn, fd := range decls {
		if fn.Name() == "IsValid" || fn.Name() == "numberOf" {
			continue
		}
		g := cfgx.New(fd.Body, info)
		in := g.MustPass(func(b *cfg.Block) bool {
			c := cfgx.Cond(b)
			if c == nil {
				return false
			}
			found := false
			ast.Inspect(c, func(n ast.Node) bool {
				if call, ok := n.(*ast.CallExpr); ok && isBuiltinLen(call) && len(call.Args) == 1 {
					if tv, ok := info.Types[call.Args[0]]; ok && isGraph(tv.Type) {
						found = true
					}
				}
				return !found
			})
			return found
		})
		ast.Inspect(fd.Body, func(n ast.Node) bool {
			var x ast.Expr
			switch e := n.(type) {
			case *ast.IndexExpr:
				x = e.X
			case *ast.SliceExpr:
				x = e.X
			default:
				return true
			}
			if tv, ok := info.Types[x]; ok && isGraph(tv.Type) {
				if loc, ok := g.Where[n]; ok && !in[loc.Block] {
					raw[fn] = true
				}
			}
			return true
		})
	}
	// propagate: unexported callers of raw helpers without a gate are raw too
	gated := func(fd *ast.FuncDecl, at ast.Node) bool {
		g := cfgx.New(fd.Body, info)
		loc, ok := g.Where[at]
		if !ok {
			return false
		}
		in := g.MustPass(func(b *cfg.Block) bool {
			c := cfgx.Cond(b)
			if c == nil {
				return false
			}
			found := false
			ast.Inspect(c, func(n ast.Node) bool {
				if call, ok := n.(*ast.CallExpr); ok {
					if id, ok := call.Fun.(*ast.Ident); ok && id.Name == "IsValid" {
						found = true
					}
				}
				return !found
			})
			return found
		})
		return in[loc.Block]
	}
	for iter := 0; iter < 4; iter++ {
		for fn, fd := range decls {
			if raw[fn] || fn.Exported() {
				continue
			}
			ast.Inspect(fd.Body, func(n ast.Node) bool {
				if c, ok := n.(*ast.CallExpr); ok {
					if callee, _ := typeutil.Callee(info, c).(*types.Func); callee != nil && raw[callee] && !gated(fd, c) {
						raw[fn] = true
					}
				}
				return true
			})
		}
	}
	for fn, fd := range decls {
		if !fn.Exported() || fn.Name() == "IsValid" {
			continue
		}
		sig := fn.Type().(*types.Signature)
		if sig.Recv() == nil || !isGraph(sig.Recv().Type()) {
			continue
		}
		name := core.FuncName(pkg, fd)
		res.Count("graph6_exported_methods", 1)
		ast.Inspect(fd.Body, func(n ast.Node) bool {
			var what string
			switch x := n.(type) {
			case *ast.IndexExpr:
				if tv, ok := info.Types[x.X]; ok && isGraph(tv.Type) {
					what = "indexes the raw string"
				}
			case *ast.CallExpr:
				if callee, _ := typeutil.Callee(info, x).(*types.Func); callee != nil && raw[callee] {
					what = "calls " + callee.Name() + ", which indexes the raw string unchecked"
				}
			}
			if what == "" {
				return true
			}
			res.Obligations++
			res.Count("graph6_raw_accesses", 1)
			if !gated(fd, n) {
				res.Add(core.Finding{Rule: "DECODE.gate", Key: fmt.Sprintf("DECODE.gate|%s", name), Pos: core.Pos(n.Pos()), Func: name,
					Msg: fmt.Sprintf("%s %s without first passing the IsValid test: an invalid string does not behave as the null graph but faults", fn.Name(), what)})
			}
			return true
		})
	}
}
