package decode

import (
	"fmt"
	"go/ast"
	"go/types"

	"gverif/core"

	"golang.org/x/tools/go/types/typeutil"
)

// RunErrDrop implements DECODE.errdrop: in the encoder/decoder packages a
// call to a function or method *of the same package* whose last result is an
// error is never used as a bare statement (or assigned wholly to blanks): the
// package's own error results are how "truncated or inconsistent input yields
// an error" and "the encoder refuses what it cannot represent" reach the
// caller. Calls into other packages (fmt.Fprintf to a bytes.Buffer, hash
// writers) are not considered.
func RunErrDrop(conf core.Config, scope core.Scope) *core.Result {
	res := core.NewResult("DECODE")
	res.Rules = append(res.Rules, "DECODE.errdrop: the error result of a same-package function is never discarded by a call statement or a blank assignment")
	res.Configs = append(res.Configs, conf.String())
	pkgs, err := core.Load(conf, scope.Patterns...)
	if err != nil {
		res.Brokenf("%v", err)
		return res
	}
	errType := types.Universe.Lookup("error").Type()
	for _, pkg := range pkgs {
		info := pkg.TypesInfo
		for _, file := range pkg.Syntax {
			if !scope.InFile(file.Pos()) || core.IsGenerated(file) {
				continue
			}
			for _, d := range file.Decls {
				fd, ok := d.(*ast.FuncDecl)
				if !ok || fd.Body == nil {
					continue
				}
				name := core.FuncName(pkg, fd)
				returnsErr := func(call *ast.CallExpr) (*types.Func, bool) {
					fn, _ := typeutil.Callee(info, call).(*types.Func)
					if fn == nil || fn.Pkg() != pkg.Types {
						return nil, false
					}
					sig := fn.Type().(*types.Signature)
					n := sig.Results().Len()
					if n == 0 || !types.Identical(sig.Results().At(n-1).Type(), errType) {
						return nil, false
					}
					return fn, true
				}
				report := func(call *ast.CallExpr, fn *types.Func, how string) {
					res.Add(core.Finding{Rule: "DECODE.errdrop", Key: fmt.Sprintf("DECODE.errdrop|%s|%s", name, fn.Name()), Pos: core.Pos(call.Pos()), Func: name,
						Msg: fmt.Sprintf("the error returned by %s is %s: a failure inside it is reported to nobody and the caller returns success", fn.Name(), how)})
				}
				ast.Inspect(fd.Body, func(n ast.Node) bool {
					switch s := n.(type) {
					case *ast.ExprStmt:
						if call, ok := s.X.(*ast.CallExpr); ok {
							if fn, ok := returnsErr(call); ok {
								res.Obligations++
								res.Count("same_package_error_calls", 1)
								report(call, fn, "discarded (call used as a statement)")
							}
						}
					case *ast.AssignStmt:
						if len(s.Rhs) == 1 {
							if call, ok := s.Rhs[0].(*ast.CallExpr); ok {
								if fn, ok := returnsErr(call); ok {
									res.Obligations++
									res.Count("same_package_error_calls", 1)
									if id, ok := s.Lhs[len(s.Lhs)-1].(*ast.Ident); ok && id.Name == "_" {
										report(call, fn, "assigned to the blank identifier")
									}
								}
							}
						}
					case *ast.DeferStmt:
						if fn, ok := returnsErr(s.Call); ok {
							res.Obligations++
							res.Count("same_package_error_calls", 1)
							report(s.Call, fn, "discarded (deferred call)")
						}
					case *ast.ReturnStmt, *ast.IfStmt:
						// calls inside conditions / returns are consumed
						ast.Inspect(n, func(x ast.Node) bool {
							if call, ok := x.(*ast.CallExpr); ok {
								if _, ok := returnsErr(call); ok {
									res.Count("same_package_error_calls_consumed_inline", 1)
								}
							}
							return true
						})
					}
					return true
				})
			}
		}
	}
	return res
}
