package decode

import (
	"fmt"
	"go/ast"
	"go/token"
	"go/types"
	"strings"

	"gverif/cfgx"
	"gverif/core"

	"golang.org/x/tools/go/cfg"
)

// RunOrder implements DECODE.order: a decoder that rejects its input leaves
// the receiver as it was. In every Unmarshal*/GobDecode method, a return
// that reports a *validation* error — a package-level error variable, or an
// error constructed on the spot with errors.New / fmt.Errorf — is not
// reachable after the receiver has been written (a field assigned, the
// receiver resized through a reuseAs*/ReuseAs* method, or a field handed to a
// decoder by address). Errors propagated from a reader (a local `err`
// returned as it came back from a callee) are I/O failures of a stream that
// has already been partly consumed and are not covered.
func RunOrder(conf core.Config, scope core.Scope) *core.Result {
	res := core.NewResult("DECODE")
	res.Rules = append(res.Rules, "DECODE.order: in Unmarshal*/GobDecode methods, and in every other exported pointer-receiver method whose only result is an error, no return of a validation error (package-level error variable, errors.New, fmt.Errorf) is reachable after the receiver was written")
	res.Configs = append(res.Configs, conf.String())
	pkgs, err := core.Load(conf, scope.Patterns...)
	if err != nil {
		res.Brokenf("%v", err)
		return res
	}
	errType := types.Universe.Lookup("error").Type()
	for _, pkg := range pkgs {
		info := pkg.TypesInfo
		for _, file := range pkg.Syntax {
			if !scope.InFile(file.Pos()) || core.IsGenerated(file) {
				continue
			}
			for _, d := range file.Decls {
				fd, ok := d.(*ast.FuncDecl)
				if !ok || fd.Body == nil || fd.Recv == nil || len(fd.Recv.List[0].Names) != 1 {
					continue
				}
				// decoders, and any other pointer-receiver method whose only
				// result is an error (HyperLogLog.Union): "rejected, receiver
				// unchanged" is the same contract
				if !isDecoderName(fd.Name.Name) {
					pp := pkg.PkgPath
					if !(strings.HasSuffix(pp, "/stat/card") || strings.HasSuffix(pp, "/mathext/prng") || strings.Contains(pp, "/graph/encoding/") || strings.Contains(pp, "/graph/formats/")) {
						continue
					}
					rl := fd.Type.Results
					if rl == nil || len(rl.List) != 1 || len(rl.List[0].Names) > 1 {
						continue
					}
					if tv, ok := info.Types[rl.List[0].Type]; !ok || !types.Identical(tv.Type, errType) {
						continue
					}
					if !ast.IsExported(fd.Name.Name) {
						continue
					}
				}
				recv := info.Defs[fd.Recv.List[0].Names[0]]
				if recv == nil {
					continue
				}
				if _, isPtr := recv.Type().(*types.Pointer); !isPtr {
					continue
				}
				name := core.FuncName(pkg, fd)
				res.Count("decoder_methods_ordered", 1)
				rootIsRecv := func(e ast.Expr) bool {
					for {
						switch x := ast.Unparen(e).(type) {
						case *ast.Ident:
							return core.ObjOf(info, x) == recv
						case *ast.SelectorExpr:
							e = x.X
						case *ast.IndexExpr:
							e = x.X
						case *ast.StarExpr:
							e = x.X
						case *ast.SliceExpr:
							e = x.X
						default:
							return false
						}
					}
				}
				isWrite := func(n ast.Node) (bool, string) {
					found, what := false, ""
					ast.Inspect(n, func(x ast.Node) bool {
						if found {
							return false
						}
						switch s := x.(type) {
						case *ast.FuncLit:
							return false
						case *ast.AssignStmt:
							for _, l := range s.Lhs {
								if _, isIdent := l.(*ast.Ident); !isIdent && rootIsRecv(l) {
									found, what = true, types.ExprString(l)+" = …"
								}
							}
						case *ast.UnaryExpr:
							if s.Op == token.AND && rootIsRecv(s.X) {
								if _, bare := ast.Unparen(s.X).(*ast.Ident); !bare {
									found, what = true, "&"+types.ExprString(s.X)+" handed to a callee"
								}
							}
						case *ast.CallExpr:
							if sel, ok := s.Fun.(*ast.SelectorExpr); ok && rootIsRecv(sel.X) {
								n := sel.Sel.Name
								if strings.HasPrefix(n, "reuseAs") || strings.HasPrefix(n, "ReuseAs") || n == "Reset" || n == "Grow" {
									found, what = true, types.ExprString(sel)+"(…)"
								}
							}
						}
						return true
					})
					return found, what
				}
				// validation error: package-level error var, errors.New, fmt.Errorf
				isValidationErr := func(e ast.Expr) bool {
					switch x := ast.Unparen(e).(type) {
					case *ast.Ident:
						v, ok := core.ObjOf(info, x).(*types.Var)
						return ok && v.Parent() == pkg.Types.Scope() && types.Identical(v.Type(), errType)
					case *ast.CallExpr:
						if sel, ok := x.Fun.(*ast.SelectorExpr); ok {
							if id, ok := sel.X.(*ast.Ident); ok {
								if pn, ok := core.ObjOf(info, id).(*types.PkgName); ok {
									p := pn.Imported().Path()
									return (p == "errors" && sel.Sel.Name == "New") || (p == "fmt" && sel.Sel.Name == "Errorf")
								}
							}
						}
					}
					return false
				}
				g := cfgx.New(fd.Body, info)
				type wsite struct {
					b    *cfg.Block
					idx  int
					what string
					pos  token.Pos
				}
				var writes []wsite
				for _, b := range g.Blocks {
					for i, n := range b.Nodes {
						if ok, what := isWrite(n); ok {
							writes = append(writes, wsite{b, i, what, n.Pos()})
						}
					}
				}
				reach := g.Reachable()
				for _, b := range g.Blocks {
					if !reach[b.Index] {
						continue
					}
					for i, n := range b.Nodes {
						rs, ok := n.(*ast.ReturnStmt)
						if !ok || len(rs.Results) == 0 || !isValidationErr(rs.Results[len(rs.Results)-1]) {
							continue
						}
						res.Obligations++
						res.Count("validation_error_returns", 1)
						for _, w := range writes {
							after := (w.b == b && w.idx < i) || g.From(w.b)[b.Index]
							if after {
								res.Add(core.Finding{Rule: "DECODE.order", Key: fmt.Sprintf("DECODE.order|%s|%s", name, types.ExprString(rs.Results[len(rs.Results)-1])),
									Pos: core.Pos(rs.Pos()), Func: name,
									Msg:  fmt.Sprintf("%s rejects its input with %s after the receiver was already written (%s): a failed decode leaves a half-built value behind", fd.Name.Name, types.ExprString(rs.Results[len(rs.Results)-1]), w.what),
									Path: []string{"write at " + core.Pos(w.pos), "return at " + core.Pos(rs.Pos())}})
								break
							}
						}
					}
				}
			}
		}
	}
	return res
}
