package decode

import (
	"fmt"
	"go/ast"
	"go/token"
	"go/types"
	"sort"
	"strings"

	"gverif/core"

	"golang.org/x/tools/go/types/typeutil"
)

// FieldsExempt lists "pkg.Type.field" that the encoder reads but the
// decoder legitimately leaves alone, with the reason.
var FieldsExempt = map[string]string{}

// RunFields implements DECODE.fields: the encoder and the decoder of one
// type agree on the fields. Every receiver field the Marshal* method reads
// is, in each Unmarshal* method of the same type, stored (assigned, decoded
// into through its address, filled by copy/Read) — or the decoder rebuilds
// the whole receiver (assigns *recv or calls one of its pointer methods).
// Fields that cannot be decoded by nature are a frozen table. A field the encoder writes out and the decoder
// never sets keeps whatever the receiver held before.
func RunFields(conf core.Config, patterns ...string) *core.Result {
	res := core.NewResult("DECODE.fields")
	res.Rules = append(res.Rules, "DECODE.fields: every receiver field read by a type's Marshal{Binary,BinaryTo,Text,JSON} method is stored by each of its Unmarshal* methods (or the decoder rebuilds the receiver as a whole)")
	res.Configs = append(res.Configs, conf.String())
	pkgs, err := core.Load(conf, patterns...)
	if err != nil {
		res.Brokenf("%v", err)
		return res
	}
	used := map[string]bool{}
	for _, pkg := range pkgs {
		info := pkg.TypesInfo
		type meth struct {
			fd   *ast.FuncDecl
			recv types.Object
		}
		enc := map[string][]meth{}
		dec := map[string][]meth{}
		decls := map[*types.Func]*ast.FuncDecl{}
		for _, f := range pkg.Syntax {
			for _, d := range f.Decls {
				if fd, ok := d.(*ast.FuncDecl); ok {
					if fn, ok := info.Defs[fd.Name].(*types.Func); ok {
						decls[fn] = fd
					}
				}
			}
		}
		for _, f := range pkg.Syntax {
			if strings.HasSuffix(core.Fset.Position(f.Pos()).Filename, "_test.go") {
				continue
			}
			for _, d := range f.Decls {
				fd, ok := d.(*ast.FuncDecl)
				if !ok || fd.Body == nil || fd.Recv == nil || len(fd.Recv.List[0].Names) != 1 {
					continue
				}
				recv := info.Defs[fd.Recv.List[0].Names[0]]
				if recv == nil {
					continue
				}
				rt := recv.Type()
				if p, ok := rt.(*types.Pointer); ok {
					rt = p.Elem()
				}
				named, ok := rt.(*types.Named)
				if !ok {
					continue
				}
				if _, ok := named.Underlying().(*types.Struct); !ok {
					continue
				}
				n := fd.Name.Name
				switch {
				case strings.HasPrefix(n, "Marshal"):
					enc[named.Obj().Name()] = append(enc[named.Obj().Name()], meth{fd, recv})
				case strings.HasPrefix(n, "Unmarshal"):
					dec[named.Obj().Name()] = append(dec[named.Obj().Name()], meth{fd, recv})
				}
			}
		}
		var tnames []string
		for t := range enc {
			if len(dec[t]) > 0 {
				tnames = append(tnames, t)
			}
		}
		sort.Strings(tnames)
		for _, t := range tnames {
			res.Count("codec_types", 1)
			kind := func(n string) string {
				n = strings.TrimPrefix(strings.TrimPrefix(n, "Unmarshal"), "Marshal")
				n = strings.TrimSuffix(strings.TrimSuffix(n, "From"), "To")
				return n
			}
			for _, e := range enc[t] {
				// fields read by the encoder
				read := map[string]bool{}
				ast.Inspect(e.fd.Body, func(n ast.Node) bool {
					if sel, ok := n.(*ast.SelectorExpr); ok {
						if id, ok := ast.Unparen(sel.X).(*ast.Ident); ok && core.ObjOf(info, id) == e.recv {
							if _, isField := info.Selections[sel]; isField && info.Selections[sel].Kind() == types.FieldVal {
								read[sel.Sel.Name] = true
							}
						}
					}
					return true
				})
				for _, d := range dec[t] {
					if kind(d.fd.Name.Name) != kind(e.fd.Name.Name) {
						continue
					}
					res.Count("codec_method_pairs", 1)
					whole, set := storesOf(info, decls, d.fd.Body, d.recv, 0)
					var fields []string
					for f := range read {
						fields = append(fields, f)
					}
					sort.Strings(fields)
					name := core.FuncName(pkg, d.fd)
					for _, f := range fields {
						res.Obligations++
						res.Count("codec_fields", 1)
						if whole || set[f] {
							continue
						}
						key := core.RelPkg(pkg.PkgPath) + "." + t + "." + f
						if _, ok := FieldsExempt[key]; ok {
							used[key] = true
							continue
						}
						res.Add(core.Finding{Rule: "DECODE.fields", Key: "DECODE.fields|" + name + "|" + f,
							Pos: core.Pos(d.fd.Pos()), Func: name,
							Msg: fmt.Sprintf("%s.%s writes field %q out but %s never stores it: after decoding, the receiver keeps its previous %s", t, e.fd.Name.Name, f, d.fd.Name.Name, f)})
					}
				}
			}
		}
	}
	for k := range FieldsExempt {
		if !used[k] {
			res.Stale("DECODE.fields: stale exemption %s", k)
		}
	}
	return res
}

// storesOf returns the receiver fields a method body stores (assigns,
// decodes into through their address, hands to a callee as slice/pointer/
// map) and whether it replaces the receiver as a whole (*recv = …, or hands
// recv itself on). Pointer methods of the receiver that are declared in the
// package are followed (depth <= 4); one whose body is not available may set
// anything.
func storesOf(info *types.Info, decls map[*types.Func]*ast.FuncDecl, body *ast.BlockStmt, recv types.Object, depth int) (whole bool, set map[string]bool) {
	set = map[string]bool{}
	isRecv := func(x ast.Expr) bool {
		id, ok := ast.Unparen(x).(*ast.Ident)
		return ok && core.ObjOf(info, id) == recv
	}
	// field of the receiver at the root of an access path
	rootField := func(x ast.Expr) (string, bool) {
		for {
			switch y := ast.Unparen(x).(type) {
			case *ast.SelectorExpr:
				if isRecv(y.X) {
					return y.Sel.Name, true
				}
				x = y.X
				continue
			case *ast.IndexExpr:
				x = y.X
				continue
			case *ast.SliceExpr:
				x = y.X
				continue
			case *ast.StarExpr:
				x = y.X
				continue
			}
			return "", false
		}
	}
	mark := func(x ast.Expr) {
		if st, ok := ast.Unparen(x).(*ast.StarExpr); ok && isRecv(st.X) {
			whole = true
			return
		}
		if f, ok := rootField(x); ok {
			set[f] = true
		}
	}
	ast.Inspect(body, func(n ast.Node) bool {
		switch x := n.(type) {
		case *ast.AssignStmt:
			for _, l := range x.Lhs {
				mark(l)
			}
		case *ast.IncDecStmt:
			mark(x.X)
		case *ast.UnaryExpr:
			if x.Op == token.AND {
				mark(x.X)
			}
		case *ast.CallExpr:
			// a pointer method of the receiver
			if sel, ok := x.Fun.(*ast.SelectorExpr); ok && isRecv(sel.X) {
				if fn, _ := typeutil.Callee(info, x).(*types.Func); fn != nil {
					if sig := fn.Type().(*types.Signature); sig.Recv() != nil {
						if _, isPtr := sig.Recv().Type().(*types.Pointer); isPtr {
							fd := decls[fn]
							if fd == nil || fd.Body == nil || depth >= 4 || fd.Recv == nil || len(fd.Recv.List) == 0 || len(fd.Recv.List[0].Names) == 0 {
								whole = true
							} else {
								w, st := storesOf(info, decls, fd.Body, info.Defs[fd.Recv.List[0].Names[0]], depth+1)
								if w {
									whole = true
								}
								for f := range st {
									set[f] = true
								}
							}
						}
					}
				}
			}
			// slices/arrays handed to a function are filled by it
			for _, a := range x.Args {
				if tv, ok := info.Types[a]; ok {
					switch tv.Type.Underlying().(type) {
					case *types.Slice, *types.Pointer, *types.Map:
						if f, ok := rootField(a); ok {
							set[f] = true
						}
						if isRecv(a) {
							whole = true
						}
					}
				}
			}
		}
		return true
	})
	return whole, set
}
