package decode

import (
	"fmt"
	"go/ast"
	"go/token"
	"go/types"

	"gverif/core"
)

// RunNilGuard implements NILGUARD.sibling: a nil guard protects the value
// that is used next. In
//
//	if gen.edgeAttr == nil { return }
//	n = gen.edgeAttr
//
// the statement after an exiting nil test of a struct field takes that field;
// when it takes a *sibling* field of the same base and the same type instead
// (`if gen.nodeAttr == nil { return }; n = gen.edgeAttr`, a copy of the arm
// above with one name left unedited), the guarded field is not the one that
// is dereferenced: a caller that supplies only one of the two setters gets a
// nil-pointer fault or has its statement silently dropped.
func RunNilGuard(conf core.Config, scope core.Scope) *core.Result {
	res := core.NewResult("NILGUARD")
	res.Rules = append(res.Rules, "NILGUARD.sibling: the statement following `if base.f == nil { return/continue/break }` does not read a sibling field base.g of the same type without reading base.f")
	res.Configs = append(res.Configs, conf.String())
	pkgs, err := core.Load(conf, scope.Patterns...)
	if err != nil {
		res.Brokenf("%v", err)
		return res
	}
	for _, pkg := range pkgs {
		info := pkg.TypesInfo
		for _, file := range pkg.Syntax {
			if !scope.InFile(file.Pos()) {
				continue
			}
			for _, d := range file.Decls {
				fd, ok := d.(*ast.FuncDecl)
				if !ok || fd.Body == nil {
					continue
				}
				name := core.FuncName(pkg, fd)
				check := func(list []ast.Stmt) {
					for i := 0; i+1 < len(list); i++ {
						is, ok := list[i].(*ast.IfStmt)
						if !ok || is.Init != nil || is.Else != nil || len(is.Body.List) != 1 {
							continue
						}
						switch b := is.Body.List[0].(type) {
						case *ast.ReturnStmt:
						case *ast.BranchStmt:
							if b.Tok != token.CONTINUE && b.Tok != token.BREAK {
								continue
							}
						default:
							continue
						}
						be, ok := ast.Unparen(is.Cond).(*ast.BinaryExpr)
						if !ok || be.Op != token.EQL || types.ExprString(be.Y) != "nil" {
							continue
						}
						g, ok := ast.Unparen(be.X).(*ast.SelectorExpr)
						if !ok {
							continue
						}
						gs, ok := info.Selections[g]
						if !ok || gs.Kind() != types.FieldVal {
							continue
						}
						res.Obligations++
						res.Count("exiting_nil_guards_of_fields", 1)
						base := types.ExprString(g.X)
						readsGuarded, sibling := false, ""
						ast.Inspect(list[i+1], func(y ast.Node) bool {
							sel, ok := y.(*ast.SelectorExpr)
							if !ok || types.ExprString(sel.X) != base {
								return true
							}
							ss, ok := info.Selections[sel]
							if !ok || ss.Kind() != types.FieldVal {
								return true
							}
							if sel.Sel.Name == g.Sel.Name {
								readsGuarded = true
							} else if types.Identical(ss.Type(), gs.Type()) {
								sibling = sel.Sel.Name
							}
							return true
						})
						if !readsGuarded && sibling != "" {
							res.Add(core.Finding{Rule: "NILGUARD.sibling", Key: fmt.Sprintf("NILGUARD.sibling|%s|%s.%s", name, base, g.Sel.Name), Pos: core.Pos(is.Pos()), Func: name,
								Msg: fmt.Sprintf("%s.%s is tested for nil, but the next statement takes %s.%s (same type) and never %s.%s: the field that is dereferenced is not the one that was guarded", base, g.Sel.Name, base, sibling, base, g.Sel.Name)})
						}
					}
				}
				ast.Inspect(fd.Body, func(n ast.Node) bool {
					switch x := n.(type) {
					case *ast.BlockStmt:
						check(x.List)
					case *ast.CaseClause:
						check(x.Body)
					case *ast.CommClause:
						check(x.Body)
					}
					return true
				})
			}
		}
	}
	return res
}
