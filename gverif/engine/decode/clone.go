package decode

import (
	"fmt"
	"go/ast"
	"go/types"

	"gverif/core"
)

// CloneExempt lists "pkg.Type.field" whose sharing between a value and its
// clone is deliberate, with the reason.
var CloneExempt = map[string]string{
	"graph/formats/rdf.table.blanks": "documented: blanks is built once (isBlank is dropped) and never modified afterwards, so clones may share it",
}

// RunClone implements DECODE.clone: a clone method must not hand the
// receiver's slice or map fields to the copy — the copy would alias mutable
// state (the canonicalisation issuer appends to `ordered` after cloning).
func RunClone(conf core.Config, patterns ...string) *core.Result {
	res := core.NewResult("DECODE.clone")
	res.Rules = append(res.Rules, "DECODE.clone: a clone method gives every slice- or map-typed field of the copy fresh storage (never the receiver's own field value), except documented immutable fields")
	res.Configs = append(res.Configs, conf.String())
	pkgs, err := core.Load(conf, patterns...)
	if err != nil {
		res.Brokenf("%v", err)
		return res
	}
	for _, pkg := range pkgs {
		info := pkg.TypesInfo
		for _, f := range pkg.Syntax {
			for _, d := range f.Decls {
				fd, ok := d.(*ast.FuncDecl)
				if !ok || fd.Body == nil || fd.Recv == nil || (fd.Name.Name != "clone" && fd.Name.Name != "Clone") || len(fd.Recv.List[0].Names) != 1 {
					continue
				}
				recv := info.Defs[fd.Recv.List[0].Names[0]]
				rt := recv.Type()
				if p, ok := rt.(*types.Pointer); ok {
					rt = p.Elem()
				}
				named, ok := rt.(*types.Named)
				if !ok {
					continue
				}
				st, ok := named.Underlying().(*types.Struct)
				if !ok {
					continue
				}
				name := core.FuncName(pkg, fd)
				res.Count("clone_methods", 1)
				isRecvField := func(e ast.Expr, field string) bool {
					sel, ok := e.(*ast.SelectorExpr)
					if !ok || sel.Sel.Name != field {
						return false
					}
					id, ok := sel.X.(*ast.Ident)
					return ok && core.ObjOf(info, id) == recv
				}
				for i := 0; i < st.NumFields(); i++ {
					fld := st.Field(i)
					switch fld.Type().Underlying().(type) {
					case *types.Slice, *types.Map:
					default:
						continue
					}
					res.Obligations++
					res.Count("reference_fields_checked", 1)
					shared := ast.Node(nil)
					ast.Inspect(fd.Body, func(n ast.Node) bool {
						switch x := n.(type) {
						case *ast.KeyValueExpr:
							if k, ok := x.Key.(*ast.Ident); ok && k.Name == fld.Name() && isRecvField(x.Value, fld.Name()) {
								shared = x
							}
						case *ast.AssignStmt:
							for j, l := range x.Lhs {
								if sel, ok := l.(*ast.SelectorExpr); ok && sel.Sel.Name == fld.Name() && j < len(x.Rhs) {
									if id, ok := sel.X.(*ast.Ident); ok && core.ObjOf(info, id) != recv && isRecvField(x.Rhs[j], fld.Name()) {
										shared = x
									}
								}
							}
						}
						return true
					})
					if shared == nil {
						continue
					}
					key := core.RelPkg(pkg.PkgPath) + "." + named.Obj().Name() + "." + fld.Name()
					if _, ok := CloneExempt[key]; ok {
						res.Count("clone_shares_exempt_by_table", 1)
						continue
					}
					res.Add(core.Finding{Rule: "DECODE.clone", Key: "DECODE.clone|" + key, Pos: core.Pos(shared.Pos()), Func: name,
						Msg: fmt.Sprintf("%s hands the receiver's %s (a %s) to the copy: the clone and the original share mutable storage", name, fld.Name(), fld.Type())})
				}
			}
		}
	}
	return res
}
