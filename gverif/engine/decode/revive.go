package decode

import (
	"fmt"
	"go/ast"
	"go/types"

	"gverif/cfgx"
	"gverif/core"

	"golang.org/x/tools/go/cfg"
)

// RunRevive implements RESET.revive: a field that some method of a type
// retires by setting it to nil (the decoder drops its string table at EOF,
// an iterator drops its slice when exhausted) is re-established by Reset on
// every path, not only on the path taken for a fresh value. The rule is
// armed for map fields that are stored into (directly or through a method of
// the map's named type): a store into a nil map faults. A Reset that
// re-creates the field under a condition that was true for a new value
// (`if dec.ids == nil { … }`) works for every first use and leaves the nil
// in place after the first complete pass.
func RunRevive(conf core.Config, scope core.Scope) *core.Result {
	res := core.NewResult("REVIVE")
	res.Rules = append(res.Rules, "RESET.revive: every field that a method of a type sets to nil is assigned (a non-nil value) on every path of that type's Reset method to a return")
	res.Configs = append(res.Configs, conf.String())
	pkgs, err := core.Load(conf, scope.Patterns...)
	if err != nil {
		res.Brokenf("%v", err)
		return res
	}
	for _, pkg := range pkgs {
		info := pkg.TypesInfo
		type tinfo struct {
			reset   *ast.FuncDecl
			retired map[string]ast.Node // field -> a site that sets it to nil
		}
		types_ := map[*types.TypeName]*tinfo{}
		recvOf := func(fd *ast.FuncDecl) (*types.TypeName, types.Object) {
			if fd.Recv == nil || len(fd.Recv.List) != 1 || len(fd.Recv.List[0].Names) != 1 {
				return nil, nil
			}
			o := info.Defs[fd.Recv.List[0].Names[0]]
			if o == nil {
				return nil, nil
			}
			t := o.Type()
			if p, ok := t.(*types.Pointer); ok {
				t = p.Elem()
			}
			if n, ok := t.(*types.Named); ok {
				return n.Obj(), o
			}
			return nil, nil
		}
		fieldOfRecv := func(e ast.Expr, recv types.Object) string {
			sel, ok := ast.Unparen(e).(*ast.SelectorExpr)
			if !ok {
				return ""
			}
			id, ok := ast.Unparen(sel.X).(*ast.Ident)
			if !ok || core.ObjOf(info, id) != recv {
				return ""
			}
			return sel.Sel.Name
		}
		isNil := func(e ast.Expr) bool {
			id, ok := ast.Unparen(e).(*ast.Ident)
			if !ok {
				return false
			}
			_, isNilObj := info.Uses[id].(*types.Nil)
			return isNilObj
		}
		for _, file := range pkg.Syntax {
			for _, d := range file.Decls {
				fd, ok := d.(*ast.FuncDecl)
				if !ok || fd.Body == nil {
					continue
				}
				tn, recv := recvOf(fd)
				if tn == nil {
					continue
				}
				ti := types_[tn]
				if ti == nil {
					ti = &tinfo{retired: map[string]ast.Node{}}
					types_[tn] = ti
				}
				if fd.Name.Name == "Reset" {
					ti.reset = fd
					continue
				}
				ast.Inspect(fd.Body, func(n ast.Node) bool {
					as, ok := n.(*ast.AssignStmt)
					if !ok || len(as.Lhs) != len(as.Rhs) {
						return true
					}
					for i, l := range as.Lhs {
						if f := fieldOfRecv(l, recv); f != "" && isNil(as.Rhs[i]) {
							if _, dup := ti.retired[f]; !dup {
								ti.retired[f] = as
							}
						}
					}
					return true
				})
			}
		}
		for tn, ti := range types_ {
			if ti.reset == nil {
				continue
			}
			if !scope.InFile(ti.reset.Pos()) {
				continue
			}
			res.Count("types_with_reset", 1)
			if len(ti.retired) == 0 {
				continue
			}
			fd := ti.reset
			_, recv := recvOf(fd)
			name := core.FuncName(pkg, fd)
			g := cfgx.New(fd.Body, info)
			for f, site := range ti.retired {
				// Only map fields that are stored into matter: reading or
				// ranging over a nil map is legal (the lazy iterators retire
				// their maps for good once the slice is built), storing into
				// one faults.
				if !storedMapField(info, pkg.Syntax, tn, f) {
					res.Count("retired_fields_never_stored_into", 1)
					continue
				}
				res.Obligations++
				res.Count("fields_retired_with_nil", 1)
				assigns := func(nd ast.Node) bool {
					found := false
					ast.Inspect(nd, func(y ast.Node) bool {
						if as, ok := y.(*ast.AssignStmt); ok && len(as.Lhs) == len(as.Rhs) {
							for i, l := range as.Lhs {
								if fieldOfRecv(l, recv) == f && !isNil(as.Rhs[i]) {
									found = true
								}
							}
						}
						// *recv = T{...} re-creates every field
						if as, ok := y.(*ast.AssignStmt); ok && len(as.Lhs) == 1 {
							if st, ok := as.Lhs[0].(*ast.StarExpr); ok {
								if id, ok := ast.Unparen(st.X).(*ast.Ident); ok && core.ObjOf(info, id) == recv {
									found = true
								}
							}
						}
						return !found
					})
					return found
				}
				must := g.MustPass(func(b *cfg.Block) bool {
					for _, nd := range b.Nodes {
						if assigns(nd) {
							return true
						}
					}
					return false
				})
				reach := g.Reachable()
				bad := false
				for _, b := range g.Blocks {
					if !reach[b.Index] || len(b.Succs) != 0 {
						continue
					}
					isPanic := false
					if len(b.Nodes) > 0 {
						if es, ok := b.Nodes[len(b.Nodes)-1].(*ast.ExprStmt); ok {
							if c, ok := es.X.(*ast.CallExpr); ok && cfgx.IsPanic(info, c) {
								isPanic = true
							}
						}
					}
					if isPanic {
						continue
					}
					ok := must[b.Index]
					for _, nd := range b.Nodes {
						if assigns(nd) {
							ok = true
						}
					}
					if !ok {
						bad = true
					}
				}
				if bad {
					res.Add(core.Finding{Rule: "RESET.revive", Key: fmt.Sprintf("RESET.revive|%s|%s", name, f), Pos: core.Pos(fd.Pos()), Func: name,
						Msg: fmt.Sprintf("%s.%s is set to nil at %s, but %s does not assign it on every path: after that point a Reset leaves the nil in place and the next use of the %s faults or misbehaves", tn.Name(), f, core.Pos(site.Pos()), name, tn.Name())})
				}
			}
		}
	}
	return res
}

// storedMapField reports whether field f of tn has a map type and some code
// of the package stores into it: x.f[k] = v, or a call x.f.m(...) of a method
// of the field's named map type whose body stores into its receiver.
func storedMapField(info *types.Info, files []*ast.File, tn *types.TypeName, f string) bool {
	st, ok := tn.Type().Underlying().(*types.Struct)
	if !ok {
		return false
	}
	var ft types.Type
	for i := 0; i < st.NumFields(); i++ {
		if st.Field(i).Name() == f {
			ft = st.Field(i).Type()
		}
	}
	if ft == nil {
		return false
	}
	if _, isMap := ft.Underlying().(*types.Map); !isMap {
		return false
	}
	// methods of the field's named type that store into their receiver
	storing := map[string]bool{}
	if named, ok := ft.(*types.Named); ok {
		for _, file := range files {
			for _, d := range file.Decls {
				fd, ok := d.(*ast.FuncDecl)
				if !ok || fd.Body == nil || fd.Recv == nil || len(fd.Recv.List) != 1 || len(fd.Recv.List[0].Names) != 1 {
					continue
				}
				ro := info.Defs[fd.Recv.List[0].Names[0]]
				if ro == nil || !types.Identical(ro.Type(), named) {
					continue
				}
				ast.Inspect(fd.Body, func(n ast.Node) bool {
					if as, ok := n.(*ast.AssignStmt); ok {
						for _, l := range as.Lhs {
							if ix, ok := ast.Unparen(l).(*ast.IndexExpr); ok {
								if id, ok := ast.Unparen(ix.X).(*ast.Ident); ok && core.ObjOf(info, id) == ro {
									storing[fd.Name.Name] = true
								}
							}
						}
					}
					return true
				})
			}
		}
	}
	isField := func(e ast.Expr) bool {
		sel, ok := ast.Unparen(e).(*ast.SelectorExpr)
		if !ok || sel.Sel.Name != f {
			return false
		}
		s, ok := info.Selections[sel]
		if !ok || s.Kind() != types.FieldVal {
			return false
		}
		t := s.Recv()
		if p, ok := t.(*types.Pointer); ok {
			t = p.Elem()
		}
		n, ok := t.(*types.Named)
		return ok && n.Obj() == tn
	}
	found := false
	for _, file := range files {
		ast.Inspect(file, func(n ast.Node) bool {
			switch x := n.(type) {
			case *ast.AssignStmt:
				for _, l := range x.Lhs {
					if ix, ok := ast.Unparen(l).(*ast.IndexExpr); ok && isField(ix.X) {
						found = true
					}
				}
			case *ast.CallExpr:
				if sel, ok := x.Fun.(*ast.SelectorExpr); ok && storing[sel.Sel.Name] && isField(sel.X) {
					found = true
				}
			}
			return !found
		})
	}
	return found
}
