// Package okflow implements the OKFLOW engine: status discipline.
// See DESIGN.md §3.6.
package okflow

import (
	"fmt"
	"go/ast"
	"go/constant"
	"go/token"
	"go/types"
	"strings"

	"gverif/cfgx"
	"gverif/core"

	"golang.org/x/tools/go/cfg"
	"golang.org/x/tools/go/packages"
	"golang.org/x/tools/go/types/typeutil"
)

// Exempt lists call sites (by "caller->callee") whose dropped status was
// confirmed legitimate, with the reason.
var Exempt = map[string]string{
	"lapack/gonum.Implementation.Dtrexc->Dlaexc":  "swaps of adjacent 1x1 blocks (n1 == n2 == 1) cannot fail; the reference ignores INFO there as well",
	"lapack/gonum.Implementation.Dlaexc->Dlasy2":  "ok == false only says TL/TR were perturbed; Dlaexc applies its own weak-stability test to the result (the reference ignores IERR)",
	"lapack/gonum.Implementation.Dlaqr23->Dtrexc": "the reference DLAQR3 ignores INFO of DTREXC: a failed swap leaves T in Schur form and deflation simply proceeds",
	"lapack/gonum.Implementation.Dtrevc3->Dlaln2": "ok == false only signals that a near-singular 1x1/2x2 system was perturbed; scale and xnorm are honoured (the reference ignores IERR)",
	"lapack/gonum.Implementation.Dgeev->Dtrevc3":  "called with EVAllMulQ: all n eigenvectors are computed, so the returned column count is n by construction",
	"mat.Cholesky.ExtendVecSym->SolveVec":         "explicit `_ =`: a Condition error is advisory and the solution is still stored; positive definiteness of the extension is decided by the dot >= k test that follows",
	"mat.Dense.Exp->Solve":                        "explicit `_ =`: Pade denominator after scaling; a Condition error is advisory and the result is still stored",
}

// statusResults returns the indices of status results of a callee: any
// bool (or int named unconverged/first/info) result of a LAPACK routine,
// results named ok or of type error for mat.
func statusResults(fn *types.Func) []int {
	if fn == nil || fn.Pkg() == nil {
		return nil
	}
	path := fn.Pkg().Path()
	sig := fn.Type().(*types.Signature)
	var out []int
	lap := strings.HasSuffix(path, "lapack/gonum") || strings.HasSuffix(path, "lapack/lapack64") || strings.HasSuffix(path, "gonum/lapack")
	isMat := strings.HasSuffix(path, "gonum/mat")
	if !lap && !isMat {
		return nil
	}
	for i := 0; i < sig.Results().Len(); i++ {
		r := sig.Results().At(i)
		b, isBasic := r.Type().Underlying().(*types.Basic)
		switch {
		case lap && isBasic && b.Kind() == types.Bool:
			out = append(out, i)
		case lap && isBasic && b.Kind() == types.Int && (r.Name() == "unconverged" || r.Name() == "first" || r.Name() == "info"):
			out = append(out, i)
		case isMat && isBasic && b.Kind() == types.Bool && r.Name() == "ok":
			out = append(out, i)
		case isMat && types.Identical(r.Type(), types.Universe.Lookup("error").Type()):
			out = append(out, i)
		}
	}
	return out
}

func isQuery(info *types.Info, c *ast.CallExpr, fn *types.Func) bool {
	sig := fn.Type().(*types.Signature)
	if sig.Params().Len() != len(c.Args) {
		return false
	}
	for i := 0; i < sig.Params().Len(); i++ {
		if sig.Params().At(i).Name() == "lwork" {
			if tv, ok := info.Types[c.Args[i]]; ok && tv.Value != nil {
				if v, ok := constant.Int64Val(tv.Value); ok && v == -1 {
					return true
				}
			}
		}
	}
	return false
}

// Run checks the packages.
func Run(cfg core.Config, scope core.Scope) *core.Result {
	res := core.NewResult("OKFLOW")
	res.Rules = append(res.Rules,
		"OKFLOW.condpath: in Solve*/Inverse* methods of types with a cond field every `return nil` is preceded on all paths by a test of the receiver's cond against ConditionTolerance",
		"OKFLOW.loopstatus: a status assigned inside a loop is read before the same assignment overwrites it in the next iteration",
		"OKFLOW.use: the ok/error/unconverged result of every non-query call to a LAPACK routine or mat factorization/solver reaches a branch, a field, a return or another call",
		"OKFLOW.discard: no value-returning LAPACK routine is called as a bare statement with all results discarded",
		"OKFLOW.cond: every error-returning Solve*/Inverse* method of mat can return Condition; a finite Condition(x) is returned exactly under x > ConditionTolerance; Condition(+Inf) only under a failed status")
	res.Configs = append(res.Configs, cfg.String())
	pkgs, err := core.Load(cfg, scope.Patterns...)
	if err != nil {
		res.Brokenf("%v", err)
		return res
	}
	used := map[string]bool{}
	for _, pkg := range pkgs {
		for _, f := range pkg.Syntax {
			if !scope.InFile(f.Pos()) {
				continue
			}
			for _, d := range f.Decls {
				fd, ok := d.(*ast.FuncDecl)
				if !ok || fd.Body == nil {
					continue
				}
				checkUse(res, pkg, fd, used)
			}
		}
		if strings.HasSuffix(pkg.PkgPath, "gonum/mat") {
			checkCond(res, pkg)
			checkCondPath(res, pkg)
		}
	}
	if scope.Files == nil {
		for k := range Exempt {
			if !used[k] && containsPkg(pkgs, strings.SplitN(k, ".", 2)[0]) {
				res.Stale("stale exemption OKFLOW.use %s", k)
			}
		}
	}
	return res
}

func containsPkg(pkgs []*packages.Package, rel string) bool {
	for _, p := range pkgs {
		if core.RelPkg(p.PkgPath) == rel {
			return true
		}
	}
	return false
}

func checkUse(res *core.Result, pkg *packages.Package, fd *ast.FuncDecl, used map[string]bool) {
	info := pkg.TypesInfo
	name := core.FuncName(pkg, fd)
	par := cfgx.Parents(fd.Body)
	var g *cfgx.Graph
	graph := func() *cfgx.Graph {
		if g == nil {
			g = cfgx.New(fd.Body, info)
		}
		return g
	}
	named := map[types.Object]bool{}
	if fd.Type.Results != nil {
		for _, f := range fd.Type.Results.List {
			for _, n := range f.Names {
				named[info.Defs[n]] = true
			}
		}
	}
	selfFn, _ := info.Defs[fd.Name].(*types.Func)
	selfStatus := false
	if selfFn != nil {
		sig := selfFn.Type().(*types.Signature)
		for i := 0; i < sig.Results().Len(); i++ {
			if b, ok := sig.Results().At(i).Type().Underlying().(*types.Basic); ok && b.Kind() == types.Bool {
				selfStatus = len(statusResults(selfFn)) > 0
			}
		}
	}
	report := func(c *ast.CallExpr, fn *types.Func, how string) {
		key := name + "->" + fn.Name()
		if _, ok := Exempt[key]; ok {
			used[key] = true
			res.Count("status_drops_exempt_by_table", 1)
			return
		}
		res.Add(core.Finding{
			Rule: "OKFLOW.use",
			Key:  fmt.Sprintf("OKFLOW.use|%s|%s", name, fn.Name()),
			Pos:  core.Pos(c.Pos()), Func: name,
			Msg: fmt.Sprintf("the status result of %s is %s; a failure would go unreported", fn.Name(), how),
		})
	}
	ast.Inspect(fd.Body, func(n ast.Node) bool {
		c, ok := n.(*ast.CallExpr)
		if !ok {
			return true
		}
		fn, _ := typeutil.Callee(info, c).(*types.Func)
		st := statusResults(fn)
		if len(st) == 0 {
			// OKFLOW.discard: a LAPACK routine that returns values (a count
			// of columns factorized, a norm, a scale) is never called as a
			// bare statement.
			if fn != nil && fn.Pkg() != nil && (strings.HasSuffix(fn.Pkg().Path(), "lapack/gonum") || strings.HasSuffix(fn.Pkg().Path(), "lapack/lapack64") || strings.HasSuffix(fn.Pkg().Path(), "gonum/lapack")) &&
				fn.Type().(*types.Signature).Results().Len() > 0 && fn.Type().(*types.Signature).Recv() != nil && !isQuery(info, c, fn) {
				res.Obligations++
				res.Count("value_returning_lapack_calls", 1)
				if _, bare := par[c].(*ast.ExprStmt); bare {
					key := name + "->" + fn.Name()
					if _, ok := Exempt[key]; ok {
						used[key] = true
						res.Count("status_drops_exempt_by_table", 1)
					} else {
						res.Add(core.Finding{
							Rule: "OKFLOW.discard",
							Key:  fmt.Sprintf("OKFLOW.discard|%s|%s", name, fn.Name()),
							Pos:  core.Pos(c.Pos()), Func: name,
							Msg: fmt.Sprintf("every result of %s is discarded (call used as a statement): the value it reports (e.g. how much work was actually done) is lost", fn.Name()),
						})
					}
				}
			}
			return true
		}
		if isQuery(info, c, fn) {
			res.Count("query_calls_skipped", 1)
			return true
		}
		res.Obligations++
		res.Count("status_call_sites", 1)
		if len(res.Samples) < 5 {
			res.Sample(map[string]any{"rule": "OKFLOW.use", "caller": name, "callee": fn.Name(), "at": core.Pos(c.Pos())})
		}
		switch p := par[c].(type) {
		case *ast.ExprStmt:
			report(c, fn, "discarded (call used as a statement)")
		case *ast.AssignStmt:
			nres := fn.Type().(*types.Signature).Results().Len()
			if len(p.Rhs) != 1 || len(p.Lhs) != nres {
				return true // single-value context: consumed by an expression
			}
			for _, idx := range st {
				lhs := p.Lhs[idx]
				id, isIdent := lhs.(*ast.Ident)
				if !isIdent {
					continue // stored into a field / element: consumed
				}
				if id.Name == "_" {
					report(c, fn, "assigned to the blank identifier")
					continue
				}
				obj := core.ObjOf(info, id)
				if obj == nil {
					continue
				}
				if !reachesUse(graph(), info, p, obj, named[obj]) {
					report(c, fn, fmt.Sprintf("assigned to %s and never read before being overwritten or going out of scope", id.Name))
					continue
				}
				// OKFLOW.loopstatus: in a loop, the status of one iteration
				// must be read before the same statement overwrites it in
				// the next iteration (ok = f() per panel keeps only the last
				// panel's status).
				if inLoop(par, p) {
					res.Obligations++
					res.Count("status_assignments_in_loops", 1)
					if overwritesItself(graph(), info, p, obj) {
						res.Add(core.Finding{
							Rule: "OKFLOW.loopstatus",
							Key:  fmt.Sprintf("OKFLOW.loopstatus|%s|%s", name, fn.Name()),
							Pos:  core.Pos(c.Pos()), Func: name,
							Msg: fmt.Sprintf("the status of %s is assigned to %s inside a loop and can be overwritten by the next iteration without having been read: only the last iteration's status survives", fn.Name(), id.Name),
						})
					}
				}
				if selfStatus {
					res.Obligations++
					res.Count("status_propagation_sites", 1)
					if at := constTrueReturn(graph(), info, p, obj, named[obj]); at != nil {
						res.Add(core.Finding{
							Rule: "OKFLOW.report",
							Key:  fmt.Sprintf("OKFLOW.report|%s|%s", name, fn.Name()),
							Pos:  core.Pos(at.Pos()), Func: name,
							Msg:  fmt.Sprintf("a success status (constant true) is returned on a path from the %s call that never tests its status %s", fn.Name(), id.Name),
							Path: []string{"status: " + core.Pos(c.Pos()), "return: " + core.Pos(at.Pos())},
						})
					}
				}
			}
		case *ast.DeferStmt, *ast.GoStmt:
			report(c, fn, "discarded (deferred/spawned call)")
		}
		return true
	})
}

func inLoop(par map[ast.Node]ast.Node, n ast.Node) bool {
	for p := par[n]; p != nil; p = par[p] {
		switch p.(type) {
		case *ast.ForStmt, *ast.RangeStmt:
			return true
		case *ast.FuncLit:
			return false
		}
	}
	return false
}

// overwritesItself reports whether the assignment def can be reached again
// from itself along a path on which obj is not read.
func overwritesItself(g *cfgx.Graph, info *types.Info, def ast.Node, obj types.Object) bool {
	loc, ok := g.Where[def]
	if !ok {
		return false
	}
	readsObj := func(n ast.Node) (read bool) {
		ast.Inspect(n, func(x ast.Node) bool {
			switch s := x.(type) {
			case *ast.AssignStmt:
				for _, l := range s.Lhs {
					if id, ok := l.(*ast.Ident); ok && core.ObjOf(info, id) == obj {
						if s.Tok != token.ASSIGN && s.Tok != token.DEFINE {
							read = true
						}
					} else if r, _ := readsIn(info, l, obj); r {
						read = true
					}
				}
				for _, r := range s.Rhs {
					if rr, _ := readsIn(info, r, obj); rr {
						read = true
					}
				}
				return false
			case *ast.Ident:
				if core.ObjOf(info, s) == obj {
					read = true
				}
			}
			return true
		})
		return
	}
	seen := map[int32]bool{}
	var walk func(b *cfg.Block, from int) bool
	walk = func(b *cfg.Block, from int) bool {
		for i := from; i < len(b.Nodes); i++ {
			if b.Index == loc.Block && i == loc.Index {
				return true // back at the assignment, unread
			}
			if readsObj(b.Nodes[i]) {
				return false
			}
		}
		for _, s := range b.Succs {
			if s.Index == loc.Block {
				// re-entering the defining block from its start
				reached := true
				for i := 0; i < loc.Index; i++ {
					if readsObj(s.Nodes[i]) {
						reached = false
						break
					}
				}
				if reached {
					return true
				}
				continue
			}
			if seen[s.Index] {
				continue
			}
			seen[s.Index] = true
			if walk(s, 0) {
				return true
			}
		}
		return false
	}
	return walk(g.Blocks[loc.Block], loc.Index+1)
}

// reachesUse reports whether some path from the definition reaches a read
// of obj before another write (or the function exit for named results).
func reachesUse(g *cfgx.Graph, info *types.Info, def ast.Node, obj types.Object, isNamedResult bool) bool {
	loc, ok := g.Where[def]
	if !ok {
		return true // inside a closure etc.: do not guess
	}
	reads := func(n ast.Node, skipLHSOf *ast.AssignStmt) (read, write bool) {
		ast.Inspect(n, func(x ast.Node) bool {
			switch s := x.(type) {
			case *ast.AssignStmt:
				for _, l := range s.Lhs {
					if id, ok := l.(*ast.Ident); ok && core.ObjOf(info, id) == obj {
						if s.Tok != token.ASSIGN && s.Tok != token.DEFINE {
							read = true
						}
						write = true
					} else {
						r, _ := readsIn(info, l, obj)
						read = read || r
					}
				}
				for _, r := range s.Rhs {
					rr, _ := readsIn(info, r, obj)
					read = read || rr
				}
				return false
			case *ast.Ident:
				if core.ObjOf(info, s) == obj {
					read = true
				}
			case *ast.ReturnStmt:
				if len(s.Results) == 0 && isNamedResult {
					read = true
				}
			}
			return true
		})
		return
	}
	seen := map[int32]bool{}
	var walk func(b *cfg.Block, from int) bool
	walk = func(b *cfg.Block, from int) bool {
		for i := from; i < len(b.Nodes); i++ {
			r, w := reads(b.Nodes[i], nil)
			if r {
				return true
			}
			if w {
				return false
			}
		}
		if len(b.Succs) == 0 {
			return isNamedResult && b.Kind != cfg.KindUnreachable
		}
		for _, s := range b.Succs {
			if seen[s.Index] {
				continue
			}
			seen[s.Index] = true
			if walk(s, 0) {
				return true
			}
		}
		return false
	}
	return walk(g.Blocks[loc.Block], loc.Index+1)
}

// constTrueReturn looks for a `return ..., true` reachable from def along
// a path on which no branch condition reads obj (and obj is not reassigned
// or returned).
func constTrueReturn(g *cfgx.Graph, info *types.Info, def ast.Node, obj types.Object, isNamedResult bool) ast.Node {
	loc, ok := g.Where[def]
	if !ok {
		return nil
	}
	isTrue := func(e ast.Expr) bool {
		tv, ok := info.Types[e]
		return ok && tv.Value != nil && tv.Value.Kind() == constant.Bool && constant.BoolVal(tv.Value)
	}
	seen := map[int32]bool{}
	var found ast.Node
	var walk func(b *cfg.Block, from int)
	walk = func(b *cfg.Block, from int) {
		if found != nil {
			return
		}
		for i := from; i < len(b.Nodes); i++ {
			n := b.Nodes[i]
			if rs, ok := n.(*ast.ReturnStmt); ok {
				for _, r := range rs.Results {
					if isTrue(r) {
						found = rs
						return
					}
				}
				return
			}
			if as, ok := n.(*ast.AssignStmt); ok {
				// the status flows into something else (ok = ok && x, field store): stop tracking
				if r, _ := readsIn(info, as, obj); r {
					return
				}
			}
		}
		// Follow the path on which the status is false: prune branches on
		// the status variable itself; any other read (passing it on,
		// storing it, combining it) counts as handling.
		var tri func(e ast.Expr) int
		tri = func(e ast.Expr) int {
			switch x := e.(type) {
			case *ast.ParenExpr:
				return tri(x.X)
			case *ast.Ident:
				if core.ObjOf(info, x) == obj {
					return -1
				}
			case *ast.UnaryExpr:
				if x.Op == token.NOT {
					return -tri(x.X)
				}
			case *ast.BinaryExpr:
				l, r := tri(x.X), tri(x.Y)
				switch x.Op {
				case token.LAND:
					if l == -1 || r == -1 {
						return -1
					}
					if l == 1 && r == 1 {
						return 1
					}
				case token.LOR:
					if l == 1 || r == 1 {
						return 1
					}
					if l == -1 && r == -1 {
						return -1
					}
				}
			}
			return 0
		}
		cond := cfgx.Cond(b)
		for i := from; i < len(b.Nodes); i++ {
			if ast.Node(cond) == b.Nodes[i] {
				continue
			}
			if r, _ := readsIn(info, b.Nodes[i], obj); r && b.Nodes[i] != def {
				return
			}
		}
		if cond != nil {
			t := tri(cond)
			if t == 0 {
				if r, _ := readsIn(info, cond, obj); r {
					return // an opaque test involving the status: assume handled
				}
			}
			for i, s := range b.Succs {
				if (t == 1 && i == 1) || (t == -1 && i == 0) {
					continue
				}
				if !seen[s.Index] {
					seen[s.Index] = true
					walk(s, 0)
				}
			}
			return
		}
		for _, s := range b.Succs {
			if !seen[s.Index] {
				seen[s.Index] = true
				walk(s, 0)
			}
		}
	}
	walk(g.Blocks[loc.Block], loc.Index+1)
	return found
}

func readsIn(info *types.Info, e ast.Node, obj types.Object) (bool, bool) {
	found := false
	ast.Inspect(e, func(x ast.Node) bool {
		if id, ok := x.(*ast.Ident); ok && core.ObjOf(info, id) == obj {
			found = true
		}
		return !found
	})
	return found, false
}

// ---------------------------------------------------------------------
// OKFLOW.cond

type condSummary struct {
	finite bool // has a guarded `return Condition(x)` for finite x
	inf    bool // has `return Condition(math.Inf(1))`
	delegs []*types.Func
}

func isConditionCall(info *types.Info, e ast.Expr) (arg ast.Expr, ok bool) {
	c, isCall := e.(*ast.CallExpr)
	if !isCall || len(c.Args) != 1 {
		return nil, false
	}
	id, isIdent := c.Fun.(*ast.Ident)
	if !isIdent || id.Name != "Condition" {
		return nil, false
	}
	if tn, isType := info.Uses[id].(*types.TypeName); !isType || tn.Pkg() == nil || !strings.HasSuffix(tn.Pkg().Path(), "gonum/mat") {
		return nil, false
	}
	return c.Args[0], true
}

func isInf(e ast.Expr) bool {
	c, ok := e.(*ast.CallExpr)
	if !ok {
		return false
	}
	sel, ok := c.Fun.(*ast.SelectorExpr)
	return ok && sel.Sel.Name == "Inf"
}

func checkCond(res *core.Result, pkg *packages.Package) {
	info := pkg.TypesInfo
	tolObj := pkg.Types.Scope().Lookup("ConditionTolerance")
	if tolObj == nil {
		res.Brokenf("mat.ConditionTolerance not found")
		return
	}
	errType := types.Universe.Lookup("error").Type()
	sums := map[*types.Func]*condSummary{}
	decls := map[*types.Func]*ast.FuncDecl{}
	for _, f := range pkg.Syntax {
		for _, d := range f.Decls {
			fd, ok := d.(*ast.FuncDecl)
			if !ok || fd.Body == nil {
				continue
			}
			fn, _ := info.Defs[fd.Name].(*types.Func)
			if fn == nil {
				continue
			}
			sig := fn.Type().(*types.Signature)
			hasErr := false
			for i := 0; i < sig.Results().Len(); i++ {
				if types.Identical(sig.Results().At(i).Type(), errType) {
					hasErr = true
				}
			}
			if !hasErr {
				continue
			}
			decls[fn] = fd
			sums[fn] = summarise(res, pkg, fd, tolObj)
		}
	}
	// closure over delegation
	strong := func(fn *types.Func) (finite, any bool) {
		seen := map[*types.Func]bool{}
		var walk func(f *types.Func)
		walk = func(f *types.Func) {
			if seen[f] {
				return
			}
			seen[f] = true
			s := sums[f]
			if s == nil {
				return
			}
			if s.finite {
				finite, any = true, true
			}
			if s.inf {
				any = true
			}
			for _, d := range s.delegs {
				walk(d)
			}
		}
		walk(fn)
		return
	}
	for fn, fd := range decls {
		n := fn.Name()
		if !fn.Exported() || !(strings.HasPrefix(n, "Solve") || strings.HasPrefix(n, "Inverse")) {
			continue
		}
		sig := fn.Type().(*types.Signature)
		if sig.Recv() == nil {
			continue
		}
		name := core.FuncName(pkg, fd)
		res.Obligations++
		res.Count("solver_methods", 1)
		finite, any := strong(fn)
		if !any {
			res.Add(core.Finding{
				Rule: "OKFLOW.cond",
				Key:  fmt.Sprintf("OKFLOW.cond|%s|never", name),
				Pos:  core.Pos(fd.Pos()), Func: name,
				Msg: "error-returning solver can never return a Condition error (neither directly nor through a callee): near-singularity would be silent",
			})
			continue
		}
		// receivers that keep a condition estimate must report it
		rt := sig.Recv().Type()
		if p, ok := rt.(*types.Pointer); ok {
			rt = p.Elem()
		}
		if st, ok := rt.Underlying().(*types.Struct); ok {
			hasCond := false
			for i := 0; i < st.NumFields(); i++ {
				if st.Field(i).Name() == "cond" {
					hasCond = true
				}
			}
			if hasCond {
				res.Obligations++
				res.Count("solver_methods_with_cond_field", 1)
				if !finite {
					res.Add(core.Finding{
						Rule: "OKFLOW.cond",
						Key:  fmt.Sprintf("OKFLOW.cond|%s|cond-field", name),
						Pos:  core.Pos(fd.Pos()), Func: name,
						Msg: "the receiver stores a condition estimate (field cond) but this solver never returns Condition(cond) under cond > ConditionTolerance",
					})
				}
			}
		}
	}
}

func summarise(res *core.Result, pkg *packages.Package, fd *ast.FuncDecl, tolObj types.Object) *condSummary {
	info := pkg.TypesInfo
	s := &condSummary{}
	par := cfgx.Parents(fd.Body)
	name := core.FuncName(pkg, fd)
	ast.Inspect(fd.Body, func(n ast.Node) bool {
		if _, ok := n.(*ast.FuncLit); ok {
			return false
		}
		rs, ok := n.(*ast.ReturnStmt)
		if !ok {
			return true
		}
		for _, r := range rs.Results {
			if arg, ok := isConditionCall(info, r); ok {
				res.Obligations++
				res.Count("condition_returns", 1)
				// enclosing if conditions
				var conds []ast.Expr
				var child ast.Node = rs
				for p := par[rs]; p != nil; child, p = p, par[p] {
					if is, ok := p.(*ast.IfStmt); ok && child == is.Body {
						conds = append(conds, is.Cond)
					}
				}
				if isInf(arg) {
					s.inf = true
					okGuard := false
					for _, c := range conds {
						ast.Inspect(c, func(x ast.Node) bool {
							if e, ok := x.(ast.Expr); ok {
								if tv, ok := info.Types[e]; ok && tv.Type != nil {
									if b, ok := tv.Type.Underlying().(*types.Basic); ok && b.Kind() == types.Bool {
										switch e.(type) {
										case *ast.Ident, *ast.SelectorExpr:
											okGuard = true
										}
									}
								}
							}
							return true
						})
					}
					if !okGuard {
						res.Add(core.Finding{
							Rule: "OKFLOW.cond",
							Key:  fmt.Sprintf("OKFLOW.cond|%s|inf-unguarded", name),
							Pos:  core.Pos(rs.Pos()), Func: name,
							Msg: "Condition(+Inf) is returned without being guarded by a status (ok) test",
						})
					}
					continue
				}
				// finite: need `arg > ConditionTolerance` with the same arg
				want := types.ExprString(arg)
				guarded := false
				for _, c := range conds {
					ast.Inspect(c, func(x ast.Node) bool {
						be, ok := x.(*ast.BinaryExpr)
						if !ok {
							return true
						}
						var l, r ast.Expr = be.X, be.Y
						op := be.Op
						if op == token.LSS || op == token.LEQ {
							l, r = r, l
							if op == token.LSS {
								op = token.GTR
							} else {
								op = token.GEQ
							}
						}
						if op != token.GTR {
							return true
						}
						rid, ok := r.(*ast.Ident)
						if !ok || core.ObjOf(info, rid) != tolObj {
							return true
						}
						if types.ExprString(l) == want {
							guarded = true
						}
						return true
					})
				}
				if !guarded {
					// second idiom: `if math.IsInf(x, 1) { return Condition(x) }`
					for _, c := range conds {
						if call, ok := c.(*ast.CallExpr); ok && len(call.Args) == 2 {
							if sel, ok := call.Fun.(*ast.SelectorExpr); ok && sel.Sel.Name == "IsInf" && types.ExprString(call.Args[0]) == want {
								guarded = true
								s.inf = true
							}
						}
					}
					if guarded {
						continue
					}
				}
				if guarded {
					s.finite = true
				} else {
					res.Add(core.Finding{
						Rule: "OKFLOW.cond",
						Key:  fmt.Sprintf("OKFLOW.cond|%s|finite-guard", name),
						Pos:  core.Pos(rs.Pos()), Func: name,
						Msg: fmt.Sprintf("Condition(%s) is not returned under the guard %s > ConditionTolerance", want, want),
					})
				}
				continue
			}
			// delegation: return x.Method(...) or return err where err := callee(...)
			if c, ok := r.(*ast.CallExpr); ok {
				if fn, _ := typeutil.Callee(info, c).(*types.Func); fn != nil {
					s.delegs = append(s.delegs, fn)
				}
			}
		}
		return true
	})
	// `err := x.SolveTo(...)` / `return err` style delegation: any call to a
	// mat error-returning function whose error is assigned counts as a
	// delegate (OKFLOW.use guarantees the value is not dropped).
	ast.Inspect(fd.Body, func(n ast.Node) bool {
		c, ok := n.(*ast.CallExpr)
		if !ok {
			return true
		}
		if fn, _ := typeutil.Callee(info, c).(*types.Func); fn != nil && fn.Pkg() == pkg.Types && len(statusResults(fn)) > 0 {
			if _, isStmt := par[c].(*ast.ExprStmt); !isStmt {
				s.delegs = append(s.delegs, fn)
			}
		}
		return true
	})
	return s
}
