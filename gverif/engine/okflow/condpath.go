package okflow

import (
	"fmt"
	"go/ast"
	"go/types"
	"strings"

	"gverif/cfgx"
	"gverif/core"

	"golang.org/x/tools/go/cfg"
	"golang.org/x/tools/go/packages"
)

// checkCondPath implements OKFLOW.condpath: a Solve*/Inverse* method of a
// type that keeps a condition estimate in a `cond` field reports it on every
// arm — each `return nil` is preceded, on every path from the entry, by a
// branch whose condition compares the receiver's cond with
// ConditionTolerance. OKFLOW.cond asks only that the method *can* return
// Condition; a fast path (say, for RawVectorer right-hand sides) that
// returns nil without the test is invisible to it.
func checkCondPath(res *core.Result, pkg *packages.Package) {
	info := pkg.TypesInfo
	for _, f := range pkg.Syntax {
		for _, d := range f.Decls {
			fd, ok := d.(*ast.FuncDecl)
			if !ok || fd.Body == nil || fd.Recv == nil || len(fd.Recv.List) == 0 || len(fd.Recv.List[0].Names) == 0 {
				continue
			}
			if !strings.HasPrefix(fd.Name.Name, "Solve") && !strings.HasPrefix(fd.Name.Name, "Inverse") {
				continue
			}
			recv := info.Defs[fd.Recv.List[0].Names[0]]
			if recv == nil {
				continue
			}
			rt := recv.Type()
			if p, ok := rt.(*types.Pointer); ok {
				rt = p.Elem()
			}
			st, ok := rt.Underlying().(*types.Struct)
			if !ok {
				continue
			}
			hasCond := false
			for i := 0; i < st.NumFields(); i++ {
				if st.Field(i).Name() == "cond" {
					hasCond = true
				}
			}
			if !hasCond {
				continue
			}
			name := core.FuncName(pkg, fd)
			g := cfgx.New(fd.Body, info)
			tests := func(c ast.Expr) bool {
				cond, tol := false, false
				ast.Inspect(c, func(n ast.Node) bool {
					switch x := n.(type) {
					case *ast.SelectorExpr:
						if x.Sel.Name == "cond" {
							if id, ok := ast.Unparen(x.X).(*ast.Ident); ok && core.ObjOf(info, id) == recv {
								cond = true
							}
						}
					case *ast.Ident:
						if x.Name == "ConditionTolerance" {
							tol = true
						}
					}
					return true
				})
				return cond && tol
			}
			passed := g.MustPass(func(b *cfg.Block) bool {
				c := cfgx.Cond(b)
				return c != nil && tests(c)
			})
			reach := g.Reachable()
			for _, b := range g.Blocks {
				if !reach[b.Index] {
					continue
				}
				for _, n := range b.Nodes {
					rs, ok := n.(*ast.ReturnStmt)
					if !ok || len(rs.Results) == 0 {
						continue
					}
					id, ok := rs.Results[len(rs.Results)-1].(*ast.Ident)
					if !ok || id.Name != "nil" {
						continue
					}
					res.Obligations++
					res.Count("success_returns_of_conditioned_solvers", 1)
					if !passed[b.Index] {
						res.Add(core.Finding{Rule: "OKFLOW.condpath", Key: fmt.Sprintf("OKFLOW.condpath|%s", name), Pos: core.Pos(rs.Pos()), Func: name,
							Msg: fmt.Sprintf("%s returns nil here on a path that never compares %s.cond with ConditionTolerance: on this arm an ill-conditioned system is solved without the Condition error the other arms report", fd.Name.Name, recv.Name())})
					}
				}
			}
		}
	}
}
