// Package swapx implements SWAP.cond: an ordering swap exchanges the two
// variables it has just compared.
//
//	if r < j { r, j = j, r }
//
// The idiom puts two quantities in order (largest magnitude first, low index
// before high, smaller ID first). When the guard compares two plain variables
// and the guarded statement swaps two plain variables, the two pairs must be
// the same pair or unrelated (a guard on derived values such as IDs); a guard
// that shares exactly one variable with the swap compares a bystander, so
// the pair is left in the wrong order for some inputs (`if i < j { r, j = j, r }`).
package swapx

import (
	"fmt"
	"go/ast"
	"go/token"
	"go/types"
	"strings"

	"gverif/core"
)

func Run(cfg core.Config, scope core.Scope) *core.Result {
	res := core.NewResult("SWAP")
	res.Rules = append(res.Rules, "CMPLX.parts: no complex(A, A) whose two identical arguments are built from real(x) or imag(x) of an operand")
	res.Rules = append(res.Rules, "SWAP.cond: `if a OP b { x, y = y, x … }` with OP an ordering comparison of two variables and a swap of two variables: {a, b} and {x, y} share both variables or none")
	res.Configs = append(res.Configs, cfg.String())
	pkgs, err := core.Load(cfg, scope.Patterns...)
	if err != nil {
		res.Brokenf("%v", err)
		return res
	}
	for _, pkg := range pkgs {
		info := pkg.TypesInfo
		for _, file := range pkg.Syntax {
			if !scope.InFile(file.Pos()) {
				continue
			}
			for _, d := range file.Decls {
				fd, ok := d.(*ast.FuncDecl)
				if !ok || fd.Body == nil {
					continue
				}
				name := core.FuncName(pkg, fd)
				// CMPLX.parts: complex(A, A)
				ast.Inspect(fd.Body, func(n ast.Node) bool {
					c, ok := n.(*ast.CallExpr)
					if !ok || len(c.Args) != 2 {
						return true
					}
					id, ok := c.Fun.(*ast.Ident)
					if !ok || id.Name != "complex" {
						return true
					}
					if _, isBuiltin := info.Uses[id].(*types.Builtin); !isBuiltin {
						return true
					}
					res.Obligations++
					res.Count("complex_constructions", 1)
					if tv, ok := info.Types[c.Args[0]]; ok && tv.Value != nil {
						return true
					}
					a, b := types.ExprString(c.Args[0]), types.ExprString(c.Args[1])
					pure := true
					ast.Inspect(c.Args[0], func(y ast.Node) bool {
						if cc, ok := y.(*ast.CallExpr); ok {
							if f, ok := cc.Fun.(*ast.Ident); !ok || (f.Name != "real" && f.Name != "imag" && f.Name != "float64" && f.Name != "float32") {
								pure = false
							}
						}
						return true
					})
					if a == b && pure && (strings.Contains(a, "real(") || strings.Contains(a, "imag(")) {
						res.Add(core.Finding{Rule: "CMPLX.parts", Key: fmt.Sprintf("CMPLX.parts|%s|%s", name, a), Pos: core.Pos(c.Pos()), Func: name,
							Msg: fmt.Sprintf("complex(%s, %s) builds both parts of the result from the same part of its operand: the other part of the input is dropped", a, b)})
					}
					return true
				})
				// the same ordering written with the builtins:
				// xid, yid := min(fid, tid), max(fid, tid)
				ast.Inspect(fd.Body, func(n ast.Node) bool {
					as, ok := n.(*ast.AssignStmt)
					if !ok || len(as.Lhs) != 2 || len(as.Rhs) != 2 {
						return true
					}
					var calls [2]*ast.CallExpr
					for i, r := range as.Rhs {
						c, ok := ast.Unparen(r).(*ast.CallExpr)
						if !ok || len(c.Args) != 2 {
							return true
						}
						id, ok := c.Fun.(*ast.Ident)
						if !ok {
							return true
						}
						if _, isBuiltin := info.Uses[id].(*types.Builtin); !isBuiltin || (id.Name != "min" && id.Name != "max") {
							return true
						}
						calls[i] = c
					}
					if calls[0].Fun.(*ast.Ident).Name == calls[1].Fun.(*ast.Ident).Name {
						return true
					}
					res.Obligations++
					res.Count("swaps_guarded_by_a_comparison_of_two_variables", 1)
					set := func(c *ast.CallExpr) [2]string {
						a, b := types.ExprString(c.Args[0]), types.ExprString(c.Args[1])
						if b < a {
							a, b = b, a
						}
						return [2]string{a, b}
					}
					if set(calls[0]) != set(calls[1]) {
						res.Add(core.Finding{Rule: "SWAP.cond", Key: fmt.Sprintf("SWAP.cond|%s|%s", name, types.ExprString(as.Rhs[0])+", "+types.ExprString(as.Rhs[1])), Pos: core.Pos(as.Pos()), Func: name,
							Msg: fmt.Sprintf("%s, %s orders a pair with min and max of different operands: the two results are not the smaller and the larger of one pair", types.ExprString(as.Rhs[0]), types.ExprString(as.Rhs[1]))})
					}
					return true
				})
				ast.Inspect(fd.Body, func(n ast.Node) bool {
					is, ok := n.(*ast.IfStmt)
					if !ok || len(is.Body.List) == 0 {
						return true
					}
					as, ok := is.Body.List[0].(*ast.AssignStmt)
					if !ok || as.Tok != token.ASSIGN || len(as.Lhs) != 2 || len(as.Rhs) != 2 {
						return true
					}
					obj := func(e ast.Expr) types.Object {
						if id, ok := ast.Unparen(e).(*ast.Ident); ok {
							return core.ObjOf(info, id)
						}
						return nil
					}
					x, y := obj(as.Lhs[0]), obj(as.Lhs[1])
					if x == nil || y == nil || x == y || obj(as.Rhs[0]) != y || obj(as.Rhs[1]) != x {
						return true
					}
					res.Count("guarded_swaps", 1)
					// the last conjunct that is an ordering comparison of two variables
					var cmp *ast.BinaryExpr
					var find func(e ast.Expr)
					find = func(e ast.Expr) {
						be, ok := ast.Unparen(e).(*ast.BinaryExpr)
						if !ok {
							return
						}
						switch be.Op {
						case token.LAND:
							find(be.X)
							find(be.Y)
						case token.LSS, token.GTR, token.LEQ, token.GEQ:
							cmp = be
						}
					}
					find(is.Cond)
					if cmp == nil {
						return true
					}
					a, b := obj(cmp.X), obj(cmp.Y)
					if a == nil || b == nil {
						return true
					}
					res.Obligations++
					res.Count("swaps_guarded_by_a_comparison_of_two_variables", 1)
					shared := 0
					for _, c := range []types.Object{a, b} {
						if c == x || c == y {
							shared++
						}
					}
					if shared == 1 {
						res.Add(core.Finding{Rule: "SWAP.cond", Key: fmt.Sprintf("SWAP.cond|%s|%s", name, types.ExprString(is.Cond)), Pos: core.Pos(is.Pos()), Func: name,
							Msg: fmt.Sprintf("`if %s` guards the swap of %s and %s: the comparison involves only one of the two swapped variables, so the pair is ordered by a bystander", types.ExprString(is.Cond), x.Name(), y.Name())})
					}
					return true
				})
			}
		}
	}
	return res
}
