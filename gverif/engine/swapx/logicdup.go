package swapx

import (
	"fmt"
	"go/ast"
	"go/token"
	"go/types"

	"gverif/core"
)

// RunLogicDup implements LOGIC.dup: the two operands of a `&&` or `||` are
// never the same side-effect-free expression. `math.IsNaN(v) &&
// math.IsNaN(v)` where the second test was meant for the sibling value w
// type-checks, passes every test that never has exactly one NaN, and makes
// a NaN in one slice match anything in the other.
func RunLogicDup(conf core.Config, scope core.Scope) *core.Result {
	res := core.NewResult("LOGICDUP")
	res.Rules = append(res.Rules, "LOGIC.dup: the operands of && and || are not the same call-free-or-pure expression twice")
	res.Configs = append(res.Configs, conf.String())
	pkgs, err := core.Load(conf, scope.Patterns...)
	if err != nil {
		res.Brokenf("%v", err)
		return res
	}
	for _, pkg := range pkgs {
		info := pkg.TypesInfo
		pure := func(e ast.Expr) bool {
			ok := true
			ast.Inspect(e, func(n ast.Node) bool {
				c, isCall := n.(*ast.CallExpr)
				if !isCall {
					return true
				}
				// conversions, builtins and functions of package math are pure
				if tv, has := info.Types[c.Fun]; has && tv.IsType() {
					return true
				}
				switch f := c.Fun.(type) {
				case *ast.Ident:
					if _, isBuiltin := info.Uses[f].(*types.Builtin); isBuiltin {
						return true
					}
				case *ast.SelectorExpr:
					if id, isID := f.X.(*ast.Ident); isID {
						if pn, isPkg := info.Uses[id].(*types.PkgName); isPkg && (pn.Imported().Path() == "math" || pn.Imported().Path() == "math/cmplx") {
							return true
						}
					}
				}
				ok = false
				return false
			})
			return ok
		}
		for _, f := range pkg.Syntax {
			if !scope.InFile(f.Pos()) {
				continue
			}
			for _, d := range f.Decls {
				fd, ok := d.(*ast.FuncDecl)
				if !ok || fd.Body == nil {
					continue
				}
				name := core.FuncName(pkg, fd)
				ast.Inspect(fd.Body, func(n ast.Node) bool {
					be, ok := n.(*ast.BinaryExpr)
					if !ok || (be.Op != token.LAND && be.Op != token.LOR) {
						return true
					}
					res.Obligations++
					res.Count("logical_connectives", 1)
					x, y := ast.Unparen(be.X), ast.Unparen(be.Y)
					if types.ExprString(x) == types.ExprString(y) && pure(x) {
						res.Add(core.Finding{Rule: "LOGIC.dup", Key: fmt.Sprintf("LOGIC.dup|%s|%s", name, types.ExprString(be)), Pos: core.Pos(be.Pos()), Func: name,
							Msg: fmt.Sprintf("both operands of %s are the same expression: one of them was meant to test a sibling value", types.ExprString(be))})
					}
					return true
				})
			}
		}
	}
	return res
}
