// Package paramuse implements PARAMUSE: every named parameter of a
// computational kernel is read by its body. A length or increment that is
// accepted but never consulted (a loop bounded by len(x) instead of n) is
// the structural footprint of a kernel that ignores part of its contract.
package paramuse

import (
	"fmt"
	"go/ast"
	"go/types"

	"gverif/core"
)

// Exempt lists "pkg.Func.param" triples confirmed benign, with reasons.
var Exempt = map[string]string{
	"lapack/gonum.Implementation.Dlascl.kl":    "only meaningful for the band matrix kinds, which panic 'not implemented'",
	"lapack/gonum.Implementation.Dlascl.ku":    "only meaningful for the band matrix kinds, which panic 'not implemented'",
	"lapack/gonum.Implementation.Iparmq.lwork": "kept for signature compatibility with the reference IPARMQ, unused there too",
	"lapack/gonum.Implementation.Iparmq.n":     "kept for signature compatibility with the reference IPARMQ, unused there too",
	"lapack/gonum.Implementation.Iparmq.opts":  "kept for signature compatibility with the reference IPARMQ, unused there too",
	"integrate/quad.Hermite.hermpolyAsyAiry.i": "the Airy-region asymptotic expansion does not depend on the node index; the parameter mirrors its Bessel-region sibling",
	"interp.Constant.Predict.x":                "a constant predictor ignores its argument by definition (Predictor interface)",
	"interp.fritschButlandEdgeDerivative.ys":   "the edge derivative is computed from the slopes alone; ys kept for symmetry with the interior formula",
}

// Run checks every function with a body in the scope.
func Run(conf core.Config, scope core.Scope) *core.Result {
	res := core.NewResult("PARAMUSE")
	res.Rules = append(res.Rules, "PARAMUSE.read: every named parameter of a kernel function is read somewhere in its body")
	res.Configs = append(res.Configs, conf.String())
	pkgs, err := core.Load(conf, scope.Patterns...)
	if err != nil {
		res.Brokenf("%v", err)
		return res
	}
	for _, pkg := range pkgs {
		info := pkg.TypesInfo
		for _, f := range pkg.Syntax {
			if !scope.InFile(f.Pos()) {
				continue
			}
			for _, d := range f.Decls {
				fd, ok := d.(*ast.FuncDecl)
				if !ok || fd.Body == nil || fd.Type.Params == nil {
					continue
				}
				name := core.FuncName(pkg, fd)
				used := map[types.Object]bool{}
				ast.Inspect(fd.Body, func(n ast.Node) bool {
					if id, ok := n.(*ast.Ident); ok {
						if o := info.Uses[id]; o != nil {
							used[o] = true
						}
					}
					return true
				})
				res.Count("functions", 1)
				for _, fld := range fd.Type.Params.List {
					for _, nm := range fld.Names {
						if nm.Name == "_" {
							continue
						}
						res.Obligations++
						res.Count("parameters", 1)
						if used[info.Defs[nm]] {
							continue
						}
						key := name + "." + nm.Name
						if _, ok := Exempt[key]; ok {
							res.Count("exempt_by_table", 1)
							continue
						}
						res.Add(core.Finding{Rule: "PARAMUSE.read", Key: "PARAMUSE.read|" + name + "|" + nm.Name, Pos: core.Pos(nm.Pos()), Func: name,
							Msg: fmt.Sprintf("parameter %q of %s is never read: the kernel ignores part of its contract (e.g. iterates to len(x) instead of n)", nm.Name, fd.Name.Name)})
					}
				}
			}
		}
	}
	return res
}
