// Package idindex implements IDINDEX.slice: in the graph algorithm packages
// node IDs are int64 values chosen by the caller (sparse, negative, huge),
// whereas the algorithms keep their working state in slices and dense
// matrices indexed by a compact position obtained from an ID->index map.
// Go lets an int64 index a slice, so using an ID where a position is meant
// compiles, and passes every test whose graph happens to use IDs 0..n-1.
// The rule: no slice or array index expression, and no (row, column) argument
// of a dense-matrix accessor, has a node ID as its value — i.e. is of type
// int64 and flows from an ID() call, an `id`/`uid`/`vid`-style int64
// parameter, or a map key of node IDs — unless it was translated through an
// index map.
package idindex

import (
	"fmt"
	"go/ast"
	"go/types"

	"gverif/core"
)

func isInt64(t types.Type) bool {
	b, ok := t.Underlying().(*types.Basic)
	return ok && b.Kind() == types.Int64
}

// Run analyses the packages of scope.
func Run(cfg core.Config, scope core.Scope) *core.Result {
	res := core.NewResult("IDINDEX")
	res.Rules = append(res.Rules, "IDINDEX.slice: no slice/array index expression is an int64 node ID (IDs are translated to positions through an index map first)")
	res.Configs = append(res.Configs, cfg.String())
	pkgs, err := core.Load(cfg, scope.Patterns...)
	if err != nil {
		res.Brokenf("%v", err)
		return res
	}
	for _, pkg := range pkgs {
		info := pkg.TypesInfo
		for _, file := range pkg.Syntax {
			if !scope.InFile(file.Pos()) {
				continue
			}
			for _, d := range file.Decls {
				fd, ok := d.(*ast.FuncDecl)
				if !ok || fd.Body == nil {
					continue
				}
				name := core.FuncName(pkg, fd)
				ast.Inspect(fd.Body, func(n ast.Node) bool {
					if call, ok := n.(*ast.CallExpr); ok {
						checkAccessor(res, info, fd, name, call)
						return true
					}
					ix, ok := n.(*ast.IndexExpr)
					if !ok {
						return true
					}
					xt, ok := info.Types[ix.X]
					if !ok {
						return true
					}
					switch u := xt.Type.Underlying().(type) {
					case *types.Slice, *types.Array:
					case *types.Pointer:
						if _, isArr := u.Elem().Underlying().(*types.Array); !isArr {
							return true
						}
					default:
						return true
					}
					res.Obligations++
					res.Count("slice_index_expressions", 1)
					idx := stripConv(info, ix.Index)
					it, ok := info.Types[idx]
					if !ok || it.Value != nil || !isInt64(it.Type) {
						return true
					}
					res.Count("int64_typed_indices", 1)
					if !idDerived(info, fd, idx) {
						return true
					}
					res.Count("id_derived_indices", 1)
					res.Add(core.Finding{Rule: "IDINDEX.slice", Key: fmt.Sprintf("IDINDEX.slice|%s|%s", name, types.ExprString(ix)), Pos: core.Pos(ix.Pos()), Func: name,
						Msg: fmt.Sprintf("%s indexes a slice with an int64 value (%s): node IDs are int64 and arbitrary, positions are int and come from an index map", types.ExprString(ix), types.ExprString(ix.Index))})
					return true
				})
			}
		}
	}
	return res
}

// idDerived: the expression mentions an ID() call, an int64 parameter of the
// function, or a local that was assigned from an expression mentioning one.
func idDerived(info *types.Info, fd *ast.FuncDecl, e ast.Expr) bool {
	params := map[types.Object]bool{}
	for _, fl := range fd.Type.Params.List {
		for _, n := range fl.Names {
			if o := info.Defs[n]; o != nil && isInt64(o.Type()) {
				params[o] = true
			}
		}
	}
	tainted := map[types.Object]bool{}
	var mentions func(e ast.Node) bool
	mentions = func(e ast.Node) bool {
		found := false
		ast.Inspect(e, func(n ast.Node) bool {
			switch x := n.(type) {
			case *ast.CallExpr:
				if sel, ok := x.Fun.(*ast.SelectorExpr); ok && sel.Sel.Name == "ID" && len(x.Args) == 0 {
					found = true
				}
			case *ast.Ident:
				if o := core.ObjOf(info, x); o != nil && (params[o] || tainted[o]) {
					found = true
				}
			}
			return !found
		})
		return found
	}
	for iter := 0; iter < 4; iter++ {
		ast.Inspect(fd.Body, func(n ast.Node) bool {
			switch s := n.(type) {
			case *ast.AssignStmt:
				if len(s.Lhs) == len(s.Rhs) {
					for i, l := range s.Lhs {
						if id, ok := l.(*ast.Ident); ok && mentions(s.Rhs[i]) {
							if o := core.ObjOf(info, id); o != nil && isInt64(o.Type()) {
								tainted[o] = true
							}
						}
					}
				}
			case *ast.RangeStmt:
				// for id := range map[int64]...
				if k, ok := s.Key.(*ast.Ident); ok {
					if tv, ok := info.Types[s.X]; ok {
						if m, ok := tv.Type.Underlying().(*types.Map); ok && isInt64(m.Key()) {
							if o := core.ObjOf(info, k); o != nil {
								tainted[o] = true
							}
						}
					}
				}
			}
			return true
		})
	}
	return mentions(e)
}

// stripConv removes integer conversions: int(uid) -> uid.
func stripConv(info *types.Info, e ast.Expr) ast.Expr {
	for {
		e = ast.Unparen(e)
		c, ok := e.(*ast.CallExpr)
		if !ok || len(c.Args) != 1 {
			return e
		}
		tv, ok := info.Types[c.Fun]
		if !ok || !tv.IsType() {
			return e
		}
		if b, ok := tv.Type.Underlying().(*types.Basic); !ok || b.Info()&types.IsInteger == 0 {
			return e
		}
		e = c.Args[0]
	}
}

// checkAccessor: the row/column arguments of a dense mat accessor
// (At, Set, SetSym, AtVec, SetVec on a gonum/mat type) are positions too.
func checkAccessor(res *core.Result, info *types.Info, fd *ast.FuncDecl, name string, call *ast.CallExpr) {
	sel, ok := call.Fun.(*ast.SelectorExpr)
	if !ok {
		return
	}
	nidx := 0
	switch sel.Sel.Name {
	case "At", "Set", "SetSym":
		nidx = 2
	case "AtVec", "SetVec":
		nidx = 1
	default:
		return
	}
	tv, ok := info.Types[sel.X]
	if !ok {
		return
	}
	t := tv.Type
	if p, ok := t.(*types.Pointer); ok {
		t = p.Elem()
	}
	nt, ok := t.(*types.Named)
	if !ok || nt.Obj().Pkg() == nil || nt.Obj().Pkg().Path() != core.ModPath+"/mat" {
		return
	}
	if len(call.Args) < nidx {
		return
	}
	res.Obligations++
	res.Count("dense_accessor_calls", 1)
	for _, a := range call.Args[:nidx] {
		idx := stripConv(info, a)
		it, ok := info.Types[idx]
		if !ok || it.Value != nil || !isInt64(it.Type) {
			continue
		}
		if idDerived(info, fd, idx) {
			res.Add(core.Finding{Rule: "IDINDEX.slice", Key: fmt.Sprintf("IDINDEX.slice|%s|%s", name, types.ExprString(call)), Pos: core.Pos(call.Pos()), Func: name,
				Msg: fmt.Sprintf("%s addresses a dense matrix with a node ID (%s): IDs are arbitrary int64 values, matrix positions come from an index map", types.ExprString(call), types.ExprString(a))})
		}
	}
}
