// Package constx implements the CONST engine: exact evaluation of the
// numeric tables in the source (finite-difference stencils, Gauss-Legendre
// and Gauss-Hermite node/weight tables). These are statements about data
// in the source, decided without running gonum. See DESIGN.md §3.11.
package constx

import (
	"fmt"
	"go/ast"
	"go/constant"
	"go/token"
	"math/big"
	"strings"

	"gverif/core"

	"golang.org/x/tools/go/packages"
)

const prec = 320

func bf(x float64) *big.Float { return new(big.Float).SetPrec(prec).SetFloat64(x) }

func parseLit(e ast.Expr) (*big.Float, bool) {
	neg := false
	for {
		switch x := e.(type) {
		case *ast.ParenExpr:
			e = x.X
			continue
		case *ast.UnaryExpr:
			if x.Op == token.SUB {
				neg = !neg
				e = x.X
				continue
			}
			if x.Op == token.ADD {
				e = x.X
				continue
			}
		}
		break
	}
	bl, ok := e.(*ast.BasicLit)
	if !ok || (bl.Kind != token.FLOAT && bl.Kind != token.INT) {
		return nil, false
	}
	f, _, err := big.ParseFloat(strings.ReplaceAll(bl.Value, "_", ""), 10, prec, big.ToNearestEven)
	if err != nil {
		return nil, false
	}
	if neg {
		f.Neg(f)
	}
	return f, true
}

// table finds `var name = [][]float64{...}` (or []float64 / [...]float64).
func table(pkg *packages.Package, name string) (*ast.CompositeLit, bool) {
	for _, f := range pkg.Syntax {
		for _, d := range f.Decls {
			gd, ok := d.(*ast.GenDecl)
			if !ok || gd.Tok != token.VAR {
				continue
			}
			for _, s := range gd.Specs {
				vs := s.(*ast.ValueSpec)
				for i, n := range vs.Names {
					if n.Name == name && i < len(vs.Values) {
						cl, ok := vs.Values[i].(*ast.CompositeLit)
						return cl, ok
					}
				}
			}
		}
	}
	return nil, false
}

func rows(cl *ast.CompositeLit) ([][]*big.Float, [][]ast.Expr, bool) {
	var out [][]*big.Float
	var exprs [][]ast.Expr
	for _, el := range cl.Elts {
		row, ok := el.(*ast.CompositeLit)
		if !ok {
			return nil, nil, false
		}
		var r []*big.Float
		var re []ast.Expr
		for _, v := range row.Elts {
			f, ok := parseLit(v)
			if !ok {
				return nil, nil, false
			}
			r = append(r, f)
			re = append(re, v)
		}
		out = append(out, r)
		exprs = append(exprs, re)
	}
	return out, exprs, true
}

func flat(cl *ast.CompositeLit) ([]*big.Float, bool) {
	var out []*big.Float
	for _, v := range cl.Elts {
		f, ok := parseLit(v)
		if !ok {
			return nil, false
		}
		out = append(out, f)
	}
	return out, true
}

// cosBig computes cos(x) by Taylor series (|x| < 2).
func cosBig(x *big.Float) *big.Float {
	sum := bf(1)
	term := bf(1)
	x2 := new(big.Float).SetPrec(prec).Mul(x, x)
	for k := 1; k < 120; k++ {
		term.Mul(term, x2)
		term.Quo(term, bf(float64((2*k-1)*(2*k))))
		term.Neg(term)
		sum.Add(sum, term)
	}
	return sum
}

// legendre returns P_n(x) and P_n'(x).
func legendre(n int, x *big.Float) (*big.Float, *big.Float) {
	p0, p1 := bf(1), new(big.Float).SetPrec(prec).Set(x)
	if n == 0 {
		return p0, bf(0)
	}
	for k := 2; k <= n; k++ {
		// k P_k = (2k-1) x P_{k-1} - (k-1) P_{k-2}
		a := new(big.Float).SetPrec(prec).Mul(bf(float64(2*k-1)), x)
		a.Mul(a, p1)
		b := new(big.Float).SetPrec(prec).Mul(bf(float64(k-1)), p0)
		a.Sub(a, b)
		a.Quo(a, bf(float64(k)))
		p0, p1 = p1, a
	}
	// P_n'(x) = n (x P_n - P_{n-1}) / (x^2 - 1)
	num := new(big.Float).SetPrec(prec).Mul(x, p1)
	num.Sub(num, p0)
	num.Mul(num, bf(float64(n)))
	den := new(big.Float).SetPrec(prec).Mul(x, x)
	den.Sub(den, bf(1))
	num.Quo(num, den)
	return p1, num
}

func absLE(x *big.Float, tol float64) bool {
	a := new(big.Float).Abs(x)
	return a.Cmp(bf(tol)) <= 0
}

// Run evaluates the tables.
func Run(conf core.Config) *core.Result {
	res := core.NewResult("CONST")
	res.Rules = append(res.Rules,
		"CONST.stencil: each predefined finite-difference Formula satisfies the moment conditions sum c_i*loc_i^k = k!*[k==Derivative] for k < number of points (exact rationals)",
		"CONST.legendre: tabulated Gauss-Legendre rows have the shape tabulated() indexes, nodes are roots of P_n, weights equal 2/((1-x^2)P_n'(x)^2), are positive and sum to 2",
		"CONST.hermite: tabulated Gauss-Hermite rows have n entries, symmetric nodes, positive weights summing to sqrt(pi)")
	res.Configs = append(res.Configs, conf.String())
	pkgs, err := core.Load(conf, "./diff/fd", "./integrate/quad")
	if err != nil {
		res.Brokenf("%v", err)
		return res
	}
	for _, pkg := range pkgs {
		switch {
		case strings.HasSuffix(pkg.PkgPath, "diff/fd"):
			stencils(res, pkg)
		case strings.HasSuffix(pkg.PkgPath, "integrate/quad"):
			legendreTables(res, pkg)
			hermiteTables(res, pkg)
		}
	}
	return res
}

func stencils(res *core.Result, pkg *packages.Package) {
	info := pkg.TypesInfo
	for _, f := range pkg.Syntax {
		for _, d := range f.Decls {
			gd, ok := d.(*ast.GenDecl)
			if !ok || gd.Tok != token.VAR {
				continue
			}
			for _, s := range gd.Specs {
				vs := s.(*ast.ValueSpec)
				for i, nm := range vs.Names {
					if i >= len(vs.Values) {
						continue
					}
					cl, ok := vs.Values[i].(*ast.CompositeLit)
					if !ok {
						continue
					}
					if tv, ok := info.Types[cl]; !ok || !strings.HasSuffix(tv.Type.String(), "diff/fd.Formula") {
						continue
					}
					var locs, coeffs []*big.Rat
					deriv := -1
					for _, el := range cl.Elts {
						kv, ok := el.(*ast.KeyValueExpr)
						if !ok {
							continue
						}
						switch kv.Key.(*ast.Ident).Name {
						case "Derivative":
							if tv, ok := info.Types[kv.Value]; ok && tv.Value != nil {
								if v, ok := constant.Int64Val(constant.ToInt(tv.Value)); ok {
									deriv = int(v)
								}
							}
						case "Stencil":
							st, ok := kv.Value.(*ast.CompositeLit)
							if !ok {
								continue
							}
							for _, p := range st.Elts {
								pl, ok := p.(*ast.CompositeLit)
								if !ok {
									continue
								}
								for _, fe := range pl.Elts {
									fkv, ok := fe.(*ast.KeyValueExpr)
									if !ok {
										continue
									}
									tv, ok := info.Types[fkv.Value]
									if !ok || tv.Value == nil {
										continue
									}
									r, ok := new(big.Rat).SetString(tv.Value.ExactString())
									if !ok {
										continue
									}
									switch fkv.Key.(*ast.Ident).Name {
									case "Loc":
										locs = append(locs, r)
									case "Coeff":
										coeffs = append(coeffs, r)
									}
								}
							}
						}
					}
					if deriv < 0 || len(locs) == 0 || len(locs) != len(coeffs) {
						res.Brokenf("CONST.stencil: cannot read Formula literal %s", nm.Name)
						continue
					}
					res.Count("stencil_formulas", 1)
					p := len(locs)
					fact := big.NewRat(1, 1)
					order := -1
					for k := 0; k <= p+1; k++ {
						if k > 0 {
							fact.Mul(fact, big.NewRat(int64(k), 1))
						}
						sum := new(big.Rat)
						for j := range locs {
							t := big.NewRat(1, 1)
							for e := 0; e < k; e++ {
								t.Mul(t, locs[j])
							}
							t.Mul(t, coeffs[j])
							sum.Add(sum, t)
						}
						want := new(big.Rat)
						if k == deriv {
							want.Set(fact)
						}
						if k < p {
							res.Obligations++
							res.Count("stencil_moment_conditions", 1)
							if sum.Cmp(want) != 0 {
								res.Add(core.Finding{Rule: "CONST.stencil", Key: fmt.Sprintf("CONST.stencil|diff/fd.%s|moment%d", nm.Name, k), Pos: core.Pos(cl.Pos()), Func: "diff/fd." + nm.Name,
									Msg: fmt.Sprintf("stencil of %s violates moment condition k=%d: sum c_i*loc_i^%d = %s, want %s (the formula does not differentiate x^%d exactly)", nm.Name, k, k, sum.RatString(), want.RatString(), k)})
							}
						} else if order < 0 && sum.Cmp(want) != 0 {
							order = k - deriv
						}
					}
					res.Sample(map[string]any{"rule": "CONST.stencil", "formula": nm.Name, "points": p, "derivative": deriv, "truncation_order": order})
				}
			}
		}
	}
}

func legendreTables(res *core.Result, pkg *packages.Package) {
	names := []string{"evenThetaZeros", "evenWeights", "oddThetaZeros", "oddWeights"}
	tabs := map[string][][]*big.Float{}
	pos := map[string][][]ast.Expr{}
	for _, n := range names {
		cl, ok := table(pkg, n)
		if !ok {
			res.Brokenf("CONST.legendre: table %s not found", n)
			return
		}
		r, e, ok := rows(cl)
		if !ok {
			res.Brokenf("CONST.legendre: table %s has non-literal entries", n)
			return
		}
		tabs[n], pos[n] = r, e
	}
	clTab, ok := table(pkg, "cl")
	var clv []*big.Float
	if ok {
		clv, _ = flat(clTab)
	}
	flag := func(tab string, row int, n int, msg string, at ast.Expr) {
		p := core.Pos(pkg.Syntax[0].Pos())
		if at != nil {
			p = core.Pos(at.Pos())
		}
		res.Add(core.Finding{Rule: "CONST.legendre", Key: fmt.Sprintf("CONST.legendre|%s|n=%d", tab, n), Pos: p, Func: "integrate/quad." + tab,
			Msg: fmt.Sprintf("Gauss-Legendre table %s, row %d (n=%d): %s", tab, row, n, msg)})
	}
	for _, parity := range []string{"even", "odd"} {
		th, w := tabs[parity+"ThetaZeros"], tabs[parity+"Weights"]
		if len(th) != len(w) {
			res.Obligations++
			flag(parity+"Weights", 0, 0, fmt.Sprintf("%d theta rows but %d weight rows", len(th), len(w)), nil)
		}
		for r := 0; r < len(th) && r < len(w); r++ {
			n := 2 * (r + 1)
			if parity == "odd" {
				n++
			}
			half := r + 1
			res.Count("legendre_rows", 1)
			first := func(tab string) ast.Expr {
				if len(pos[tab][r]) > 0 {
					return pos[tab][r][0]
				}
				return nil
			}
			res.Obligations++
			if len(th[r]) != half {
				flag(parity+"ThetaZeros", r, n, fmt.Sprintf("has %d entries, tabulated() indexes exactly %d", len(th[r]), half), first(parity+"ThetaZeros"))
				continue
			}
			res.Obligations++
			if len(w[r]) != half {
				flag(parity+"Weights", r, n, fmt.Sprintf("has %d entries, tabulated() indexes exactly %d", len(w[r]), half), first(parity+"Weights"))
				continue
			}
			sum := bf(0)
			for i := 0; i < half; i++ {
				res.Obligations += 3
				res.Count("legendre_nodes_checked", 1)
				x := cosBig(th[r][i])
				p, dp := legendre(n, x)
				if !absLE(p, 1e-19) {
					flag(parity+"ThetaZeros", r, n, fmt.Sprintf("entry %d: P_%d(cos theta) = %s, not a root of the Legendre polynomial", i, n, p.Text('e', 3)), pos[parity+"ThetaZeros"][r][i])
				}
				if w[r][i].Sign() <= 0 {
					flag(parity+"Weights", r, n, fmt.Sprintf("entry %d is not positive", i), pos[parity+"Weights"][r][i])
				}
				// w = 2 / ((1-x^2) P'^2)
				den := new(big.Float).SetPrec(prec).Mul(x, x)
				den.Sub(bf(1), den)
				den.Mul(den, dp)
				den.Mul(den, dp)
				want := new(big.Float).SetPrec(prec).Quo(bf(2), den)
				diff := new(big.Float).SetPrec(prec).Sub(want, w[r][i])
				if !absLE(diff, 1e-19) {
					flag(parity+"Weights", r, n, fmt.Sprintf("entry %d = %s but 2/((1-x^2)P_n'(x)^2) = %s", i, w[r][i].Text('g', 22), want.Text('g', 22)), pos[parity+"Weights"][r][i])
				}
				sum.Add(sum, w[r][i])
			}
			sum.Mul(sum, bf(2))
			if parity == "odd" {
				if n < len(clv) {
					c := new(big.Float).SetPrec(prec).Mul(clv[n], clv[n])
					c.Quo(bf(2), c)
					sum.Add(sum, c)
				} else {
					res.Brokenf("CONST.legendre: cl has no entry for n=%d", n)
				}
			}
			res.Obligations++
			sum.Sub(sum, bf(2))
			if !absLE(sum, 1e-19) {
				flag(parity+"Weights", r, n, fmt.Sprintf("weights sum to 2%+s, not to the interval measure 2", sum.Text('e', 3)), first(parity+"Weights"))
			}
		}
	}
	res.Sample(map[string]any{"rule": "CONST.legendre", "even_rows": len(tabs["evenThetaZeros"]), "odd_rows": len(tabs["oddThetaZeros"])})
}

func hermiteTables(res *core.Result, pkg *packages.Package) {
	xcl, ok1 := table(pkg, "xCacheHermite")
	wcl, ok2 := table(pkg, "wCacheHermite")
	if !ok1 || !ok2 {
		res.Brokenf("CONST.hermite: tables not found")
		return
	}
	xs, xe, ok1 := rows(xcl)
	ws, we, ok2 := rows(wcl)
	if !ok1 || !ok2 {
		res.Brokenf("CONST.hermite: non-literal entries")
		return
	}
	sqrtPi := new(big.Float).SetPrec(prec)
	sqrtPi.SetString("1.77245385090551602729816748334114518279754945612238712821380779")
	flag := func(tab string, n int, msg string, at ast.Expr) {
		res.Add(core.Finding{Rule: "CONST.hermite", Key: fmt.Sprintf("CONST.hermite|%s|n=%d", tab, n), Pos: core.Pos(at.Pos()), Func: "integrate/quad." + tab,
			Msg: fmt.Sprintf("Gauss-Hermite table %s, n=%d: %s", tab, n, msg)})
	}
	for r := 0; r < len(xs) && r < len(ws); r++ {
		n := r + 1
		res.Count("hermite_rows", 1)
		res.Obligations += 4
		if len(xs[r]) != n {
			flag("xCacheHermite", n, fmt.Sprintf("row has %d entries, want %d", len(xs[r]), n), xcl.Elts[r])
			continue
		}
		if len(ws[r]) != n {
			flag("wCacheHermite", n, fmt.Sprintf("row has %d entries, want %d", len(ws[r]), n), wcl.Elts[r])
			continue
		}
		sum := bf(0)
		for i := 0; i < n; i++ {
			if ws[r][i].Sign() <= 0 {
				flag("wCacheHermite", n, fmt.Sprintf("weight %d is not positive", i), we[r][i])
			}
			sum.Add(sum, ws[r][i])
			// symmetry x_i = -x_{n-1-i}
			s := new(big.Float).SetPrec(prec).Add(xs[r][i], xs[r][n-1-i])
			if !absLE(s, 1e-12) {
				flag("xCacheHermite", n, fmt.Sprintf("nodes %d and %d are not symmetric about 0", i, n-1-i), xe[r][i])
			}
			if i > 0 && xs[r][i].Cmp(xs[r][i-1]) <= 0 {
				flag("xCacheHermite", n, fmt.Sprintf("nodes are not strictly increasing at %d", i), xe[r][i])
			}
		}
		sum.Sub(sum, sqrtPi)
		if !absLE(sum, 2e-13*float64(n)) {
			flag("wCacheHermite", n, fmt.Sprintf("weights sum to sqrt(pi)%+s", sum.Text('e', 3)), wcl.Elts[r])
		}
	}
	if len(xs) != len(ws) {
		res.Obligations++
		res.Add(core.Finding{Rule: "CONST.hermite", Key: "CONST.hermite|rows", Pos: core.Pos(xcl.Pos()), Msg: fmt.Sprintf("%d node rows but %d weight rows", len(xs), len(ws))})
	}
	res.Sample(map[string]any{"rule": "CONST.hermite", "rows": len(xs)})
}
