// Package dspx implements the RESET and WINDOW engines for C17.
//
// RESET: in each Reset(n) of the transform types of dsp/fourier every
// struct field is, on every path, reassigned or handed to the fftpack
// initialiser: nothing is carried over from a previous length.
//
// WINDOW: window functions are pointwise multiplications. WINDOW.pointwise:
// a store to seq[J] depends on no element of seq other than seq[J].
// WINDOW.sibling: the weight expression of the real window and of its
// Complex sibling are identical after inlining locals and constants.
package dspx

import (
	"fmt"
	"go/ast"
	"go/token"
	"go/types"
	"sort"
	"strings"

	"gverif/cfgx"
	"gverif/core"

	"golang.org/x/tools/go/cfg"
)

// RunReset checks dsp/fourier.
func RunReset(conf core.Config) *core.Result {
	res := core.NewResult("RESET")
	res.Rules = append(res.Rules, "RESET.fields: every field of a transform type is reassigned or passed to the fftpack initialiser on every path through Reset; reslicing lengths depend on n only")
	res.Configs = append(res.Configs, conf.String())
	pkgs, err := core.Load(conf, "./dsp/fourier")
	if err != nil {
		res.Brokenf("%v", err)
		return res
	}
	pkg := pkgs[0]
	info := pkg.TypesInfo
	for _, f := range pkg.Syntax {
		for _, d := range f.Decls {
			fd, ok := d.(*ast.FuncDecl)
			if !ok || fd.Body == nil || fd.Recv == nil || fd.Name.Name != "Reset" || len(fd.Recv.List[0].Names) != 1 {
				continue
			}
			recv := info.Defs[fd.Recv.List[0].Names[0]]
			rt := recv.Type()
			if p, ok := rt.(*types.Pointer); ok {
				rt = p.Elem()
			}
			st, ok := rt.Underlying().(*types.Struct)
			if !ok {
				continue
			}
			name := core.FuncName(pkg, fd)
			res.Count("reset_methods", 1)
			var nParam types.Object
			if len(fd.Type.Params.List) == 1 && len(fd.Type.Params.List[0].Names) == 1 {
				nParam = info.Defs[fd.Type.Params.List[0].Names[0]]
			}
			// methods of the receiver's type, for helpers that Reset calls
			// (t.resize(n)): a helper defines a field when it does so on
			// every path to its return
			methods := map[string]*ast.FuncDecl{}
			for _, f2 := range pkg.Syntax {
				for _, d2 := range f2.Decls {
					if m, ok := d2.(*ast.FuncDecl); ok && m.Body != nil && m.Recv != nil && len(m.Recv.List) == 1 && len(m.Recv.List[0].Names) == 1 {
						if ro := info.Defs[m.Recv.List[0].Names[0]]; ro != nil && types.Identical(ro.Type(), recv.Type()) {
							methods[m.Name.Name] = m
						}
					}
				}
			}
			var helperDefines func(m *ast.FuncDecl, field string, depth int) bool
			helperDefines = func(m *ast.FuncDecl, field string, depth int) bool {
				if depth > 3 {
					return false
				}
				mr := info.Defs[m.Recv.List[0].Names[0]]
				isF := func(e ast.Expr) bool {
					for {
						switch x := e.(type) {
						case *ast.SliceExpr:
							e = x.X
							continue
						case *ast.ParenExpr:
							e = x.X
							continue
						}
						break
					}
					sel, ok := e.(*ast.SelectorExpr)
					if !ok || sel.Sel.Name != field {
						return false
					}
					id, ok := sel.X.(*ast.Ident)
					return ok && core.ObjOf(info, id) == mr
				}
				def := func(n ast.Node) bool {
					found := false
					ast.Inspect(n, func(x ast.Node) bool {
						switch s := x.(type) {
						case *ast.AssignStmt:
							for _, l := range s.Lhs {
								if isF(l) {
									found = true
								}
							}
						case *ast.CallExpr:
							if sel, ok := s.Fun.(*ast.SelectorExpr); ok {
								if pid, ok := sel.X.(*ast.Ident); ok {
									if pid.Name == "fftpack" && strings.HasSuffix(sel.Sel.Name, "i") {
										for _, a := range s.Args {
											if isF(a) {
												found = true
											}
										}
									}
									if core.ObjOf(info, pid) == mr {
										if h := methods[sel.Sel.Name]; h != nil && h != m && helperDefines(h, field, depth+1) {
											found = true
										}
									}
								}
							}
						}
						return !found
					})
					return found
				}
				hg := cfgx.New(m.Body, info)
				hasB := func(b *cfg.Block) bool {
					for _, n := range b.Nodes {
						if def(n) {
							return true
						}
					}
					return false
				}
				in := hg.MustPass(hasB)
				hr := hg.Reachable()
				for _, b := range hg.Blocks {
					if !hr[b.Index] || len(b.Succs) != 0 || b.Kind == cfg.KindUnreachable {
						continue
					}
					if len(b.Nodes) > 0 {
						if es, ok := b.Nodes[len(b.Nodes)-1].(*ast.ExprStmt); ok {
							if c, ok := es.X.(*ast.CallExpr); ok && cfgx.IsPanic(info, c) {
								continue
							}
						}
					}
					if !(in[b.Index] || hasB(b)) {
						return false
					}
				}
				return true
			}
			g := cfgx.New(fd.Body, info)
			reach := g.Reachable()
			var fields []string
			for i := 0; i < st.NumFields(); i++ {
				fields = append(fields, st.Field(i).Name())
			}
			res.Sample(map[string]any{"rule": "RESET.fields", "method": name, "fields": fields})
			for _, field := range fields {
				res.Obligations++
				res.Count("fields_checked", 1)
				isField := func(e ast.Expr) bool {
					for {
						switch x := e.(type) {
						case *ast.SliceExpr:
							e = x.X
							continue
						case *ast.ParenExpr:
							e = x.X
							continue
						}
						break
					}
					sel, ok := e.(*ast.SelectorExpr)
					if !ok || sel.Sel.Name != field {
						return false
					}
					id, ok := sel.X.(*ast.Ident)
					return ok && core.ObjOf(info, id) == recv
				}
				defines := func(n ast.Node) bool {
					found := false
					ast.Inspect(n, func(x ast.Node) bool {
						switch s := x.(type) {
						case *ast.AssignStmt:
							for _, l := range s.Lhs {
								if isField(l) {
									found = true
								}
							}
						case *ast.CallExpr:
							if sel, ok := s.Fun.(*ast.SelectorExpr); ok {
								if pid, ok := sel.X.(*ast.Ident); ok && pid.Name == "fftpack" && strings.HasSuffix(sel.Sel.Name, "i") {
									for _, a := range s.Args {
										if isField(a) {
											found = true
										}
									}
								}
								if pid, ok := sel.X.(*ast.Ident); ok && core.ObjOf(info, pid) == recv {
									if h := methods[sel.Sel.Name]; h != nil && h != fd && helperDefines(h, field, 0) {
										found = true
									}
								}
							}
						}
						return !found
					})
					return found
				}
				has := func(b *cfg.Block) bool {
					for _, n := range b.Nodes {
						if defines(n) {
							return true
						}
					}
					return false
				}
				in := g.MustPass(has)
				for _, b := range g.Blocks {
					if !reach[b.Index] || len(b.Succs) != 0 || b.Kind == cfg.KindUnreachable {
						continue
					}
					if len(b.Nodes) > 0 {
						if es, ok := b.Nodes[len(b.Nodes)-1].(*ast.ExprStmt); ok {
							if c, ok := es.X.(*ast.CallExpr); ok && cfgx.IsPanic(info, c) {
								continue
							}
						}
					}
					if !(in[b.Index] || has(b)) {
						res.Add(core.Finding{Rule: "RESET.fields", Key: fmt.Sprintf("RESET.fields|%s|%s", name, field), Pos: core.Pos(fd.Pos()), Func: name,
							Msg: fmt.Sprintf("field %s is neither reassigned nor handed to the fftpack initialiser on some path through Reset: state from the previous length leaks into later transforms", field)})
						break
					}
				}
			}
			// reslicing bounds depend on n (and constants) only
			ast.Inspect(fd.Body, func(n ast.Node) bool {
				as, ok := n.(*ast.AssignStmt)
				if !ok {
					return true
				}
				for _, r := range as.Rhs {
					se, ok := r.(*ast.SliceExpr)
					if !ok {
						continue
					}
					res.Obligations++
					res.Count("reslice_sites", 1)
					okBound := true
					for _, bnd := range []ast.Expr{se.Low, se.High, se.Max} {
						if bnd == nil {
							continue
						}
						ast.Inspect(bnd, func(x ast.Node) bool {
							if id, ok := x.(*ast.Ident); ok {
								o := core.ObjOf(info, id)
								if _, isConst := o.(*types.Const); isConst || o == nModel(nParam) {
									return true
								}
								if v, isVar := o.(*types.Var); isVar && v != nParam {
									okBound = false
								}
							}
							return true
						})
					}
					if !okBound {
						res.Add(core.Finding{Rule: "RESET.fields", Key: fmt.Sprintf("RESET.fields|%s|reslice", name), Pos: core.Pos(se.Pos()), Func: name,
							Msg: "a workspace is resliced to a length that does not depend on Reset's argument alone"})
					}
				}
				return true
			})
		}
	}
	return res
}

func nModel(o types.Object) types.Object { return o }

// ---------------------------------------------------------------------

type winFn struct {
	fd   *ast.FuncDecl
	name string
	seq  types.Object
}

// RunWindow checks dsp/window.
func RunWindow(conf core.Config) *core.Result {
	res := core.NewResult("WINDOW")
	res.Rules = append(res.Rules,
		"WINDOW.pointwise: in a window function a store to seq[J] reads no element of seq other than seq[J]",
		"WINDOW.sibling: the weight expression of a real window and of its Complex sibling are identical after inlining locals and constants")
	res.Configs = append(res.Configs, conf.String())
	pkgs, err := core.Load(conf, "./dsp/window")
	if err != nil {
		res.Brokenf("%v", err)
		return res
	}
	pkg := pkgs[0]
	info := pkg.TypesInfo
	fns := map[string]*winFn{}
	for _, f := range pkg.Syntax {
		for _, d := range f.Decls {
			fd, ok := d.(*ast.FuncDecl)
			if !ok || fd.Body == nil {
				continue
			}
			// func(seq []T) []T  or method Transform*(seq []T) []T
			if fd.Type.Params == nil || len(fd.Type.Params.List) != 1 || len(fd.Type.Params.List[0].Names) != 1 || fd.Type.Results == nil || len(fd.Type.Results.List) != 1 {
				continue
			}
			if _, ok := fd.Type.Params.List[0].Type.(*ast.ArrayType); !ok {
				continue
			}
			w := &winFn{fd: fd, name: core.FuncName(pkg, fd), seq: info.Defs[fd.Type.Params.List[0].Names[0]]}
			key := fd.Name.Name
			if fd.Recv != nil {
				key = strings.SplitN(strings.TrimPrefix(w.name, "dsp/window."), ".", 2)[0] + "." + fd.Name.Name
			}
			fns[key] = w
		}
	}
	var keys []string
	for k := range fns {
		keys = append(keys, k)
	}
	sort.Strings(keys)
	weights := map[string][]string{}
	for _, k := range keys {
		w := fns[k]
		res.Count("window_functions", 1)
		weights[k] = pointwise(res, info, w)
	}
	// siblings
	for _, k := range keys {
		var ck string
		switch {
		case strings.HasSuffix(k, ".Transform"):
			ck = k + "Complex"
		case !strings.Contains(k, ".") && !strings.HasSuffix(k, "Complex"):
			ck = k + "Complex"
		default:
			continue
		}
		c, ok := fns[ck]
		if !ok {
			continue
		}
		a, b := weights[k], weights[ck]
		if a == nil || b == nil {
			res.Count("sibling_pairs_without_extractable_weight", 1)
			continue
		}
		res.Obligations++
		res.Count("window_sibling_pairs", 1)
		sa, sb := strings.Join(a, " ; "), strings.Join(b, " ; ")
		if sa != sb {
			res.Add(core.Finding{Rule: "WINDOW.sibling", Key: fmt.Sprintf("WINDOW.sibling|%s", c.name), Pos: core.Pos(c.fd.Pos()), Func: c.name,
				Msg: fmt.Sprintf("the complex window applies weights {%s} but its real sibling %s applies {%s}", sb, fns[k].name, sa)})
		} else if len(res.Samples) < 8 {
			res.Sample(map[string]any{"rule": "WINDOW.sibling", "pair": []string{k, ck}, "weights": a})
		}
	}
	return res
}

// pointwise checks the index-purity rule and returns the list of
// "index := weight" strings (nil if a store has an unrecognised form).
func pointwise(res *core.Result, info *types.Info, w *winFn) []string {
	fd := w.fd
	// single-definition locals and range variables
	defs := map[types.Object][]ast.Expr{}
	ast.Inspect(fd.Body, func(n ast.Node) bool {
		switch s := n.(type) {
		case *ast.AssignStmt:
			for i, l := range s.Lhs {
				if id, ok := l.(*ast.Ident); ok {
					if o := core.ObjOf(info, id); o != nil {
						var r ast.Expr
						if len(s.Lhs) == len(s.Rhs) && s.Tok != token.ADD_ASSIGN && s.Tok != token.MUL_ASSIGN {
							r = s.Rhs[i]
						}
						defs[o] = append(defs[o], r)
					}
				}
			}
		}
		return true
	})
	var expand func(e ast.Expr, depth int) string
	expand = func(e ast.Expr, depth int) string {
		switch x := e.(type) {
		case *ast.Ident:
			o := core.ObjOf(info, x)
			if c, ok := o.(*types.Const); ok && c.Parent() != nil && c.Pkg() != nil && c.Parent() != c.Pkg().Scope() {
				return c.Val().ExactString()
			}
			if ds := defs[o]; len(ds) == 1 && ds[0] != nil && depth < 6 {
				return expand(ds[0], depth+1)
			}
			return x.Name
		case *ast.ParenExpr:
			return expand(x.X, depth)
		case *ast.BinaryExpr:
			// fully parenthesised: independent of how the source grouped it
			return "(" + expand(x.X, depth) + " " + x.Op.String() + " " + expand(x.Y, depth) + ")"
		case *ast.UnaryExpr:
			return x.Op.String() + expand(x.X, depth)
		case *ast.CallExpr:
			var args []string
			for _, a := range x.Args {
				args = append(args, expand(a, depth))
			}
			return types.ExprString(x.Fun) + "(" + strings.Join(args, ", ") + ")"
		}
		return types.ExprString(e)
	}
	isSeq := func(e ast.Expr) bool {
		id, ok := e.(*ast.Ident)
		return ok && core.ObjOf(info, id) == w.seq
	}
	var weights []string
	recognised := true
	// env maps a local variable to the index K such that it currently holds
	// (a value derived only from) seq[K]; "?" when unknown.
	type envT map[types.Object]string
	clone := func(e envT) envT {
		c := envT{}
		for k, v := range e {
			c[k] = v
		}
		return c
	}
	seqReads := func(e ast.Expr, env envT) (idxs []string) {
		ast.Inspect(e, func(x ast.Node) bool {
			switch y := x.(type) {
			case *ast.IndexExpr:
				if isSeq(y.X) {
					idxs = append(idxs, types.ExprString(y.Index))
					return false
				}
			case *ast.Ident:
				if k, ok := env[core.ObjOf(info, y)]; ok {
					idxs = append(idxs, k)
				}
			}
			return true
		})
		return
	}
	var lastDef = map[types.Object]ast.Expr{}
	store := func(as *ast.AssignStmt, env envT) {
		ix := as.Lhs[0].(*ast.IndexExpr)
		J := types.ExprString(ix.Index)
		res.Obligations++
		res.Count("window_element_stores", 1)
		for _, k := range seqReads(as.Rhs[0], env) {
			if k != J {
				res.Add(core.Finding{Rule: "WINDOW.pointwise", Key: fmt.Sprintf("WINDOW.pointwise|%s|seq[%s]", w.name, J), Pos: core.Pos(as.Pos()), Func: w.name,
					Msg: fmt.Sprintf("seq[%s] is overwritten with a value computed from seq[%s]: a window must scale each element by its own weight, not copy another element", J, k)})
				break
			}
		}
		switch as.Tok {
		case token.MUL_ASSIGN:
			r := as.Rhs[0]
			if c, ok := r.(*ast.CallExpr); ok {
				if id, ok := c.Fun.(*ast.Ident); ok && id.Name == "complex" && len(c.Args) == 2 {
					r = c.Args[0]
				}
			}
			weights = append(weights, J+" := "+expand(r, 0))
		case token.ASSIGN:
			r := as.Rhs[0]
			if id, ok := r.(*ast.Ident); ok {
				if d := lastDef[core.ObjOf(info, id)]; d != nil {
					r = d
				}
			}
			c, ok := r.(*ast.CallExpr)
			if !ok {
				recognised = false
				return
			}
			id, ok := c.Fun.(*ast.Ident)
			if !ok || id.Name != "complex" || len(c.Args) != 2 {
				recognised = false
				return
			}
			be, ok := c.Args[0].(*ast.BinaryExpr)
			if !ok || be.Op != token.MUL {
				recognised = false
				return
			}
			weights = append(weights, J+" := "+expand(be.X, 0))
		default:
			recognised = false
		}
	}
	var walk func(list []ast.Stmt, env envT)
	walk = func(list []ast.Stmt, env envT) {
		for _, st := range list {
			switch x := st.(type) {
			case *ast.AssignStmt:
				if len(x.Lhs) == 1 && len(x.Rhs) == 1 {
					if ix, ok := x.Lhs[0].(*ast.IndexExpr); ok && isSeq(ix.X) {
						store(x, env)
						continue
					}
					if id, ok := x.Lhs[0].(*ast.Ident); ok {
						o := core.ObjOf(info, id)
						reads := seqReads(x.Rhs[0], env)
						switch {
						case len(reads) == 0:
							delete(env, o)
						default:
							same := true
							for _, k := range reads {
								if k != reads[0] {
									same = false
								}
							}
							if same {
								env[o] = reads[0]
							} else {
								env[o] = "?"
							}
						}
						lastDef[o] = x.Rhs[0]
					}
				}
			case *ast.RangeStmt:
				e2 := clone(env)
				base := x.X
				if se, ok := base.(*ast.SliceExpr); ok && se.Low == nil {
					base = se.X
				}
				if isSeq(base) && x.Value != nil && x.Key != nil {
					if v, ok := x.Value.(*ast.Ident); ok {
						e2[core.ObjOf(info, v)] = types.ExprString(x.Key)
					}
				}
				walk(x.Body.List, e2)
			case *ast.ForStmt:
				walk(x.Body.List, clone(env))
			case *ast.IfStmt:
				walk(x.Body.List, clone(env))
				if eb, ok := x.Else.(*ast.BlockStmt); ok {
					walk(eb.List, clone(env))
				}
			case *ast.SwitchStmt:
				for _, cl := range x.Body.List {
					walk(cl.(*ast.CaseClause).Body, clone(env))
				}
			case *ast.BlockStmt:
				walk(x.List, clone(env))
			}
		}
	}
	walk(fd.Body.List, envT{})
	if !recognised || len(weights) == 0 {
		return nil
	}
	return weights
}
