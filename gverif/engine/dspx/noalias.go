package dspx

import (
	"fmt"
	"go/ast"
	"go/types"

	"gverif/core"
)

// RunNoAlias implements RESET.noleak: "a transform object gives the same
// answer regardless of what … data it was previously used with". The
// transform types keep scratch slices (work, real, ifac, …); a result handed
// to the caller must not share storage with them, otherwise the next call on
// the same object silently rewrites a result the caller still holds. In every
// exported method of a type of dsp/fourier, a returned slice is not rooted
// at a field of the receiver — directly or through a local that was
// assigned from one (dst = t.real; …; return dst).
func RunNoAlias(conf core.Config) *core.Result {
	res := core.NewResult("RESET")
	res.Rules = append(res.Rules, "RESET.noleak: no exported method of a dsp/fourier transform type returns a slice that shares storage with a field of the receiver")
	res.Configs = append(res.Configs, conf.String())
	pkgs, err := core.Load(conf, "./dsp/fourier", "./dsp/transform")
	if err != nil {
		res.Brokenf("%v", err)
		return res
	}
	for _, pkg := range pkgs {
		info := pkg.TypesInfo
		for _, f := range pkg.Syntax {
			for _, d := range f.Decls {
				fd, ok := d.(*ast.FuncDecl)
				if !ok || fd.Body == nil || fd.Recv == nil || !fd.Name.IsExported() || len(fd.Recv.List[0].Names) != 1 || fd.Type.Results == nil {
					continue
				}
				recv := info.Defs[fd.Recv.List[0].Names[0]]
				if recv == nil {
					continue
				}
				returnsSlice := false
				for _, r := range fd.Type.Results.List {
					if tv, ok := info.Types[r.Type]; ok {
						if _, isSlice := tv.Type.Underlying().(*types.Slice); isSlice {
							returnsSlice = true
						}
					}
				}
				if !returnsSlice {
					continue
				}
				name := core.FuncName(pkg, fd)
				res.Obligations++
				res.Count("slice_returning_methods", 1)
				// locals aliasing receiver storage
				tainted := map[types.Object]ast.Node{}
				var rooted func(e ast.Expr) bool
				rooted = func(e ast.Expr) bool {
					sawField := false
					for {
						switch x := ast.Unparen(e).(type) {
						case *ast.SliceExpr:
							e = x.X
							continue
						case *ast.SelectorExpr:
							sawField = true
							e = x.X
							continue
						case *ast.Ident:
							o := core.ObjOf(info, x)
							if o == recv {
								return sawField
							}
							_, t := tainted[o]
							return t
						}
						return false
					}
				}
				for iter := 0; iter < 4; iter++ {
					ast.Inspect(fd.Body, func(n ast.Node) bool {
						as, ok := n.(*ast.AssignStmt)
						if !ok || len(as.Lhs) != len(as.Rhs) {
							return true
						}
						for i, l := range as.Lhs {
							id, ok := l.(*ast.Ident)
							if !ok {
								continue
							}
							o := core.ObjOf(info, id)
							if o == nil {
								continue
							}
							if _, isSlice := o.Type().Underlying().(*types.Slice); !isSlice {
								continue
							}
							if rooted(as.Rhs[i]) {
								if _, seen := tainted[o]; !seen {
									tainted[o] = as
								}
							}
						}
						return true
					})
				}
				ast.Inspect(fd.Body, func(n ast.Node) bool {
					if _, isLit := n.(*ast.FuncLit); isLit {
						return false
					}
					rs, ok := n.(*ast.ReturnStmt)
					if !ok {
						return true
					}
					for _, r := range rs.Results {
						tv, ok := info.Types[r]
						if !ok {
							continue
						}
						if _, isSlice := tv.Type.Underlying().(*types.Slice); !isSlice {
							continue
						}
						if rooted(r) {
							via := ""
							if id, ok := ast.Unparen(r).(*ast.Ident); ok {
								if at, ok := tainted[core.ObjOf(info, id)]; ok {
									via = " (assigned at " + core.Pos(at.Pos()) + ")"
								}
							}
							res.Add(core.Finding{Rule: "RESET.noleak", Key: fmt.Sprintf("RESET.noleak|%s|%s", name, types.ExprString(r)), Pos: core.Pos(rs.Pos()), Func: name,
								Msg: fmt.Sprintf("%s returns %s, which shares storage with a field of the receiver%s: the next call on the same transform object overwrites a result the caller still holds", fd.Name.Name, types.ExprString(r), via)})
						}
					}
					return true
				})
			}
		}
	}
	return res
}
