// Package constfold implements CONSTFOLD.underflow: Go evaluates constant
// subexpressions exactly and converts the result to float64 where it meets a
// variable. A product of scaling constants such as dsbig*dsbig (2^-1076) is
// not representable: it silently becomes 0 (overflow would be a compile
// error, underflow is not), and the term it multiplies disappears. The
// scaled-accumulation code for Euclidean norms (Dlassq, L2Norm*) is written
// `(amed * dsbig) * dsbig` precisely to avoid this; reassociating the
// constants together breaks it without any test noticing.
//
// Rule: no constant-valued floating-point subexpression whose exact value is
// non-zero converts to 0 (or to a subnormal that loses precision) in the
// type it is used at.
package constfold

import (
	"fmt"
	"go/ast"
	"go/constant"
	"go/types"
	"math"

	"gverif/core"
)

// Run scans every expression of the scope.
func Run(cfg core.Config, scope core.Scope) *core.Result {
	res := core.NewResult("CONSTFOLD")
	res.Rules = append(res.Rules, "CONSTFOLD.underflow: a constant floating-point subexpression with a non-zero exact value does not underflow to zero or to a subnormal when converted to the floating-point type it is used at")
	res.Configs = append(res.Configs, cfg.String())
	pkgs, err := core.Load(cfg, scope.Patterns...)
	if err != nil {
		res.Brokenf("%v", err)
		return res
	}
	for _, pkg := range pkgs {
		info := pkg.TypesInfo
		for _, file := range pkg.Syntax {
			if !scope.InFile(file.Pos()) {
				continue
			}
			for _, d := range file.Decls {
				fd, ok := d.(*ast.FuncDecl)
				if !ok || fd.Body == nil {
					continue
				}
				name := core.FuncName(pkg, fd)
				ast.Inspect(fd.Body, func(n ast.Node) bool {
					be, ok := n.(*ast.BinaryExpr)
					if !ok {
						return true
					}
					tv, ok := info.Types[be]
					if !ok || tv.Value == nil {
						return true
					}
					b, ok := tv.Type.Underlying().(*types.Basic)
					if !ok || b.Info()&types.IsFloat == 0 {
						return true
					}
					res.Obligations++
					res.Count("constant_float_subexpressions", 1)
					// go/types records the value already rounded to the type
					// it is converted to; recompute it exactly from the operands
					v := constant.ToFloat(tv.Value)
					if xv, ok := info.Types[be.X]; ok && xv.Value != nil {
						if yv, ok := info.Types[be.Y]; ok && yv.Value != nil {
							func() {
								defer func() { recover() }()
								ex := constant.BinaryOp(constant.ToFloat(xv.Value), be.Op, constant.ToFloat(yv.Value))
								if ex.Kind() == constant.Float || ex.Kind() == constant.Int {
									v = constant.ToFloat(ex)
								}
							}()
						}
					}
					if v.Kind() != constant.Float && v.Kind() != constant.Int {
						return false
					}
					if constant.Sign(v) == 0 {
						return false
					}
					limit := math.SmallestNonzeroFloat64 * (1 << 52) // smallest normal float64
					f, _ := constant.Float64Val(v)
					if b.Kind() == types.Float32 {
						limit = float64(math.SmallestNonzeroFloat32) * (1 << 23)
						f32, _ := constant.Float32Val(v)
						f = float64(f32)
					}
					if f == 0 || math.Abs(f) < limit {
						res.Add(core.Finding{Rule: "CONSTFOLD.underflow", Key: fmt.Sprintf("CONSTFOLD.underflow|%s|%s", name, types.ExprString(be)), Pos: core.Pos(be.Pos()), Func: name,
							Msg: fmt.Sprintf("the constant subexpression %s is evaluated exactly (%s) and then converted to %s, where it underflows to %g: the term it scales vanishes; keep the variable between the constants, as in (x * c) * c", types.ExprString(be), v.String(), b.Name(), f)})
					}
					return false // the outermost constant expression is what gets converted
				})
			}
		}
	}
	return res
}
