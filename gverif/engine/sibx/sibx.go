// Package sibx: SIB.guards — the hand-written precision siblings of the
// internal/asm kernels (f64~f32, c128~c64) exit early under the same
// conditions.
//
// The float32/complex64 kernels are manual transcriptions of the
// float64/complex128 ones. Their loop bodies are free to differ (unrolling,
// widening), but the special-case exits — `if math.IsNaN(absxi) { return
// NaN }`, `if math.IsInf(scale, 1) { return +Inf }`, `if v == 0 { continue }`,
// `if n == 0 { return }` — define the value returned for NaN, Inf, zero and
// empty input and must be the same set in both precisions. Files are read
// syntactically, so every build configuration's file is covered.
package sibx

import (
	"fmt"
	"go/ast"
	"go/parser"
	"go/token"
	"go/types"
	"os"
	"path/filepath"
	"regexp"
	"sort"
	"strings"

	"gverif/core"
)

// Pairs are the sibling directories (repo relative): left is the reference.
var Pairs = [][2]string{
	{"internal/asm/f64", "internal/asm/f32"},
	{"internal/asm/c128", "internal/asm/c64"},
}

// Exempt lists "dir.Func" pairs whose exit guards legitimately differ,
// with the reason.
var Exempt = map[string]string{}

var norms = []struct {
	re  *regexp.Regexp
	rep string
}{
	{regexp.MustCompile(`\bmath32\.`), "math."},
	{regexp.MustCompile(`\bcmplx64\.`), "cmplx."},
	{regexp.MustCompile(`\bfloat32\b`), "float64"},
	{regexp.MustCompile(`\bcomplex64\b`), "complex128"},
}

func normalise(s string) string {
	for _, n := range norms {
		s = n.re.ReplaceAllString(s, n.rep)
	}
	return s
}

type fn struct {
	decl *ast.FuncDecl
	file string
}

func funcsOf(dir string) (map[string][]fn, error) {
	out := map[string][]fn{}
	ents, err := os.ReadDir(filepath.Join(core.RepoDir, dir))
	if err != nil {
		return nil, err
	}
	for _, e := range ents {
		n := e.Name()
		if !strings.HasSuffix(n, ".go") || strings.HasSuffix(n, "_test.go") {
			continue
		}
		rel := filepath.Join(dir, n)
		src, err := core.ReadFile(filepath.Join(core.RepoDir, rel))
		if err != nil {
			return nil, err
		}
		f, err := parser.ParseFile(core.Fset, filepath.Join(core.RepoDir, rel), src, parser.SkipObjectResolution)
		if err != nil {
			return nil, err
		}
		for _, d := range f.Decls {
			fd, ok := d.(*ast.FuncDecl)
			if !ok || fd.Body == nil || fd.Recv != nil {
				continue
			}
			out[fd.Name.Name] = append(out[fd.Name.Name], fn{fd, rel})
		}
	}
	return out, nil
}

// exitGuards returns the sorted normalised "cond -> exit" strings of fd.
func exitGuards(fd *ast.FuncDecl) []string {
	var out []string
	ast.Inspect(fd.Body, func(n ast.Node) bool {
		is, ok := n.(*ast.IfStmt)
		if !ok || is.Init != nil || len(is.Body.List) == 0 {
			return true
		}
		last := is.Body.List[len(is.Body.List)-1]
		exit := ""
		switch x := last.(type) {
		case *ast.ReturnStmt:
			var rs []string
			for _, r := range x.Results {
				rs = append(rs, types.ExprString(r))
			}
			exit = "return " + strings.Join(rs, ", ")
		case *ast.BranchStmt:
			if x.Tok == token.CONTINUE || x.Tok == token.BREAK {
				exit = x.Tok.String()
			}
		case *ast.ExprStmt:
			if c, ok := x.X.(*ast.CallExpr); ok {
				if id, ok := c.Fun.(*ast.Ident); ok && id.Name == "panic" {
					exit = "panic"
				}
			}
		}
		if exit == "" || len(is.Body.List) != 1 {
			return true
		}
		out = append(out, normalise(types.ExprString(is.Cond)+" -> "+exit))
		return true
	})
	sort.Strings(out)
	return out
}

func Run() *core.Result {
	res := core.NewResult("SIB")
	res.Rules = append(res.Rules, "SIB.guards: a function of internal/asm/f32 (c64) with a Go body has the same multiset of single-statement exit guards (if cond { return/continue/break/panic }) as the function of the same name in internal/asm/f64 (c128), after renaming math32->math, cmplx64->cmplx, float32->float64, complex64->complex128")
	res.Configs = append(res.Configs, "syntax (all build configurations' files)")
	used := map[string]bool{}
	for _, p := range Pairs {
		a, err := funcsOf(p[0])
		if err != nil {
			res.Brokenf("SIB: %v", err)
			continue
		}
		b, err := funcsOf(p[1])
		if err != nil {
			res.Brokenf("SIB: %v", err)
			continue
		}
		var names []string
		for n := range a {
			if len(b[n]) > 0 {
				names = append(names, n)
			}
		}
		sort.Strings(names)
		for _, n := range names {
			// several bodies per name exist when files are tag-selected;
			// compare every body of the sibling with the reference bodies
			var refs [][]string
			for _, f := range a[n] {
				refs = append(refs, exitGuards(f.decl))
			}
			for _, f := range b[n] {
				res.Obligations++
				res.Count("sibling_function_pairs", 1)
				g := exitGuards(f.decl)
				res.Count("exit_guards", len(g))
				match := false
				for _, r := range refs {
					if strings.Join(r, "\n") == strings.Join(g, "\n") {
						match = true
					}
				}
				if match {
					continue
				}
				key := p[1] + "." + n
				if _, ok := Exempt[key]; ok {
					used[key] = true
					continue
				}
				res.Add(core.Finding{Rule: "SIB.guards", Key: "SIB.guards|" + key, Pos: core.Pos(f.decl.Pos()), Func: key,
					Msg: fmt.Sprintf("%s.%s exits early under {%s} but its %s sibling under {%s}: the two precisions treat a special case (NaN, Inf, zero, empty) differently",
						filepath.Base(p[1]), n, strings.Join(g, "; "), filepath.Base(p[0]), strings.Join(refs[0], "; "))})
			}
		}
	}
	for k := range Exempt {
		if !used[k] {
			res.Stale("SIB.guards: stale exemption %s", k)
		}
	}
	return res
}
