// Package aliasx implements ALIAS.config: the working state of a method
// value does not alias the caller-visible configuration field it was
// initialised from.
//
// The optimisers and samplers are configured through exported slice fields
// (NelderMead.InitialValues, CmaEsChol.InitMean, …) and keep their working
// arrays in unexported fields that they overwrite in place during a run.
// Initialising the working array with `copy(n.values, n.InitialValues)` keeps
// the two apart; `n.values = n.InitialValues` makes every later in-place
// update of the state rewrite the user's settings, so that a second run with
// the same method value starts from the end state of the first.
//
// Reported: an assignment `r.f = r.G` (same receiver r, f unexported, G
// exported, both slices) in a method of T when some method of T stores into
// r.f element-wise, copies into it or appends to it.
package aliasx

import (
	"fmt"
	"go/ast"
	"go/token"
	"go/types"

	"gverif/core"
)

func Run(cfg core.Config, scope core.Scope) *core.Result {
	res := core.NewResult("ALIAS")
	res.Rules = append(res.Rules, "ALIAS.config: no method assigns an exported slice field of its receiver to an unexported slice field of the same receiver that the type's methods update in place (copy is required)")
	res.Configs = append(res.Configs, cfg.String())
	pkgs, err := core.Load(cfg, scope.Patterns...)
	if err != nil {
		res.Brokenf("%v", err)
		return res
	}
	for _, pkg := range pkgs {
		info := pkg.TypesInfo
		// fields updated in place anywhere in the package
		mutated := map[*types.Var]bool{}
		fieldOf := func(e ast.Expr) *types.Var {
			sel, ok := ast.Unparen(e).(*ast.SelectorExpr)
			if !ok {
				return nil
			}
			if s, ok := info.Selections[sel]; ok && s.Kind() == types.FieldVal {
				if v, ok := s.Obj().(*types.Var); ok {
					return v
				}
			}
			return nil
		}
		for _, file := range pkg.Syntax {
			ast.Inspect(file, func(n ast.Node) bool {
				switch x := n.(type) {
				case *ast.AssignStmt:
					for _, l := range x.Lhs {
						if ix, ok := ast.Unparen(l).(*ast.IndexExpr); ok {
							if f := fieldOf(ix.X); f != nil {
								mutated[f] = true
							}
						}
					}
				case *ast.CallExpr:
					if id, ok := x.Fun.(*ast.Ident); ok && (id.Name == "copy" || id.Name == "append") && len(x.Args) > 0 {
						a := x.Args[0]
						if se, ok := ast.Unparen(a).(*ast.SliceExpr); ok {
							a = se.X
						}
						if f := fieldOf(a); f != nil {
							mutated[f] = true
						}
					}
				}
				return true
			})
		}
		for _, file := range pkg.Syntax {
			if !scope.InFile(file.Pos()) {
				continue
			}
			for _, d := range file.Decls {
				fd, ok := d.(*ast.FuncDecl)
				if !ok || fd.Body == nil || fd.Recv == nil {
					continue
				}
				name := core.FuncName(pkg, fd)
				ast.Inspect(fd.Body, func(n ast.Node) bool {
					as, ok := n.(*ast.AssignStmt)
					if !ok || as.Tok != token.ASSIGN || len(as.Lhs) != len(as.Rhs) {
						return true
					}
					for i, l := range as.Lhs {
						lf, rf := fieldOf(l), fieldOf(as.Rhs[i])
						if lf == nil {
							continue
						}
						if _, isSlice := lf.Type().Underlying().(*types.Slice); !isSlice || lf.Exported() {
							continue
						}
						res.Count("state_slice_field_assignments", 1)
						if rf == nil || !rf.Exported() {
							continue
						}
						if _, isSlice := rf.Type().Underlying().(*types.Slice); !isSlice {
							continue
						}
						lx := types.ExprString(ast.Unparen(l).(*ast.SelectorExpr).X)
						rx := types.ExprString(ast.Unparen(as.Rhs[i]).(*ast.SelectorExpr).X)
						if lx != rx {
							continue
						}
						res.Obligations++
						res.Count("state_initialised_from_configuration_field", 1)
						if mutated[lf] {
							res.Add(core.Finding{Rule: "ALIAS.config", Key: fmt.Sprintf("ALIAS.config|%s|%s=%s", name, lf.Name(), rf.Name()), Pos: core.Pos(as.Pos()), Func: name,
								Msg: fmt.Sprintf("%s.%s is made an alias of the exported field %s, and the type's methods update %s in place: a run rewrites the caller's configuration, so reusing the method value starts from the previous run's end state", lx, lf.Name(), rf.Name(), lf.Name())})
						}
					}
					return true
				})
			}
		}
	}
	return res
}
