package settingsx

import (
	"fmt"
	"go/ast"
	"go/types"

	"gverif/core"
)

// RunCallbackCopy implements CALLBACK.owncopy: diff/fd evaluates the user's
// function at perturbed copies of the point and says so ("protects against
// the function modifying the input data"), so no call of a function-typed
// parameter passes a slice parameter that holds the caller's storage (a
// parameter of an exported function, or of a helper that is handed one): the
// user function may scribble on what it is given, the caller's x may not
// change, and every later evaluation copies from x again.
func RunCallbackCopy(conf core.Config, scope core.Scope) *core.Result {
	res := core.NewResult("CALLBACKCOPY")
	res.Rules = append(res.Rules, "CALLBACK.owncopy: in diff/fd no call of a function-typed parameter passes a slice parameter of the enclosing function; the user function only ever receives local copies")
	res.Configs = append(res.Configs, conf.String())
	pkgs, err := core.Load(conf, scope.Patterns...)
	if err != nil {
		res.Brokenf("%v", err)
		return res
	}
	for _, pkg := range pkgs {
		info := pkg.TypesInfo
		// Which slice parameters hold the caller's storage? Those of exported
		// functions, and those of unexported helpers that some call site
		// feeds with such a parameter (fixpoint); a helper that only ever
		// receives a local scratch slice (gradientSerial(…, xcopy)) owns it.
		owned := map[types.Object]bool{}
		type fn struct {
			fd     *ast.FuncDecl
			params []types.Object
		}
		fns := map[types.Object]*fn{}
		for _, file := range pkg.Syntax {
			for _, d := range file.Decls {
				fd, ok := d.(*ast.FuncDecl)
				if !ok || fd.Body == nil {
					continue
				}
				f := &fn{fd: fd}
				for _, fl := range fd.Type.Params.List {
					for _, n := range fl.Names {
						o := info.Defs[n]
						f.params = append(f.params, o)
						if o != nil && ast.IsExported(fd.Name.Name) {
							if _, ok := o.Type().Underlying().(*types.Slice); ok {
								owned[o] = true
							}
						}
					}
					if len(fl.Names) == 0 {
						f.params = append(f.params, nil)
					}
				}
				if o := info.Defs[fd.Name]; o != nil {
					fns[o] = f
				}
			}
		}
		for changed := true; changed; {
			changed = false
			for _, f := range fns {
				ast.Inspect(f.fd.Body, func(n ast.Node) bool {
					c, ok := n.(*ast.CallExpr)
					if !ok {
						return true
					}
					id, ok := c.Fun.(*ast.Ident)
					if !ok {
						return true
					}
					callee := fns[core.ObjOf(info, id)]
					if callee == nil {
						return true
					}
					for i, a := range c.Args {
						if i >= len(callee.params) || callee.params[i] == nil {
							continue
						}
						if aid, ok := ast.Unparen(a).(*ast.Ident); ok && owned[core.ObjOf(info, aid)] && !owned[callee.params[i]] {
							owned[callee.params[i]] = true
							changed = true
						}
					}
					return true
				})
			}
		}
		for _, file := range pkg.Syntax {
			if !scope.InFile(file.Pos()) {
				continue
			}
			for _, d := range file.Decls {
				fd, ok := d.(*ast.FuncDecl)
				if !ok || fd.Body == nil {
					continue
				}
				name := core.FuncName(pkg, fd)
				funcParams := map[types.Object]bool{}
				sliceParams := map[types.Object]bool{}
				for _, fl := range fd.Type.Params.List {
					for _, n := range fl.Names {
						o := info.Defs[n]
						if o == nil {
							continue
						}
						switch o.Type().Underlying().(type) {
						case *types.Signature:
							funcParams[o] = true
						case *types.Slice:
							if owned[o] {
								sliceParams[o] = true
							}
						}
					}
				}
				if len(funcParams) == 0 {
					continue
				}
				// a slice parameter that the function re-points to fresh
				// storage (origin = make(…)) is a local from then on
				ast.Inspect(fd.Body, func(n ast.Node) bool {
					if as, ok := n.(*ast.AssignStmt); ok {
						for _, l := range as.Lhs {
							if id, ok := l.(*ast.Ident); ok && sliceParams[core.ObjOf(info, id)] {
								delete(sliceParams, core.ObjOf(info, id))
								res.Count("slice_parameters_re_pointed_to_fresh_storage", 1)
							}
						}
					}
					return true
				})
				ast.Inspect(fd.Body, func(n ast.Node) bool {
					c, ok := n.(*ast.CallExpr)
					if !ok {
						return true
					}
					id, ok := c.Fun.(*ast.Ident)
					if !ok || !funcParams[core.ObjOf(info, id)] {
						return true
					}
					for _, a := range c.Args {
						if _, isSlice := info.TypeOf(a).Underlying().(*types.Slice); !isSlice {
							continue
						}
						res.Obligations++
						res.Count("slices_handed_to_the_user_function", 1)
						if aid, ok := ast.Unparen(a).(*ast.Ident); ok && sliceParams[core.ObjOf(info, aid)] {
							res.Add(core.Finding{Rule: "CALLBACK.owncopy", Key: fmt.Sprintf("CALLBACK.owncopy|%s|%s(%s)", name, id.Name, aid.Name), Pos: core.Pos(c.Pos()), Func: name,
								Msg: fmt.Sprintf("%s calls the user function %s on its own parameter %s instead of a copy: a function that modifies its argument changes the caller's slice and every later evaluation point copied from it", name, id.Name, aid.Name)})
						}
					}
					return true
				})
			}
		}
	}
	return res
}
