// Package settingsx implements SETTINGS.readonly: a function does not store
// into the caller's *Settings.
//
// diff/fd and optimize are configured through a pointer to a Settings struct
// that callers keep and reuse across calls (and share between goroutines).
// The functions resolve defaults into locals (`step := …; if settings.Step !=
// 0 { step = settings.Step }`); writing a resolved default back
// (`settings.Step = step`) makes the next call — possibly of another function
// with another default — start from this call's value. Reported: an
// assignment to a field of a parameter whose type is a pointer to a struct
// type named Settings, unless the parameter was re-pointed to a fresh value
// (`settings = &Settings{}`) on every path before the store.
package settingsx

import (
	"fmt"
	"go/ast"
	"go/types"
	"strings"

	"gverif/cfgx"
	"gverif/core"

	"golang.org/x/tools/go/cfg"
)

func Run(conf core.Config, scope core.Scope) *core.Result {
	res := core.NewResult("SETTINGS")
	res.Rules = append(res.Rules, "SETTINGS.readonly: no function assigns to a field of a *Settings parameter unless the parameter was re-pointed to a fresh struct on every path before")
	res.Configs = append(res.Configs, conf.String())
	pkgs, err := core.Load(conf, scope.Patterns...)
	if err != nil {
		res.Brokenf("%v", err)
		return res
	}
	for _, pkg := range pkgs {
		info := pkg.TypesInfo
		for _, file := range pkg.Syntax {
			if !scope.InFile(file.Pos()) {
				continue
			}
			for _, d := range file.Decls {
				fd, ok := d.(*ast.FuncDecl)
				if !ok || fd.Body == nil {
					continue
				}
				name := core.FuncName(pkg, fd)
				for _, fl := range fd.Type.Params.List {
					for _, n := range fl.Names {
						o := info.Defs[n]
						if o == nil {
							continue
						}
						p, ok := o.Type().(*types.Pointer)
						if !ok {
							continue
						}
						nt, ok := p.Elem().(*types.Named)
						if !ok || !strings.HasSuffix(nt.Obj().Name(), "Settings") {
							continue
						}
						if _, isStruct := nt.Underlying().(*types.Struct); !isStruct {
							continue
						}
						res.Obligations++
						res.Count("settings_pointer_parameters", 1)
						isP := func(e ast.Expr) bool {
							id, ok := ast.Unparen(e).(*ast.Ident)
							return ok && core.ObjOf(info, id) == o
						}
						var stores []*ast.AssignStmt
						ast.Inspect(fd.Body, func(y ast.Node) bool {
							as, ok := y.(*ast.AssignStmt)
							if !ok {
								return true
							}
							for _, l := range as.Lhs {
								switch x := ast.Unparen(l).(type) {
								case *ast.SelectorExpr:
									if isP(x.X) {
										stores = append(stores, as)
									}
								case *ast.StarExpr:
									if isP(x.X) {
										stores = append(stores, as)
									}
								}
							}
							return true
						})
						if len(stores) == 0 {
							continue
						}
						g := cfgx.New(fd.Body, info)
						fresh := g.MustPass(func(b *cfg.Block) bool {
							for _, nd := range b.Nodes {
								found := false
								ast.Inspect(nd, func(y ast.Node) bool {
									if as, ok := y.(*ast.AssignStmt); ok {
										for i, l := range as.Lhs {
											if isP(l) && i < len(as.Rhs) {
												switch r := ast.Unparen(as.Rhs[i]).(type) {
												case *ast.UnaryExpr:
													if _, isLit := r.X.(*ast.CompositeLit); isLit {
														found = true
													}
												case *ast.CallExpr:
													if id, ok := r.Fun.(*ast.Ident); ok && id.Name == "new" {
														found = true
													}
												}
											}
										}
									}
									return !found
								})
								if found {
									return true
								}
							}
							return false
						})
						for _, st := range stores {
							loc, ok := g.Where[st]
							if ok && fresh[loc.Block] {
								continue
							}
							res.Add(core.Finding{Rule: "SETTINGS.readonly", Key: fmt.Sprintf("SETTINGS.readonly|%s|%s", name, types.ExprString(st.Lhs[0])), Pos: core.Pos(st.Pos()), Func: name,
								Msg: fmt.Sprintf("%s stores into %s, the caller's settings: a Settings value reused for a later call (or shared between goroutines) then carries this call's resolved value instead of the default the caller asked for", name, types.ExprString(st.Lhs[0]))})
							break
						}
					}
				}
			}
		}
	}
	return res
}
