package factx

import (
	"fmt"
	"go/ast"
	"go/token"
	"go/types"

	"gverif/core"

	"golang.org/x/tools/go/packages"
)

// deadLoop implements FACT.deadloop, a contradiction rule. A factorization
// type's factorize method rejects one shape (`m, n := a.Dims(); if m < n {
// panic(ErrShape) }`) and then clones a into a field; from then on that field
// has rows >= cols (QR) or rows <= cols (LQ). A method of the same type that
// reads `r, c := recv.field.Dims()` and runs `for i := r; i < c; i++` relies
// on the opposite relation: under the type's own invariant the loop body never
// executes, so whatever it was meant to clear or fill is left as it was.
func deadLoop(pkg *packages.Package, res *core.Result) {
	info := pkg.TypesInfo
	type inv struct {
		field   string
		rowsGEQ bool // rows >= cols; otherwise rows <= cols
		at      token.Pos
	}
	invs := map[*types.TypeName]inv{}
	recvType := func(fd *ast.FuncDecl) (*types.TypeName, types.Object) {
		if fd.Recv == nil || len(fd.Recv.List) != 1 || len(fd.Recv.List[0].Names) != 1 {
			return nil, nil
		}
		o := info.Defs[fd.Recv.List[0].Names[0]]
		if o == nil {
			return nil, nil
		}
		t := o.Type()
		if p, ok := t.(*types.Pointer); ok {
			t = p.Elem()
		}
		if n, ok := t.(*types.Named); ok {
			return n.Obj(), o
		}
		return nil, nil
	}
	// dimsOf: `x, y := E.Dims()` -> objects of x and y and E
	dimsOf := func(st ast.Stmt) (x, y types.Object, e ast.Expr) {
		as, ok := st.(*ast.AssignStmt)
		if !ok || len(as.Lhs) != 2 || len(as.Rhs) != 1 {
			return nil, nil, nil
		}
		c, ok := as.Rhs[0].(*ast.CallExpr)
		if !ok {
			return nil, nil, nil
		}
		sel, ok := c.Fun.(*ast.SelectorExpr)
		if !ok || sel.Sel.Name != "Dims" {
			return nil, nil, nil
		}
		a, ok1 := as.Lhs[0].(*ast.Ident)
		b, ok2 := as.Lhs[1].(*ast.Ident)
		if !ok1 || !ok2 {
			return nil, nil, nil
		}
		return core.ObjOf(info, a), core.ObjOf(info, b), sel.X
	}
	fieldPath := func(e ast.Expr, recv types.Object) string {
		sel, ok := ast.Unparen(e).(*ast.SelectorExpr)
		if !ok {
			return ""
		}
		id, ok := ast.Unparen(sel.X).(*ast.Ident)
		if !ok || core.ObjOf(info, id) != recv {
			return ""
		}
		return sel.Sel.Name
	}
	// pass 1: invariants from factorize methods
	for _, file := range pkg.Syntax {
		for _, d := range file.Decls {
			fd, ok := d.(*ast.FuncDecl)
			if !ok || fd.Body == nil {
				continue
			}
			tn, recv := recvType(fd)
			if tn == nil || len(fd.Type.Params.List) == 0 {
				continue
			}
			var m, n types.Object
			var src types.Object
			var rel *inv
			for _, st := range fd.Body.List {
				if x, y, e := dimsOf(st); x != nil && m == nil {
					if id, ok := ast.Unparen(e).(*ast.Ident); ok {
						if o := core.ObjOf(info, id); o != nil && o.Pos() >= fd.Type.Params.Pos() && o.Pos() <= fd.Type.Params.End() {
							m, n, src = x, y, o
						}
					}
					continue
				}
				if m == nil {
					continue
				}
				if is, ok := st.(*ast.IfStmt); ok && rel == nil && len(is.Body.List) == 1 && is.Else == nil {
					if es, ok := is.Body.List[0].(*ast.ExprStmt); ok {
						if c, ok := es.X.(*ast.CallExpr); ok {
							if id, ok := c.Fun.(*ast.Ident); ok && id.Name == "panic" {
								if be, ok := ast.Unparen(is.Cond).(*ast.BinaryExpr); ok && (be.Op == token.LSS || be.Op == token.GTR) {
									a, _ := ast.Unparen(be.X).(*ast.Ident)
									b, _ := ast.Unparen(be.Y).(*ast.Ident)
									if a != nil && b != nil {
										ao, bo := core.ObjOf(info, a), core.ObjOf(info, b)
										switch {
										case ao == m && bo == n:
											rel = &inv{rowsGEQ: be.Op == token.LSS, at: is.Pos()}
										case ao == n && bo == m:
											rel = &inv{rowsGEQ: be.Op == token.GTR, at: is.Pos()}
										}
									}
								}
							}
						}
					}
					continue
				}
				if rel == nil || rel.field != "" {
					continue
				}
				// recv.F.CloneFrom(src) / recv.F.Copy(src)
				if es, ok := st.(*ast.ExprStmt); ok {
					if c, ok := es.X.(*ast.CallExpr); ok && len(c.Args) == 1 {
						if sel, ok := c.Fun.(*ast.SelectorExpr); ok && (sel.Sel.Name == "CloneFrom" || sel.Sel.Name == "Copy") {
							if id, ok := ast.Unparen(c.Args[0]).(*ast.Ident); ok && core.ObjOf(info, id) == src {
								if f := fieldPath(sel.X, recv); f != "" {
									rel.field = f
								}
							}
						}
					}
				}
			}
			if rel != nil && rel.field != "" {
				invs[tn] = *rel
				res.Count("shape_invariants_of_factorization_types", 1)
			}
		}
	}
	// pass 2: loops contradicting the invariant
	for _, file := range pkg.Syntax {
		for _, d := range file.Decls {
			fd, ok := d.(*ast.FuncDecl)
			if !ok || fd.Body == nil {
				continue
			}
			tn, recv := recvType(fd)
			iv, has := invs[tn]
			if tn == nil || !has {
				continue
			}
			name := core.FuncName(pkg, fd)
			var r, c types.Object
			assigned := map[types.Object]int{}
			ast.Inspect(fd.Body, func(n ast.Node) bool {
				if as, ok := n.(*ast.AssignStmt); ok {
					for _, l := range as.Lhs {
						if id, ok := l.(*ast.Ident); ok {
							if o := core.ObjOf(info, id); o != nil {
								assigned[o]++
							}
						}
					}
					if x, y, e := dimsOf(as); x != nil && fieldPath(e, recv) == iv.field && r == nil {
						r, c = x, y
					}
				}
				return true
			})
			if r == nil || assigned[r] != 1 || assigned[c] != 1 {
				continue
			}
			ast.Inspect(fd.Body, func(n ast.Node) bool {
				fs, ok := n.(*ast.ForStmt)
				if !ok || fs.Init == nil || fs.Cond == nil {
					return true
				}
				as, ok := fs.Init.(*ast.AssignStmt)
				if !ok || len(as.Lhs) != 1 || len(as.Rhs) != 1 {
					return true
				}
				iv0, ok := as.Lhs[0].(*ast.Ident)
				lo, ok2 := ast.Unparen(as.Rhs[0]).(*ast.Ident)
				be, ok3 := ast.Unparen(fs.Cond).(*ast.BinaryExpr)
				if !ok || !ok2 || !ok3 || be.Op != token.LSS {
					return true
				}
				ci, ok := ast.Unparen(be.X).(*ast.Ident)
				hi, ok2 := ast.Unparen(be.Y).(*ast.Ident)
				if !ok || !ok2 || core.ObjOf(info, ci) != core.ObjOf(info, iv0) {
					return true
				}
				lo0, hi0 := core.ObjOf(info, lo), core.ObjOf(info, hi)
				if !((lo0 == r && hi0 == c) || (lo0 == c && hi0 == r)) {
					return true
				}
				res.Obligations++
				res.Count("loops_between_the_two_dimensions", 1)
				// loop runs lo..hi-1: needs lo < hi for some admissible shape
				dead := (lo0 == r && hi0 == c && iv.rowsGEQ) || (lo0 == c && hi0 == r && !iv.rowsGEQ)
				if dead {
					rel := "rows >= cols"
					if !iv.rowsGEQ {
						rel = "rows <= cols"
					}
					res.Add(core.Finding{Rule: "FACT.deadloop", Key: fmt.Sprintf("FACT.deadloop|%s|for %s := %s; %s < %s", name, iv0.Name, lo.Name, ci.Name, hi.Name), Pos: core.Pos(fs.Pos()), Func: name,
						Msg:  fmt.Sprintf("the loop `for %s := %s; %s < %s` over %s.%s.Dims() never executes: %s's factorize rejects the other shape at %s, so %s always holds here and the rows/columns the loop was written to clear keep their old content", iv0.Name, lo.Name, ci.Name, hi.Name, recv.Name(), iv.field, tn.Name(), core.Pos(iv.at), rel),
						Path: []string{"shape guard at " + core.Pos(iv.at), "loop at " + core.Pos(fs.Pos())}})
				}
				return true
			})
		}
	}
}
