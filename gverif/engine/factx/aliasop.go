package factx

import (
	"fmt"
	"go/ast"
	"go/types"

	"gverif/core"

	"golang.org/x/tools/go/packages"
)

// aliasOperand implements FACT.alias: a method that builds its receiver from
// another value of the same type (LU.RankOne(orig, …), Cholesky.Clone(chol),
// …) copies the other value's slices, it does not adopt them. After
// `lu.swaps = orig.swaps[:n]` the two factorizations share one array and a
// later Factorize of either rewrites the pivots of the other. Reported: an
// assignment of an expression rooted at a field of the same-typed parameter
// (through selectors and reslicing only — no call, no copy) to a slice field
// of the receiver.
func aliasOperand(pkg *packages.Package, res *core.Result) {
	info := pkg.TypesInfo
	for _, file := range pkg.Syntax {
		for _, d := range file.Decls {
			fd, ok := d.(*ast.FuncDecl)
			if !ok || fd.Body == nil || fd.Recv == nil || len(fd.Recv.List) != 1 || len(fd.Recv.List[0].Names) != 1 {
				continue
			}
			recv := info.Defs[fd.Recv.List[0].Names[0]]
			if recv == nil {
				continue
			}
			same := map[types.Object]bool{}
			for _, fl := range fd.Type.Params.List {
				for _, n := range fl.Names {
					if o := info.Defs[n]; o != nil && types.Identical(o.Type(), recv.Type()) {
						same[o] = true
					}
				}
			}
			if len(same) == 0 {
				continue
			}
			name := core.FuncName(pkg, fd)
			res.Count("methods_taking_a_value_of_their_own_type", 1)
			rootedAtParam := func(e ast.Expr) bool {
				for {
					switch x := ast.Unparen(e).(type) {
					case *ast.SliceExpr:
						e = x.X
					case *ast.SelectorExpr:
						e = x.X
					case *ast.Ident:
						return same[core.ObjOf(info, x)]
					default:
						return false
					}
				}
			}
			ast.Inspect(fd.Body, func(n ast.Node) bool {
				as, ok := n.(*ast.AssignStmt)
				if !ok || len(as.Lhs) != len(as.Rhs) {
					return true
				}
				for i, l := range as.Lhs {
					sel, ok := ast.Unparen(l).(*ast.SelectorExpr)
					if !ok {
						continue
					}
					id, ok := ast.Unparen(sel.X).(*ast.Ident)
					if !ok || core.ObjOf(info, id) != recv {
						continue
					}
					tv, ok := info.Types[l]
					if !ok {
						continue
					}
					if _, isSlice := tv.Type.Underlying().(*types.Slice); !isSlice {
						continue
					}
					res.Obligations++
					res.Count("slice_field_assignments_in_such_methods", 1)
					if _, isID := ast.Unparen(as.Rhs[i]).(*ast.Ident); isID {
						continue
					}
					if rootedAtParam(as.Rhs[i]) {
						res.Add(core.Finding{Rule: "FACT.alias", Key: fmt.Sprintf("FACT.alias|%s|%s", name, sel.Sel.Name), Pos: core.Pos(as.Pos()), Func: name,
							Msg: fmt.Sprintf("%s = %s makes the receiver share the other value's array: the two values are no longer independent, and a later in-place update of either rewrites the other", types.ExprString(l), types.ExprString(as.Rhs[i]))})
					}
				}
				return true
			})
		}
	}
}
