package factx

import (
	"fmt"
	"go/ast"
	"go/types"

	"gverif/core"

	"golang.org/x/tools/go/packages"
)

// failState implements FACT.failstate: a Factorize method that reports
// failure leaves a receiver that says so. By the time Factorize returns false
// the receiver's storage has been overwritten with a partial factor, so the
// arm that returns the literal false first invalidates the receiver — it
// calls recv.Reset() or stores into a receiver field (values = nil, err = …,
// kind = 0) — in the same statement list. A bare `if !ok { return false }`
// leaves a receiver that every later Cond, Det, SolveTo takes for a valid
// factorization.
func failState(pkg *packages.Package, res *core.Result) {
	info := pkg.TypesInfo
	for _, file := range pkg.Syntax {
		for _, d := range file.Decls {
			fd, ok := d.(*ast.FuncDecl)
			if !ok || fd.Body == nil || fd.Recv == nil || len(fd.Recv.List) != 1 || len(fd.Recv.List[0].Names) != 1 {
				continue
			}
			if fd.Name.Name != "Factorize" && fd.Name.Name != "factorize" {
				continue
			}
			recv := info.Defs[fd.Recv.List[0].Names[0]]
			if recv == nil {
				continue
			}
			name := core.FuncName(pkg, fd)
			touches := func(st ast.Stmt) bool {
				found := false
				ast.Inspect(st, func(y ast.Node) bool {
					switch x := y.(type) {
					case *ast.AssignStmt:
						for _, l := range x.Lhs {
							e := ast.Unparen(l)
							// *recv = T{…} rewrites every field
							if st, ok := e.(*ast.StarExpr); ok {
								if id, ok := ast.Unparen(st.X).(*ast.Ident); ok && core.ObjOf(info, id) == recv {
									found = true
								}
							}
							for {
								sel, ok := e.(*ast.SelectorExpr)
								if !ok {
									break
								}
								if id, ok := ast.Unparen(sel.X).(*ast.Ident); ok && core.ObjOf(info, id) == recv {
									found = true
								}
								e = ast.Unparen(sel.X)
							}
						}
					case *ast.CallExpr:
						if sel, ok := x.Fun.(*ast.SelectorExpr); ok {
							if id, ok := ast.Unparen(sel.X).(*ast.Ident); ok && core.ObjOf(info, id) == recv {
								if _, isMethod := info.Uses[sel.Sel].(*types.Func); isMethod {
									found = true
								}
							}
						}
					}
					return !found
				})
				return found
			}
			mentionsRecv := func(e ast.Expr) bool {
				found := false
				ast.Inspect(e, func(y ast.Node) bool {
					if id, ok := y.(*ast.Ident); ok && core.ObjOf(info, id) == recv {
						found = true
					}
					return !found
				})
				return found
			}
			var visit func(list []ast.Stmt, recorded bool)
			visit = func(list []ast.Stmt, recorded bool) {
				for i, st := range list {
					if r, ok := st.(*ast.ReturnStmt); ok && len(r.Results) >= 1 {
						if id, ok := ast.Unparen(r.Results[0]).(*ast.Ident); ok && id.Name == "false" {
							res.Obligations++
							res.Count("factorize_failure_returns", 1)
							// recorded: the condition selecting this arm tests a field
							// of the receiver (gsvd.err = …; if gsvd.err != nil { return false })
							okTouch := recorded
							for _, prev := range list[:i] {
								if touches(prev) {
									okTouch = true
								}
							}
							if !okTouch {
								res.Add(core.Finding{Rule: "FACT.failstate", Key: fmt.Sprintf("FACT.failstate|%s|%d", name, i), Pos: core.Pos(r.Pos()), Func: name,
									Msg: fmt.Sprintf("%s returns false here without having invalidated the receiver in this arm (no Reset, no store to a field): the receiver keeps looking like a valid factorization of the partially overwritten storage", name)})
							}
						}
					}
					ast.Inspect(st, func(y ast.Node) bool {
						switch x := y.(type) {
						case *ast.FuncLit:
							return false
						case *ast.IfStmt:
							visit(x.Body.List, mentionsRecv(x.Cond))
							if x.Else != nil {
								switch e := x.Else.(type) {
								case *ast.BlockStmt:
									visit(e.List, false)
								case *ast.IfStmt:
									visit([]ast.Stmt{e}, false)
								}
							}
							return false
						case *ast.BlockStmt:
							if y != ast.Node(st) {
								visit(x.List, false)
								return false
							}
						case *ast.CaseClause:
							visit(x.Body, false)
							return false
						}
						return true
					})
				}
			}
			visit(fd.Body.List, false)
		}
	}
}
