// Package factx holds the rules specific to mat's factorization types.
//
// FACT.normorder — the norm handed to a LAPACK condition estimator
// (Gecon, Pocon, Pbcon) is the norm of the matrix before it was factorized:
// the Lan* call that computes it must not be reachable from the in-place
// factorization (Getrf, Potrf, Pbtrf, Pstrf) of the same storage.
//
// FACT.state — a method of a factorization type that rebuilds the receiver
// from another value of the same type (Clone, Scale, SymRankOne,
// ExtendVecSym, RankOne) assigns or recomputes every field of the type, so
// a fresh receiver ends up with the same state as an aliased one.
package factx

import (
	"fmt"
	"go/ast"
	"go/types"
	"sort"
	"strings"

	"gverif/cfgx"
	"gverif/core"

	"golang.org/x/tools/go/packages"
	"golang.org/x/tools/go/types/typeutil"
)

// factorizers are the lapack64 routines that overwrite their matrix argument
// (argument index) with its factorization.
var factorizers = map[string]int{"Getrf": 0, "Potrf": 0, "Pbtrf": 0, "Pstrf": 0, "Gttrf": 0, "Pttrf": 0}

// norms are the lapack64 norm routines with the index of the matrix argument.
var norms = map[string]int{"Lange": 1, "Lansy": 1, "Lansb": 1, "Langb": 1, "Langt": 1, "Lanst": 1}

// StateExempt lists "Type.Method|field" with the reason the field need not
// be rebuilt by that method.
var StateExempt = map[string]string{}

func lapack64Callee(info *types.Info, call *ast.CallExpr) string {
	fn, _ := typeutil.Callee(info, call).(*types.Func)
	if fn == nil || fn.Pkg() == nil || fn.Pkg().Path() != core.ModPath+"/lapack/lapack64" {
		return ""
	}
	return fn.Name()
}

func Run(conf core.Config) *core.Result {
	res := core.NewResult("FACT")
	res.Rules = append(res.Rules,
		"FACT.normorder: a lapack64.Lan* norm of storage M that is computed in the same function as an in-place lapack64 factorization (Getrf/Potrf/Pbtrf/Pstrf) of M is not reachable from that factorization",
		"FACT.condafter: in a function that factorizes storage in place and estimates the condition number (lapack64 *con or the receiver's updateCond), every path to the estimate passes the factorization",
		"FACT.condunit: the reciprocal condition number returned by a lapack64 *con estimator reaches a comparison with ConditionTolerance, a Condition(...) conversion or a cond field only through an odd number of inversions 1/x",
		"FACT.deadloop: a loop between the two dimensions of a factorization type's storage field runs in the direction the type's own factorize method admits (QR: rows >= cols, LQ: rows <= cols); a loop that can never execute is reported",
		"FACT.reuse: a matrix field of a factorization type that is resized with reuseAs*/ReuseAs* (which panics for a non-empty matrix of another size) is reset first on every path of the same function, or is reset by another method of the type",
		"FACT.failstate: in a Factorize method the statement list that ends in `return false` first resets the receiver or stores into one of its fields",
		"FACT.alias: a method that takes another value of its receiver's type assigns to no slice field of the receiver an expression rooted at that value (selectors and reslices only)",
		"FACT.condpath: a method of a factorization type that rebuilds the receiver from another value of its type and defines cond on some path defines it on every path to a successful return when the receiver is not the argument",
		"FACT.state: a method of a mat factorization type that takes another value of its own type and writes the receiver assigns every field of the type (directly or through a receiver method it calls)")
	res.Configs = append(res.Configs, conf.String())
	pkgs, err := core.Load(conf, "./mat")
	if err != nil {
		res.Brokenf("%v", err)
		return res
	}
	pkg := pkgs[0]
	normOrder(pkg, res)
	state(pkg, res)
	condPath(pkg, res)
	condUnit(pkg, res)
	condAfter(pkg, res)
	deadLoop(pkg, res)
	reuseReset(pkg, res)
	failState(pkg, res)
	aliasOperand(pkg, res)
	return res
}

func normOrder(pkg *packages.Package, res *core.Result) {
	info := pkg.TypesInfo
	for _, f := range pkg.Syntax {
		for _, d := range f.Decls {
			fd, ok := d.(*ast.FuncDecl)
			if !ok || fd.Body == nil {
				continue
			}
			type site struct {
				call *ast.CallExpr
				name string
				arg  string
			}
			var facts, lans []site
			ast.Inspect(fd.Body, func(n ast.Node) bool {
				call, ok := n.(*ast.CallExpr)
				if !ok {
					return true
				}
				name := lapack64Callee(info, call)
				if i, ok := factorizers[name]; ok && len(call.Args) > i {
					facts = append(facts, site{call, name, types.ExprString(call.Args[i])})
				}
				if i, ok := norms[name]; ok && len(call.Args) > i {
					lans = append(lans, site{call, name, types.ExprString(call.Args[i])})
				}
				return true
			})
			if len(facts) == 0 || len(lans) == 0 {
				continue
			}
			name := core.FuncName(pkg, fd)
			g := cfgx.New(fd.Body, info)
			for _, l := range lans {
				for _, fc := range facts {
					if l.arg != fc.arg {
						continue
					}
					res.Count("norm_factorization_pairs", 1)
					res.Obligations++
					lf, ok1 := g.Where[fc.call]
					ll, ok2 := g.Where[l.call]
					if !ok1 || !ok2 {
						res.Brokenf("FACT.normorder: %s: call not in CFG", name)
						continue
					}
					after := false
					if lf.Block == ll.Block {
						after = ll.Index > lf.Index
						if !after && g.From(g.Blocks[lf.Block])[ll.Block] {
							after = true
						}
					} else {
						after = g.From(g.Blocks[lf.Block])[ll.Block]
					}
					if after {
						res.Add(core.Finding{Rule: "FACT.normorder", Key: "FACT.normorder|" + name + "|" + l.name + "|" + fc.name,
							Pos: core.Pos(l.call.Pos()), Func: name,
							Msg: fmt.Sprintf("%s(%s) is computed after %s(%s) has overwritten the matrix with its factor, so the condition estimate uses the norm of the factor, not of the factorized matrix", l.name, l.arg, fc.name, fc.arg)})
					}
				}
			}
		}
	}
	res.Floor("norm_factorization_pairs", 5)
}

// state implements FACT.state.
func state(pkg *packages.Package, res *core.Result) {
	info := pkg.TypesInfo
	// methods by receiver type name
	type method struct {
		fd   *ast.FuncDecl
		recv types.Object
	}
	methods := map[string]map[string]method{}
	structOf := map[string]*types.Struct{}
	for _, f := range pkg.Syntax {
		for _, d := range f.Decls {
			fd, ok := d.(*ast.FuncDecl)
			if !ok || fd.Body == nil || fd.Recv == nil || len(fd.Recv.List[0].Names) != 1 {
				continue
			}
			star, ok := fd.Recv.List[0].Type.(*ast.StarExpr)
			if !ok {
				continue
			}
			id, ok := star.X.(*ast.Ident)
			if !ok {
				continue
			}
			tn, _ := info.Uses[id].(*types.TypeName)
			if tn == nil {
				continue
			}
			st, ok := tn.Type().Underlying().(*types.Struct)
			if !ok {
				continue
			}
			structOf[id.Name] = st
			if methods[id.Name] == nil {
				methods[id.Name] = map[string]method{}
			}
			methods[id.Name][fd.Name.Name] = method{fd, info.Defs[fd.Recv.List[0].Names[0]]}
		}
	}
	// fields assigned by a method, transitively through receiver methods
	var written func(tname, mname string, seen map[string]bool) map[string]bool
	written = func(tname, mname string, seen map[string]bool) map[string]bool {
		out := map[string]bool{}
		m, ok := methods[tname][mname]
		if !ok || seen[mname] {
			return out
		}
		seen[mname] = true
		isRecv := func(e ast.Expr) bool {
			id, ok := ast.Unparen(e).(*ast.Ident)
			return ok && core.ObjOf(info, id) == m.recv
		}
		ast.Inspect(m.fd.Body, func(n ast.Node) bool {
			switch x := n.(type) {
			case *ast.AssignStmt:
				for _, l := range x.Lhs {
					if sel, ok := ast.Unparen(l).(*ast.SelectorExpr); ok && isRecv(sel.X) {
						out[sel.Sel.Name] = true
					}
				}
			case *ast.UnaryExpr:
				// *recv = T{...} writes everything
			case *ast.StarExpr:
			case *ast.CallExpr:
				if sel, ok := x.Fun.(*ast.SelectorExpr); ok && isRecv(sel.X) {
					if fn, _ := typeutil.Callee(info, x).(*types.Func); fn != nil {
						for f := range written(tname, fn.Name(), seen) {
							out[f] = true
						}
					}
				}
			}
			return true
		})
		// *recv = ... assigns all fields
		ast.Inspect(m.fd.Body, func(n ast.Node) bool {
			as, ok := n.(*ast.AssignStmt)
			if !ok {
				return true
			}
			for _, l := range as.Lhs {
				if st, ok := ast.Unparen(l).(*ast.StarExpr); ok && isRecv(st.X) {
					s := structOf[tname]
					for i := 0; i < s.NumFields(); i++ {
						out[s.Field(i).Name()] = true
					}
				}
			}
			return true
		})
		return out
	}
	var tnames []string
	for t := range methods {
		tnames = append(tnames, t)
	}
	sort.Strings(tnames)
	used := map[string]bool{}
	for _, tname := range tnames {
		ms := methods[tname]
		isFact := false
		for n := range ms {
			if strings.EqualFold(n, "factorize") {
				isFact = true
			}
		}
		if !isFact {
			continue
		}
		res.Count("factorization_types", 1)
		var mnames []string
		for n := range ms {
			mnames = append(mnames, n)
		}
		sort.Strings(mnames)
		for _, mname := range mnames {
			m := ms[mname]
			// a parameter of the receiver's own type
			same := false
			for _, p := range m.fd.Type.Params.List {
				if tv, ok := info.Types[p.Type]; ok && types.Identical(tv.Type, m.recv.Type()) {
					same = true
				}
			}
			if !same {
				continue
			}
			w := written(tname, mname, map[string]bool{})
			if len(w) == 0 {
				continue // read-only use of the receiver (SolveCholTo)
			}
			res.Count("rebuild_methods", 1)
			st := structOf[tname]
			name := core.FuncName(pkg, m.fd)
			for i := 0; i < st.NumFields(); i++ {
				f := st.Field(i).Name()
				res.Obligations++
				if w[f] {
					continue
				}
				key := tname + "." + mname + "|" + f
				if _, ok := StateExempt[key]; ok {
					used[key] = true
					res.Count("state_exempt", 1)
					continue
				}
				res.Add(core.Finding{Rule: "FACT.state", Key: "FACT.state|" + name + "|" + f,
					Pos: core.Pos(m.fd.Pos()), Func: name,
					Msg: fmt.Sprintf("%s rebuilds the receiver from another *%s but never assigns field %q: a fresh receiver keeps its zero value there while a receiver aliasing the argument keeps the argument's", name, tname, f)})
			}
		}
	}
	for k := range StateExempt {
		if !used[k] {
			res.Stale("FACT.state: stale exemption %s", k)
		}
	}
	res.Floor("factorization_types", 8)
	res.Floor("rebuild_methods", 5)
}
