package factx

import (
	"fmt"
	"go/ast"
	"go/token"
	"go/types"

	"golang.org/x/tools/go/cfg"
	"golang.org/x/tools/go/packages"
	"golang.org/x/tools/go/types/typeutil"

	"gverif/cfgx"
	"gverif/core"
)

// condPath implements FACT.condpath, the path form of FACT.state for the
// condition number: a method of a factorization type with a `cond` field
// that rebuilds the receiver from another value of its own type and defines
// `cond` somewhere (an assignment to recv.cond, or a receiver method such as
// updateCond that assigns it) defines it on every path to a successful
// return, under the assumption that the receiver is not the argument
// (`orig != recv` true): a quick return such as `if alpha == 0 { return true
// }` placed after the block that copies the factor leaves a fresh receiver
// with the factor of orig and a condition number of zero.
func condPath(pkg *packages.Package, res *core.Result) {
	info := pkg.TypesInfo
	type method struct {
		fd   *ast.FuncDecl
		recv types.Object
	}
	methods := map[string]map[string]method{}
	hasCond := map[string]bool{}
	for _, f := range pkg.Syntax {
		for _, d := range f.Decls {
			fd, ok := d.(*ast.FuncDecl)
			if !ok || fd.Body == nil || fd.Recv == nil || len(fd.Recv.List[0].Names) != 1 {
				continue
			}
			star, ok := fd.Recv.List[0].Type.(*ast.StarExpr)
			if !ok {
				continue
			}
			id, ok := star.X.(*ast.Ident)
			if !ok {
				continue
			}
			tn, _ := info.Uses[id].(*types.TypeName)
			if tn == nil {
				continue
			}
			st, ok := tn.Type().Underlying().(*types.Struct)
			if !ok {
				continue
			}
			for i := 0; i < st.NumFields(); i++ {
				if st.Field(i).Name() == "cond" {
					hasCond[id.Name] = true
				}
			}
			if methods[id.Name] == nil {
				methods[id.Name] = map[string]method{}
			}
			methods[id.Name][fd.Name.Name] = method{fd, info.Defs[fd.Recv.List[0].Names[0]]}
		}
	}
	// does a receiver method assign recv.cond (transitively)?
	var defines func(tname, mname string, seen map[string]bool) bool
	defines = func(tname, mname string, seen map[string]bool) bool {
		m, ok := methods[tname][mname]
		if !ok || seen[mname] {
			return false
		}
		seen[mname] = true
		found := false
		ast.Inspect(m.fd.Body, func(n ast.Node) bool {
			switch x := n.(type) {
			case *ast.AssignStmt:
				for _, l := range x.Lhs {
					if sel, ok := ast.Unparen(l).(*ast.SelectorExpr); ok && sel.Sel.Name == "cond" {
						if id, ok := ast.Unparen(sel.X).(*ast.Ident); ok && core.ObjOf(info, id) == m.recv {
							found = true
						}
					}
				}
			case *ast.CallExpr:
				if sel, ok := x.Fun.(*ast.SelectorExpr); ok {
					if id, ok := ast.Unparen(sel.X).(*ast.Ident); ok && core.ObjOf(info, id) == m.recv {
						if fn, _ := typeutil.Callee(info, x).(*types.Func); fn != nil && defines(tname, fn.Name(), seen) {
							found = true
						}
					}
				}
			}
			return !found
		})
		return found
	}
	for tname, ms := range methods {
		if !hasCond[tname] {
			continue
		}
		for mname, m := range ms {
			var params []types.Object
			for _, p := range m.fd.Type.Params.List {
				if tv, ok := info.Types[p.Type]; ok && types.Identical(tv.Type, m.recv.Type()) {
					for _, n := range p.Names {
						params = append(params, info.Defs[n])
					}
				}
			}
			if len(params) == 0 || !defines(tname, mname, map[string]bool{}) {
				continue
			}
			name := core.FuncName(pkg, m.fd)
			res.Count("rebuild_methods_that_define_cond", 1)
			isRecv := func(e ast.Expr) bool {
				id, ok := ast.Unparen(e).(*ast.Ident)
				return ok && core.ObjOf(info, id) == m.recv
			}
			isParam := func(e ast.Expr) bool {
				id, ok := ast.Unparen(e).(*ast.Ident)
				if !ok {
					return false
				}
				for _, p := range params {
					if core.ObjOf(info, id) == p {
						return true
					}
				}
				return false
			}
			g := cfgx.New(m.fd.Body, info)
			// the named boolean result: a return of it is a success only where it is true
			var okVar types.Object
			if m.fd.Type.Results != nil && len(m.fd.Type.Results.List) == 1 && len(m.fd.Type.Results.List[0].Names) == 1 {
				if o := info.Defs[m.fd.Type.Results.List[0].Names[0]]; o != nil {
					if b, isBasic := o.Type().Underlying().(*types.Basic); isBasic && b.Kind() == types.Bool {
						okVar = o
					}
				}
			}
			g.Keep = cfgx.KeepUnder(func(e ast.Expr) (bool, bool) {
				if id, isID := ast.Unparen(e).(*ast.Ident); isID && okVar != nil && core.ObjOf(info, id) == okVar {
					return true, true
				}
				be, ok := ast.Unparen(e).(*ast.BinaryExpr)
				if !ok || (be.Op != token.EQL && be.Op != token.NEQ) {
					return false, false
				}
				if (isRecv(be.X) && isParam(be.Y)) || (isParam(be.X) && isRecv(be.Y)) {
					return be.Op == token.NEQ, true
				}
				return false, false
			})
			defAt := func(n ast.Node) bool {
				hit := false
				ast.Inspect(n, func(k ast.Node) bool {
					switch x := k.(type) {
					case *ast.FuncLit:
						return false
					case *ast.AssignStmt:
						for _, l := range x.Lhs {
							if sel, ok := ast.Unparen(l).(*ast.SelectorExpr); ok && sel.Sel.Name == "cond" && isRecv(sel.X) {
								hit = true
							}
							if st, ok := ast.Unparen(l).(*ast.StarExpr); ok && isRecv(st.X) {
								hit = true
							}
						}
					case *ast.CallExpr:
						if sel, ok := x.Fun.(*ast.SelectorExpr); ok && isRecv(sel.X) {
							if fn, _ := typeutil.Callee(info, x).(*types.Func); fn != nil && defines(tname, fn.Name(), map[string]bool{}) {
								hit = true
							}
						}
					}
					return !hit
				})
				return hit
			}
			in := g.MustPass(func(b *cfg.Block) bool {
				for _, n := range b.Nodes {
					if defAt(n) {
						return true
					}
				}
				return false
			})
			reach := g.Reachable()
			parents := cfgx.Parents(m.fd.Body)
			guard := func(n ast.Node) string {
				for p := parents[n]; p != nil; p = parents[p] {
					if is, ok := p.(*ast.IfStmt); ok {
						return types.ExprString(is.Cond)
					}
				}
				return "end"
			}
			ast.Inspect(m.fd.Body, func(n ast.Node) bool {
				if _, ok := n.(*ast.FuncLit); ok {
					return false
				}
				rs, ok := n.(*ast.ReturnStmt)
				if !ok {
					return true
				}
				// failure exits leave an invalid receiver
				if len(rs.Results) == 1 {
					if id, ok := ast.Unparen(rs.Results[0]).(*ast.Ident); ok && id.Name == "false" {
						return true
					}
				}
				loc, ok := g.Where[rs]
				if !ok || !reach[loc.Block] {
					return true
				}
				res.Obligations++
				res.Count("successful_returns_of_rebuild_methods", 1)
				if in[loc.Block] {
					return true
				}
				b := g.Blocks[loc.Block]
				for _, k := range b.Nodes[:loc.Index] {
					if defAt(k) {
						return true
					}
				}
				res.Add(core.Finding{Rule: "FACT.condpath", Key: "FACT.condpath|" + name + "|" + guard(rs), Pos: core.Pos(rs.Pos()), Func: name,
					Msg: fmt.Sprintf("%s defines the receiver's condition number on some paths, but this return is reached with the receiver rebuilt from another *%s and cond never assigned: a fresh receiver reports Cond() == 0 (and skips the ill-conditioning warning) where the argument reports its own", name, tname)})
				return true
			})
		}
	}
}
