package factx

import (
	"fmt"
	"go/ast"
	"go/types"
	"strings"

	"gverif/cfgx"
	"gverif/core"

	"golang.org/x/tools/go/cfg"
	"golang.org/x/tools/go/packages"
)

// reuseReset implements FACT.reuse. The factorization types keep matrices in
// fields across calls (c.chol, lu.lu, qr.q, lq.q) and resize them with
// reuseAs*/ReuseAs*, which panics with ErrShape when the field is non-empty
// and of another size. A field resized that way must therefore be emptied
// first: either `r.F.Reset()` precedes the resize on every path of the same
// function (Cholesky.Factorize, LU.Factorize), or another method of the type
// resets the field (QR.factorize resets q for the lazy updateQ). A field that
// is resized but reset nowhere makes the second factorization of a
// different-sized matrix with the same receiver panic.
func reuseReset(pkg *packages.Package, res *core.Result) {
	info := pkg.TypesInfo
	type key struct {
		t *types.TypeName
		f string
	}
	resetSomewhere := map[key]bool{}
	type site struct {
		k     key
		call  *ast.CallExpr
		fn    string
		local bool
	}
	var sites []site
	for _, file := range pkg.Syntax {
		for _, d := range file.Decls {
			fd, ok := d.(*ast.FuncDecl)
			if !ok || fd.Body == nil || fd.Recv == nil || len(fd.Recv.List) != 1 || len(fd.Recv.List[0].Names) != 1 {
				continue
			}
			recv := info.Defs[fd.Recv.List[0].Names[0]]
			if recv == nil {
				continue
			}
			t := recv.Type()
			if p, ok := t.(*types.Pointer); ok {
				t = p.Elem()
			}
			named, ok := t.(*types.Named)
			if !ok {
				continue
			}
			if _, isStruct := named.Underlying().(*types.Struct); !isStruct {
				continue
			}
			name := core.FuncName(pkg, fd)
			// r.F.M(...)
			fieldCall := func(c *ast.CallExpr) (string, string) {
				sel, ok := c.Fun.(*ast.SelectorExpr)
				if !ok {
					return "", ""
				}
				fs, ok := ast.Unparen(sel.X).(*ast.SelectorExpr)
				if !ok {
					return "", ""
				}
				id, ok := ast.Unparen(fs.X).(*ast.Ident)
				if !ok || core.ObjOf(info, id) != recv {
					return "", ""
				}
				return fs.Sel.Name, sel.Sel.Name
			}
			var g *cfgx.Graph
			ast.Inspect(fd.Body, func(n ast.Node) bool {
				c, ok := n.(*ast.CallExpr)
				if !ok {
					return true
				}
				f, m := fieldCall(c)
				if f == "" {
					return true
				}
				k := key{named.Obj(), f}
				switch {
				case m == "Reset":
					resetSomewhere[k] = true
				case strings.HasPrefix(m, "reuseAs") || strings.HasPrefix(m, "ReuseAs"):
					if g == nil {
						g = cfgx.New(fd.Body, info)
					}
					// does a Reset of the same field precede on every path?
					must := g.MustPass(func(b *cfg.Block) bool {
						for _, nd := range b.Nodes {
							found := false
							ast.Inspect(nd, func(y ast.Node) bool {
								if cc, ok := y.(*ast.CallExpr); ok {
									if ff, mm := fieldCall(cc); ff == f && mm == "Reset" {
										found = true
									}
								}
								return !found
							})
							if found {
								return true
							}
						}
						return false
					})
					local := false
					if loc, ok := g.Where[c]; ok {
						local = must[loc.Block]
						if !local {
							// same block, earlier node
							for i := 0; i < loc.Index; i++ {
								ast.Inspect(g.Blocks[loc.Block].Nodes[i], func(y ast.Node) bool {
									if cc, ok := y.(*ast.CallExpr); ok {
										if ff, mm := fieldCall(cc); ff == f && mm == "Reset" {
											local = true
										}
									}
									return true
								})
							}
						}
					}
					sites = append(sites, site{k, c, name, local})
				}
				return true
			})
		}
	}
	for _, s := range sites {
		res.Obligations++
		res.Count("field_resizes", 1)
		if s.local {
			res.Count("field_resizes_after_a_reset_in_the_same_function", 1)
			continue
		}
		if resetSomewhere[s.k] {
			res.Count("field_resizes_of_fields_reset_by_another_method", 1)
			continue
		}
		res.Add(core.Finding{Rule: "FACT.reuse", Key: fmt.Sprintf("FACT.reuse|%s|%s", s.fn, s.k.f), Pos: core.Pos(s.call.Pos()), Func: s.fn,
			Msg: fmt.Sprintf("%s resizes the field %s with %s, which panics with ErrShape for a non-empty matrix of another size, and no method of %s ever resets that field: factorizing a matrix of a different size with the same receiver panics", s.fn, s.k.f, types.ExprString(s.call.Fun), s.k.t.Name())})
	}
}
