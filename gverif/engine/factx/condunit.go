package factx

import (
	"fmt"
	"go/ast"
	"go/constant"
	"go/token"
	"go/types"
	"strings"

	"gverif/core"

	"golang.org/x/tools/go/packages"
)

// FACT.condunit — the LAPACK condition estimators (lapack64.Gecon, Pocon,
// Pbcon, Trcon, ...) return the *reciprocal* of the condition number. A value
// that reaches a condition-number sink — a comparison with
// ConditionTolerance, a conversion to the Condition error type, or a store
// to a `cond` field — must have been inverted (1/x) an odd number of times on
// the way. Units are inferred per function over local variables
// (flow-insensitive; copies keep the unit, 1/x flips it).

type cunit int

const (
	uNone  cunit = iota
	uRcond       // reciprocal condition number
	uCond        // condition number
)

func flipUnit(u cunit) cunit {
	switch u {
	case uRcond:
		return uCond
	case uCond:
		return uRcond
	}
	return uNone
}

func condUnit(pkg *packages.Package, res *core.Result) {
	info := pkg.TypesInfo
	for _, f := range pkg.Syntax {
		for _, d := range f.Decls {
			fd, ok := d.(*ast.FuncDecl)
			if !ok || fd.Body == nil {
				continue
			}
			name := core.FuncName(pkg, fd)
			units := map[types.Object]cunit{}
			conflict := map[types.Object]bool{}
			var unitOf func(e ast.Expr) cunit
			unitOf = func(e ast.Expr) cunit {
				switch x := ast.Unparen(e).(type) {
				case *ast.Ident:
					if o := core.ObjOf(info, x); o != nil && !conflict[o] {
						return units[o]
					}
				case *ast.CallExpr:
					if n := lapack64Callee(info, x); strings.HasSuffix(n, "con") && len(n) == 5 {
						return uRcond
					}
				case *ast.BinaryExpr:
					if x.Op == token.QUO {
						if tv, ok := info.Types[x.X]; ok && tv.Value != nil {
							if v, ok := constant.Float64Val(constant.ToFloat(tv.Value)); ok && v == 1 {
								return flipUnit(unitOf(x.Y))
							}
						}
					}
				}
				return uNone
			}
			sources := 0
			ast.Inspect(fd.Body, func(n ast.Node) bool {
				if c, ok := n.(*ast.CallExpr); ok {
					if nm := lapack64Callee(info, c); strings.HasSuffix(nm, "con") && len(nm) == 5 {
						sources++
					}
				}
				return true
			})
			if sources == 0 {
				continue
			}
			res.Count("condition_estimator_calls", sources)
			for changed, iter := true, 0; changed && iter < 8; iter++ {
				changed = false
				ast.Inspect(fd.Body, func(n ast.Node) bool {
					as, ok := n.(*ast.AssignStmt)
					if !ok || len(as.Lhs) != len(as.Rhs) {
						return true
					}
					for i, l := range as.Lhs {
						id, ok := l.(*ast.Ident)
						if !ok {
							continue
						}
						o := core.ObjOf(info, id)
						if o == nil {
							continue
						}
						u := unitOf(as.Rhs[i])
						if u == uNone {
							continue
						}
						if units[o] == uNone {
							units[o] = u
							changed = true
						} else if units[o] != u && !conflict[o] {
							conflict[o] = true
							changed = true
						}
					}
					return true
				})
			}
			report := func(pos token.Pos, what string, e ast.Expr) {
				res.Add(core.Finding{Rule: "FACT.condunit", Key: fmt.Sprintf("FACT.condunit|%s|%s", name, what), Pos: core.Pos(pos), Func: name,
					Msg: fmt.Sprintf("%s is the reciprocal condition number returned by a lapack64 *con estimator (in [0,1]), but it is used as a condition number (%s) without being inverted: an ill-conditioned matrix is never reported", types.ExprString(e), what)})
			}
			check := func(pos token.Pos, what string, e ast.Expr) {
				u := unitOf(e)
				if u == uNone {
					return
				}
				res.Obligations++
				res.Count("condition_sinks", 1)
				if u == uRcond {
					report(pos, what, e)
				}
			}
			isTol := func(e ast.Expr) bool {
				id, ok := ast.Unparen(e).(*ast.Ident)
				return ok && id.Name == "ConditionTolerance" && core.ObjOf(info, id) != nil && core.ObjOf(info, id).Pkg() == pkg.Types
			}
			ast.Inspect(fd.Body, func(n ast.Node) bool {
				switch x := n.(type) {
				case *ast.BinaryExpr:
					switch x.Op {
					case token.GTR, token.GEQ, token.LSS, token.LEQ:
						if isTol(x.Y) {
							check(x.Pos(), "compared with ConditionTolerance", x.X)
						} else if isTol(x.X) {
							check(x.Pos(), "compared with ConditionTolerance", x.Y)
						}
					}
				case *ast.CallExpr:
					if tv, ok := info.Types[x.Fun]; ok && tv.IsType() && len(x.Args) == 1 {
						if nt, ok := tv.Type.(*types.Named); ok && nt.Obj().Name() == "Condition" && nt.Obj().Pkg() == pkg.Types {
							check(x.Pos(), "converted to Condition", x.Args[0])
						}
					}
				case *ast.AssignStmt:
					if len(x.Lhs) == len(x.Rhs) {
						for i, l := range x.Lhs {
							if sel, ok := l.(*ast.SelectorExpr); ok && sel.Sel.Name == "cond" {
								check(x.Pos(), "stored to the cond field", x.Rhs[i])
							}
						}
					}
				}
				return true
			})
		}
	}
}
