package factx

import (
	"fmt"
	"go/ast"
	"go/constant"
	"go/token"
	"go/types"
	"strings"

	"gverif/cfgx"
	"gverif/core"

	"golang.org/x/tools/go/cfg"
	"golang.org/x/tools/go/packages"
)

// FACT.condunit — the LAPACK condition estimators (lapack64.Gecon, Pocon,
// Pbcon, Trcon, ...) return the *reciprocal* of the condition number. A value
// that reaches a condition-number sink — a comparison with
// ConditionTolerance, a conversion to the Condition error type, or a store
// to a `cond` field — must have been inverted (1/x) an odd number of times on
// the way. Units are inferred per function over local variables
// (flow-insensitive; copies keep the unit, 1/x flips it).

type cunit int

const (
	uNone  cunit = iota
	uRcond       // reciprocal condition number
	uCond        // condition number
)

func flipUnit(u cunit) cunit {
	switch u {
	case uRcond:
		return uCond
	case uCond:
		return uRcond
	}
	return uNone
}

func condUnit(pkg *packages.Package, res *core.Result) {
	info := pkg.TypesInfo
	for _, f := range pkg.Syntax {
		for _, d := range f.Decls {
			fd, ok := d.(*ast.FuncDecl)
			if !ok || fd.Body == nil {
				continue
			}
			name := core.FuncName(pkg, fd)
			units := map[types.Object]cunit{}
			conflict := map[types.Object]bool{}
			var unitOf func(e ast.Expr) cunit
			unitOf = func(e ast.Expr) cunit {
				switch x := ast.Unparen(e).(type) {
				case *ast.Ident:
					if o := core.ObjOf(info, x); o != nil && !conflict[o] {
						return units[o]
					}
				case *ast.CallExpr:
					if n := lapack64Callee(info, x); strings.HasSuffix(n, "con") && len(n) == 5 {
						return uRcond
					}
				case *ast.BinaryExpr:
					if x.Op == token.QUO {
						if tv, ok := info.Types[x.X]; ok && tv.Value != nil {
							if v, ok := constant.Float64Val(constant.ToFloat(tv.Value)); ok && v == 1 {
								return flipUnit(unitOf(x.Y))
							}
						}
					}
				}
				return uNone
			}
			sources := 0
			ast.Inspect(fd.Body, func(n ast.Node) bool {
				if c, ok := n.(*ast.CallExpr); ok {
					if nm := lapack64Callee(info, c); strings.HasSuffix(nm, "con") && len(nm) == 5 {
						sources++
					}
				}
				return true
			})
			if sources == 0 {
				continue
			}
			res.Count("condition_estimator_calls", sources)
			for changed, iter := true, 0; changed && iter < 8; iter++ {
				changed = false
				ast.Inspect(fd.Body, func(n ast.Node) bool {
					as, ok := n.(*ast.AssignStmt)
					if !ok || len(as.Lhs) != len(as.Rhs) {
						return true
					}
					for i, l := range as.Lhs {
						id, ok := l.(*ast.Ident)
						if !ok {
							continue
						}
						o := core.ObjOf(info, id)
						if o == nil {
							continue
						}
						u := unitOf(as.Rhs[i])
						if u == uNone {
							continue
						}
						if units[o] == uNone {
							units[o] = u
							changed = true
						} else if units[o] != u && !conflict[o] {
							conflict[o] = true
							changed = true
						}
					}
					return true
				})
			}
			report := func(pos token.Pos, what string, e ast.Expr) {
				res.Add(core.Finding{Rule: "FACT.condunit", Key: fmt.Sprintf("FACT.condunit|%s|%s", name, what), Pos: core.Pos(pos), Func: name,
					Msg: fmt.Sprintf("%s is the reciprocal condition number returned by a lapack64 *con estimator (in [0,1]), but it is used as a condition number (%s) without being inverted: an ill-conditioned matrix is never reported", types.ExprString(e), what)})
			}
			check := func(pos token.Pos, what string, e ast.Expr) {
				u := unitOf(e)
				if u == uNone {
					return
				}
				res.Obligations++
				res.Count("condition_sinks", 1)
				if u == uRcond {
					report(pos, what, e)
				}
			}
			isTol := func(e ast.Expr) bool {
				id, ok := ast.Unparen(e).(*ast.Ident)
				return ok && id.Name == "ConditionTolerance" && core.ObjOf(info, id) != nil && core.ObjOf(info, id).Pkg() == pkg.Types
			}
			ast.Inspect(fd.Body, func(n ast.Node) bool {
				switch x := n.(type) {
				case *ast.BinaryExpr:
					switch x.Op {
					case token.GTR, token.GEQ, token.LSS, token.LEQ:
						if isTol(x.Y) {
							check(x.Pos(), "compared with ConditionTolerance", x.X)
						} else if isTol(x.X) {
							check(x.Pos(), "compared with ConditionTolerance", x.Y)
						}
					}
				case *ast.CallExpr:
					if tv, ok := info.Types[x.Fun]; ok && tv.IsType() && len(x.Args) == 1 {
						if nt, ok := tv.Type.(*types.Named); ok && nt.Obj().Name() == "Condition" && nt.Obj().Pkg() == pkg.Types {
							check(x.Pos(), "converted to Condition", x.Args[0])
						}
					}
				case *ast.AssignStmt:
					if len(x.Lhs) == len(x.Rhs) {
						for i, l := range x.Lhs {
							if sel, ok := l.(*ast.SelectorExpr); ok && sel.Sel.Name == "cond" {
								check(x.Pos(), "stored to the cond field", x.Rhs[i])
							}
						}
					}
				}
				return true
			})
		}
	}
}

// condAfter implements FACT.condafter: the LAPACK condition estimators work
// on the *factors* (Gecon on LU, Pocon/Pbcon on the Cholesky factor, Trcon on
// the R or L of a QR/LQ factorization). In a function that both factorizes
// storage in place and estimates the condition number — directly or through
// the receiver's updateCond — every path to the estimate passes the
// factorization first. (FACT.normorder is the mirror image for the norm of
// the original matrix, which must be taken before.)
func condAfter(pkg *packages.Package, res *core.Result) {
	info := pkg.TypesInfo
	inPlace := map[string]bool{"Getrf": true, "Potrf": true, "Pbtrf": true, "Pstrf": true, "Geqrf": true, "Gelqf": true, "Gttrf": true, "Pttrf": true}
	for _, f := range pkg.Syntax {
		for _, d := range f.Decls {
			fd, ok := d.(*ast.FuncDecl)
			if !ok || fd.Body == nil {
				continue
			}
			name := core.FuncName(pkg, fd)
			var facts, ests []*ast.CallExpr
			ast.Inspect(fd.Body, func(n ast.Node) bool {
				call, ok := n.(*ast.CallExpr)
				if !ok {
					return true
				}
				if nm := lapack64Callee(info, call); nm != "" {
					isQuery := false
					for _, a := range call.Args {
						if tv, ok := info.Types[a]; ok && tv.Value != nil && tv.Value.ExactString() == "-1" {
							isQuery = true
						}
					}
					switch {
					case inPlace[nm] && !isQuery:
						facts = append(facts, call)
					case strings.HasSuffix(nm, "con") && len(nm) == 5:
						ests = append(ests, call)
					}
				}
				if sel, ok := call.Fun.(*ast.SelectorExpr); ok && sel.Sel.Name == "updateCond" {
					ests = append(ests, call)
				}
				return true
			})
			if len(facts) == 0 || len(ests) == 0 {
				continue
			}
			g := cfgx.New(fd.Body, info)
			factBlock := map[int32]int{} // block -> smallest node index of a factorization
			for _, fc := range facts {
				if loc, ok := g.Where[fc]; ok {
					if cur, seen := factBlock[loc.Block]; !seen || loc.Index < cur {
						factBlock[loc.Block] = loc.Index
					}
				}
			}
			passed := g.MustPass(func(b *cfg.Block) bool { _, ok := factBlock[b.Index]; return ok })
			for _, e := range ests {
				loc, ok := g.Where[e]
				if !ok {
					continue
				}
				res.Obligations++
				res.Count("estimates_in_factorizing_functions", 1)
				okHere := passed[loc.Block]
				if idx, same := factBlock[loc.Block]; same && idx < loc.Index {
					okHere = true
				}
				if !okHere {
					res.Add(core.Finding{Rule: "FACT.condafter", Key: fmt.Sprintf("FACT.condafter|%s|%s", name, types.ExprString(e.Fun)), Pos: core.Pos(e.Pos()), Func: name,
						Msg: fmt.Sprintf("%s is reached on a path that has not yet factorized the storage in place: the estimator works on the factors, so the condition number it stores describes the unfactorized matrix", types.ExprString(e.Fun))})
				}
			}
		}
	}
}
