package matargs

import (
	"fmt"
	"go/ast"
	"go/token"
	"go/types"

	"gverif/cfgx"
	"gverif/core"
)

// RunSelfGuard implements MAT.selfguard: a method of mat that treats "the
// operand is the receiver itself" as a special case (`if v == a { return }`,
// `if m == aU { … workspace … }`) decides that before it stores a new header
// into the receiver. After `v.mat = blas64.Vector{N: n, Inc: 1, Data: …}` the
// receiver no longer describes the storage it aliased, so an identity test
// placed behind the store takes the special case for a value that has
// already been rewritten (a strided view silently becomes the first n
// elements of its backing array). On the control-flow graph: no direct store
// to a field of the receiver reaches a condition that compares the receiver
// with a parameter.
func RunSelfGuard(conf core.Config) *core.Result {
	res := core.NewResult("SELFGUARD")
	res.Rules = append(res.Rules, "MAT.selfguard: in the methods of mat no condition comparing the receiver with a parameter for identity is reachable from a direct store to a field of the receiver")
	res.Configs = append(res.Configs, conf.String())
	pkgs, err := core.Load(conf, "./mat")
	if err != nil {
		res.Brokenf("%v", err)
		return res
	}
	for _, pkg := range pkgs {
		info := pkg.TypesInfo
		// helper methods that rewrite the receiver's header unconditionally: a
		// top-level statement of the body assigns a field of the receiver
		// (setCompact); reuseAs*, whose stores sit under `if recv.IsEmpty()`,
		// keep the header of a non-empty receiver and are not among them
		rewrites := map[types.Object]bool{}
		for _, file := range pkg.Syntax {
			for _, d := range file.Decls {
				fd, ok := d.(*ast.FuncDecl)
				if !ok || fd.Body == nil || fd.Recv == nil || len(fd.Recv.List) != 1 || len(fd.Recv.List[0].Names) != 1 {
					continue
				}
				recv := info.Defs[fd.Recv.List[0].Names[0]]
				for _, st := range fd.Body.List {
					as, ok := st.(*ast.AssignStmt)
					if !ok {
						continue
					}
					for _, l := range as.Lhs {
						e := ast.Unparen(l)
						for {
							sel, ok := e.(*ast.SelectorExpr)
							if !ok {
								break
							}
							if id, ok := ast.Unparen(sel.X).(*ast.Ident); ok && recv != nil && core.ObjOf(info, id) == recv {
								rewrites[info.Defs[fd.Name]] = true
								break
							}
							e = ast.Unparen(sel.X)
						}
					}
				}
			}
		}
		for _, file := range pkg.Syntax {
			for _, d := range file.Decls {
				fd, ok := d.(*ast.FuncDecl)
				if !ok || fd.Body == nil || fd.Recv == nil || len(fd.Recv.List) != 1 || len(fd.Recv.List[0].Names) != 1 {
					continue
				}
				recv := info.Defs[fd.Recv.List[0].Names[0]]
				if recv == nil {
					continue
				}
				if _, isPtr := recv.Type().(*types.Pointer); !isPtr {
					continue
				}
				params := map[types.Object]bool{}
				for _, fl := range fd.Type.Params.List {
					for _, n := range fl.Names {
						if o := info.Defs[n]; o != nil {
							params[o] = true
						}
					}
				}
				name := core.FuncName(pkg, fd)
				isRecv := func(e ast.Expr) bool {
					id, ok := ast.Unparen(e).(*ast.Ident)
					return ok && core.ObjOf(info, id) == recv
				}
				isParam := func(e ast.Expr) bool {
					id, ok := ast.Unparen(e).(*ast.Ident)
					return ok && params[core.ObjOf(info, id)]
				}
				// identity tests
				var tests []*ast.BinaryExpr
				ast.Inspect(fd.Body, func(n ast.Node) bool {
					if _, ok := n.(*ast.FuncLit); ok {
						return false
					}
					be, ok := n.(*ast.BinaryExpr)
					if ok && (be.Op == token.EQL || be.Op == token.NEQ) && ((isRecv(be.X) && isParam(be.Y)) || (isRecv(be.Y) && isParam(be.X))) {
						tests = append(tests, be)
					}
					return true
				})
				if len(tests) == 0 {
					continue
				}
				// direct stores to receiver fields: recv.f = …, recv.f.g = …, *recv = …
				var stores []ast.Node
				ast.Inspect(fd.Body, func(n ast.Node) bool {
					if _, ok := n.(*ast.FuncLit); ok {
						return false
					}
					if c, ok := n.(*ast.CallExpr); ok {
						if sel, ok := c.Fun.(*ast.SelectorExpr); ok && isRecv(sel.X) && rewrites[info.Uses[sel.Sel]] {
							stores = append(stores, c)
						}
						return true
					}
					as, ok := n.(*ast.AssignStmt)
					if !ok {
						return true
					}
					for _, l := range as.Lhs {
						e := ast.Unparen(l)
						if st, ok := e.(*ast.StarExpr); ok && isRecv(st.X) {
							stores = append(stores, as)
							continue
						}
						for {
							sel, ok := e.(*ast.SelectorExpr)
							if !ok {
								break
							}
							if isRecv(sel.X) {
								stores = append(stores, as)
								break
							}
							e = ast.Unparen(sel.X)
						}
					}
					return true
				})
				g := cfgx.New(fd.Body, info)
				for _, t := range tests {
					res.Obligations++
					res.Count("receiver_identity_tests", 1)
					tl, ok := g.Where[t]
					if !ok {
						continue
					}
					for _, st := range stores {
						sl, ok := g.Where[st]
						if !ok {
							continue
						}
						reaches := false
						if sl.Block == tl.Block {
							reaches = sl.Index < tl.Index
						}
						if !reaches {
							reaches = g.From(g.Blocks[sl.Block])[tl.Block]
						}
						if reaches {
							res.Add(core.Finding{Rule: "MAT.selfguard", Key: fmt.Sprintf("MAT.selfguard|%s|%s", name, types.ExprString(t)), Pos: core.Pos(t.Pos()), Func: name,
								Msg:  fmt.Sprintf("the identity test %s is evaluated after the receiver was rewritten at %s: the special case for an operand that is the receiver itself is then taken for a value whose header no longer describes the storage it had", types.ExprString(t), core.Pos(st.Pos())),
								Path: []string{"store at " + core.Pos(st.Pos()), "test at " + core.Pos(t.Pos())}})
							break
						}
					}
				}
			}
		}
	}
	return res
}
