package matargs

import (
	"fmt"
	"go/ast"
	"go/types"
	"strings"

	"gverif/cfgx"
	"gverif/core"
)

// RunAccess implements MAT.access: the index checks of mat compare a row
// index with the row count and a column index with the column count of the
// logical matrix. A view created by Slice has spare capacity (capRows,
// capCols) behind its last row and column; bounding an index by the capacity,
// or by the other dimension, lets SetRow/At/Set reach elements of the parent
// that are not part of the view. For every `panic(ErrRowAccess)` the
// controlling condition mentions no capacity (capRows, capCols, cap(…)) and
// not the column count (.Cols); for `panic(ErrColAccess)` the same with rows.
func RunAccess(conf core.Config) *core.Result {
	res := core.NewResult("MATACCESS")
	res.Rules = append(res.Rules, "MAT.access: the condition guarding panic(ErrRowAccess) mentions neither a capacity (capRows, capCols, cap) nor .Cols, the one guarding panic(ErrColAccess) neither a capacity nor .Rows")
	res.Configs = append(res.Configs, conf.String())
	pkgs, err := core.Load(conf, "./mat")
	if err != nil {
		res.Brokenf("%v", err)
		return res
	}
	for _, pkg := range pkgs {
		info := pkg.TypesInfo
		for _, file := range pkg.Syntax {
			for _, d := range file.Decls {
				fd, ok := d.(*ast.FuncDecl)
				if !ok || fd.Body == nil {
					continue
				}
				name := core.FuncName(pkg, fd)
				par := cfgx.Parents(fd.Body)
				// locals holding a dimension: r, c := a.Dims()
				dimOf := map[types.Object]string{}
				ast.Inspect(fd.Body, func(n ast.Node) bool {
					as, ok := n.(*ast.AssignStmt)
					if !ok || len(as.Lhs) != 2 || len(as.Rhs) != 1 {
						return true
					}
					c, ok := as.Rhs[0].(*ast.CallExpr)
					if !ok {
						return true
					}
					if sel, ok := c.Fun.(*ast.SelectorExpr); !ok || sel.Sel.Name != "Dims" {
						return true
					}
					// `n, _ := a.Dims()` names the one dimension of a square matrix
					for _, l := range as.Lhs {
						if id, ok := l.(*ast.Ident); !ok || id.Name == "_" {
							return true
						}
					}
					for i, l := range as.Lhs {
						if id, ok := l.(*ast.Ident); ok && id.Name != "_" {
							if o := core.ObjOf(info, id); o != nil {
								dimOf[o] = []string{"Rows", "Cols"}[i]
							}
						}
					}
					return true
				})
				ast.Inspect(fd.Body, func(n ast.Node) bool {
					c, ok := n.(*ast.CallExpr)
					if !ok || !cfgx.IsPanic(info, c) || len(c.Args) != 1 {
						return true
					}
					id, ok := c.Args[0].(*ast.Ident)
					if !ok || (id.Name != "ErrRowAccess" && id.Name != "ErrColAccess") {
						return true
					}
					// innermost controlling condition
					var cond ast.Expr
					var child ast.Node = c
					for p := par[c]; p != nil && cond == nil; child, p = p, par[p] {
						switch x := p.(type) {
						case *ast.IfStmt:
							if child == ast.Node(x.Body) {
								cond = x.Cond
							}
						case *ast.CaseClause:
							if len(x.List) > 0 {
								cond = x.List[0]
								for _, e := range x.List[1:] {
									cond = &ast.BinaryExpr{X: cond, Op: 35 /* token.LOR */, Y: e}
								}
							}
						}
					}
					if cond == nil {
						return true
					}
					res.Obligations++
					res.Count("index_access_checks", 1)
					other := "Cols"
					if id.Name == "ErrColAccess" {
						other = "Rows"
					}
					var bad string
					ast.Inspect(cond, func(y ast.Node) bool {
						switch x := y.(type) {
						case *ast.SelectorExpr:
							if strings.HasPrefix(x.Sel.Name, "cap") || x.Sel.Name == other {
								bad = types.ExprString(x)
							}
						case *ast.Ident:
							if dimOf[core.ObjOf(info, x)] == other {
								bad = x.Name + " (the " + strings.ToLower(other) + " of Dims())"
							}
						case *ast.CallExpr:
							if f, ok := x.Fun.(*ast.Ident); ok && f.Name == "cap" {
								bad = types.ExprString(x)
							}
						}
						return bad == ""
					})
					if bad != "" {
						res.Add(core.Finding{Rule: "MAT.access", Key: fmt.Sprintf("MAT.access|%s|%s", name, id.Name), Pos: core.Pos(c.Pos()), Func: name,
							Msg: fmt.Sprintf("panic(%s) is guarded by `%s`, which bounds the index by %s: an index beyond the logical dimension but inside that bound reaches elements that are not part of the matrix", id.Name, types.ExprString(cond), bad)})
					}
					return true
				})
			}
		}
	}
	return res
}
