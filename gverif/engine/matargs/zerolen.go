package matargs

import (
	"fmt"
	"go/ast"
	"go/token"
	"go/types"

	"gverif/core"
)

// RunZeroLen implements MAT.zerolen: a view of rows i … k-1 of a row-major
// matrix is cut out of the backing slice as Data[i*S+… : (k-1)*S+…]. For
// k == i the upper bound lies a whole stride below the lower one and the
// slice expression faults at run time, so the range check in front of it has
// to reject k <= i (not only k < i): the guard contains a comparison
// `k <= i` / `i >= k` of the two row bounds.
func RunZeroLen(conf core.Config) *core.Result {
	res := core.NewResult("ZEROLEN")
	res.Rules = append(res.Rules, "MAT.zerolen: a slice expression Data[i*S+… : (k-1)*S+…] is guarded by a check that rejects k <= i, so an empty row range meets the package's panic and not a runtime slice-bounds fault")
	res.Configs = append(res.Configs, conf.String())
	pkgs, err := core.Load(conf, "./mat")
	if err != nil {
		res.Brokenf("%v", err)
		return res
	}
	for _, pkg := range pkgs {
		info := pkg.TypesInfo
		for _, f := range pkg.Syntax {
			for _, d := range f.Decls {
				fd, ok := d.(*ast.FuncDecl)
				if !ok || fd.Body == nil {
					continue
				}
				name := core.FuncName(pkg, fd)
				params := map[types.Object]bool{}
				for _, fl := range fd.Type.Params.List {
					for _, n := range fl.Names {
						if o := info.Defs[n]; o != nil {
							params[o] = true
						}
					}
				}
				obj := func(e ast.Expr) types.Object {
					if id, ok := ast.Unparen(e).(*ast.Ident); ok {
						if o := core.ObjOf(info, id); params[o] {
							return o
						}
					}
					return nil
				}
				// (K-1)*S as the leading term of a sum, I*S as the leading term of a sum
				lead := func(e ast.Expr) ast.Expr {
					e = ast.Unparen(e)
					for {
						be, ok := e.(*ast.BinaryExpr)
						if !ok || be.Op != token.ADD {
							return e
						}
						e = ast.Unparen(be.X)
					}
				}
				ast.Inspect(fd.Body, func(n ast.Node) bool {
					se, ok := n.(*ast.SliceExpr)
					if !ok || se.Low == nil || se.High == nil {
						return true
					}
					hi, ok := lead(se.High).(*ast.BinaryExpr)
					if !ok || hi.Op != token.MUL {
						return true
					}
					km1, ok := ast.Unparen(hi.X).(*ast.BinaryExpr)
					if !ok || km1.Op != token.SUB {
						return true
					}
					if tv, ok := info.Types[km1.Y]; !ok || tv.Value == nil || tv.Value.ExactString() != "1" {
						return true
					}
					k := obj(km1.X)
					lo, ok := lead(se.Low).(*ast.BinaryExpr)
					if !ok || lo.Op != token.MUL {
						return true
					}
					i := obj(lo.X)
					if k == nil || i == nil || k == i {
						return true
					}
					res.Obligations++
					res.Count("row_range_views", 1)
					rejects := false
					ast.Inspect(fd.Body, func(m ast.Node) bool {
						be, ok := m.(*ast.BinaryExpr)
						if !ok {
							return true
						}
						x, y := obj(be.X), obj(be.Y)
						if (be.Op == token.LEQ && x == k && y == i) || (be.Op == token.GEQ && x == i && y == k) {
							rejects = true
						}
						return !rejects
					})
					if !rejects {
						res.Add(core.Finding{Rule: "MAT.zerolen", Key: fmt.Sprintf("MAT.zerolen|%s|%s", name, k.Name()), Pos: core.Pos(se.Pos()), Func: name,
							Msg: fmt.Sprintf("%s cuts rows %s…%s-1 out of the backing slice as %s but its range check admits %s == %s: the upper bound then lies below the lower one and the slice expression faults at run time instead of the package's own panic", name, i.Name(), k.Name(), types.ExprString(se), k.Name(), i.Name())})
					}
					return true
				})
			}
		}
	}
	return res
}
