package matargs

import (
	"fmt"
	"go/ast"
	"go/token"
	"go/types"

	"golang.org/x/tools/go/cfg"

	"gverif/cfgx"
	"gverif/core"
)

// RunDoublePass implements MAT.doublepass: a method of mat may be called
// with an operand identical to the receiver, so an element-wise result must
// be formed in one pass: if a loop that stores receiver elements at index
// expression E from operand elements can be followed, on some path, by a
// second top-level loop that stores the same elements (same setter, same
// index expressions up to the name of the loop variable) from operand
// elements again, the second pass reads what the first stored whenever the
// receiver is that operand (DivElemVec's strided arm fell through into the
// generic loop and divided twice for v.DivElemVec(v, b)).
func RunDoublePass(conf core.Config) *core.Result {
	res := core.NewResult("DOUBLEPASS")
	res.Rules = append(res.Rules, "MAT.doublepass: in the methods of mat no loop storing receiver elements from operand elements reaches a second top-level loop that stores the same elements from operand elements")
	res.Configs = append(res.Configs, conf.String())
	pkgs, err := core.Load(conf, "./mat")
	if err != nil {
		res.Brokenf("%v", err)
		return res
	}
	for _, pkg := range pkgs {
		info := pkg.TypesInfo
		for _, file := range pkg.Syntax {
			for _, d := range file.Decls {
				fd, ok := d.(*ast.FuncDecl)
				if !ok || fd.Body == nil || fd.Recv == nil || len(fd.Recv.List) != 1 || len(fd.Recv.List[0].Names) != 1 {
					continue
				}
				recv := info.Defs[fd.Recv.List[0].Names[0]]
				if recv == nil {
					continue
				}
				if _, isPtr := recv.Type().(*types.Pointer); !isPtr {
					continue
				}
				params := map[types.Object]bool{}
				for _, fl := range fd.Type.Params.List {
					for _, n := range fl.Names {
						if o := info.Defs[n]; o != nil {
							params[o] = true
						}
					}
				}
				if len(params) == 0 {
					continue
				}
				// locals derived from a parameter (aU, arv, amat, …)
				derived := map[types.Object]bool{}
				for o := range params {
					derived[o] = true
				}
				mentions := func(e ast.Node) bool {
					f := false
					ast.Inspect(e, func(n ast.Node) bool {
						if id, ok := n.(*ast.Ident); ok && derived[core.ObjOf(info, id)] {
							f = true
						}
						return !f
					})
					return f
				}
				for changed := true; changed; {
					changed = false
					ast.Inspect(fd.Body, func(n ast.Node) bool {
						switch s := n.(type) {
						case *ast.AssignStmt:
							if s.Tok != token.DEFINE && s.Tok != token.ASSIGN {
								return true
							}
							any := false
							for _, r := range s.Rhs {
								if mentions(r) {
									any = true
								}
							}
							if !any {
								return true
							}
							for _, l := range s.Lhs {
								if id, ok := l.(*ast.Ident); ok {
									if o := core.ObjOf(info, id); o != nil && o != recv && !derived[o] {
										if _, isBasic := o.Type().Underlying().(*types.Basic); !isBasic {
											derived[o] = true
											changed = true
										}
									}
								}
							}
						}
						return true
					})
				}
				name := core.FuncName(pkg, fd)
				rootIsRecv := func(e ast.Expr) bool {
					for {
						switch x := ast.Unparen(e).(type) {
						case *ast.SelectorExpr:
							e = x.X
						case *ast.Ident:
							return core.ObjOf(info, x) == recv
						default:
							return false
						}
					}
				}
				type pass struct {
					loop  ast.Stmt
					store ast.Node
					key   string
				}
				loopVars := func(l ast.Stmt) map[types.Object]bool {
					m := map[types.Object]bool{}
					add := func(e ast.Expr) {
						if id, ok := e.(*ast.Ident); ok && id.Name != "_" {
							if o := core.ObjOf(info, id); o != nil {
								m[o] = true
							}
						}
					}
					ast.Inspect(l, func(n ast.Node) bool {
						switch s := n.(type) {
						case *ast.RangeStmt:
							if s.Key != nil {
								add(s.Key)
							}
						case *ast.ForStmt:
							if as, ok := s.Init.(*ast.AssignStmt); ok {
								for _, l := range as.Lhs {
									add(l)
								}
							}
						}
						return true
					})
					return m
				}
				render := func(e ast.Expr, lv map[types.Object]bool) string {
					// index expression with loop variables numbered by first use
					out := ""
					seen := map[types.Object]int{}
					ast.Inspect(e, func(n ast.Node) bool {
						switch x := n.(type) {
						case *ast.Ident:
							o := core.ObjOf(info, x)
							if lv[o] {
								if _, ok := seen[o]; !ok {
									seen[o] = len(seen)
								}
								out += fmt.Sprintf("$%d ", seen[o])
							} else {
								out += x.Name + " "
							}
						case *ast.BasicLit:
							out += x.Value + " "
						case *ast.BinaryExpr:
							out += x.Op.String() + " "
						}
						return true
					})
					return out
				}
				var passes []pass
				var top func(n ast.Node, inLoop bool)
				collect := func(l ast.Stmt) {
					lv := loopVars(l)
					ast.Inspect(l, func(n ast.Node) bool {
						if _, ok := n.(*ast.FuncLit); ok {
							return false
						}
						switch s := n.(type) {
						case *ast.CallExpr:
							sel, ok := s.Fun.(*ast.SelectorExpr)
							if !ok || !rootIsRecv(sel.X) || len(s.Args) < 2 {
								return true
							}
							switch sel.Sel.Name {
							case "set", "setVec", "Set", "SetVec", "SetSym", "SetTri", "SetBand", "SetSymBand", "SetTriBand", "SetDiag":
							default:
								return true
							}
							if !mentions(s.Args[len(s.Args)-1]) {
								return true
							}
							k := sel.Sel.Name + "("
							for _, a := range s.Args[:len(s.Args)-1] {
								k += render(a, lv) + ","
							}
							passes = append(passes, pass{l, s, k + ")"})
						case *ast.AssignStmt:
							for i, lh := range s.Lhs {
								ix, ok := lh.(*ast.IndexExpr)
								if !ok || !rootIsRecv(ix.X) {
									continue
								}
								r := s.Rhs[0]
								if len(s.Rhs) == len(s.Lhs) {
									r = s.Rhs[i]
								}
								if !mentions(r) {
									continue
								}
								passes = append(passes, pass{l, s, "[" + render(ix.Index, lv) + "]"})
							}
						}
						return true
					})
				}
				top = func(n ast.Node, inLoop bool) {
					ast.Inspect(n, func(c ast.Node) bool {
						if c == n {
							return true
						}
						switch s := c.(type) {
						case *ast.FuncLit:
							return false
						case *ast.ForStmt, *ast.RangeStmt:
							collect(s.(ast.Stmt))
							return false
						}
						return true
					})
				}
				top(fd.Body, false)
				if len(passes) < 2 {
					continue
				}
				g := cfgx.New(fd.Body, info)
				blockOf := func(n ast.Node) *cfg.Block {
					for _, b := range g.Blocks {
						for _, bn := range b.Nodes {
							if bn.Pos() <= n.Pos() && n.End() <= bn.End() {
								return b
							}
						}
					}
					return nil
				}
				for i, p1 := range passes {
					b1 := blockOf(p1.store)
					if b1 == nil {
						continue
					}
					var from []bool
					for j, p2 := range passes {
						if i == j || p1.loop == p2.loop || p2.loop.Pos() < p1.loop.End() {
							continue
						}
						res.Obligations++
						res.Count("ordered_pairs_of_element_passes", 1)
						b2 := blockOf(p2.store)
						if b2 == nil {
							continue
						}
						if from == nil {
							from = g.From(b1)
						}
						if !from[b2.Index] {
							continue
						}
						res.Count("pairs_on_one_path", 1)
						if p1.key != p2.key {
							continue
						}
						res.Add(core.Finding{Rule: "MAT.doublepass", Key: "MAT.doublepass|" + name + "|" + p1.key, Pos: core.Pos(p2.store.Pos()), Func: name,
							Msg: fmt.Sprintf("%s: the loop at %s stores the receiver's elements %s from operand elements and can fall through into the loop at %s, which stores the same elements from operand elements again: with the receiver identical to an operand the second pass reads the results of the first", name, core.Pos(p1.loop.Pos()), p1.key, core.Pos(p2.loop.Pos()))})
					}
				}
			}
		}
	}
	return res
}
