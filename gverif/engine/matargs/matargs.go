// Package matargs: MAT.order — in exported pointer-receiver methods of mat
// no shape/argument panic is reachable after the receiver may have been
// modified (sized by reuseAs*, written by a kernel, or had fields set).
package matargs

import (
	"fmt"
	"go/ast"
	"go/types"
	"strings"

	"gverif/cfgx"
	"gverif/core"

	"golang.org/x/tools/go/types/typeutil"
)

// Exempt lists "method|field" receiver stores that precede a shape check
// legitimately, with the reason.
var Exempt = map[string]string{
	"mat.GSVD.Factorize|gsvd.r": "only meaningful while kind != 0, and kind was zeroed (invalidated) first; not observable after the panic",
	"mat.GSVD.Factorize|gsvd.c": "only meaningful while kind != 0, and kind was zeroed (invalidated) first; not observable after the panic",
	"mat.GSVD.Factorize|gsvd.p": "only meaningful while kind != 0, and kind was zeroed (invalidated) first; not observable after the panic",
}

func Run(conf core.Config) *core.Result {
	res := core.NewResult("MATARGS")
	res.Rules = append(res.Rules, "MAT.guardorder: in every exported pointer-receiver method of mat no checkOverlap* guard of the receiver is reachable after a write of the receiver's content (Copy*, Zero, CloneFrom, a kernel call into the receiver)")
	res.Rules = append(res.Rules, "MAT.order: in every exported pointer-receiver method of mat, no panic with one of the package's Err* values or string constants is reachable after the receiver was sized or written")
	res.Configs = append(res.Configs, conf.String())
	pkgs, err := core.Load(conf, "./mat")
	if err != nil {
		res.Brokenf("%v", err)
		return res
	}
	pkg := pkgs[0]
	info := pkg.TypesInfo
	// unexported helper methods that run the overlap guards of their receiver
	// (rawVectorsOf(x, y) calls m.checkOverlap for both vectors)
	guardHelpers := map[types.Object]bool{}
	for _, f := range pkg.Syntax {
		for _, d := range f.Decls {
			fd, ok := d.(*ast.FuncDecl)
			if !ok || fd.Body == nil || fd.Recv == nil || len(fd.Recv.List) != 1 || len(fd.Recv.List[0].Names) != 1 || ast.IsExported(fd.Name.Name) || strings.HasPrefix(fd.Name.Name, "checkOverlap") {
				continue
			}
			rv := info.Defs[fd.Recv.List[0].Names[0]]
			ast.Inspect(fd.Body, func(n ast.Node) bool {
				if c, ok := n.(*ast.CallExpr); ok {
					if sel, ok := c.Fun.(*ast.SelectorExpr); ok && strings.HasPrefix(sel.Sel.Name, "checkOverlap") {
						if id, ok := ast.Unparen(sel.X).(*ast.Ident); ok && rv != nil && core.ObjOf(info, id) == rv {
							guardHelpers[info.Defs[fd.Name]] = true
						}
					}
				}
				return true
			})
		}
	}
	for _, f := range pkg.Syntax {
		for _, d := range f.Decls {
			fd, ok := d.(*ast.FuncDecl)
			if !ok || fd.Body == nil || fd.Recv == nil || !fd.Name.IsExported() || len(fd.Recv.List[0].Names) != 1 {
				continue
			}
			if _, isPtr := fd.Recv.List[0].Type.(*ast.StarExpr); !isPtr {
				continue
			}
			recv := info.Defs[fd.Recv.List[0].Names[0]]
			name := core.FuncName(pkg, fd)
			g := cfgx.New(fd.Body, info)
			isRecv := func(e ast.Expr) bool {
				for {
					switch x := e.(type) {
					case *ast.SelectorExpr:
						e = x.X
						continue
					case *ast.IndexExpr:
						e = x.X
						continue
					case *ast.ParenExpr:
						e = x.X
						continue
					}
					break
				}
				id, ok := e.(*ast.Ident)
				return ok && core.ObjOf(info, id) == recv
			}
			var writes []ast.Node
			var panics []*ast.CallExpr
			ast.Inspect(fd.Body, func(n ast.Node) bool {
				switch x := n.(type) {
				case *ast.FuncLit:
					return false
				case *ast.AssignStmt:
					for i, l := range x.Lhs {
						if _, isID := l.(*ast.Ident); !isID && isRecv(l) {
							// "kill the previous factorization": storing a zero
							// value into a receiver field is invalidation, not
							// modification
							if len(x.Lhs) == len(x.Rhs) {
								if tv, ok := info.Types[x.Rhs[i]]; ok && tv.Value != nil && (tv.Value.ExactString() == "0" || tv.Value.ExactString() == "false") {
									continue
								}
								if id, ok := x.Rhs[i].(*ast.Ident); ok && id.Name == "nil" {
									continue
								}
							}
							if Exempt[name+"|"+types.ExprString(l)] != "" {
								res.Count("exempt_by_table", 1)
								continue
							}
							writes = append(writes, x)
						}
					}
				case *ast.CallExpr:
					if cfgx.IsPanic(info, x) && len(x.Args) == 1 {
						switch a := x.Args[0].(type) {
						case *ast.Ident:
							if o := core.ObjOf(info, a); o != nil && o.Pkg() == pkg.Types && o.Parent() == pkg.Types.Scope() {
								panics = append(panics, x)
							}
						}
						return true
					}
					if sel, ok := x.Fun.(*ast.SelectorExpr); ok && isRecv(sel.X) {
						n := sel.Sel.Name
						if strings.HasPrefix(n, "reuseAs") || strings.HasPrefix(n, "Copy") || n == "Zero" || strings.HasPrefix(n, "set") || strings.HasPrefix(n, "Set") || n == "CloneFrom" {
							writes = append(writes, x)
						}
					}
					if fn := typeutil.Callee(info, x); fn != nil && fn.Pkg() != nil && (strings.HasSuffix(fn.Pkg().Path(), "blas/blas64") || strings.HasSuffix(fn.Pkg().Path(), "lapack/lapack64")) {
						if len(x.Args) > 0 && isRecv(x.Args[len(x.Args)-1]) {
							writes = append(writes, x)
						}
					}
				}
				return true
			})
			// MAT.guardorder: the overlap guards panic too (regionOverlap), so
			// none of them may follow a write of the receiver's *content*
			// (sizing with reuseAs* keeps the content and is the usual first
			// statement)
			{
				var guards []*ast.CallExpr
				var content []ast.Node
				ast.Inspect(fd.Body, func(n ast.Node) bool {
					c, ok := n.(*ast.CallExpr)
					if !ok {
						return true
					}
					if sel, ok := c.Fun.(*ast.SelectorExpr); ok && isRecv(sel.X) {
						nm := sel.Sel.Name
						switch {
						case strings.HasPrefix(nm, "checkOverlap") || guardHelpers[info.Uses[sel.Sel]]:
							guards = append(guards, c)
						case strings.HasPrefix(nm, "Copy") || nm == "Zero" || nm == "CloneFrom" || nm == "reuseAsZeroed":
							content = append(content, c)
						}
					}
					return true
				})
				for _, w := range writes {
					if c, ok := w.(*ast.CallExpr); ok {
						if sel, ok := c.Fun.(*ast.SelectorExpr); ok && isRecv(sel.X) {
							continue // receiver methods were classified above
						}
						content = append(content, w) // kernel calls
					}
				}
				if len(guards) > 0 {
					afterC := make([]bool, len(g.Blocks))
					originC := map[int32]ast.Node{}
					for _, w := range content {
						loc, ok := g.Where[w]
						if !ok {
							continue
						}
						for i, v := range g.From(g.Blocks[loc.Block]) {
							if v && !afterC[i] {
								afterC[i] = true
								originC[int32(i)] = w
							}
						}
						// later in the same block
						for _, gd := range guards {
							if gl, ok := g.Where[gd]; ok && gl.Block == loc.Block && gl.Index > loc.Index {
								afterC[loc.Block] = true
								originC[loc.Block] = w
							}
						}
					}
					for _, gd := range guards {
						res.Obligations++
						res.Count("overlap_guard_calls", 1)
						loc, ok := g.Where[gd]
						if !ok || !afterC[loc.Block] {
							continue
						}
						w := originC[loc.Block]
						if wl, ok := g.Where[w]; ok && wl.Block == loc.Block && wl.Index >= loc.Index && !g.From(g.Blocks[loc.Block])[loc.Block] {
							continue // the write follows the guard in this block
						}
						res.Add(core.Finding{Rule: "MAT.guardorder", Key: fmt.Sprintf("MAT.guardorder|%s|%s", name, types.ExprString(gd.Fun)), Pos: core.Pos(gd.Pos()), Func: name,
							Msg: fmt.Sprintf("the overlap guard %s can panic after the receiver's content was already written at %s: a rejected call leaves its operands modified", types.ExprString(gd.Fun), core.Pos(w.Pos()))})
					}
				}
			}
			if len(panics) == 0 {
				continue
			}
			res.Count("methods_with_checks", 1)
			after := make([]bool, len(g.Blocks))
			origin := map[int32]ast.Node{}
			for _, w := range writes {
				loc, ok := g.Where[w]
				if !ok {
					continue
				}
				for i, v := range g.From(g.Blocks[loc.Block]) {
					if v && !after[i] {
						after[i] = true
						origin[int32(i)] = w
					}
				}
			}
			par := cfgx.Parents(fd.Body)
			for _, p := range panics {
				loc, ok := g.Where[p]
				if !ok {
					continue
				}
				// data checks (conditions reading elements or callee statuses) are out of scope
				data := false
				var child ast.Node = p
				for q := par[p]; q != nil; child, q = q, par[q] {
					var conds []ast.Expr
					switch st := q.(type) {
					case *ast.IfStmt:
						if child == st.Body || child == st.Else {
							conds = append(conds, st.Cond)
						}
					case *ast.CaseClause:
						conds = append(conds, st.List...)
					case *ast.ForStmt, *ast.RangeStmt:
						data = true
					}
					for _, c := range conds {
						ast.Inspect(c, func(n ast.Node) bool {
							switch e := n.(type) {
							case *ast.IndexExpr:
								data = true
							case *ast.Ident:
								if tv, ok := info.Types[e]; ok && tv.Type != nil {
									if b, ok := tv.Type.Underlying().(*types.Basic); ok && b.Kind() == types.Bool && e.Name == "ok" {
										data = true
									}
								}
							}
							return true
						})
					}
				}
				if data {
					res.Count("data_checks_out_of_scope", 1)
					continue
				}
				res.Obligations++
				res.Count("shape_checks", 1)
				if after[loc.Block] {
					w := origin[loc.Block]
					res.Add(core.Finding{Rule: "MAT.order", Key: fmt.Sprintf("MAT.order|%s|%s", name, types.ExprString(p.Args[0])), Pos: core.Pos(p.Pos()), Func: name,
						Msg: fmt.Sprintf("panic(%s) is reachable after the receiver was already modified at %s", types.ExprString(p.Args[0]), core.Pos(w.Pos()))})
				}
			}
		}
	}
	return res
}
