// Package factkind implements FACTKIND.pair: the Householder vectors and
// scalar factors (a, tau) produced by an orthogonal factorization routine are
// consumed only by the multiply/generate routines of the same kind. The
// reflectors of an RQ factorization are stored in rows from the right, those
// of a QR factorization in columns from the left, ...; applying the wrong
// family reads the reflectors from the wrong part of the matrix.
//
//	QR: Dgeqr2 Dgeqrf Dgeqp3 Dlaqp2 Dlaqps  ->  Dorm2r Dormqr Dorg2r Dorgqr
//	RQ: Dgerq2 Dgerqf                       ->  Dormr2 Dorgr2
//	LQ: Dgelq2 Dgelqf                       ->  Dorml2 Dormlq Dorgl2 Dorglq
//	QL: Dgeql2                              ->  Dorm2l Dorg2l Dorgql
//
// (and the lapack64 wrappers Geqrf/Gelqf/Ormqr/Ormlq/Orgqr/Orglq).
//
// Within a function the rule is decided on the control-flow graph: for every
// consumer call, each producer call whose tau argument has the same root
// variable and that reaches the consumer without an intervening producer for
// that root must be of the consumer's kind. For factorization types that keep
// tau in a field (mat.QR, mat.LQ) the rule is decided per type: all producers
// and consumers of T.tau across T's methods agree.
package factkind

import (
	"fmt"
	"go/ast"
	"go/types"
	"strings"

	"gverif/cfgx"
	"gverif/core"

	"golang.org/x/tools/go/cfg"
	"golang.org/x/tools/go/types/typeutil"
)

type role struct {
	kind     string
	producer bool
	tauArg   int // index of the tau argument
}

var lapackRoles = map[string]role{
	"Dgeqr2": {"QR", true, 4}, "Dgeqrf": {"QR", true, 4}, "Dgeqp3": {"QR", true, 5},
	"Dgerq2": {"RQ", true, 4}, "Dgerqf": {"RQ", true, 4},
	"Dgelq2": {"LQ", true, 4}, "Dgelqf": {"LQ", true, 4},
	"Dgeql2": {"QL", true, 4},
	"Dorm2r": {"QR", false, 7}, "Dormqr": {"QR", false, 7}, "Dorg2r": {"QR", false, 5}, "Dorgqr": {"QR", false, 5},
	"Dormr2": {"RQ", false, 7}, "Dorgr2": {"RQ", false, 5},
	"Dorml2": {"LQ", false, 7}, "Dormlq": {"LQ", false, 7}, "Dorgl2": {"LQ", false, 5}, "Dorglq": {"LQ", false, 5},
	"Dorm2l": {"QL", false, 7}, "Dorg2l": {"QL", false, 5}, "Dorgql": {"QL", false, 5},
}

var lapack64Roles = map[string]role{
	"Geqrf": {"QR", true, 1}, "Gelqf": {"LQ", true, 1},
	"Ormqr": {"QR", false, 3}, "Ormlq": {"LQ", false, 3},
	"Orgqr": {"QR", false, 1}, "Orglq": {"LQ", false, 1},
}

type site struct {
	call *ast.CallExpr
	name string
	r    role
	root string // root of the tau argument ("tau", "qr.tau" -> field key)
}

func roleOf(info *types.Info, call *ast.CallExpr) (string, role, bool) {
	fn, _ := typeutil.Callee(info, call).(*types.Func)
	if fn == nil || fn.Pkg() == nil {
		return "", role{}, false
	}
	switch fn.Pkg().Path() {
	case core.ModPath + "/lapack/gonum":
		if r, ok := lapackRoles[fn.Name()]; ok && len(call.Args) > r.tauArg {
			return fn.Name(), r, true
		}
	case core.ModPath + "/lapack/lapack64":
		if r, ok := lapack64Roles[fn.Name()]; ok && len(call.Args) > r.tauArg {
			return "lapack64." + fn.Name(), r, true
		}
	}
	return "", role{}, false
}

// tauRoot gives the variable (or receiver field path) a tau argument is a
// slice of: tau, tau[:k], qr.tau, work[itau:] -> "work" (workspace-carved tau
// blocks are told apart by their offset expression).
func tauRoot(info *types.Info, e ast.Expr) (root string, field bool) {
	off := ""
	for {
		switch x := e.(type) {
		case *ast.ParenExpr:
			e = x.X
		case *ast.SliceExpr:
			if x.Low != nil {
				off = types.ExprString(x.Low)
			}
			e = x.X
		case *ast.Ident:
			if x.Name == "work" && off != "" {
				return "work[" + off + ":]", false
			}
			return x.Name, false
		case *ast.SelectorExpr:
			// field of a struct value: key by type and field name
			if tv, ok := info.Types[x.X]; ok {
				t := tv.Type
				if p, ok := t.(*types.Pointer); ok {
					t = p.Elem()
				}
				if n, ok := t.(*types.Named); ok {
					return n.Obj().Name() + "." + x.Sel.Name, true
				}
			}
			return types.ExprString(x), true
		default:
			return "", false
		}
	}
}

// Run analyses lapack/gonum and mat.
func Run(cfg core.Config, patterns ...string) *core.Result {
	res := core.NewResult("FACTKIND")
	res.Rules = append(res.Rules, "FACTKIND.pair: (a, tau) produced by a QR/RQ/LQ/QL factorization routine reaches only multiply/generate routines of the same kind (CFG reaching producers per function; per type for tau kept in a field)")
	res.Configs = append(res.Configs, cfg.String())
	pkgs, err := core.Load(cfg, patterns...)
	if err != nil {
		res.Brokenf("%v", err)
		return res
	}
	type fieldUse struct {
		s    site
		fn   string
		prod bool
	}
	fields := map[string][]fieldUse{}
	for _, pkg := range pkgs {
		info := pkg.TypesInfo
		for _, file := range pkg.Syntax {
			for _, d := range file.Decls {
				fd, ok := d.(*ast.FuncDecl)
				if !ok || fd.Body == nil {
					continue
				}
				name := core.FuncName(pkg, fd)
				var sites []site
				ast.Inspect(fd.Body, func(n ast.Node) bool {
					call, ok := n.(*ast.CallExpr)
					if !ok {
						return true
					}
					if nm, r, ok := roleOf(info, call); ok {
						// workspace queries carry no reflectors
						if isQuery(info, call) {
							return true
						}
						root, isField := tauRoot(info, call.Args[r.tauArg])
						if root == "" {
							return true
						}
						s := site{call, nm, r, root}
						if isField {
							fields[root] = append(fields[root], fieldUse{s, name, r.producer})
						}
						sites = append(sites, s)
					}
					return true
				})
				if len(sites) == 0 {
					continue
				}
				g := cfgx.New(fd.Body, info)
				for _, c := range sites {
					if c.r.producer {
						res.Count("factorization_calls", 1)
						continue
					}
					res.Count("consumer_calls", 1)
					// reaching producers of the same root
					reaching := reachingProducers(g, sites, c)
					if len(reaching) == 0 {
						res.Count("consumers_of_caller_supplied_reflectors", 1)
						continue
					}
					res.Obligations++
					res.Count("paired_consumers", 1)
					for _, p := range reaching {
						if p.r.kind != c.r.kind {
							res.Add(core.Finding{Rule: "FACTKIND.pair", Key: fmt.Sprintf("FACTKIND.pair|%s|%s after %s on %s", name, c.name, p.name, c.root),
								Pos: core.Pos(c.call.Pos()), Func: name,
								Msg: fmt.Sprintf("%s applies %s reflectors, but %s holds the scalar factors of the %s factorization computed by %s at %s: the reflectors are read from the wrong part of the matrix",
									c.name, c.r.kind, c.root, p.r.kind, p.name, core.Pos(p.call.Pos())),
								Path: []string{"factorization at " + core.Pos(p.call.Pos()), "consumer at " + core.Pos(c.call.Pos())}})
						}
					}
				}
			}
		}
	}
	// per-type agreement for tau kept in fields
	for root, uses := range fields {
		kinds := map[string]bool{}
		var prodKind string
		for _, u := range uses {
			if u.prod {
				prodKind = u.s.r.kind
				kinds[u.s.r.kind] = true
			}
		}
		if prodKind == "" {
			continue
		}
		for _, u := range uses {
			if u.prod {
				continue
			}
			res.Obligations++
			res.Count("field_consumers", 1)
			if !kinds[u.s.r.kind] {
				res.Add(core.Finding{Rule: "FACTKIND.pair", Key: fmt.Sprintf("FACTKIND.pair|%s|%s on %s", u.fn, u.s.name, root),
					Pos: core.Pos(u.s.call.Pos()), Func: u.fn,
					Msg: fmt.Sprintf("%s applies %s reflectors, but the field %s is filled by a %s factorization in this type's methods", u.s.name, u.s.r.kind, root, strings.Join(keysOf(kinds), "/"))})
			}
		}
	}
	return res
}

func keysOf(m map[string]bool) []string {
	var out []string
	for k := range m {
		out = append(out, k)
	}
	return out
}

func isQuery(info *types.Info, call *ast.CallExpr) bool {
	for _, a := range call.Args {
		if u, ok := a.(*ast.UnaryExpr); ok {
			if tv, ok := info.Types[u]; ok && tv.Value != nil && tv.Value.ExactString() == "-1" {
				return true
			}
		}
	}
	return false
}

// reachingProducers walks the CFG backwards from the consumer and collects,
// on every path, the nearest producer with the same tau root.
func reachingProducers(g *cfgx.Graph, sites []site, c site) []site {
	type at struct {
		b   int32
		idx int
	}
	where := map[at][]site{}
	for _, s := range sites {
		if !s.r.producer || s.root != c.root {
			continue
		}
		loc, ok := g.Where[s.call]
		if !ok {
			continue
		}
		where[at{loc.Block, loc.Index}] = append(where[at{loc.Block, loc.Index}], s)
	}
	cl, ok := g.Where[c.call]
	if !ok {
		return nil
	}
	preds := map[int32][]*cfg.Block{}
	for _, b := range g.Blocks {
		for _, s := range b.Succs {
			preds[s.Index] = append(preds[s.Index], b)
		}
	}
	var out []site
	seen := map[int32]bool{}
	var scan func(b *cfg.Block, from int)
	scan = func(b *cfg.Block, from int) {
		for i := from; i >= 0; i-- {
			if ps, ok := where[at{b.Index, i}]; ok {
				out = append(out, ps...)
				return
			}
		}
		for _, p := range preds[b.Index] {
			if seen[p.Index] {
				continue
			}
			seen[p.Index] = true
			scan(p, len(p.Nodes)-1)
		}
	}
	scan(g.Blocks[cl.Block], cl.Index-1)
	return out
}
