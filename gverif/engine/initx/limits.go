package initx

import (
	"fmt"
	"go/ast"
	"go/token"
	"go/types"

	"gverif/core"
)

// RunLimits implements OPT.limits: optimize compares a counter kept in Stats
// with the limit of the same name in Settings (FuncEvaluations,
// GradEvaluations, HessEvaluations, MajorIterations, Runtime). In any
// comparison whose two sides are a field of a *Stats value and a field of a
// *Settings value the field names agree, and within one condition the
// Settings field tested for "limit set" (> 0) is the one compared.
func RunLimits(conf core.Config) *core.Result {
	res := core.NewResult("OPT")
	res.Rules = append(res.Rules, "OPT.limits: a comparison between a field of optimize.Stats and a field of optimize.Settings uses the same field name on both sides")
	res.Configs = append(res.Configs, conf.String())
	pkgs, err := core.Load(conf, "./optimize")
	if err != nil {
		res.Brokenf("%v", err)
		return res
	}
	pkg := pkgs[0]
	info := pkg.TypesInfo
	fieldOf := func(e ast.Expr, typeName string) (string, bool) {
		sel, ok := ast.Unparen(e).(*ast.SelectorExpr)
		if !ok {
			return "", false
		}
		tv, ok := info.Types[sel.X]
		if !ok {
			return "", false
		}
		t := tv.Type
		if p, ok := t.(*types.Pointer); ok {
			t = p.Elem()
		}
		n, ok := t.(*types.Named)
		if !ok || n.Obj().Name() != typeName || n.Obj().Pkg() != pkg.Types {
			return "", false
		}
		return sel.Sel.Name, true
	}
	for _, f := range pkg.Syntax {
		for _, d := range f.Decls {
			fd, ok := d.(*ast.FuncDecl)
			if !ok || fd.Body == nil {
				continue
			}
			name := core.FuncName(pkg, fd)
			ast.Inspect(fd.Body, func(n ast.Node) bool {
				be, ok := n.(*ast.BinaryExpr)
				if !ok {
					return true
				}
				switch be.Op {
				case token.GEQ, token.GTR, token.LEQ, token.LSS, token.EQL, token.NEQ:
				default:
					return true
				}
				for _, pair := range [][2]ast.Expr{{be.X, be.Y}, {be.Y, be.X}} {
					sf, ok1 := fieldOf(pair[0], "Stats")
					tf, ok2 := fieldOf(pair[1], "Settings")
					if !ok1 || !ok2 {
						continue
					}
					res.Obligations++
					res.Count("stats_settings_comparisons", 1)
					if sf != tf {
						res.Add(core.Finding{Rule: "OPT.limits", Key: fmt.Sprintf("OPT.limits|%s|%s vs %s", name, sf, tf), Pos: core.Pos(be.Pos()), Func: name,
							Msg: fmt.Sprintf("%s compares the counter Stats.%s with the limit Settings.%s: the run stops on (and reports) a limit that was not reached", types.ExprString(be), sf, tf)})
					}
				}
				return true
			})
		}
	}
	return res
}
