// Package initx: INIT.state — an optimizer's Init method (re)initialises its
// state unconditionally.
//
// A Method value may be reused for several Minimize runs; the state Init
// sets up (best value so far, counters, status) must not survive from the
// previous run. If Init assigns a field on some path it must assign it on
// every path that returns: an assignment under a condition that does not
// test the field itself (the lazy-allocation idiom `if x.f == nil { x.f =
// ... }` does) leaves the previous run's value in place when the condition
// is false.
package initx

import (
	"fmt"
	"go/ast"
	"go/types"
	"sort"
	"strings"

	"gverif/cfgx"
	"gverif/core"

	"golang.org/x/tools/go/cfg"
)

// Exempt lists "Type.Method|field" whose conditional assignment is
// legitimate, with the reason.
var Exempt = map[string]string{}

func Run(conf core.Config, patterns ...string) *core.Result {
	res := core.NewResult("INIT")
	res.Rules = append(res.Rules, "INIT.state: a receiver field that an Init/InitDirection/initLocal/Reset method of an optimizer assigns on some path is assigned on every path to a return, except under conditions that test that field itself (lazy allocation)")
	res.Configs = append(res.Configs, conf.String())
	pkgs, err := core.Load(conf, patterns...)
	if err != nil {
		res.Brokenf("%v", err)
		return res
	}
	used := map[string]bool{}
	for _, pkg := range pkgs {
		info := pkg.TypesInfo
		for _, f := range pkg.Syntax {
			if strings.HasSuffix(core.Fset.Position(f.Pos()).Filename, "_test.go") {
				continue
			}
			for _, d := range f.Decls {
				fd, ok := d.(*ast.FuncDecl)
				if !ok || fd.Body == nil || fd.Recv == nil || len(fd.Recv.List[0].Names) != 1 {
					continue
				}
				switch fd.Name.Name {
				case "Init", "InitDirection", "initLocal", "InitGlobal", "Reset", "reset":
				default:
					continue
				}
				if _, isPtr := fd.Recv.List[0].Type.(*ast.StarExpr); !isPtr {
					continue
				}
				recv := info.Defs[fd.Recv.List[0].Names[0]]
				if recv == nil {
					continue
				}
				name := core.FuncName(pkg, fd)
				res.Count("init_methods", 1)
				isRecvField := func(e ast.Expr) (string, bool) {
					sel, ok := ast.Unparen(e).(*ast.SelectorExpr)
					if !ok {
						return "", false
					}
					id, ok := ast.Unparen(sel.X).(*ast.Ident)
					if !ok || core.ObjOf(info, id) != recv {
						return "", false
					}
					return sel.Sel.Name, true
				}
				// assignments recv.f = ...
				type asg struct {
					node ast.Node
				}
				assigned := map[string][]ast.Node{}
				parents := cfgx.Parents(fd.Body)
				var wholeCalls []ast.Node // calls of the receiver's own methods: may set anything
				methodSets := map[string][]ast.Node{}
				ast.Inspect(fd.Body, func(n ast.Node) bool {
					switch x := n.(type) {
					case *ast.FuncLit:
						return false
					case *ast.AssignStmt:
						for _, l := range x.Lhs {
							if f, ok := isRecvField(l); ok {
								assigned[f] = append(assigned[f], x)
							}
						}
					case *ast.CallExpr:
						if sel, ok := x.Fun.(*ast.SelectorExpr); ok {
							if id, ok := ast.Unparen(sel.X).(*ast.Ident); ok && core.ObjOf(info, id) == recv {
								if _, isMethod := info.Uses[sel.Sel].(*types.Func); isMethod {
									wholeCalls = append(wholeCalls, x)
								}
							} else if f, ok := isRecvField(sel.X); ok {
								// recv.f.Method(...): a method of the field's value (Clone, Reset, CopyVec) sets it
								if _, isMethod := info.Uses[sel.Sel].(*types.Func); isMethod {
									methodSets[f] = append(methodSets[f], x)
								}
							}
						}
					}
					return true
				})
				direct := map[string][]ast.Node{}
				for f := range assigned {
					direct[f] = assigned[f]
					assigned[f] = append(append(append([]ast.Node{}, assigned[f]...), methodSets[f]...), wholeCalls...)
				}
				var fields []string
				for f := range assigned {
					fields = append(fields, f)
				}
				sort.Strings(fields)
				if len(fields) == 0 {
					continue
				}
				g := cfgx.New(fd.Body, info)
				reach := g.Reachable()
				mentions := func(e ast.Expr, field string) bool {
					found := false
					ast.Inspect(e, func(n ast.Node) bool {
						if x, ok := n.(ast.Expr); ok {
							if f, ok := isRecvField(x); ok && f == field {
								found = true
							}
						}
						return !found
					})
					return found
				}
				for _, field := range fields {
					res.Obligations++
					res.Count("state_fields", 1)
					// lazy: every assignment sits under a condition testing the field itself
					lazy := true
					for _, a := range direct[field] {
						self := false
						for q := parents[a]; q != nil; q = parents[q] {
							if is, ok := q.(*ast.IfStmt); ok && mentions(is.Cond, field) {
								self = true
							}
						}
						if !self {
							lazy = false
						}
					}
					if lazy {
						res.Count("lazy_fields", 1)
						continue
					}
					set := map[ast.Node]bool{}
					for _, a := range assigned[field] {
						set[a] = true
					}
					has := func(b *cfg.Block) bool {
						for _, n := range b.Nodes {
							if set[n] {
								return true
							}
							found := false
							ast.Inspect(n, func(x ast.Node) bool {
								if set[x] {
									found = true
								}
								return !found
							})
							if found {
								return true
							}
						}
						return false
					}
					in := g.MustPass(has)
					bad := false
					for _, b := range g.Blocks {
						if !reach[b.Index] || len(b.Succs) != 0 || b.Kind == cfg.KindUnreachable {
							continue
						}
						if len(b.Nodes) > 0 {
							if es, ok := b.Nodes[len(b.Nodes)-1].(*ast.ExprStmt); ok {
								if c, ok := es.X.(*ast.CallExpr); ok && cfgx.IsPanic(info, c) {
									continue
								}
							}
						}
						if !(in[b.Index] || has(b)) {
							bad = true
						}
					}
					if !bad {
						continue
					}
					key := strings.TrimPrefix(name, core.RelPkg(pkg.PkgPath)+".") + "|" + field
					if _, ok := Exempt[key]; ok {
						used[key] = true
						res.Count("exempt", 1)
						continue
					}
					res.Add(core.Finding{Rule: "INIT.state", Key: "INIT.state|" + name + "|" + field, Pos: core.Pos(assigned[field][0].Pos()), Func: name,
						Msg: fmt.Sprintf("%s assigns %s.%s only on some paths (under a condition that does not test the field itself): on the other paths the value left by a previous run survives", name, recv.Name(), field)})
				}
			}
		}
	}
	for k := range Exempt {
		if !used[k] {
			res.Stale("INIT.state: stale exemption %s", k)
		}
	}
	return res
}
