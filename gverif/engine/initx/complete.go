package initx

import (
	"fmt"
	"go/ast"
	"go/types"
	"sort"

	"gverif/core"
)

// CompleteExempt lists "Type|field" pairs that are deliberately carried over
// from one run to the next, with the reason.
var CompleteExempt = map[string]string{
	"Bisection|lastF":           "scratch within one line search: Iterate stores lastF when the evaluation of f alone is requested and reads it back when the gradient arrives, always in that order",
	"NelderMead|reflectedValue": "scratch within one iteration: set in the reflection arm before the expansion/contraction arms that read it",
}

// RunComplete implements INIT.complete: every piece of state an optimizer
// changes while it runs is set up again by its Init method. A Method value is
// reused for several Minimize runs; a field that Iterate/NextDirection/… store
// into but that no Init method (Init, InitDirection, InitGlobal, initLocal, or
// a receiver method one of them calls) assigns keeps the value the previous
// run left in it. INIT.state checks the fields Init does assign (on all
// paths); this rule finds the ones it forgot.
func RunComplete(conf core.Config, patterns ...string) *core.Result {
	res := core.NewResult("INITCOMPLETE")
	res.Rules = append(res.Rules, "INIT.complete: a receiver field that a non-Init method of an optimizer type assigns is also assigned by one of the type's Init methods (directly or through a receiver method they call)")
	res.Configs = append(res.Configs, conf.String())
	pkgs, err := core.Load(conf, patterns...)
	if err != nil {
		res.Brokenf("%v", err)
		return res
	}
	isInitName := map[string]bool{"Init": true, "InitDirection": true, "initLocal": true, "InitGlobal": true}
	used := map[string]bool{}
	for _, pkg := range pkgs {
		info := pkg.TypesInfo
		type tinfo struct {
			methods map[string]*ast.FuncDecl
			recv    map[string]types.Object
		}
		byType := map[*types.TypeName]*tinfo{}
		for _, f := range pkg.Syntax {
			for _, d := range f.Decls {
				fd, ok := d.(*ast.FuncDecl)
				if !ok || fd.Body == nil || fd.Recv == nil || len(fd.Recv.List) != 1 || len(fd.Recv.List[0].Names) != 1 {
					continue
				}
				ro := info.Defs[fd.Recv.List[0].Names[0]]
				if ro == nil {
					continue
				}
				p, ok := ro.Type().(*types.Pointer)
				if !ok {
					continue
				}
				n, ok := p.Elem().(*types.Named)
				if !ok {
					continue
				}
				ti := byType[n.Obj()]
				if ti == nil {
					ti = &tinfo{methods: map[string]*ast.FuncDecl{}, recv: map[string]types.Object{}}
					byType[n.Obj()] = ti
				}
				ti.methods[fd.Name.Name] = fd
				ti.recv[fd.Name.Name] = ro
			}
		}
		for tn, ti := range byType {
			hasInit := false
			for m := range ti.methods {
				if isInitName[m] {
					hasInit = true
				}
			}
			if !hasInit {
				continue
			}
			res.Count("types_with_init_methods", 1)
			// fields assigned by a method, following receiver-method calls
			var assignedBy func(m string, seen map[string]bool, out map[string]ast.Node)
			assignedBy = func(m string, seen map[string]bool, out map[string]ast.Node) {
				fd := ti.methods[m]
				if fd == nil || seen[m] {
					return
				}
				seen[m] = true
				ro := ti.recv[m]
				ast.Inspect(fd.Body, func(n ast.Node) bool {
					switch x := n.(type) {
					case *ast.AssignStmt:
						for _, l := range x.Lhs {
							e := ast.Unparen(l)
							// *recv = T{…} (re)initialises every field
							if st, ok := e.(*ast.StarExpr); ok {
								if id, ok := ast.Unparen(st.X).(*ast.Ident); ok && core.ObjOf(info, id) == ro {
									if stt, ok := tn.Type().Underlying().(*types.Struct); ok {
										for i := 0; i < stt.NumFields(); i++ {
											if _, dup := out[stt.Field(i).Name()]; !dup {
												out[stt.Field(i).Name()] = x
											}
										}
									}
								}
							}
							// recv.f = …, recv.f[i] = … is an update of existing state, not a (re)initialisation
							if sel, ok := e.(*ast.SelectorExpr); ok {
								if id, ok := ast.Unparen(sel.X).(*ast.Ident); ok && core.ObjOf(info, id) == ro {
									if _, dup := out[sel.Sel.Name]; !dup {
										out[sel.Sel.Name] = x
									}
								}
							}
						}
					case *ast.IncDecStmt:
						if sel, ok := ast.Unparen(x.X).(*ast.SelectorExpr); ok {
							if id, ok := ast.Unparen(sel.X).(*ast.Ident); ok && core.ObjOf(info, id) == ro {
								if _, dup := out[sel.Sel.Name]; !dup {
									out[sel.Sel.Name] = x
								}
							}
						}
					case *ast.CallExpr:
						if sel, ok := x.Fun.(*ast.SelectorExpr); ok {
							if id, ok := ast.Unparen(sel.X).(*ast.Ident); ok && core.ObjOf(info, id) == ro {
								assignedBy(sel.Sel.Name, seen, out)
							}
						}
					}
					return true
				})
			}
			inInit := map[string]ast.Node{}
			for m := range ti.methods {
				if isInitName[m] {
					assignedBy(m, map[string]bool{}, inInit)
				}
			}
			// methods reachable from Init are part of initialisation
			initReach := map[string]bool{}
			for m := range ti.methods {
				if isInitName[m] {
					assignedBy(m, initReach, map[string]ast.Node{})
				}
			}
			elsewhere := map[string]ast.Node{}
			var ms []string
			for m := range ti.methods {
				ms = append(ms, m)
			}
			sort.Strings(ms)
			for _, m := range ms {
				if initReach[m] {
					continue
				}
				one := map[string]ast.Node{}
				// direct assignments only (no call following): each method is visited itself
				fd := ti.methods[m]
				ro := ti.recv[m]
				ast.Inspect(fd.Body, func(n ast.Node) bool {
					switch x := n.(type) {
					case *ast.AssignStmt:
						for _, l := range x.Lhs {
							if sel, ok := ast.Unparen(l).(*ast.SelectorExpr); ok {
								if id, ok := ast.Unparen(sel.X).(*ast.Ident); ok && core.ObjOf(info, id) == ro {
									one[sel.Sel.Name] = x
								}
							}
						}
					case *ast.IncDecStmt:
						if sel, ok := ast.Unparen(x.X).(*ast.SelectorExpr); ok {
							if id, ok := ast.Unparen(sel.X).(*ast.Ident); ok && core.ObjOf(info, id) == ro {
								one[sel.Sel.Name] = x
							}
						}
					}
					return true
				})
				for f, n := range one {
					if _, dup := elsewhere[f]; !dup {
						elsewhere[f] = n
					}
				}
			}
			var fs []string
			for f := range elsewhere {
				fs = append(fs, f)
			}
			sort.Strings(fs)
			for _, f := range fs {
				res.Obligations++
				res.Count("state_fields_written_while_running", 1)
				if _, ok := inInit[f]; ok {
					continue
				}
				key := tn.Name() + "|" + f
				if _, ok := CompleteExempt[key]; ok {
					used[key] = true
					res.Count("fields_exempt_by_table", 1)
					continue
				}
				res.Add(core.Finding{Rule: "INIT.complete", Key: "INIT.complete|" + key, Pos: core.Pos(elsewhere[f].Pos()), Func: pkg.Types.Name() + "." + tn.Name(),
					Msg: fmt.Sprintf("%s.%s is assigned here, while the method runs, but none of %s's Init methods assigns it: a reused method value starts its next run with the value the previous run left", tn.Name(), f, tn.Name())})
			}
		}
	}
	for k := range CompleteExempt {
		if !used[k] {
			res.Stale("INIT.complete: stale exemption %s", k)
		}
	}
	return res
}
