package initx

import (
	"fmt"
	"go/ast"
	"go/token"
	"go/types"

	"gverif/core"
)

// RunMaskPair implements OPT.maskpair: the evaluation requests of optimize
// are bit masks (FuncEvaluation, GradEvaluation, HessEvaluation) and the code
// that completes a request is written as a row of
//
//	if needs.Gradient && op&GradEvaluation == 0 { newOp |= GradEvaluation }
//
// arms. In such an arm — a condition containing `E & M == 0` with a named
// constant M, a body made of `T |= M'` with a named constant of the same
// type — the bit that is tested is the bit that is set. A copy of the
// neighbouring arm with one constant edited requests the Hessian depending on
// whether the gradient is already available (seed C19-e2).
func RunMaskPair(conf core.Config, scope core.Scope) *core.Result {
	res := core.NewResult("MASKPAIR")
	res.Rules = append(res.Rules, "OPT.maskpair: in `if … E&M == 0 { T |= M' }` with named mask constants of one type, M and M' are the same constant")
	res.Configs = append(res.Configs, conf.String())
	pkgs, err := core.Load(conf, scope.Patterns...)
	if err != nil {
		res.Brokenf("%v", err)
		return res
	}
	for _, pkg := range pkgs {
		info := pkg.TypesInfo
		constOf := func(e ast.Expr) *types.Const {
			switch x := ast.Unparen(e).(type) {
			case *ast.Ident:
				c, _ := info.Uses[x].(*types.Const)
				return c
			case *ast.SelectorExpr:
				c, _ := info.Uses[x.Sel].(*types.Const)
				return c
			}
			return nil
		}
		for _, file := range pkg.Syntax {
			if !scope.InFile(file.Pos()) {
				continue
			}
			for _, d := range file.Decls {
				fd, ok := d.(*ast.FuncDecl)
				if !ok || fd.Body == nil {
					continue
				}
				name := core.FuncName(pkg, fd)
				ast.Inspect(fd.Body, func(n ast.Node) bool {
					is, ok := n.(*ast.IfStmt)
					if !ok || len(is.Body.List) != 1 {
						return true
					}
					as, ok := is.Body.List[0].(*ast.AssignStmt)
					if !ok || as.Tok != token.OR_ASSIGN || len(as.Rhs) != 1 {
						return true
					}
					set := constOf(as.Rhs[0])
					if set == nil {
						return true
					}
					// tested masks: E & M == 0 / != 0 among the conjuncts
					var tested []*types.Const
					ast.Inspect(is.Cond, func(y ast.Node) bool {
						be, ok := y.(*ast.BinaryExpr)
						if !ok || (be.Op != token.EQL && be.Op != token.NEQ) {
							return true
						}
						and, ok := ast.Unparen(be.X).(*ast.BinaryExpr)
						if !ok || and.Op != token.AND {
							return true
						}
						for _, side := range []ast.Expr{and.X, and.Y} {
							if c := constOf(side); c != nil && types.Identical(c.Type(), set.Type()) {
								tested = append(tested, c)
							}
						}
						return true
					})
					if len(tested) == 0 {
						return true
					}
					res.Obligations++
					res.Count("mask_test_and_set_arms", 1)
					same := false
					for _, c := range tested {
						if c == set {
							same = true
						}
					}
					if !same {
						res.Add(core.Finding{Rule: "OPT.maskpair", Key: fmt.Sprintf("OPT.maskpair|%s|%s", name, set.Name()), Pos: core.Pos(is.Pos()), Func: name,
							Msg: fmt.Sprintf("the arm sets %s but its condition `%s` tests %s: whether %s is requested depends on another evaluation being present", set.Name(), types.ExprString(is.Cond), tested[0].Name(), set.Name())})
					}
					return true
				})
			}
		}
	}
	return res
}
