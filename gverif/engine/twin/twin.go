package twin

import (
	"go/ast"
	"reflect"

	"gverif/core"
)

func reflectPtr(n ast.Node) reflect.Value { return reflect.ValueOf(n) }

// Which selects the twin families to run.
type Which struct {
	Generated bool
	Bounds    bool
	ReuseAs   bool
	R3        bool
	Shadow    bool
	// Siblings lists directories whose Weighted/unweighted type pairs are compared
	Siblings []string
	// SiblingState: the same pairs, compared on their receiver-state updates only (TWIN.sibstate)
	SiblingState []string
	// only generated pairs whose destination lies under one of these prefixes
	Prefixes []string
	// only these bounds families ("mat-index", "fftpack-array"); empty = all
	BoundsFamilies []string
}

// Run runs the selected TWIN families.
func Run(w Which) *core.Result {
	res := core.NewResult("TWIN")
	res.Rules = append(res.Rules,
		"TWIN.generated: every generated file is, declaration for declaration and node for node, the image of its tested source under the generator's renaming (comments and formatting ignored)")
	res.Configs = append(res.Configs, "syntax (configuration independent)")
	res.Rules = append(res.Rules,
		"TWIN.bounds: the bounds/!bounds twin files ('must be kept in sync') have identical bodies once guard statements are set aside, and the guards on each access path (exported wrapper + unexported accessor) agree",
		"TWIN.sync: reuseAsNonZeroed and reuseAsZeroed differ only by use/useZeroed and the zeroing statements (and a bare return in terminal position)",
		"TWIN.sibling: in graph/iterator every type and its Weighted sibling have methods that are images of each other under the Weighted renaming",
		"TWIN.sibguard: each iterator method and the corresponding method of its Weighted sibling leave (return/continue/break/panic) under the same single-statement guards up to the Weighted renaming",
		"TWIN.sibstate: in graph/iterator every method and the corresponding method of the Weighted sibling type make the same assignments to the receiver's fields (cursor, length, current element) up to the Weighted renaming",
		"TWIN.shadow: mat.checkOverlapComplex is the image of mat.checkOverlap under blas64->cblas128, offset->offsetComplex",
		"TWIN.r3: the safe and unsafe 3x3 builders store the same expression to each element")
	if w.Generated {
		runGenerated(res, w.Prefixes)
	}
	if w.Bounds {
		runBounds(res, w.BoundsFamilies)
	}
	if w.ReuseAs {
		runReuseAs(res)
	}
	if w.R3 {
		runR3(res)
	}
	if w.Shadow {
		runShadow(res)
	}
	for _, d := range w.Siblings {
		runWeightedSiblings(res, d, false)
	}
	for _, d := range w.SiblingState {
		runWeightedSiblings(res, d, true)
	}
	return res
}
