package twin

import (
	"fmt"
	"go/ast"
	"go/types"
	"os"
	"path/filepath"
	"regexp"
	"sort"
	"strings"

	"gverif/core"
)

// weightedImage reports whether dst is src with one "Weighted" inserted.
func weightedImage(src, dst string) bool {
	if src == dst {
		return true
	}
	if len(src) > 0 && dst == "weighted"+strings.ToUpper(src[:1])+src[1:] {
		return true // unexported: line -> weightedLine
	}
	for i := 0; i+len("Weighted") <= len(dst); i++ {
		if dst[i:i+len("Weighted")] == "Weighted" && dst[:i]+dst[i+len("Weighted"):] == src {
			return true
		}
	}
	return false
}

// runWeightedSiblings compares, in every non-test file of dir, each type T
// with its sibling type obtained by inserting "Weighted" into the name
// (Lines/WeightedLines, OrderedEdges/OrderedWeightedEdges, ...): all their
// methods and constructors must be images of each other under that
// renaming. The pairs are mechanical copies; a one-sided edit of Next, Len
// or Reset is exactly the kind of slip the (default-build) tests miss in
// the tag-selected files.
func runWeightedSiblings(res *core.Result, dir string, stateOnly bool) {
	ents, err := os.ReadDir(filepath.Join(core.RepoDir, dir))
	if err != nil {
		res.Brokenf("TWIN.sibling: %v", err)
		return
	}
	pairs := 0
	for _, e := range ents {
		n := e.Name()
		if !strings.HasSuffix(n, ".go") || strings.HasSuffix(n, "_test.go") {
			continue
		}
		f, err := parseFile(filepath.Join(dir, n))
		if err != nil {
			res.Brokenf("TWIN.sibling: %v", err)
			continue
		}
		// group declarations by owning type
		typeDecl := map[string]ast.Decl{}
		members := map[string]map[string]*ast.FuncDecl{}
		for _, d := range f.Decls {
			switch x := d.(type) {
			case *ast.GenDecl:
				for _, s := range x.Specs {
					if ts, ok := s.(*ast.TypeSpec); ok {
						typeDecl[ts.Name.Name] = &ast.GenDecl{Tok: x.Tok, Specs: []ast.Spec{ts}}
					}
				}
			case *ast.FuncDecl:
				owner := ""
				name := x.Name.Name
				if x.Recv != nil {
					owner = strings.SplitN(declName(x), ".", 2)[0]
				} else if strings.HasPrefix(name, "New") {
					owner = strings.TrimPrefix(name, "New")
					name = "New"
				} else {
					continue
				}
				if members[owner] == nil {
					members[owner] = map[string]*ast.FuncDecl{}
				}
				members[owner][name] = x
			}
		}
		var names []string
		for t := range typeDecl {
			names = append(names, t)
		}
		sort.Strings(names)
		for _, t := range names {
			for _, w := range names {
				if t == w || !weightedImage(t, w) {
					continue
				}
				pairs++
				res.Count("weighted_sibling_type_pairs", 1)
				newU := func() *unifier {
					return &unifier{fset: core.Fset,
						rename: func(s string) []string {
							// any identifier may stay or gain one "Weighted"
							return []string{s, "\x00weighted"}
						},
						lit: func(s string) []string { return []string{s} }}
				}
				cmp := func(what string, a, b ast.Node) {
					res.Obligations++
					u := newU()
					// custom identifier relation
					u.rename = nil
					ok := unifyWeighted(u, a, b)
					if !ok {
						res.Add(core.Finding{
							Rule: "TWIN.sibling",
							Key:  fmt.Sprintf("TWIN.sibling|%s/%s|%s~%s|%s", dir, n, t, w, what),
							Pos:  core.Pos(u.posB), Func: w + "." + what,
							Msg: fmt.Sprintf("%s and its sibling %s in %s/%s differ at %s beyond the Weighted renaming: %s (other side at %s)",
								t, w, dir, n, what, u.msg, core.Pos(u.posA)),
						})
					} else {
						res.Count("weighted_sibling_members_unified", 1)
					}
				}
				if stateOnly {
					var ms []string
					for m := range members[t] {
						ms = append(ms, m)
					}
					sort.Strings(ms)
					for _, mname := range ms {
						a := members[t][mname]
						var b *ast.FuncDecl
						for cand, fd := range members[w] {
							if weightedImage(mname, cand) {
								b = fd
							}
						}
						if b == nil || a.Recv == nil || b.Recv == nil {
							continue
						}
						res.Obligations++
						res.Count("sibling_method_pairs", 1)
						ua, ub := stateUpdates(a), stateUpdates(b)
						res.Count("sibling_state_updates", len(ua))
						ga, gb := siblingGuards(a), siblingGuards(b)
						res.Count("sibling_exit_guards", len(ga))
						if strings.Join(ga, "\n") != strings.Join(gb, "\n") {
							res.Add(core.Finding{
								Rule: "TWIN.sibguard",
								Key:  fmt.Sprintf("TWIN.sibguard|%s/%s|%s~%s|%s", dir, n, t, w, mname),
								Pos:  core.Pos(b.Pos()), Func: w + "." + mname,
								Msg: fmt.Sprintf("%s.%s and its sibling %s.%s in %s/%s leave under different conditions: {%s} vs {%s} (an exhausted or empty iterator must behave the same in both)",
									t, mname, w, b.Name.Name, dir, n, strings.Join(ga, "; "), strings.Join(gb, "; ")),
							})
						}
						if strings.Join(ua, "\n") != strings.Join(ub, "\n") {
							res.Add(core.Finding{
								Rule: "TWIN.sibstate",
								Key:  fmt.Sprintf("TWIN.sibstate|%s/%s|%s~%s|%s", dir, n, t, w, mname),
								Pos:  core.Pos(b.Pos()), Func: w + "." + mname,
								Msg: fmt.Sprintf("%s.%s and its sibling %s.%s in %s/%s update the receiver's state differently: {%s} vs {%s}",
									t, mname, w, b.Name.Name, dir, n, strings.Join(ua, "; "), strings.Join(ub, "; ")),
							})
						}
					}
					continue
				}
				cmp("type", typeDecl[t], typeDecl[w])
				var ms []string
				for m := range members[t] {
					ms = append(ms, m)
				}
				sort.Strings(ms)
				for _, mname := range ms {
					a := members[t][mname]
					var b *ast.FuncDecl
					for cand, fd := range members[w] {
						if weightedImage(mname, cand) {
							b = fd
						}
					}
					if b == nil {
						res.Obligations++
						res.Add(core.Finding{
							Rule: "TWIN.sibling",
							Key:  fmt.Sprintf("TWIN.sibling|%s/%s|%s~%s|%s", dir, n, t, w, mname),
							Pos:  core.Pos(a.Pos()), Func: w + "." + mname,
							Msg: fmt.Sprintf("%s has method %s but its sibling %s has no counterpart", t, mname, w),
						})
						continue
					}
					cmp(mname, a, b)
				}
				res.Sample(map[string]any{"rule": "TWIN.sibling", "file": dir + "/" + n, "types": []string{t, w}, "members": len(ms)})
			}
		}
	}
	if pairs < 6 {
		res.Brokenf("TWIN.sibling: only %d Weighted sibling pairs found in %s (expected at least 6)", pairs, dir)
	}
}

// unifyWeighted runs the unifier with the "may gain one Weighted" relation.
func unifyWeighted(u *unifier, a, b ast.Node) bool {
	u.rename = func(s string) []string { return []string{s} }
	u.lit = func(s string) []string { return []string{s} }
	u.special = func(u *unifier, x, y ast.Node) (bool, bool) {
		xi, ok1 := x.(*ast.Ident)
		yi, ok2 := y.(*ast.Ident)
		if ok1 && ok2 {
			if weightedImage(xi.Name, yi.Name) {
				return true, true
			}
			u.fail("identifier %q corresponds to %q", xi.Name, yi.Name)
			return true, false
		}
		return false, false
	}
	return u.Nodes(a, b)
}

var weightedRe = regexp.MustCompile(`weighted([A-Z])`)

// stateUpdates returns the sorted, Weighted-normalised texts of the
// statements of a method that assign to (or increment) the receiver's
// fields.
func stateUpdates(fd *ast.FuncDecl) []string {
	if fd.Recv == nil || len(fd.Recv.List) == 0 || len(fd.Recv.List[0].Names) == 0 {
		return nil
	}
	recv := fd.Recv.List[0].Names[0].Name
	rooted := func(e ast.Expr) bool {
		for {
			switch x := e.(type) {
			case *ast.SelectorExpr:
				e = x.X
				continue
			case *ast.IndexExpr:
				e = x.X
				continue
			case *ast.ParenExpr:
				e = x.X
				continue
			case *ast.StarExpr:
				e = x.X
				continue
			}
			break
		}
		id, ok := e.(*ast.Ident)
		return ok && id.Name == recv
	}
	norm := func(s string) string {
		s = weightedRe.ReplaceAllStringFunc(s, func(m string) string { return strings.ToLower(m[len(m)-1:]) })
		return strings.ReplaceAll(s, "Weighted", "")
	}
	var out []string
	ast.Inspect(fd.Body, func(n ast.Node) bool {
		switch x := n.(type) {
		case *ast.AssignStmt:
			for i, l := range x.Lhs {
				if _, isID := l.(*ast.Ident); isID || !rooted(l) {
					continue
				}
				rhs := ""
				if len(x.Rhs) == len(x.Lhs) {
					rhs = types.ExprString(x.Rhs[i])
				} else if len(x.Rhs) == 1 {
					rhs = types.ExprString(x.Rhs[0])
				}
				out = append(out, norm(types.ExprString(l)+" "+x.Tok.String()+" "+rhs))
			}
		case *ast.IncDecStmt:
			if rooted(x.X) {
				out = append(out, norm(types.ExprString(x.X)+x.Tok.String()))
			}
		}
		return true
	})
	sort.Strings(out)
	return out
}

// siblingGuards returns the sorted, Weighted-normalised single-statement exit
// guards of a method: `if cond { return … }`, `{ continue }`, `{ break }`,
// `{ panic(…) }`.
func siblingGuards(fd *ast.FuncDecl) []string {
	norm := func(s string) string {
		s = weightedRe.ReplaceAllStringFunc(s, func(m string) string { return strings.ToLower(m[len(m)-1:]) })
		return strings.ReplaceAll(s, "Weighted", "")
	}
	var out []string
	ast.Inspect(fd.Body, func(n ast.Node) bool {
		is, ok := n.(*ast.IfStmt)
		if !ok || is.Init != nil || len(is.Body.List) != 1 {
			return true
		}
		exit := ""
		switch x := is.Body.List[0].(type) {
		case *ast.ReturnStmt:
			var rs []string
			for _, r := range x.Results {
				rs = append(rs, types.ExprString(r))
			}
			exit = "return " + strings.Join(rs, ", ")
		case *ast.BranchStmt:
			exit = x.Tok.String()
		case *ast.ExprStmt:
			if c, ok := x.X.(*ast.CallExpr); ok {
				if id, ok := c.Fun.(*ast.Ident); ok && id.Name == "panic" {
					exit = "panic"
				}
			}
		}
		if exit != "" {
			out = append(out, norm(types.ExprString(is.Cond)+" -> "+exit))
		}
		return true
	})
	sort.Strings(out)
	return out
}
