package twin

import (
	"fmt"
	"go/ast"
	"go/parser"
	"go/token"
	"path/filepath"
	"strconv"
	"strings"

	"gverif/core"
)

// family describes one generator relation: dst is the image of src.
type family struct {
	name string
	// pairs: src, dst (repo relative)
	pairs [][2]string
	// idents: total renames of identifiers (source name -> generated name)
	idents map[string]string
	// declRename renames the functions/methods declared in the source file.
	declRename func(name string) string
	// identFn, if set, transforms every identifier (sed-style text rules).
	identFn func(name string) string
	lits    map[string]string
	litFn   func(v string) string
	imports map[string]string // import path -> import path
	special func(u *unifier, a, b ast.Node) (handled, ok bool)
	// also admits the identity for these identifiers (partial rewrite rules)
	optional map[string]bool
}

func prefixRename(rules ...[2]string) func(string) string {
	return func(n string) string {
		for _, r := range rules {
			if strings.HasPrefix(n, r[0]) {
				return r[1] + n[len(r[0]):]
			}
		}
		return n
	}
}

const asmPath = "gonum.org/v1/gonum/internal/asm/"

var f32Idents = map[string]string{
	"float64": "float32", "f64": "f32",
	"Float64Level1": "Float32Level1", "Float64Level2": "Float32Level2", "Float64Level3": "Float32Level3",
	"DrotmParams": "SrotmParams",
	"sliceView64": "sliceView32", "computeNumBlocks64": "computeNumBlocks32",
	"dgemmParallel": "sgemmParallel", "dgemmSerial": "sgemmSerial",
	"dgemmSerialNotNot": "sgemmSerialNotNot", "dgemmSerialTransNot": "sgemmSerialTransNot",
	"dgemmSerialNotTrans": "sgemmSerialNotTrans", "dgemmSerialTransTrans": "sgemmSerialTransTrans",
	"Dscal": "Sscal",
}

var f32Imports = map[string]string{
	asmPath + "f64": asmPath + "f32",
	"math":          "gonum.org/v1/gonum/internal/math32",
}

var c64Idents = map[string]string{
	"complex128": "complex64", "float64": "float32", "c128": "c64",
	"Complex128Level1": "Complex64Level1", "Complex128Level2": "Complex64Level2", "Complex128Level3": "Complex64Level3",
	"dcabs1": "scabs1", "DscalUnitary": "SscalUnitary",
}

var c64Imports = map[string]string{
	asmPath + "c128": asmPath + "c64",
	"math":           "gonum.org/v1/gonum/internal/math32",
	"math/cmplx":     "gonum.org/v1/gonum/internal/cmplx64",
}

func sedIdent(rules ...[2]string) func(string) string {
	return func(n string) string {
		for _, r := range rules {
			n = strings.ReplaceAll(n, r[0], r[1])
		}
		return n
	}
}

var hermRules = [][2]string{{"Symmetric", "Hermitian"}, {"a symmetric", "an Hermitian"}, {"symmetric", "hermitian"}, {"Sym", "Herm"}}

func convFamily(pkg, elem string, herm bool) family {
	src := "blas/blas64/conv.go"
	dst := "blas/" + pkg + "/conv.go"
	rules := [][2]string{{"blas64", pkg}}
	if herm {
		src = "blas/blas64/conv_symmetric.go"
		dst = "blas/" + pkg + "/conv_hermitian.go"
		rules = append(rules, hermRules...)
	}
	fn := sedIdent(rules...)
	return family{
		name:    "conv-" + pkg + map[bool]string{true: "-hermitian", false: ""}[herm],
		pairs:   [][2]string{{src, dst}},
		idents:  map[string]string{"float64": elem},
		identFn: fn,
		litFn:   fn,
	}
}

func generatedFamilies() []family {
	fams := []family{
		{
			name: "blas-float32",
			pairs: [][2]string{
				{"blas/gonum/level1float64.go", "blas/gonum/level1float32.go"},
				{"blas/gonum/level2float64.go", "blas/gonum/level2float32.go"},
				{"blas/gonum/level3float64.go", "blas/gonum/level3float32.go"},
				{"blas/gonum/dgemm.go", "blas/gonum/sgemm.go"},
				{"blas/gonum/level1float64_ddot.go", "blas/gonum/level1float32_sdot.go"},
			},
			idents:     f32Idents,
			declRename: prefixRename([2]string{"Id", "Is"}, [2]string{"D", "S"}),
			lits:       map[string]string{"0x1p-1022": "0x1p-126"},
			imports:    f32Imports,
		},
		{
			name:  "blas-dsdot",
			pairs: [][2]string{{"blas/gonum/level1float64_ddot.go", "blas/gonum/level1float32_dsdot.go"}},
			// gofmt -r '[]float64 -> []float32': only slice element types
			idents:     map[string]string{"f64": "f32", "DotInc": "DdotInc", "DotUnitary": "DdotUnitary"},
			declRename: prefixRename([2]string{"D", "Ds"}),
			imports:    f32Imports,
			special: func(u *unifier, a, b ast.Node) (bool, bool) {
				x, ok1 := a.(*ast.ArrayType)
				y, ok2 := b.(*ast.ArrayType)
				if !ok1 || !ok2 || x.Len != nil || y.Len != nil {
					return false, false
				}
				xi, ok1 := x.Elt.(*ast.Ident)
				yi, ok2 := y.Elt.(*ast.Ident)
				if ok1 && ok2 && xi.Name == "float64" {
					return true, yi.Name == "float32"
				}
				return false, false
			},
		},
		{
			name:       "blas-sdsdot",
			pairs:      [][2]string{{"blas/gonum/level1float64_ddot.go", "blas/gonum/level1float32_sdsdot.go"}},
			idents:     map[string]string{"float64": "float32", "f64": "f32", "DotInc": "DdotInc", "DotUnitary": "DdotUnitary"},
			declRename: prefixRename([2]string{"D", "Sds"}),
			imports:    f32Imports,
			special:    sdsdotSpecial,
		},
		{
			name: "blas-complex64",
			pairs: [][2]string{
				{"blas/gonum/level1cmplx128.go", "blas/gonum/level1cmplx64.go"},
				{"blas/gonum/level2cmplx128.go", "blas/gonum/level2cmplx64.go"},
				{"blas/gonum/level3cmplx128.go", "blas/gonum/level3cmplx64.go"},
			},
			idents:     c64Idents,
			declRename: prefixRename([2]string{"Zdot", "Cdot"}, [2]string{"Zdscal", "Csscal"}, [2]string{"Z", "C"}, [2]string{"Iz", "Ic"}, [2]string{"Dz", "Sc"}),
			imports:    c64Imports,
		},
		convFamily("blas32", "float32", false),
		convFamily("cblas128", "complex128", false),
		convFamily("cblas64", "complex64", false),
		convFamily("cblas128", "complex128", true),
		convFamily("cblas64", "complex64", true),
		{
			name:    "conv-blas32-symmetric",
			pairs:   [][2]string{{"blas/blas64/conv_symmetric.go", "blas/blas32/conv_symmetric.go"}},
			idents:  map[string]string{"float64": "float32"},
			identFn: sedIdent([2]string{"blas64", "blas32"}), litFn: sedIdent([2]string{"blas64", "blas32"}),
		},
		{
			name:    "conv-cblas128-symmetric",
			pairs:   [][2]string{{"blas/blas64/conv_symmetric.go", "blas/cblas128/conv_symmetric.go"}},
			idents:  map[string]string{"float64": "complex128"},
			identFn: sedIdent([2]string{"blas64", "cblas128"}), litFn: sedIdent([2]string{"blas64", "cblas128"}),
		},
		{
			name:    "hll64",
			pairs:   [][2]string{{"stat/card/hll32.go", "stat/card/hll64.go"}},
			idents:  map[string]string{"uint32": "uint64", "LeadingZeros32": "LeadingZeros64", "Sum32": "Sum64"},
			identFn: sedIdent([2]string{"HyperLogLog32", "HyperLogLog64"}, [2]string{"Hash32", "Hash64"}, [2]string{"hash32", "hash64"}, [2]string{"rho32", "rho64"}, [2]string{"w32", "w64"}),
			litFn:   sedIdent([2]string{"HyperLogLog32", "HyperLogLog64"}, [2]string{"[4, 32]", "[4, 64]"}, [2]string{"Hash32", "Hash64"}, [2]string{"hash32", "hash64"}, [2]string{"w32", "w64"}),
		},
	}
	return fams
}

// sdsdotSpecial: the generated Sdsdot has an extra "alpha float32"
// parameter and wraps the kernel call as alpha + float32(call).
func sdsdotSpecial(u *unifier, a, b ast.Node) (bool, bool) {
	switch x := a.(type) {
	case *ast.FieldList:
		y, ok := b.(*ast.FieldList)
		if !ok || x == nil || y == nil {
			return false, false
		}
		if len(y.List) == len(x.List)+1 && len(x.List) > 0 {
			// expect y.List[0] == "n int, alpha float32" split as two fields or one
			var rest []*ast.Field
			found := false
			for _, f := range y.List {
				if !found && len(f.Names) == 1 && f.Names[0].Name == "alpha" {
					if id, ok := f.Type.(*ast.Ident); ok && id.Name == "float32" {
						found = true
						continue
					}
				}
				rest = append(rest, f)
			}
			if !found {
				return true, false
			}
			return true, u.Nodes(&ast.FieldList{List: x.List}, &ast.FieldList{List: rest}) || func() bool {
				// avoid infinite recursion: the reduced lists have equal length
				return false
			}()
		}
	case *ast.ReturnStmt:
		// the generator rewrites the empty sum `return 0` into `return alpha`
		y, ok := b.(*ast.ReturnStmt)
		if !ok || len(x.Results) != 1 || len(y.Results) != 1 {
			return false, false
		}
		if lit, ok := x.Results[0].(*ast.BasicLit); ok && lit.Value == "0" {
			if id, ok := y.Results[0].(*ast.Ident); ok {
				return true, id.Name == "alpha"
			}
		}
		return false, false
	case *ast.CallExpr:
		y, ok := b.(*ast.BinaryExpr)
		if !ok || y.Op != token.ADD {
			return false, false
		}
		al, ok := y.X.(*ast.Ident)
		if !ok || al.Name != "alpha" {
			return true, false
		}
		conv, ok := y.Y.(*ast.CallExpr)
		if !ok || len(conv.Args) != 1 {
			return true, false
		}
		if id, ok := conv.Fun.(*ast.Ident); !ok || id.Name != "float32" {
			return true, false
		}
		inner, ok := conv.Args[0].(*ast.CallExpr)
		if !ok {
			return true, false
		}
		return true, u.value(reflectPtr(x), reflectPtr(inner))
	}
	return false, false
}

func parseFile(rel string) (*ast.File, error) {
	path := filepath.Join(core.RepoDir, rel)
	src, err := core.ReadFile(path)
	if err != nil {
		return nil, err
	}
	return parser.ParseFile(core.Fset, path, src, parser.SkipObjectResolution|parser.ParseComments)
}

func declName(d ast.Decl) string {
	switch x := d.(type) {
	case *ast.FuncDecl:
		if x.Recv != nil && len(x.Recv.List) > 0 {
			t := x.Recv.List[0].Type
			if s, ok := t.(*ast.StarExpr); ok {
				t = s.X
			}
			if id, ok := t.(*ast.Ident); ok {
				return id.Name + "." + x.Name.Name
			}
		}
		return x.Name.Name
	case *ast.GenDecl:
		var names []string
		for _, s := range x.Specs {
			switch s := s.(type) {
			case *ast.TypeSpec:
				names = append(names, s.Name.Name)
			case *ast.ValueSpec:
				for _, n := range s.Names {
					names = append(names, n.Name)
				}
			case *ast.ImportSpec:
				return "import"
			}
		}
		return x.Tok.String() + " " + strings.Join(names, ",")
	}
	return "?"
}

func runGenerated(res *core.Result, prefixes []string) {
	for _, fam := range generatedFamilies() {
		fam := fam
		for _, pr := range fam.pairs {
			if len(prefixes) > 0 {
				ok := false
				for _, p := range prefixes {
					if strings.HasPrefix(pr[1], p) {
						ok = true
					}
				}
				if !ok {
					continue
				}
			}
			src, err1 := parseFile(pr[0])
			dst, err2 := parseFile(pr[1])
			if err1 != nil || err2 != nil {
				res.Brokenf("TWIN %s: cannot parse %s / %s: %v %v", fam.name, pr[0], pr[1], err1, err2)
				continue
			}
			if !core.IsGenerated(dst) {
				res.Brokenf("TWIN %s: %s has no 'Code generated' header; the generator relation is not the project's invariant any more", fam.name, pr[1])
				continue
			}
			res.Count("generated_file_pairs", 1)
			compareFiles(res, &fam, pr[0], pr[1], src, dst)
		}
	}
}

func compareFiles(res *core.Result, fam *family, srcRel, dstRel string, src, dst *ast.File) {
	declared := map[string]bool{}
	for _, d := range src.Decls {
		if fd, ok := d.(*ast.FuncDecl); ok {
			declared[fd.Name.Name] = true
		}
	}
	// Unexported functions declared at the same position of both files may
	// carry a precision prefix the family table does not list yet
	// (dgemmBlock / sgemmBlock after a helper was extracted and the generator
	// script given a matching rule): the positional pairing itself defines
	// the renaming, and the bodies still have to unify.
	pairRename := map[string]string{}
	{
		var sf, df []*ast.FuncDecl
		for _, d := range src.Decls {
			if fd, ok := d.(*ast.FuncDecl); ok {
				sf = append(sf, fd)
			}
		}
		for _, d := range dst.Decls {
			if fd, ok := d.(*ast.FuncDecl); ok {
				df = append(df, fd)
			}
		}
		if len(sf) == len(df) {
			for i := range sf {
				a, b := sf[i].Name.Name, df[i].Name.Name
				if a != b && !sf[i].Name.IsExported() && !df[i].Name.IsExported() {
					pairRename[a] = b
				}
			}
		}
	}
	rename := func(n string) []string {
		var out []string
		if v, ok := pairRename[n]; ok {
			out = append(out, v)
		}
		if v, ok := fam.idents[n]; ok {
			out = append(out, v)
			if fam.optional[n] {
				out = append(out, n)
			}
			return out
		}
		m := n
		if declared[n] && fam.declRename != nil {
			m = fam.declRename(n)
		}
		if fam.identFn != nil {
			m = fam.identFn(m)
		}
		return append(out, m)
	}
	lit := func(v string) []string {
		if w, ok := fam.lits[v]; ok {
			return []string{w}
		}
		if fam.litFn != nil && strings.HasPrefix(v, "\"") {
			if s, err := strconv.Unquote(v); err == nil {
				return []string{strconv.Quote(fam.litFn(s)), v}
			}
		}
		return []string{v}
	}
	newU := func() *unifier {
		return &unifier{fset: core.Fset, rename: rename, lit: lit, special: fam.special, renamed: map[string]string{}}
	}
	report := func(what string, u *unifier) {
		res.Add(core.Finding{
			Rule: "TWIN.generated",
			Key:  fmt.Sprintf("TWIN.generated|%s|%s", dstRel, what),
			Pos:  core.Pos(u.posB),
			Func: what,
			Msg: fmt.Sprintf("generated file %s is not the image of %s under the %s generator relation at %s: %s (source at %s)",
				dstRel, srcRel, fam.name, what, u.msg, core.Pos(u.posA)),
		})
	}
	// package clause
	res.Obligations++
	if u := newU(); !u.Nodes(src.Name, dst.Name) {
		report("package clause", u)
	}
	// imports: compare as path sets under the family's import map
	res.Obligations++
	{
		want := map[string]bool{}
		for _, im := range src.Imports {
			p, _ := strconv.Unquote(im.Path.Value)
			if q, ok := fam.imports[p]; ok {
				p = q
			}
			if fam.identFn != nil {
				p = fam.identFn(p)
			}
			want[p] = true
		}
		got := map[string]bool{}
		for _, im := range dst.Imports {
			p, _ := strconv.Unquote(im.Path.Value)
			got[p] = true
		}
		for p := range want {
			if !got[p] {
				u := newU()
				u.msg = "import " + p + " missing"
				u.posA, u.posB = src.Pos(), dst.Pos()
				report("imports", u)
			}
		}
		for p := range got {
			if !want[p] {
				u := newU()
				u.msg = "unexpected import " + p
				u.posA, u.posB = src.Pos(), dst.Pos()
				report("imports", u)
			}
		}
	}
	var sd, dd []ast.Decl
	for _, d := range src.Decls {
		if g, ok := d.(*ast.GenDecl); ok && g.Tok == token.IMPORT {
			continue
		}
		sd = append(sd, d)
	}
	for _, d := range dst.Decls {
		if g, ok := d.(*ast.GenDecl); ok && g.Tok == token.IMPORT {
			continue
		}
		dd = append(dd, d)
	}
	if len(sd) != len(dd) {
		u := newU()
		u.msg = fmt.Sprintf("%d declarations in source, %d in generated file", len(sd), len(dd))
		u.posA, u.posB = src.Pos(), dst.Pos()
		report("declaration list", u)
		// still compare the common prefix by name below
	}
	n := len(sd)
	if len(dd) < n {
		n = len(dd)
	}
	for i := 0; i < n; i++ {
		res.Obligations++
		res.Count("twin_declaration_pairs", 1)
		u := newU()
		if !u.Nodes(sd[i], dd[i]) {
			report(declName(dd[i]), u)
		} else if _, isFn := sd[i].(*ast.FuncDecl); isFn {
			res.Count("twin_nodes_unified", u.nodes)
			if len(res.Samples) < 4 {
				res.Sample(map[string]any{"rule": "TWIN.generated", "family": fam.name, "source": declName(sd[i]), "generated": declName(dd[i]), "nodes": u.nodes, "renames": u.renamed})
			}
		}
	}
}

func parserParse(name string, b []byte) (*ast.File, error) {
	return parser.ParseFile(core.Fset, name, b, parser.SkipObjectResolution)
}
