// Package twin implements the TWIN engine: agreement of generated and
// tag-selected twin files. See DESIGN.md §3.1.
package twin

import (
	"fmt"
	"go/ast"
	"go/token"
	"reflect"
	"strings"
)

// unifier compares two syntax trees node by node. The destination must be
// the image of the source under rename (identifiers), lit (basic literals)
// and the special hooks; comments, positions and formatting are ignored.
type unifier struct {
	fset    *token.FileSet
	rename  func(src string) []string // admissible images of an identifier
	lit     func(src string) []string // admissible images of a literal
	special func(u *unifier, a, b ast.Node) (handled, ok bool)
	// first mismatch
	msg        string
	posA, posB token.Pos
	lastA      token.Pos
	lastB      token.Pos
	nodes      int
	renamed    map[string]string // observed non-identity renames (evidence)
}

var (
	posType   = reflect.TypeOf(token.NoPos)
	cgType    = reflect.TypeOf((*ast.CommentGroup)(nil))
	objType   = reflect.TypeOf((*ast.Object)(nil))
	scopeType = reflect.TypeOf((*ast.Scope)(nil))
	identType = reflect.TypeOf((*ast.Ident)(nil))
	litType   = reflect.TypeOf((*ast.BasicLit)(nil))
	nodeIface = reflect.TypeOf((*ast.Node)(nil)).Elem()
)

func (u *unifier) fail(format string, a ...any) bool {
	if u.msg == "" {
		u.msg = fmt.Sprintf(format, a...)
		u.posA, u.posB = u.lastA, u.lastB
	}
	return false
}

func in(xs []string, x string) bool {
	for _, y := range xs {
		if x == y {
			return true
		}
	}
	return false
}

// Nodes unifies two AST nodes.
func (u *unifier) Nodes(a, b ast.Node) bool {
	return u.value(reflect.ValueOf(a), reflect.ValueOf(b))
}

func isNilValue(v reflect.Value) bool {
	switch v.Kind() {
	case reflect.Interface, reflect.Ptr, reflect.Slice, reflect.Map:
		return v.IsNil()
	}
	return !v.IsValid()
}

func (u *unifier) value(a, b reflect.Value) bool {
	if !a.IsValid() || !b.IsValid() {
		if a.IsValid() != b.IsValid() {
			return u.fail("one side missing")
		}
		return true
	}
	switch a.Kind() {
	case reflect.Interface:
		if a.IsNil() || b.IsNil() {
			if a.IsNil() != b.IsNil() {
				return u.fail("node present on one side only (%s vs %s)", describe(a), describe(b))
			}
			return true
		}
		return u.value(a.Elem(), b.Elem())
	case reflect.Ptr:
		if a.IsNil() || b.IsNil() {
			if a.IsNil() != b.IsNil() {
				return u.fail("node present on one side only (%s vs %s)", describe(a), describe(b))
			}
			return true
		}
		if an, ok := a.Interface().(ast.Node); ok {
			bn, ok2 := b.Interface().(ast.Node)
			if ok2 {
				u.lastA, u.lastB = an.Pos(), bn.Pos()
				u.nodes++
				// unwrap parentheses symmetrically only
				if u.special != nil {
					if handled, ok := u.special(u, an, bn); handled {
						if !ok {
							return u.fail("special form mismatch at %T", an)
						}
						return true
					}
				}
			}
		}
		if a.Type() != b.Type() {
			return u.fail("different node kinds: %s vs %s", a.Type(), b.Type())
		}
		switch a.Type() {
		case identType:
			x, y := a.Interface().(*ast.Ident), b.Interface().(*ast.Ident)
			if !in(u.rename(x.Name), y.Name) {
				return u.fail("identifier %q corresponds to %q (expected %s)", x.Name, y.Name, strings.Join(u.rename(x.Name), " or "))
			}
			if x.Name != y.Name && u.renamed != nil {
				u.renamed[x.Name] = y.Name
			}
			return true
		case litType:
			x, y := a.Interface().(*ast.BasicLit), b.Interface().(*ast.BasicLit)
			if x.Kind != y.Kind {
				return u.fail("literal kinds differ: %s vs %s", x.Value, y.Value)
			}
			if x.Value != y.Value && !in(u.lit(x.Value), y.Value) {
				return u.fail("literal %s corresponds to %s", x.Value, y.Value)
			}
			return true
		case cgType, objType, scopeType:
			return true
		}
		return u.value(a.Elem(), b.Elem())
	case reflect.Struct:
		if a.Type() != b.Type() {
			return u.fail("different node kinds: %s vs %s", a.Type(), b.Type())
		}
		for i := 0; i < a.NumField(); i++ {
			ft := a.Type().Field(i)
			switch ft.Type {
			case posType, cgType, objType, scopeType:
				continue
			}
			if ft.Name == "Comments" || ft.Name == "Unresolved" || ft.Name == "Doc" || ft.Name == "Comment" ||
				ft.Name == "FileStart" || ft.Name == "FileEnd" || ft.Name == "GoVersion" || ft.Name == "Imports" {
				continue
			}
			if !u.value(a.Field(i), b.Field(i)) {
				return false
			}
		}
		return true
	case reflect.Slice:
		if a.Len() != b.Len() {
			return u.fail("%s lists have different lengths: %d vs %d", a.Type().Elem(), a.Len(), b.Len())
		}
		for i := 0; i < a.Len(); i++ {
			if !u.value(a.Index(i), b.Index(i)) {
				return false
			}
		}
		return true
	case reflect.String:
		if a.String() != b.String() {
			return u.fail("%q vs %q", a.String(), b.String())
		}
		return true
	case reflect.Int, reflect.Int64, reflect.Int32, reflect.Int8, reflect.Uint8:
		if a.Int() != b.Int() {
			if a.Type() == reflect.TypeOf(token.ADD) {
				return u.fail("operator %s vs %s", token.Token(a.Int()), token.Token(b.Int()))
			}
			return u.fail("%d vs %d", a.Int(), b.Int())
		}
		return true
	case reflect.Bool:
		if a.Bool() != b.Bool() {
			return u.fail("flag differs")
		}
		return true
	case reflect.Map:
		return true
	}
	return u.fail("unhandled kind %s", a.Kind())
}

func describe(v reflect.Value) string {
	if isNilValue(v) {
		return "absent"
	}
	return v.Elem().Type().String()
}
