package twin

import (
	"bytes"
	"fmt"
	"go/ast"
	"os"
	"os/exec"
	"path/filepath"
	"strings"

	"gverif/core"
)

// RunRegen (thorough tier) re-runs the project's own generator scripts on a
// scratch copy of the source directories (outside /repo and /verif, removed
// afterwards) and compares every regenerated file with the tree, AST for
// AST. It is the project's upstream CI rule (check-generate) evaluated
// offline; the scripts only rewrite Go source with gofmt -r and sed, no
// gonum code is executed.
func RunRegen() *core.Result {
	res := core.NewResult("TWIN.regen")
	res.Rules = append(res.Rules, "TWIN.regen: running the project's generator scripts on the current sources reproduces every generated file of the tree (AST equality)")
	res.Configs = append(res.Configs, "generator scripts (gofmt -r / sed), scratch copy")
	type job struct {
		dir    string // repo-relative directory copied (recursively)
		cwd    string // directory (relative to the copy root) the script runs in
		script string
	}
	jobs := []job{
		{dir: "blas", cwd: "blas/gonum", script: "single_precision.bash"},
		{dir: "blas", cwd: "blas", script: "conversions.bash"},
		{dir: "stat/card", cwd: "stat/card", script: "generate_64bit.sh"},
	}
	for _, j := range jobs {
		tmp, err := os.MkdirTemp("", "gverif-regen-")
		if err != nil {
			res.Brokenf("TWIN.regen: %v", err)
			return res
		}
		func() {
			defer os.RemoveAll(tmp)
			src := filepath.Join(core.RepoDir, j.dir)
			dst := filepath.Join(tmp, j.dir)
			if out, err := exec.Command("cp", "-r", src, mkParent(dst)).CombinedOutput(); err != nil {
				res.Brokenf("TWIN.regen: copy %s: %v %s", j.dir, err, out)
				return
			}
			before := snapshot(dst)
			cmd := exec.Command("bash", j.script)
			cmd.Dir = filepath.Join(tmp, j.cwd)
			cmd.Env = append(os.Environ(), "LC_ALL=C")
			if out, err := cmd.CombinedOutput(); err != nil {
				res.Brokenf("TWIN.regen: %s failed: %v\n%s", j.script, err, tail(string(out), 400))
				return
			}
			after := snapshot(dst)
			res.Count("generator_scripts_run", 1)
			for rel, b := range after {
				if !strings.HasSuffix(rel, ".go") {
					continue
				}
				if !bytes.Contains(b[:min(len(b), 300)], []byte("Code generated")) {
					continue
				}
				if strings.HasSuffix(rel, "_test.go") {
					continue
				}
				res.Obligations++
				res.Count("regenerated_files_compared", 1)
				orig := before[rel]
				if bytes.Equal(orig, b) {
					continue
				}
				// compare ASTs so that formatting-only differences do not count
				fa, err1 := parseBytes(rel, orig)
				fb, err2 := parseBytes(rel, b)
				same := false
				if err1 == nil && err2 == nil {
					u := &unifier{fset: core.Fset, rename: func(s string) []string { return []string{s} }, lit: func(s string) []string { return []string{s} }}
					same = u.Nodes(fa, fb)
					if !same {
						res.Add(core.Finding{Rule: "TWIN.regen", Key: "TWIN.regen|" + filepath.Join(j.dir, rel), Pos: filepath.Join(j.dir, rel), Func: rel,
							Msg: fmt.Sprintf("%s is not what %s generates from the current sources: %s", filepath.Join(j.dir, rel), j.script, u.msg)})
					}
				} else {
					res.Add(core.Finding{Rule: "TWIN.regen", Key: "TWIN.regen|" + filepath.Join(j.dir, rel), Pos: filepath.Join(j.dir, rel), Func: rel,
						Msg: fmt.Sprintf("%s differs from the generator output and cannot be parsed: %v %v", rel, err1, err2)})
				}
			}
		}()
	}
	return res
}

func mkParent(p string) string {
	os.MkdirAll(filepath.Dir(p), 0o755)
	return filepath.Dir(p) + "/"
}

func snapshot(root string) map[string][]byte {
	out := map[string][]byte{}
	filepath.Walk(root, func(p string, info os.FileInfo, err error) error {
		if err != nil || info.IsDir() {
			return nil
		}
		b, err := os.ReadFile(p)
		if err == nil {
			rel, _ := filepath.Rel(root, p)
			out[rel] = b
		}
		return nil
	})
	return out
}

func tail(s string, n int) string {
	if len(s) > n {
		return s[len(s)-n:]
	}
	return s
}

func parseBytes(name string, b []byte) (*ast.File, error) {
	return parserParse(name, b)
}
