package twin

import (
	"fmt"
	"go/ast"
	"go/parser"
	"go/token"
	"os"
	"path/filepath"
	"strconv"
	"strings"

	"gverif/core"
)

// ---------------------------------------------------------------------
// bounds twins: "This file must be kept in sync with ..."

// isGuard reports whether s is `if cond { panic(...) }` with no else/init.
func isGuard(s ast.Stmt) (*ast.IfStmt, bool) {
	is, ok := s.(*ast.IfStmt)
	if !ok || is.Else != nil || is.Init != nil || len(is.Body.List) != 1 {
		return nil, false
	}
	es, ok := is.Body.List[0].(*ast.ExprStmt)
	if !ok {
		return nil, false
	}
	c, ok := es.X.(*ast.CallExpr)
	if !ok {
		return nil, false
	}
	id, ok := c.Fun.(*ast.Ident)
	return is, ok && id.Name == "panic"
}

type fnInfo struct {
	decl     *ast.FuncDecl
	recv     string // receiver variable name
	guards   []*ast.IfStmt
	residual []ast.Stmt
}

func splitGuards(fd *ast.FuncDecl) *fnInfo {
	fi := &fnInfo{decl: fd}
	if fd.Recv != nil && len(fd.Recv.List) == 1 && len(fd.Recv.List[0].Names) == 1 {
		fi.recv = fd.Recv.List[0].Names[0].Name
	}
	if fd.Body == nil {
		return fi
	}
	for _, s := range fd.Body.List {
		if g, ok := isGuard(s); ok {
			fi.guards = append(fi.guards, g)
		} else {
			fi.residual = append(fi.residual, s)
		}
	}
	return fi
}

// delegate returns the name of the unexported receiver method an exported
// wrapper forwards to (`return m.at(i, j)` / `m.set(i, j, v)`).
func (fi *fnInfo) delegate() string {
	if len(fi.residual) == 0 || fi.recv == "" {
		return ""
	}
	var e ast.Expr
	switch s := fi.residual[len(fi.residual)-1].(type) {
	case *ast.ReturnStmt:
		if len(s.Results) == 1 {
			e = s.Results[0]
		}
	case *ast.ExprStmt:
		e = s.X
	}
	c, ok := e.(*ast.CallExpr)
	if !ok {
		return ""
	}
	sel, ok := c.Fun.(*ast.SelectorExpr)
	if !ok {
		return ""
	}
	if id, ok := sel.X.(*ast.Ident); !ok || id.Name != fi.recv {
		return ""
	}
	return sel.Sel.Name
}

type boundsFamily struct {
	name     string
	bounds   string // file built with the bounds tag
	nobounds string
	exact    bool // guard sequences must be equal (mat); otherwise bounds may have extra guards
	pkgDir   string
}

func parseDirFuncs(dir string) map[string][]*ast.FuncDecl {
	out := map[string][]*ast.FuncDecl{}
	ents, err := os.ReadDir(filepath.Join(core.RepoDir, dir))
	if err != nil {
		return out
	}
	for _, e := range ents {
		n := e.Name()
		if !strings.HasSuffix(n, ".go") || strings.HasSuffix(n, "_test.go") {
			continue
		}
		src, rerr := core.ReadFile(filepath.Join(core.RepoDir, dir, n))
		if rerr != nil {
			continue
		}
		f, err := parser.ParseFile(core.Fset, filepath.Join(core.RepoDir, dir, n), src, parser.SkipObjectResolution)
		if err != nil {
			continue
		}
		for _, d := range f.Decls {
			if fd, ok := d.(*ast.FuncDecl); ok {
				out[declName(fd)] = append(out[declName(fd)], fd)
			}
		}
	}
	return out
}

func runBounds(res *core.Result, only []string) {
	fams := []boundsFamily{
		{name: "mat-index", bounds: "mat/index_bound_checks.go", nobounds: "mat/index_no_bound_checks.go", exact: true, pkgDir: "mat"},
		{name: "fftpack-array", bounds: "dsp/fourier/internal/fftpack/array_bounds_checks.go", nobounds: "dsp/fourier/internal/fftpack/array_no_bounds_checks.go", pkgDir: "dsp/fourier/internal/fftpack"},
	}
	for _, fam := range fams {
		if len(only) > 0 && !in(only, fam.name) {
			continue
		}
		b, err1 := parseFile(fam.bounds)
		n, err2 := parseFile(fam.nobounds)
		if err1 != nil || err2 != nil {
			res.Brokenf("TWIN %s: %v %v", fam.name, err1, err2)
			continue
		}
		sync := false
		for _, f := range []*ast.File{b, n} {
			for _, cg := range f.Comments {
				if strings.Contains(cg.Text(), "must be kept in sync") {
					sync = true
				}
			}
		}
		if !sync {
			res.Brokenf("TWIN %s: the 'must be kept in sync' contract comment is gone; twin equality is no longer the project's stated invariant", fam.name)
			continue
		}
		res.Count("bounds_twin_files", 1)
		compareBounds(res, &fam, b, n)
	}
}

func compareBounds(res *core.Result, fam *boundsFamily, b, n *ast.File) {
	pkgFuncs := parseDirFuncs(fam.pkgDir)
	bf, nf := map[string]*fnInfo{}, map[string]*fnInfo{}
	var order []string
	for _, d := range b.Decls {
		if fd, ok := d.(*ast.FuncDecl); ok {
			bf[declName(fd)] = splitGuards(fd)
			order = append(order, declName(fd))
		}
	}
	for _, d := range n.Decls {
		if fd, ok := d.(*ast.FuncDecl); ok {
			nf[declName(fd)] = splitGuards(fd)
			if _, ok := bf[declName(fd)]; !ok {
				order = append(order, declName(fd))
			}
		}
	}
	report := func(what, msg string, pos token.Pos) {
		res.Add(core.Finding{
			Rule: "TWIN.bounds",
			Key:  fmt.Sprintf("TWIN.bounds|%s|%s", fam.name, what),
			Pos:  core.Pos(pos), Func: what,
			Msg: fmt.Sprintf("%s and %s disagree at %s: %s", fam.bounds, fam.nobounds, what, msg),
		})
	}
	// guard-only struct fields: present in the bounds struct, absent in the other
	guardOnly := map[string]bool{}
	btypes, ntypes := structTypes(b), structTypes(n)
	for tn, bs := range btypes {
		ns, ok := ntypes[tn]
		if !ok {
			report("type "+tn, "type declared in one twin only", bs.Pos())
			continue
		}
		nfields := map[string]bool{}
		for _, f := range ns.Fields.List {
			for _, nm := range f.Names {
				nfields[nm.Name] = true
			}
		}
		for _, f := range bs.Fields.List {
			for _, nm := range f.Names {
				if !nfields[nm.Name] {
					if fam.exact {
						report("type "+tn, "field "+nm.Name+" exists in the bounds build only", nm.Pos())
					}
					guardOnly[nm.Name] = true
				}
			}
		}
	}
	mkUnifier := func(x, y *fnInfo) *unifier {
		return &unifier{fset: core.Fset,
			rename: func(s string) []string {
				if x.recv != "" && s == x.recv {
					return []string{y.recv}
				}
				return []string{s}
			},
			lit: func(s string) []string { return []string{s} },
			special: func(u *unifier, a, c ast.Node) (bool, bool) {
				// equivalent helper methods: t.isUpper() vs t.triKind()
				sa, ok1 := a.(*ast.SelectorExpr)
				sc, ok2 := c.(*ast.SelectorExpr)
				if ok1 && ok2 && sa.Sel.Name != sc.Sel.Name {
					if !u.Nodes(sa.X, sc.X) {
						return true, false
					}
					return true, equivalentMethods(pkgFuncs, sa.Sel.Name, sc.Sel.Name)
				}
				// guard-only keys in composite literals and fields in struct types
				if la, ok := a.(*ast.CompositeLit); ok {
					if lc, ok := c.(*ast.CompositeLit); ok && len(guardOnly) > 0 {
						strip := func(l *ast.CompositeLit) *ast.CompositeLit {
							out := &ast.CompositeLit{Type: l.Type}
							for _, e := range l.Elts {
								if kv, ok := e.(*ast.KeyValueExpr); ok {
									if id, ok := kv.Key.(*ast.Ident); ok && guardOnly[id.Name] {
										continue
									}
								}
								out.Elts = append(out.Elts, e)
							}
							return out
						}
						x2, y2 := strip(la), strip(lc)
						if !u.Nodes(x2.Type, y2.Type) || len(x2.Elts) != len(y2.Elts) {
							return true, false
						}
						for i := range x2.Elts {
							if !u.Nodes(x2.Elts[i], y2.Elts[i]) {
								return true, false
							}
						}
						return true, true
					}
				}
				return false, false
			}}
	}
	guardsEqual := func(x, y *fnInfo, gx, gy *ast.IfStmt, comparePanicArg bool) (bool, string) {
		u := mkUnifier(x, y)
		if !u.Nodes(gx.Cond, gy.Cond) {
			return false, "guard conditions differ: " + u.msg
		}
		ax := gx.Body.List[0].(*ast.ExprStmt).X.(*ast.CallExpr).Args
		ay := gy.Body.List[0].(*ast.ExprStmt).X.(*ast.CallExpr).Args
		if comparePanicArg && len(ax) == 1 && len(ay) == 1 {
			if !u.Nodes(ax[0], ay[0]) {
				return false, "guards panic with different values: " + u.msg
			}
		}
		return true, ""
	}
	for _, name := range order {
		x, y := bf[name], nf[name]
		res.Obligations++
		if (x == nil || y == nil) && fam.exact {
			var fd *ast.FuncDecl
			if x != nil {
				fd = x.decl
			} else {
				fd = y.decl
			}
			if !fd.Name.IsExported() {
				continue // an unexported accessor may be inlined on one side
			}
		}
		if x == nil || y == nil {
			pos := token.NoPos
			if x != nil {
				pos = x.decl.Pos()
			} else {
				pos = y.decl.Pos()
			}
			report(name, "function declared in one twin only", pos)
			continue
		}
		res.Count("bounds_twin_function_pairs", 1)
		// signature
		u := mkUnifier(x, y)
		if !u.Nodes(x.decl.Type, y.decl.Type) {
			report(name, "signatures differ: "+u.msg, y.decl.Pos())
			continue
		}
		if fam.exact {
			// hand-maintained twins: bodies differ benignly (tuple vs
			// separate assignments, wrapper inlined on one side); only the
			// guard and Data-index multisets per access path are compared.
			continue
		}
		// residual bodies
		if len(x.residual) != len(y.residual) {
			report(name, fmt.Sprintf("bodies differ beyond guard statements (%d vs %d statements)", len(x.residual), len(y.residual)), y.decl.Pos())
			continue
		}
		okBody := true
		for i := range x.residual {
			u := mkUnifier(x, y)
			if !u.Nodes(x.residual[i], y.residual[i]) {
				report(name, "bodies differ beyond guard statements: "+u.msg, u.posB)
				okBody = false
				break
			}
		}
		if !okBody {
			continue
		}
		res.Sample(map[string]any{"rule": "TWIN.bounds", "family": fam.name, "func": name, "guards_bounds": len(x.guards), "guards_nobounds": len(y.guards)})
	}
	// guard composition: exported wrapper guards ++ delegate guards
	var compose func(fs map[string]*fnInfo, name string, depth int) (guards []*ast.IfStmt, owners []*fnInfo, bodies []*fnInfo)
	compose = func(fs map[string]*fnInfo, name string, depth int) ([]*ast.IfStmt, []*fnInfo, []*fnInfo) {
		fi := fs[name]
		if fi == nil || depth > 3 {
			return nil, nil, nil
		}
		var gs []*ast.IfStmt
		var ow []*fnInfo
		for _, g := range fi.guards {
			gs = append(gs, g)
			ow = append(ow, fi)
		}
		bodies := []*fnInfo{fi}
		if d := fi.delegate(); d != "" {
			recvT := strings.SplitN(name, ".", 2)[0]
			g2, o2, b2 := compose(fs, recvT+"."+d, depth+1)
			gs = append(gs, g2...)
			ow = append(ow, o2...)
			bodies = append(bodies, b2...)
		}
		return gs, ow, bodies
	}
	canon := func(fi *fnInfo, e ast.Node) string {
		// render with the receiver name normalised
		var sb strings.Builder
		ast.Inspect(e, func(n ast.Node) bool {
			switch x := n.(type) {
			case *ast.Ident:
				if x.Name == fi.recv {
					sb.WriteString("RECV ")
				} else {
					sb.WriteString(x.Name + " ")
				}
			case *ast.BasicLit:
				sb.WriteString(x.Value + " ")
			case *ast.BinaryExpr:
				sb.WriteString("(" + x.Op.String() + " ")
			case *ast.UnaryExpr:
				sb.WriteString("(" + x.Op.String() + " ")
			case *ast.CallExpr:
				sb.WriteString("call ")
			case *ast.SelectorExpr:
				sb.WriteString(". ")
			case *ast.IndexExpr:
				sb.WriteString("[] ")
			case *ast.ParenExpr:
			case nil:
				sb.WriteString(") ")
			}
			return true
		})
		return sb.String()
	}
	for _, name := range order {
		x, y := bf[name], nf[name]
		if x == nil || y == nil || !x.decl.Name.IsExported() {
			continue
		}
		res.Obligations++
		res.Count("bounds_guard_sequences", 1)
		gx, ox, bx := compose(bf, name, 0)
		gy, oy, by := compose(nf, name, 0)
		if fam.exact {
			count := map[string]int{}
			where := map[string]token.Pos{}
			for i, g := range gx {
				k := canon(ox[i], g.Cond) + " => " + canon(ox[i], g.Body)
				count[k]++
				where[k] = g.Pos()
			}
			for i, g := range gy {
				k := canon(oy[i], g.Cond) + " => " + canon(oy[i], g.Body)
				count[k]--
				where[k] = g.Pos()
			}
			for k, c := range count {
				if c != 0 {
					side := "bounds"
					if c < 0 {
						side = "default"
					}
					report(name, "a guard on this access path exists in the "+side+" build only: "+strings.Join(strings.Fields(strings.ReplaceAll(k, ") ", "")), " "), where[k])
				}
			}
			// Data index expressions on the access path
			idx := map[string]int{}
			iw := map[string]token.Pos{}
			collect := func(fis []*fnInfo, sign int) {
				for _, fi := range fis {
					for _, st := range fi.residual {
						ast.Inspect(st, func(n ast.Node) bool {
							if ix, ok := n.(*ast.IndexExpr); ok {
								if sel, ok := ix.X.(*ast.SelectorExpr); ok && sel.Sel.Name == "Data" {
									k := canon(fi, ix)
									idx[k] += sign
									iw[k] = ix.Pos()
								}
							}
							return true
						})
					}
				}
			}
			collect(bx, 1)
			collect(by, -1)
			res.Count("bounds_data_index_paths", 1)
			// every branch condition and every returned expression on the
			// access path (the band test `pj < 0 || KL+KU+1 <= pj`, the
			// `return 0` for elements outside the band, ...)
			conds := map[string]int{}
			cw := map[string]token.Pos{}
			collectConds := func(fis []*fnInfo, sign int) {
				for _, fi := range fis {
					deleg := fi.delegate()
					ast.Inspect(fi.decl.Body, func(n ast.Node) bool {
						switch x := n.(type) {
						case *ast.IfStmt:
							k := "if " + canon(fi, x.Cond)
							conds[k] += sign
							cw[k] = x.Pos()
						case *ast.ReturnStmt:
							for _, r := range x.Results {
								if c, ok := r.(*ast.CallExpr); ok && deleg != "" {
									if sel, ok := c.Fun.(*ast.SelectorExpr); ok && sel.Sel.Name == deleg {
										continue // forwarding to the accessor
									}
								}
								k := "return " + canon(fi, r)
								conds[k] += sign
								cw[k] = x.Pos()
							}
						}
						return true
					})
				}
			}
			collectConds(bx, 1)
			collectConds(by, -1)
			for k, c := range conds {
				if c != 0 {
					side := "bounds"
					if c < 0 {
						side = "default"
					}
					report(name, "on this access path the "+side+" build has an extra `"+strings.Join(strings.Fields(strings.ReplaceAll(k, ") ", "")), " ")+"`", cw[k])
				}
			}
			for k, c := range idx {
				if c != 0 {
					report(name, "a Data[...] access on this path differs between the builds: "+strings.Join(strings.Fields(strings.ReplaceAll(k, ") ", "")), " "), iw[k])
				}
			}
		} else {
			// every default-build guard must also be present, in order, in the bounds build
			j := 0
			for _, g := range gy {
				found := false
				for ; j < len(gx); j++ {
					if ok, _ := guardsEqual(x, y, gx[j], g, false); ok {
						found = true
						j++
						break
					}
				}
				if !found {
					report(name, "a guard of the default build has no counterpart in the bounds build", g.Pos())
					break
				}
			}
		}
	}
	// guard-only fields must be used only inside guards (or keyed literals)
	if len(guardOnly) > 0 {
		for _, name := range order {
			x := bf[name]
			if x == nil {
				continue
			}
			for _, s := range x.residual {
				ast.Inspect(s, func(nd ast.Node) bool {
					switch e := nd.(type) {
					case *ast.KeyValueExpr:
						if id, ok := e.Key.(*ast.Ident); ok && guardOnly[id.Name] {
							ast.Inspect(e.Value, func(ast.Node) bool { return true })
							return false
						}
					case *ast.SelectorExpr:
						if guardOnly[e.Sel.Name] {
							report(name, "bounds-only field "+e.Sel.Name+" is used outside a guard statement", e.Pos())
						}
					}
					return true
				})
			}
		}
	}
}

func hasWrapper(fs map[string]*fnInfo, name string) bool {
	parts := strings.SplitN(name, ".", 2)
	if len(parts) != 2 {
		return false
	}
	for n, fi := range fs {
		if strings.HasPrefix(n, parts[0]+".") && fi.delegate() == parts[1] {
			return true
		}
	}
	return false
}

func structTypes(f *ast.File) map[string]*ast.StructType {
	out := map[string]*ast.StructType{}
	for _, d := range f.Decls {
		if g, ok := d.(*ast.GenDecl); ok && g.Tok == token.TYPE {
			for _, s := range g.Specs {
				ts := s.(*ast.TypeSpec)
				if st, ok := ts.Type.(*ast.StructType); ok {
					out[ts.Name.Name] = st
				}
			}
		}
	}
	return out
}

// equivalentMethods: two differently named helper methods are
// interchangeable when their declarations have unifiable bodies.
func equivalentMethods(funcs map[string][]*ast.FuncDecl, a, b string) bool {
	var da, db []*ast.FuncDecl
	for n, ds := range funcs {
		parts := strings.SplitN(n, ".", 2)
		if len(parts) != 2 {
			continue
		}
		if parts[1] == a {
			da = append(da, ds...)
		}
		if parts[1] == b {
			db = append(db, ds...)
		}
	}
	for _, x := range da {
		for _, y := range db {
			if declName(x)[:strings.Index(declName(x), ".")] != declName(y)[:strings.Index(declName(y), ".")] {
				continue
			}
			fx, fy := splitGuards(x), splitGuards(y)
			u := &unifier{fset: core.Fset,
				rename: func(s string) []string {
					if s == fx.recv {
						return []string{fy.recv}
					}
					return []string{s}
				},
				lit: func(s string) []string { return []string{s} }}
			if x.Body != nil && y.Body != nil && u.Nodes(x.Body, y.Body) {
				return true
			}
		}
	}
	return false
}

// ---------------------------------------------------------------------
// in-file sync pairs: reuseAsNonZeroed <-> reuseAsZeroed

func runReuseAs(res *core.Result) {
	funcs := parseDirFuncs("mat")
	pairs := 0
	for name, ds := range funcs {
		if !strings.HasSuffix(name, ".reuseAsNonZeroed") || len(ds) != 1 {
			continue
		}
		recvT := strings.TrimSuffix(name, ".reuseAsNonZeroed")
		zs := funcs[recvT+".reuseAsZeroed"]
		if len(zs) != 1 {
			continue // types without a zeroing twin (DiagDense) have nothing to keep in sync
		}
		nz, z := ds[0], zs[0]
		pairs++
		res.Obligations++
		res.Count("reuseAs_sync_pairs", 1)
		u := &unifier{fset: core.Fset,
			rename: func(s string) []string {
				switch s {
				case "use":
					return []string{"useZeroed"}
				case "useC":
					return []string{"useZeroedC"}
				case "reuseAsNonZeroed":
					return []string{"reuseAsZeroed"}
				}
				return []string{s}
			},
			lit: func(s string) []string { return []string{s} }}
		// The zeroing twin additionally clears the storage (recv.Zero(),
		// zero(data)), wherever the arm structure puts that, and may need a
		// return the other twin can omit at the end of its body; neither is a
		// difference between the twins.
		nb := normaliseReuse(nz.Body.List, true)
		zb := normaliseReuse(z.Body.List, true)
		ok := u.Nodes(nz.Type, z.Type) && u.Nodes(&ast.BlockStmt{List: nb}, &ast.BlockStmt{List: zb})
		if !ok {
			res.Add(core.Finding{
				Rule: "TWIN.sync",
				Key:  fmt.Sprintf("TWIN.sync|mat.%s|reuseAs", recvT),
				Pos:  core.Pos(u.posB), Func: "mat." + recvT + ".reuseAsZeroed",
				Msg: fmt.Sprintf("%s.reuseAsNonZeroed and reuseAsZeroed ('must be kept in sync') differ beyond use/useZeroed and the zeroing step: %s (other side at %s)",
					recvT, u.msg, core.Pos(u.posA)),
			})
		} else {
			res.Sample(map[string]any{"rule": "TWIN.sync", "type": recvT, "nodes": u.nodes})
		}
	}
	if pairs < 4 {
		res.Brokenf("TWIN.sync: only %d reuseAs pairs found in mat (expected at least 4)", pairs)
	}
}

// ---------------------------------------------------------------------
// spatial/r3 mat_safe.go <-> mat_unsafe.go: fixed 3x3 layout

// elementExprs extracts, for a function body, the expression stored to each
// matrix element (i,j) by array literals ([9] flat or [3][3] nested) and by
// constant-index assignments, plus the local definitions.
func elementExprs(fd *ast.FuncDecl) (elems map[[2]int]ast.Expr, locals map[string]ast.Expr) {
	elems = map[[2]int]ast.Expr{}
	locals = map[string]ast.Expr{}
	constInt := func(e ast.Expr) (int, bool) {
		if bl, ok := e.(*ast.BasicLit); ok && bl.Kind == token.INT {
			v, err := strconv.Atoi(bl.Value)
			return v, err == nil
		}
		return 0, false
	}
	ast.Inspect(fd.Body, func(n ast.Node) bool {
		switch x := n.(type) {
		case *ast.CompositeLit:
			if id, ok := x.Type.(*ast.Ident); ok && id.Name == "array" {
				if len(x.Elts) == 9 {
					for k, e := range x.Elts {
						elems[[2]int{k / 3, k % 3}] = e
					}
				} else if len(x.Elts) == 3 {
					for i, row := range x.Elts {
						if rl, ok := row.(*ast.CompositeLit); ok && len(rl.Elts) == 3 {
							for j, e := range rl.Elts {
								elems[[2]int{i, j}] = e
							}
						}
					}
				}
				return false
			}
		case *ast.AssignStmt:
			if x.Tok == token.DEFINE {
				if len(x.Lhs) == len(x.Rhs) {
					for i, l := range x.Lhs {
						if id, ok := l.(*ast.Ident); ok {
							locals[id.Name] = x.Rhs[i]
						}
					}
				} else if len(x.Rhs) == 1 {
					for i, l := range x.Lhs {
						if id, ok := l.(*ast.Ident); ok {
							locals[id.Name+"#"+strconv.Itoa(i)] = x.Rhs[0]
						}
					}
				}
				return true
			}
			if len(x.Lhs) == 1 && len(x.Rhs) == 1 && x.Tok == token.ASSIGN {
				// m.data[i][j] = e  or  m.data[k] = e
				if outer, ok := x.Lhs[0].(*ast.IndexExpr); ok {
					if inner, ok := outer.X.(*ast.IndexExpr); ok {
						i, ok1 := constInt(inner.Index)
						j, ok2 := constInt(outer.Index)
						if ok1 && ok2 {
							elems[[2]int{i, j}] = x.Rhs[0]
						}
					} else if k, ok := constInt(outer.Index); ok {
						if sel, ok := outer.X.(*ast.SelectorExpr); ok && sel.Sel.Name == "data" {
							elems[[2]int{k / 3, k % 3}] = x.Rhs[0]
						}
					}
				}
			}
		}
		return true
	})
	return
}

func runR3(res *core.Result) {
	s, err1 := parseFile("spatial/r3/mat_safe.go")
	u, err2 := parseFile("spatial/r3/mat_unsafe.go")
	if err1 != nil || err2 != nil {
		res.Brokenf("TWIN r3: %v %v", err1, err2)
		return
	}
	sf, uf := map[string]*ast.FuncDecl{}, map[string]*ast.FuncDecl{}
	for _, d := range s.Decls {
		if fd, ok := d.(*ast.FuncDecl); ok {
			sf[declName(fd)] = fd
		}
	}
	for _, d := range u.Decls {
		if fd, ok := d.(*ast.FuncDecl); ok {
			uf[declName(fd)] = fd
		}
	}
	builders := 0
	ident := &unifier{fset: core.Fset, rename: func(s string) []string { return []string{s} }, lit: func(s string) []string { return []string{s} }}
	for name, a := range sf {
		b, ok := uf[name]
		if !ok {
			continue
		}
		ea, la := elementExprs(a)
		eb, lb := elementExprs(b)
		if len(ea) == 0 && len(eb) == 0 {
			continue
		}
		builders++
		res.Count("r3_fixed_layout_builders", 1)
		report := func(msg string, pos token.Pos) {
			res.Add(core.Finding{
				Rule: "TWIN.r3",
				Key:  fmt.Sprintf("TWIN.r3|spatial/r3.%s", name),
				Pos:  core.Pos(pos), Func: "spatial/r3." + name,
				Msg: "mat_safe.go and mat_unsafe.go disagree in " + name + ": " + msg,
			})
		}
		if len(ea) != 9 || len(eb) != 9 {
			res.Obligations++
			report(fmt.Sprintf("element stores recognised: %d (safe) vs %d (unsafe), expected 9 each", len(ea), len(eb)), b.Pos())
			continue
		}
		for i := 0; i < 3; i++ {
			for j := 0; j < 3; j++ {
				res.Obligations++
				res.Count("r3_elements_compared", 1)
				ident.msg = ""
				if !ident.Nodes(ea[[2]int{i, j}], eb[[2]int{i, j}]) {
					report(fmt.Sprintf("element (%d,%d): %s", i, j, ident.msg), eb[[2]int{i, j}].Pos())
				}
			}
		}
		for k, va := range la {
			vb, ok := lb[k]
			if !ok {
				continue
			}
			res.Obligations++
			ident.msg = ""
			if !ident.Nodes(va, vb) {
				report(fmt.Sprintf("local %s is defined differently: %s", k, ident.msg), vb.Pos())
			}
		}
		if len(la) != len(lb) {
			// tolerated only for the general (ca != 3) fallback, which differs by design
			extra := 0
			for k := range la {
				if _, ok := lb[k]; !ok {
					extra++
				}
			}
			for k := range lb {
				if _, ok := la[k]; !ok {
					extra++
				}
			}
			if extra > 2 {
				report(fmt.Sprintf("%d local definitions exist on one side only", extra), b.Pos())
			}
		}
		res.Sample(map[string]any{"rule": "TWIN.r3", "func": name, "elements": 9, "locals": len(la)})
	}
	if builders < 4 {
		res.Brokenf("TWIN.r3: only %d fixed-layout builders recognised (expected Eye, Skew, Mul, Rotation.Mat)", builders)
	}
}

// runShadow: TWIN.shadow. mat/shadow_complex.go carries the note "Generate
// this file from shadow.go": its overlap predicate checkOverlapComplex is a
// transcription of checkOverlap for cblas128.General. The two function
// bodies must be images of each other under blas64->cblas128,
// offset->offsetComplex, checkOverlap->checkOverlapComplex.
func runShadow(res *core.Result) {
	funcs := parseDirFuncs("mat")
	a, b := funcs["checkOverlap"], funcs["checkOverlapComplex"]
	if len(a) != 1 || len(b) != 1 {
		res.Brokenf("TWIN.shadow: checkOverlap/checkOverlapComplex not found in mat (%d/%d)", len(a), len(b))
		return
	}
	res.Obligations++
	res.Count("shadow_twin_pairs", 1)
	u := &unifier{fset: core.Fset,
		rename: func(s string) []string {
			switch s {
			case "blas64":
				return []string{"cblas128"}
			case "offset":
				return []string{"offsetComplex"}
			case "checkOverlap":
				return []string{"checkOverlapComplex"}
			}
			return []string{s}
		},
		lit: func(s string) []string { return []string{s} }}
	if !(u.Nodes(a[0].Type, b[0].Type) && u.Nodes(a[0].Body, b[0].Body)) {
		res.Add(core.Finding{
			Rule: "TWIN.shadow",
			Key:  "TWIN.shadow|mat.checkOverlap~checkOverlapComplex",
			Pos:  core.Pos(u.posB), Func: "mat.checkOverlapComplex",
			Msg: fmt.Sprintf("the real and complex overlap predicates of mat (shadow.go / shadow_complex.go, 'generate this file from shadow.go') differ beyond the blas64/cblas128 renaming: %s (other side at %s)", u.msg, core.Pos(u.posA)),
		})
	} else {
		res.Count("shadow_twin_nodes", u.nodes)
	}
}

// normaliseReuse drops zeroing statements (x.Zero(), zero(...)) from a
// statement list, recursively, and then bare returns in terminal position.
func normaliseReuse(list []ast.Stmt, terminal bool) []ast.Stmt {
	return stripReturns(stripZero(list), terminal)
}

func mapBlocks(st ast.Stmt, f func([]ast.Stmt, bool) []ast.Stmt, last bool) ast.Stmt {
	switch x := st.(type) {
	case *ast.IfStmt:
		cp := *x
		body := *x.Body
		body.List = f(x.Body.List, last)
		cp.Body = &body
		switch e := x.Else.(type) {
		case *ast.BlockStmt:
			eb := *e
			eb.List = f(e.List, last)
			cp.Else = &eb
		case *ast.IfStmt:
			cp.Else = mapBlocks(e, f, last)
		}
		return &cp
	case *ast.BlockStmt:
		cp := *x
		cp.List = f(x.List, last)
		return &cp
	}
	return st
}

func stripZero(list []ast.Stmt) []ast.Stmt {
	var out []ast.Stmt
	for _, st := range list {
		if x, ok := st.(*ast.ExprStmt); ok {
			if c, ok := x.X.(*ast.CallExpr); ok {
				switch f := c.Fun.(type) {
				case *ast.SelectorExpr:
					if f.Sel.Name == "Zero" && len(c.Args) == 0 {
						continue
					}
				case *ast.Ident:
					if f.Name == "zero" || f.Name == "zeroC" {
						continue
					}
				}
			}
		}
		out = append(out, mapBlocks(st, func(l []ast.Stmt, _ bool) []ast.Stmt { return stripZero(l) }, false))
	}
	return out
}

func stripReturns(list []ast.Stmt, terminal bool) []ast.Stmt {
	var out []ast.Stmt
	for i, st := range list {
		last := terminal && i == len(list)-1
		if r, ok := st.(*ast.ReturnStmt); ok && last && len(r.Results) == 0 {
			continue
		}
		out = append(out, mapBlocks(st, stripReturns, last))
	}
	return out
}
