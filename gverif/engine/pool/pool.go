// Package pool implements the POOL engine: typestate of mat's pooled
// workspaces. See DESIGN.md §3.7.
package pool

import (
	"fmt"
	"go/ast"
	"go/token"
	"go/types"
	"strings"

	"gverif/cfgx"
	"gverif/core"

	"golang.org/x/tools/go/cfg"
	"golang.org/x/tools/go/packages"
	"golang.org/x/tools/go/types/typeutil"
)

func isGet(fn *types.Func) bool {
	if fn == nil || fn.Pkg() == nil || !strings.HasSuffix(fn.Pkg().Path(), "gonum/mat") {
		return false
	}
	n := fn.Name()
	return (strings.HasPrefix(n, "get") && strings.HasSuffix(n, "Workspace")) || n == "getFloat64s" || n == "getInts"
}

func isPut(fn *types.Func) bool {
	if fn == nil || fn.Pkg() == nil || !strings.HasSuffix(fn.Pkg().Path(), "gonum/mat") {
		return false
	}
	n := fn.Name()
	return (strings.HasPrefix(n, "put") && strings.HasSuffix(n, "Workspace")) || n == "putFloat64s" || n == "putInts"
}

// Run analyses package mat.
func Run(cfg core.Config) *core.Result {
	res := core.NewResult("POOL")
	res.Rules = append(res.Rules,
		"POOL.once: no path returns the same pooled workspace twice (a deferred put counts at function exit)",
		"POOL.uaf: no use of a pooled workspace is reachable from its put",
		"POOL.escape: a pooled workspace never flows to a field, a package variable, a goroutine closure or the result of an exported function")
	res.Configs = append(res.Configs, cfg.String())
	pkgs, err := core.Load(cfg, "./mat")
	if err != nil {
		res.Brokenf("%v", err)
		return res
	}
	pkg := pkgs[0]
	for _, f := range pkg.Syntax {
		name := core.Fset.Position(f.Pos()).Filename
		if strings.HasSuffix(name, "pool.go") {
			continue // the pool implementation itself
		}
		for _, d := range f.Decls {
			fd, ok := d.(*ast.FuncDecl)
			if !ok || fd.Body == nil {
				continue
			}
			analyse(res, pkg, fd)
		}
	}
	return res
}

type event struct {
	kind string // "put", "use", "def"
	node ast.Node
}

func analyse(res *core.Result, pkg *packages.Package, fd *ast.FuncDecl) {
	info := pkg.TypesInfo
	name := core.FuncName(pkg, fd)
	// token variables: locals assigned from a get call
	tokens := map[types.Object]ast.Node{}
	ast.Inspect(fd.Body, func(n ast.Node) bool {
		var lhs []ast.Expr
		var rhs []ast.Expr
		switch s := n.(type) {
		case *ast.AssignStmt:
			lhs, rhs = s.Lhs, s.Rhs
		case *ast.ValueSpec:
			for _, nm := range s.Names {
				lhs = append(lhs, nm)
			}
			rhs = s.Values
		default:
			return true
		}
		if len(lhs) != len(rhs) {
			return true
		}
		for i := range rhs {
			c, ok := rhs[i].(*ast.CallExpr)
			if !ok {
				continue
			}
			fn, _ := typeutil.Callee(info, c).(*types.Func)
			if !isGet(fn) {
				continue
			}
			if id, ok := lhs[i].(*ast.Ident); ok {
				if o := core.ObjOf(info, id); o != nil {
					tokens[o] = n
				}
			} else {
				// stored straight into a field or element
				res.Obligations++
				res.Add(core.Finding{
					Rule: "POOL.escape",
					Key:  fmt.Sprintf("POOL.escape|%s|%s", name, types.ExprString(lhs[i])),
					Pos:  core.Pos(n.Pos()), Func: name,
					Msg: fmt.Sprintf("pooled workspace from %s is stored into %s and outlives the call", fn.Name(), types.ExprString(lhs[i])),
				})
			}
		}
		return true
	})
	if len(tokens) == 0 {
		return
	}
	res.Count("functions_with_workspaces", 1)
	res.Count("workspace_tokens", len(tokens))
	// swap groups: `w, x = x, w`
	group := map[types.Object]types.Object{}
	find := func(o types.Object) types.Object {
		for group[o] != nil && group[o] != o {
			o = group[o]
		}
		return o
	}
	ast.Inspect(fd.Body, func(n ast.Node) bool {
		as, ok := n.(*ast.AssignStmt)
		if !ok || as.Tok != token.ASSIGN || len(as.Lhs) != len(as.Rhs) {
			return true
		}
		for i := range as.Lhs {
			l, ok1 := as.Lhs[i].(*ast.Ident)
			r, ok2 := as.Rhs[i].(*ast.Ident)
			if !ok1 || !ok2 {
				continue
			}
			lo, ro := core.ObjOf(info, l), core.ObjOf(info, r)
			if lo == nil || ro == nil || lo == ro {
				continue
			}
			_, lt := tokens[lo]
			_, rt := tokens[ro]
			if lt || rt {
				// aliasing between workspace variables: analyse them as one group
				a, b := find(lo), find(ro)
				if a != b {
					group[a] = b
				}
				if !lt {
					tokens[lo] = n
				}
				if !rt {
					tokens[ro] = n
				}
			}
		}
		return true
	})
	g := cfgx.New(fd.Body, info)
	par := cfgx.Parents(fd.Body)
	fnObj, _ := info.Defs[fd.Name].(*types.Func)

	mentions := func(n ast.Node, o types.Object) bool {
		found := false
		ast.Inspect(n, func(x ast.Node) bool {
			if id, ok := x.(*ast.Ident); ok && core.ObjOf(info, id) == o {
				found = true
			}
			return !found
		})
		return found
	}
	// classify nodes per token
	for tok := range tokens {
		grouped := find(tok) != tok || func() bool {
			for o := range tokens {
				if o != tok && find(o) == find(tok) {
					return true
				}
			}
			return false
		}()
		var deferredPuts, puts []ast.Node
		ast.Inspect(fd.Body, func(n ast.Node) bool {
			c, ok := n.(*ast.CallExpr)
			if !ok {
				return true
			}
			fn, _ := typeutil.Callee(info, c).(*types.Func)
			if !isPut(fn) || len(c.Args) != 1 {
				return true
			}
			id, ok := c.Args[0].(*ast.Ident)
			if !ok || core.ObjOf(info, id) != tok {
				return true
			}
			if _, isDefer := par[c].(*ast.DeferStmt); isDefer {
				deferredPuts = append(deferredPuts, c)
			} else {
				// inside a closure (restore func): treated as deferred to the closure's caller
				inLit := false
				var lit *ast.FuncLit
				for p := par[c]; p != nil; p = par[p] {
					if l, ok := p.(*ast.FuncLit); ok {
						inLit = true
						if lit == nil {
							lit = l
						}
					}
				}
				if inLit {
					deferredPuts = append(deferredPuts, c)
					// inside the closure itself the typestate still holds:
					// no use of the workspace after its put
					res.Obligations++
					res.Count("closure_put_sites", 1)
					gl := cfgx.New(lit.Body, info)
					if loc, ok := gl.Where[c]; ok {
						seenL := map[int32]bool{}
						hit := false
						var walkL func(b *cfg.Block, from int)
						walkL = func(b *cfg.Block, from int) {
							for i := from; i < len(b.Nodes) && !hit; i++ {
								if mentions(b.Nodes[i], tok) {
									report(res, "POOL.uaf", name, tok, b.Nodes[i], c)
									hit = true
									return
								}
							}
							for _, sb := range b.Succs {
								if !seenL[sb.Index] && !hit {
									seenL[sb.Index] = true
									walkL(sb, 0)
								}
							}
						}
						walkL(gl.Blocks[loc.Block], loc.Index+1)
					}
				} else {
					puts = append(puts, c)
				}
			}
			return true
		})
		res.Count("put_sites", len(puts)+len(deferredPuts))
		// POOL.once / POOL.uaf: forward from each explicit put
		for _, p := range puts {
			res.Obligations += 2
			loc, ok := g.Where[p]
			if !ok {
				continue
			}
			seen := map[int32]bool{}
			var walk func(b *cfg.Block, from int)
			reported := false
			walk = func(b *cfg.Block, from int) {
				for i := from; i < len(b.Nodes) && !reported; i++ {
					n := b.Nodes[i]
					// reassignment kills
					if as, ok := n.(*ast.AssignStmt); ok {
						killed := false
						for _, l := range as.Lhs {
							if id, ok := l.(*ast.Ident); ok && core.ObjOf(info, id) == tok {
								killed = true
							}
						}
						if killed {
							// rhs is evaluated first
							for _, r := range as.Rhs {
								if mentions(r, tok) && !grouped {
									report(res, "POOL.uaf", name, tok, n, p)
									reported = true
								}
							}
							return
						}
					}
					if !mentions(n, tok) {
						continue
					}
					if grouped {
						continue // swapped variables: the name may denote a live workspace
					}
					// is it another put?
					isAnotherPut := false
					ast.Inspect(n, func(x ast.Node) bool {
						if c, ok := x.(*ast.CallExpr); ok && c != p {
							if fn, _ := typeutil.Callee(info, c).(*types.Func); isPut(fn) && len(c.Args) == 1 && mentions(c.Args[0], tok) {
								isAnotherPut = true
							}
						}
						return true
					})
					if isAnotherPut {
						res.Add(core.Finding{
							Rule: "POOL.once",
							Key:  fmt.Sprintf("POOL.once|%s|%s", name, tok.Name()),
							Pos:  core.Pos(n.Pos()), Func: name,
							Msg:  fmt.Sprintf("workspace %s is put again on a path from the put at %s", tok.Name(), core.Pos(p.Pos())),
							Path: []string{"first put: " + core.Pos(p.Pos()), "second put: " + core.Pos(n.Pos())},
						})
					} else {
						report(res, "POOL.uaf", name, tok, n, p)
					}
					reported = true
					return
				}
				if reported {
					return
				}
				for _, s := range b.Succs {
					if !seen[s.Index] {
						seen[s.Index] = true
						walk(s, 0)
					}
				}
			}
			walk(g.Blocks[loc.Block], loc.Index+1)
		}
		// a direct `defer put(v)` followed by an explicit put(v) of the same value
		for _, dp := range deferredPuts {
			ds, isDefer := par[dp].(*ast.DeferStmt)
			if !isDefer || grouped {
				continue
			}
			loc, ok := g.Where[ds]
			if !ok {
				continue
			}
			res.Obligations++
			seen := map[int32]bool{}
			done := false
			var walk func(b *cfg.Block, from int)
			walk = func(b *cfg.Block, from int) {
				for i := from; i < len(b.Nodes) && !done; i++ {
					n := b.Nodes[i]
					if as, ok := n.(*ast.AssignStmt); ok {
						for _, l := range as.Lhs {
							if id, ok := l.(*ast.Ident); ok && core.ObjOf(info, id) == tok {
								return
							}
						}
					}
					ast.Inspect(n, func(x ast.Node) bool {
						if c, ok := x.(*ast.CallExpr); ok && c != dp {
							if fn, _ := typeutil.Callee(info, c).(*types.Func); isPut(fn) && len(c.Args) == 1 && mentions(c.Args[0], tok) {
								res.Add(core.Finding{
									Rule: "POOL.once",
									Key:  fmt.Sprintf("POOL.once|%s|%s", name, tok.Name()),
									Pos:  core.Pos(c.Pos()), Func: name,
									Msg:  fmt.Sprintf("workspace %s is put here and again by the deferred put registered at %s", tok.Name(), core.Pos(ds.Pos())),
									Path: []string{"defer: " + core.Pos(ds.Pos()), "put: " + core.Pos(c.Pos())},
								})
								done = true
							}
						}
						return !done
					})
				}
				if done {
					return
				}
				for _, sc := range b.Succs {
					if !seen[sc.Index] {
						seen[sc.Index] = true
						walk(sc, 0)
					}
				}
			}
			walk(g.Blocks[loc.Block], loc.Index+1)
		}
		// POOL.escape
		res.Obligations++
		ast.Inspect(fd.Body, func(n ast.Node) bool {
			switch s := n.(type) {
			case *ast.ReturnStmt:
				for _, r := range s.Results {
					if id, ok := r.(*ast.Ident); ok && core.ObjOf(info, id) == tok && fnObj != nil && fnObj.Exported() {
						// returning inside a closure is the closure's business
						for p := par[s]; p != nil; p = par[p] {
							if _, ok := p.(*ast.FuncLit); ok {
								return true
							}
						}
						escape(res, name, tok, s, "returned from an exported function")
					}
				}
			case *ast.AssignStmt:
				for i, l := range s.Lhs {
					if i >= len(s.Rhs) && len(s.Rhs) != 1 {
						continue
					}
					var r ast.Expr
					if len(s.Rhs) == len(s.Lhs) {
						r = s.Rhs[i]
					} else {
						continue
					}
					if !mentionsToken(info, r, tok) {
						continue
					}
					switch lx := l.(type) {
					case *ast.SelectorExpr:
						// field of something that is not itself a workspace
						root := lx.X
						for {
							if sx, ok := root.(*ast.SelectorExpr); ok {
								root = sx.X
								continue
							}
							break
						}
						if id, ok := root.(*ast.Ident); ok {
							if _, isTok := tokens[core.ObjOf(info, id)]; isTok {
								continue
							}
							if o := core.ObjOf(info, id); o != nil && isLocalValue(o, fd) {
								continue // field of a local struct value
							}
						}
						if aliasing(info, r, tok) {
							escape(res, name, tok, s, "stored into "+types.ExprString(l))
						}
					case *ast.Ident:
						if o := core.ObjOf(info, lx); o != nil && o.Parent() == pkg.Types.Scope() && aliasing(info, r, tok) {
							escape(res, name, tok, s, "stored into package variable "+lx.Name)
						}
					}
				}
			case *ast.GoStmt:
				if mentions(s, tok) {
					escape(res, name, tok, s, "captured by a goroutine")
				}
			}
			return true
		})
	}
	if len(res.Samples) < 5 {
		var names []string
		for o := range tokens {
			names = append(names, o.Name())
		}
		res.Sample(map[string]any{"rule": "POOL", "func": name, "tokens": names})
	}
}

func isLocalValue(o types.Object, fd *ast.FuncDecl) bool {
	v, ok := o.(*types.Var)
	if !ok || v.IsField() {
		return false
	}
	if o.Pos() < fd.Body.Pos() || o.Pos() > fd.Body.End() {
		return false // parameter or receiver
	}
	_, isPtr := o.Type().Underlying().(*types.Pointer)
	return !isPtr
}

func mentionsToken(info *types.Info, e ast.Expr, tok types.Object) bool {
	found := false
	ast.Inspect(e, func(x ast.Node) bool {
		if id, ok := x.(*ast.Ident); ok && core.ObjOf(info, id) == tok {
			found = true
		}
		return !found
	})
	return found
}

// aliasing: the expression's value shares the workspace's storage (the
// token itself, its mat/Data fields, slices of it) rather than a scalar
// read from it.
func aliasing(info *types.Info, e ast.Expr, tok types.Object) bool {
	switch x := e.(type) {
	case *ast.Ident:
		return core.ObjOf(info, x) == tok
	case *ast.ParenExpr:
		return aliasing(info, x.X, tok)
	case *ast.SelectorExpr:
		if tv, ok := info.Types[e]; ok {
			switch tv.Type.Underlying().(type) {
			case *types.Slice, *types.Struct, *types.Pointer:
				return aliasing(info, x.X, tok)
			}
		}
		return false
	case *ast.SliceExpr:
		return aliasing(info, x.X, tok)
	case *ast.UnaryExpr:
		return x.Op == token.AND && aliasing(info, x.X, tok)
	case *ast.StarExpr:
		return aliasing(info, x.X, tok)
	case *ast.CallExpr:
		if sel, ok := x.Fun.(*ast.SelectorExpr); ok {
			switch sel.Sel.Name {
			case "RawMatrix", "RawVector", "RawSymmetric", "RawTriangular", "T", "asGeneral", "Slice", "slice", "ColView", "RowView", "RawRowView":
				return aliasing(info, sel.X, tok)
			}
		}
		return false
	case *ast.CompositeLit:
		for _, el := range x.Elts {
			v := el
			if kv, ok := el.(*ast.KeyValueExpr); ok {
				v = kv.Value
			}
			if aliasing(info, v, tok) {
				return true
			}
		}
	}
	return false
}

func report(res *core.Result, rule, fn string, tok types.Object, use, put ast.Node) {
	res.Add(core.Finding{
		Rule: rule,
		Key:  fmt.Sprintf("%s|%s|%s", rule, fn, tok.Name()),
		Pos:  core.Pos(use.Pos()), Func: fn,
		Msg:  fmt.Sprintf("workspace %s is used after it was returned to the pool at %s", tok.Name(), core.Pos(put.Pos())),
		Path: []string{"put: " + core.Pos(put.Pos()), "use: " + core.Pos(use.Pos())},
	})
}

func escape(res *core.Result, fn string, tok types.Object, at ast.Node, how string) {
	res.Add(core.Finding{
		Rule: "POOL.escape",
		Key:  fmt.Sprintf("POOL.escape|%s|%s", fn, tok.Name()),
		Pos:  core.Pos(at.Pos()), Func: fn,
		Msg: fmt.Sprintf("pooled workspace %s is %s: it would be retained after being returned to the pool", tok.Name(), how),
	})
}
