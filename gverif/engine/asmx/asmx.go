// Package asmx implements the ASM engine: a per-loop access-window lint
// and a bytes/elements unit lint over the Plan 9 assembly kernels of
// internal/asm. The .s files are read as text: macros are expanded, each
// TEXT body is split into instructions, loops are label..backward-jump
// ranges. Nothing is assembled or run.
package asmx

import (
	"fmt"
	"path/filepath"
	"regexp"
	"sort"
	"strconv"
	"strings"

	"gverif/core"
)

type macro struct {
	params []string
	body   []string // lines
	isFunc bool
}

type instr struct {
	op   string
	args []string
	line int
	file string
}

type textFn struct {
	name  string
	ins   []instr
	label map[string]int // label -> index of next instruction
	file  string
}

var identRe = regexp.MustCompile(`[A-Za-z_][A-Za-z_0-9]*`)

func stripComment(l string) string {
	if i := strings.Index(l, "//"); i >= 0 {
		l = l[:i]
	}
	return strings.TrimRight(l, " \t")
}

// parseFile expands macros and returns the TEXT functions of a .s file.
func parseFile(path string) ([]*textFn, error) {
	b, err := core.ReadFile(path)
	if err != nil {
		return nil, err
	}
	raw := strings.Split(string(b), "\n")
	macros := map[string]*macro{}
	type srcLine struct {
		text string
		no   int
	}
	var lines []srcLine
	for i := 0; i < len(raw); i++ {
		l := stripComment(raw[i])
		if strings.HasPrefix(strings.TrimSpace(l), "#define") {
			// gather continuation lines
			def := []string{strings.TrimSuffix(l, "\\")}
			for strings.HasSuffix(strings.TrimRight(raw[i], " \t"), "\\") && i+1 < len(raw) {
				i++
				def = append(def, strings.TrimSuffix(stripComment(raw[i]), "\\"))
			}
			head := strings.TrimSpace(strings.TrimPrefix(strings.TrimSpace(def[0]), "#define"))
			m := &macro{}
			var name, rest string
			if j := strings.IndexAny(head, " \t("); j < 0 {
				name = head
			} else if head[j] == '(' {
				k := strings.Index(head, ")")
				name = head[:j]
				m.isFunc = true
				for _, p := range strings.Split(head[j+1:k], ",") {
					m.params = append(m.params, strings.TrimSpace(p))
				}
				rest = head[k+1:]
			} else {
				name = head[:j]
				rest = head[j:]
			}
			if strings.TrimSpace(rest) != "" {
				m.body = append(m.body, strings.TrimSpace(rest))
			}
			for _, d := range def[1:] {
				if strings.TrimSpace(d) != "" {
					m.body = append(m.body, strings.TrimSpace(d))
				}
			}
			macros[name] = m
			continue
		}
		if strings.HasPrefix(strings.TrimSpace(l), "#") {
			continue
		}
		lines = append(lines, srcLine{l, i + 1})
	}
	var expand func(s string, depth int) []string
	expand = func(s string, depth int) []string {
		if depth > 12 {
			return []string{s}
		}
		// function-like macro invocation occupying the statement
		t := strings.TrimSpace(s)
		// a byte-encoded instruction whose macro name spells its operands
		// (ADDSUBPS_X2_X3 = LONG $0x…) is kept under that name: ASM.lost
		// reads the operand roles from it
		if mac, ok := macros[t]; ok && !mac.isFunc && (encodedRe.MatchString(t) || encodedMemRe.MatchString(t)) {
			raw := true
			for _, bl := range mac.body {
				for _, part := range strings.Split(bl, ";") {
					f := strings.Fields(part)
					if len(f) > 0 && f[0] != "LONG" && f[0] != "BYTE" && f[0] != "WORD" {
						raw = false
					}
				}
			}
			if raw {
				return []string{t}
			}
		}
		if m := regexp.MustCompile(`^([A-Za-z_][A-Za-z_0-9]*)\((.*)\)$`).FindStringSubmatch(t); m != nil {
			if mac, ok := macros[m[1]]; ok && mac.isFunc {
				args := splitArgs(m[2])
				var out []string
				for _, bl := range mac.body {
					r := identRe.ReplaceAllStringFunc(bl, func(id string) string {
						for i, p := range mac.params {
							if p == id && i < len(args) {
								return strings.TrimSpace(args[i])
							}
						}
						return id
					})
					out = append(out, expand(r, depth+1)...)
				}
				return out
			}
		}
		if mac, ok := macros[t]; ok && !mac.isFunc && len(mac.body) > 1 {
			var out []string
			for _, bl := range mac.body {
				out = append(out, expand(bl, depth+1)...)
			}
			return out
		}
		// object-like macros inside the line
		changed := true
		for iter := 0; changed && iter < 12; iter++ {
			changed = false
			s = identRe.ReplaceAllStringFunc(s, func(id string) string {
				if id == "SIZE" {
					return id // kept symbolic: ASM.units needs to see it
				}
				if mac, ok := macros[id]; ok && !mac.isFunc && len(mac.body) == 1 {
					changed = true
					return mac.body[0]
				}
				return id
			})
		}
		t = strings.TrimSpace(s)
		if mac, ok := macros[t]; ok && !mac.isFunc && len(mac.body) > 1 {
			return expand(t, depth+1)
		}
		return []string{s}
	}
	sizeVal = 8
	if m, ok := macros["SIZE"]; ok && len(m.body) == 1 {
		if v, ok := evalConst(m.body[0]); ok {
			sizeVal = v
		}
	}
	var fns []*textFn
	var cur *textFn
	for _, sl := range lines {
		for _, part := range strings.Split(sl.text, ";") {
			for _, l := range expand(part, 0) {
				for _, l2 := range strings.Split(l, ";") {
					t := strings.TrimSpace(l2)
					if t == "" {
						continue
					}
					if strings.HasPrefix(t, "TEXT") {
						name := t
						if m := regexp.MustCompile(`·([A-Za-z0-9_]+)\(SB\)`).FindStringSubmatch(t); m != nil {
							name = m[1]
						}
						cur = &textFn{name: name, label: map[string]int{}, file: path}
						fns = append(fns, cur)
						continue
					}
					if cur == nil {
						continue
					}
					if m := regexp.MustCompile(`^([A-Za-z_][A-Za-z_0-9]*):\s*(.*)$`).FindStringSubmatch(t); m != nil {
						cur.label[m[1]] = len(cur.ins)
						t = strings.TrimSpace(m[2])
						if t == "" {
							continue
						}
					}
					f := strings.Fields(t)
					op := f[0]
					rest := strings.TrimSpace(strings.TrimPrefix(t, op))
					cur.ins = append(cur.ins, instr{op: op, args: splitArgs(rest), line: sl.no, file: path})
				}
			}
		}
	}
	return fns, nil
}

func splitArgs(s string) []string {
	var out []string
	depth := 0
	cur := ""
	for _, r := range s {
		switch r {
		case '(':
			depth++
		case ')':
			depth--
		case ',':
			if depth == 0 {
				out = append(out, strings.TrimSpace(cur))
				cur = ""
				continue
			}
		}
		cur += string(r)
	}
	if strings.TrimSpace(cur) != "" {
		out = append(out, strings.TrimSpace(cur))
	}
	return out
}

// sizeVal is the value of the file's SIZE macro (element size in bytes).
var sizeVal = 8

// evalConst evaluates simple integer expressions with * + - and parentheses.
func evalConst(s string) (int, bool) {
	s = strings.ReplaceAll(s, " ", "")
	s = strings.TrimPrefix(s, "$")
	s = strings.ReplaceAll(s, "SIZE", strconv.Itoa(sizeVal))
	if s == "" {
		return 0, true
	}
	p := &constParser{s: s}
	v, ok := p.expr()
	if !ok || p.i != len(p.s) {
		return 0, false
	}
	return v, true
}

type constParser struct {
	s string
	i int
}

func (p *constParser) expr() (int, bool) {
	v, ok := p.term()
	if !ok {
		return 0, false
	}
	for p.i < len(p.s) && (p.s[p.i] == '+' || p.s[p.i] == '-') {
		op := p.s[p.i]
		p.i++
		w, ok := p.term()
		if !ok {
			return 0, false
		}
		if op == '+' {
			v += w
		} else {
			v -= w
		}
	}
	return v, true
}

func (p *constParser) term() (int, bool) {
	v, ok := p.factor()
	if !ok {
		return 0, false
	}
	for p.i < len(p.s) && p.s[p.i] == '*' {
		p.i++
		w, ok := p.factor()
		if !ok {
			return 0, false
		}
		v *= w
	}
	return v, true
}

func (p *constParser) factor() (int, bool) {
	if p.i < len(p.s) && p.s[p.i] == '(' {
		p.i++
		v, ok := p.expr()
		if !ok || p.i >= len(p.s) || p.s[p.i] != ')' {
			return 0, false
		}
		p.i++
		return v, true
	}
	if p.i < len(p.s) && p.s[p.i] == '-' {
		p.i++
		v, ok := p.factor()
		return -v, ok
	}
	j := p.i
	for j < len(p.s) && (p.s[j] >= '0' && p.s[j] <= '9' || p.s[j] == 'x' || (p.s[j] >= 'a' && p.s[j] <= 'f') || (p.s[j] >= 'A' && p.s[j] <= 'F')) {
		j++
	}
	if j == p.i {
		return 0, false
	}
	v, err := strconv.ParseInt(p.s[p.i:j], 0, 64)
	if err != nil {
		return 0, false
	}
	p.i = j
	return int(v), true
}

// memOperand parses disp(BASE)(IDX*scale).
type mem struct {
	scaleIsSize bool
	disp        int
	base, idx   string
	scale       int
	ok, framed  bool
}

var memRe = regexp.MustCompile(`^([^()]*)\(\s*([A-Z][A-Z0-9]*)\s*\)(?:\(\s*([A-Z][A-Z0-9]*)\s*\*\s*([0-9A-Za-z_*]+)\s*\))?$`)

func parseMem(a string) mem {
	a = strings.TrimSpace(a)
	if strings.Contains(a, "(FP)") || strings.Contains(a, "(SB)") || strings.Contains(a, "(SP)") {
		return mem{framed: true}
	}
	m := memRe.FindStringSubmatch(a)
	if m == nil {
		return mem{}
	}
	d, ok := evalConst(m[1])
	if !ok {
		return mem{}
	}
	out := mem{disp: d, base: m[2], ok: true, scale: 1}
	if m[3] != "" {
		out.idx = m[3]
		sc, ok := evalConst(m[4])
		if !ok {
			return mem{}
		}
		out.scale = sc
		out.scaleIsSize = strings.Contains(m[4], "SIZE")
	}
	return out
}

// width of a memory access by mnemonic (bytes); 0 = not a data access we model.
func width(op string, args []string) int {
	switch op {
	case "MOVSD", "MULSD", "ADDSD", "SUBSD", "DIVSD", "MOVLPD", "MOVHPD", "MOVDDUP", "MOVQ", "UCOMISD", "COMISD", "MAXSD", "MINSD", "SQRTSD", "MOVLPS", "MOVHPS", "VMOVSD", "VMULSD", "VADDSD", "VFMADD231SD":
		return 8
	case "MOVSS", "MULSS", "ADDSS", "SUBSS", "DIVSS", "MOVL", "UCOMISS", "VMOVSS", "VADDSS", "VMULSS", "CVTSS2SD":
		return 4
	case "MOVUPD", "MOVUPS", "MOVAPD", "MOVAPS", "MOVDQU", "MOVDQA", "MULPD", "ADDPD", "SUBPD", "DIVPD", "MULPS", "ADDPS", "SUBPS", "DIVPS", "ANDPD", "ANDPS", "ANDNPD", "MAXPD", "MINPD", "ADDSUBPD", "ADDSUBPS", "MOVSHDUP", "MOVSLDUP", "SHUFPD", "SHUFPS", "HADDPD", "HADDPS", "CVTPS2PD", "SQRTPD", "MOVNTPD", "LDDQU":
		if op == "CVTPS2PD" {
			return 8
		}
		return 16
	case "VMOVUPD", "VMOVUPS", "VMOVAPD", "VMOVAPS", "VMOVDQU", "VMULPD", "VADDPD", "VSUBPD", "VFMADD231PD", "VFMADD213PD", "VADDSUBPD", "VMULPS", "VADDPS":
		for _, a := range args {
			if strings.HasPrefix(strings.TrimSpace(a), "Y") {
				return 32
			}
		}
		return 16
	}
	return 0
}

// Run checks every .s file under internal/asm.
func Run() *core.Result {
	res := core.NewResult("ASM")
	res.Rules = append(res.Rules,
		"ASM.window: in every assembly loop, each memory access through an induction register stays inside the window of elements the iteration advances over (offset >= 0 and offset + width <= step)",
		"ASM.lost: an accumulated partial result is read before the function returns, and a data value moved into a vector register is read before the register is overwritten (CFG over the instruction text; unknown instructions count as reads)",
		"ASM.units: a register holding a byte quantity (scaled by SHLQ $3/$2 or multiplied by one) is never scaled again by the element size in an address or LEAQ")
	res.Configs = append(res.Configs, "amd64 assembly text (configuration independent)")
	files, _ := filepath.Glob(filepath.Join(core.RepoDir, "internal/asm/*/*.s"))
	sort.Strings(files)
	if len(files) < 40 {
		res.Brokenf("ASM: only %d assembly files found", len(files))
	}
	for _, f := range files {
		fns, err := parseFile(f)
		if err != nil {
			res.Brokenf("ASM: %v", err)
			continue
		}
		res.Count("assembly_files", 1)
		for _, fn := range fns {
			res.Count("text_functions", 1)
			res.Count("instructions", len(fn.ins))
			checkWindows(res, fn)
			checkTails(res, fn)
			checkUnits(res, fn)
			checkLost(res, fn)
		}
	}
	return res
}

func rel(p string) string {
	r, err := filepath.Rel(core.RepoDir, p)
	if err != nil {
		return p
	}
	return r
}

var jumps = map[string]bool{"JMP": true, "JE": true, "JNE": true, "JZ": true, "JNZ": true, "JL": true, "JLE": true, "JG": true, "JGE": true,
	"JA": true, "JAE": true, "JB": true, "JBE": true, "JS": true, "JNS": true, "JCS": true, "JCC": true, "JHI": true, "JLS": true, "JLT": true, "JGT": true, "JEQ": true, "JPS": true, "JPC": true, "LOOP": true}

func checkWindows(res *core.Result, fn *textFn) {
	for i, in := range fn.ins {
		if !jumps[in.op] || len(in.args) != 1 {
			continue
		}
		start, ok := fn.label[in.args[0]]
		if !ok || start > i {
			continue // forward jump
		}
		body := fn.ins[start:i]
		// a loop containing other labels' back-jumps (nested) is analysed too; inner loops separately
		res.Count("loops", 1)
		// induction registers: total constant step per iteration
		step := map[string]int{}
		other := map[string]bool{}
		for _, b := range body {
			if len(b.args) == 0 {
				continue
			}
			dst := strings.TrimSpace(b.args[len(b.args)-1])
			switch b.op {
			case "ADDQ", "SUBQ":
				if c, ok := evalConst(b.args[0]); ok && strings.HasPrefix(strings.TrimSpace(b.args[0]), "$") {
					if b.op == "SUBQ" {
						c = -c
					}
					step[dst] += c
					continue
				}
				other[dst] = true
			case "INCQ":
				step[dst]++
			case "DECQ":
				step[dst]--
			case "LEAQ":
				m := parseMem(b.args[0])
				if m.ok && m.idx == "" && m.base == dst {
					step[dst] += m.disp
					continue
				}
				other[dst] = true
			case "CMPQ", "TESTQ", "UCOMISD", "COMISD", "PREFETCHNTA", "PREFETCHT0":
			default:
				if w := width(b.op, b.args); w == 0 {
					// any other instruction writing a general register
					if regexp.MustCompile(`^(R[0-9]+|[ABCD]X|[SD]I|BP)$`).MatchString(dst) && b.op != "CMPQ" {
						other[dst] = true
					}
				}
			}
		}
		// accesses
		sofar := map[string]int{}
		for _, b := range body {
			switch b.op {
			case "ADDQ", "SUBQ":
				if len(b.args) == 2 && strings.HasPrefix(strings.TrimSpace(b.args[0]), "$") {
					if c, ok := evalConst(b.args[0]); ok {
						if b.op == "SUBQ" {
							c = -c
						}
						sofar[strings.TrimSpace(b.args[1])] += c
					}
				}
				continue
			case "INCQ":
				sofar[strings.TrimSpace(b.args[0])]++
				continue
			case "DECQ":
				sofar[strings.TrimSpace(b.args[0])]--
				continue
			case "LEAQ":
				if len(b.args) == 2 {
					m := parseMem(b.args[0])
					if m.ok && m.idx == "" && m.base == strings.TrimSpace(b.args[1]) {
						sofar[m.base] += m.disp
					}
				}
				continue
			}
			w := width(b.op, b.args)
			if w == 0 {
				continue
			}
			for _, a := range b.args {
				m := parseMem(a)
				if !m.ok {
					continue
				}
				var ind string
				var total, off int
				switch {
				case m.idx != "" && step[m.idx] > 0 && !other[m.idx] && step[m.base] == 0 && !other[m.base]:
					ind = m.idx
					total = step[m.idx] * m.scale
					off = m.disp + sofar[m.idx]*m.scale
				case m.idx == "" && step[m.base] > 0 && !other[m.base]:
					ind = m.base
					total = step[m.base]
					off = m.disp + sofar[m.base]
				default:
					continue
				}
				res.Obligations++
				res.Count("loop_memory_accesses", 1)
				if len(res.Samples) < 4 {
					res.Sample(map[string]any{"rule": "ASM.window", "func": fn.name, "loop": in.args[0], "access": b.op + " " + a, "offset": off, "width": w, "advance_bytes": total})
				}
				if off < 0 || off+w > total {
					res.Add(core.Finding{Rule: "ASM.window",
						Key: fmt.Sprintf("ASM.window|%s.%s|%s|%s %s", core.RelPkg(filepath.Dir(rel(fn.file))), fn.name, in.args[0], b.op, a),
						Pos: fmt.Sprintf("%s:%d", rel(b.file), b.line), Func: fn.name,
						Msg: fmt.Sprintf("in loop %s of %s the access %s %s covers bytes [%d,%d) of an iteration that advances %s by only %d bytes: it reaches past the elements this iteration owns (an out-of-bounds access on the last iteration)",
							in.args[0], fn.name, b.op, a, off, off+w, ind, total)})
				}
			}
		}
	}
}

// elemSize is the element size of the package a kernel lives in.
func elemSize(file string) int {
	switch filepath.Base(filepath.Dir(file)) {
	case "f64", "c64":
		return 8
	case "f32":
		return 4
	case "c128":
		return 16
	}
	return 0
}

// checkTails: ASM.tail. Outside the loops, a straight-line block (label to
// next label / jump / RET) that addresses memory through a register some
// loop of the function uses as its induction register owns only the
// elements it advances over — or, if it does not advance the register (the
// last-element tail), one element. A packed load there (MOVUPS for MOVSD)
// reads past the end of the slice on odd lengths.
func checkTails(res *core.Result, fn *textFn) {
	es := elemSize(fn.file)
	if es == 0 {
		return
	}
	inLoop := make([]bool, len(fn.ins))
	induction := map[string]bool{}
	for i, in := range fn.ins {
		if !jumps[in.op] || len(in.args) != 1 {
			continue
		}
		start, ok := fn.label[in.args[0]]
		if !ok || start > i {
			continue
		}
		for k := start; k <= i; k++ {
			inLoop[k] = true
		}
		for _, b := range fn.ins[start:i] {
			if len(b.args) == 0 {
				continue
			}
			dst := strings.TrimSpace(b.args[len(b.args)-1])
			switch b.op {
			case "ADDQ", "SUBQ":
				if strings.HasPrefix(strings.TrimSpace(b.args[0]), "$") {
					induction[dst] = true
				}
			case "INCQ", "DECQ":
				induction[dst] = true
			case "LEAQ":
				if m := parseMem(b.args[0]); m.ok && m.idx == "" && m.base == dst {
					induction[dst] = true
				}
			}
		}
	}
	isLabel := map[int]bool{}
	for _, at := range fn.label {
		isLabel[at] = true
	}
	i := 0
	for i < len(fn.ins) {
		if inLoop[i] {
			i++
			continue
		}
		// block [i, j)
		j := i
		for j < len(fn.ins) && !inLoop[j] {
			if j > i && isLabel[j] {
				break
			}
			j++
			if op := fn.ins[j-1].op; jumps[op] || op == "RET" {
				break
			}
		}
		block := fn.ins[i:j]
		i = j
		step := map[string]int{}
		other := map[string]bool{}
		for _, b := range block {
			if len(b.args) == 0 {
				continue
			}
			dst := strings.TrimSpace(b.args[len(b.args)-1])
			switch b.op {
			case "ADDQ", "SUBQ":
				if c, ok := evalConst(b.args[0]); ok && strings.HasPrefix(strings.TrimSpace(b.args[0]), "$") {
					if b.op == "SUBQ" {
						c = -c
					}
					step[dst] += c
					continue
				}
				other[dst] = true
			case "INCQ":
				step[dst]++
			case "DECQ":
				step[dst]--
			case "LEAQ":
				m := parseMem(b.args[0])
				if m.ok && m.idx == "" && m.base == dst {
					step[dst] += m.disp
					continue
				}
				other[dst] = true
			case "CMPQ", "TESTQ", "UCOMISD", "COMISD", "PREFETCHNTA", "PREFETCHT0":
			default:
				if w := width(b.op, b.args); w == 0 {
					if regexp.MustCompile(`^(R[0-9]+|[ABCD]X|[SD]I|BP)$`).MatchString(dst) {
						other[dst] = true
					}
				}
			}
		}
		sofar := map[string]int{}
		for _, b := range block {
			switch b.op {
			case "ADDQ", "SUBQ":
				if len(b.args) == 2 && strings.HasPrefix(strings.TrimSpace(b.args[0]), "$") {
					if c, ok := evalConst(b.args[0]); ok {
						if b.op == "SUBQ" {
							c = -c
						}
						sofar[strings.TrimSpace(b.args[1])] += c
					}
				}
				continue
			case "INCQ":
				sofar[strings.TrimSpace(b.args[0])]++
				continue
			case "DECQ":
				sofar[strings.TrimSpace(b.args[0])]--
				continue
			case "LEAQ":
				if len(b.args) == 2 {
					m := parseMem(b.args[0])
					if m.ok && m.idx == "" && m.base == strings.TrimSpace(b.args[1]) {
						sofar[m.base] += m.disp
					}
				}
				continue
			}
			w := width(b.op, b.args)
			if w == 0 {
				continue
			}
			for _, a := range b.args {
				m := parseMem(a)
				if !m.ok {
					continue
				}
				var ind string
				var total, off int
				switch {
				case m.idx != "" && induction[m.idx] && !other[m.idx] && step[m.idx] >= 0 && step[m.base] == 0 && !other[m.base]:
					ind = m.idx
					total = step[m.idx] * m.scale
					off = m.disp + sofar[m.idx]*m.scale
				case m.idx == "" && induction[m.base] && !other[m.base] && step[m.base] >= 0:
					ind = m.base
					total = step[m.base]
					off = m.disp + sofar[m.base]
				default:
					continue
				}
				if total == 0 {
					// not advanced here: the last-element tail only if the
					// register is never written again on any path from here
					if writtenLater(fn, j, ind) {
						continue
					}
					total = es
				}
				res.Obligations++
				res.Count("tail_memory_accesses", 1)
				if off < 0 || off+w > total {
					res.Add(core.Finding{Rule: "ASM.tail",
						Key: fmt.Sprintf("ASM.tail|%s.%s|%s %s", core.RelPkg(filepath.Dir(rel(fn.file))), fn.name, b.op, a),
						Pos: fmt.Sprintf("%s:%d", rel(b.file), b.line), Func: fn.name,
						Msg: fmt.Sprintf("outside the loops of %s the access %s %s covers bytes [%d,%d) relative to %s in a block that owns only %d bytes (it advances the register by that much, or handles the last element): it reaches past the elements that remain",
							fn.name, b.op, a, off, off+w, ind, total)})
				}
			}
		}
	}
}

// writtenLater reports whether reg is the destination of any instruction
// reachable from instruction index from.
func writtenLater(fn *textFn, from int, reg string) bool {
	seen := map[int]bool{}
	work := []int{from}
	for len(work) > 0 {
		k := work[len(work)-1]
		work = work[:len(work)-1]
		for k < len(fn.ins) && !seen[k] {
			seen[k] = true
			in := fn.ins[k]
			if len(in.args) > 0 && in.op != "CMPQ" && in.op != "TESTQ" && strings.TrimSpace(in.args[len(in.args)-1]) == reg {
				return true
			}
			if in.op == "RET" {
				break
			}
			if jumps[in.op] && len(in.args) == 1 {
				if t, ok := fn.label[in.args[0]]; ok {
					work = append(work, t)
				}
				if in.op == "JMP" {
					break
				}
			}
			k++
		}
	}
	return false
}

// checkUnits: bytes vs elements.
func checkUnits(res *core.Result, fn *textFn) {
	// linear scan; state reset at labels that are jump targets from later code (loops) is
	// approximated by resetting at every label.
	labelsAt := map[int]bool{}
	for _, idx := range fn.label {
		labelsAt[idx] = true
	}
	bytes := map[string]bool{}
	for i, in := range fn.ins {
		if labelsAt[i] {
			// keep facts: the prologue establishes units for the whole function in these kernels;
			// a register rescaled later would be flagged at the rescaling site itself.
		}
		if len(in.args) == 0 {
			continue
		}
		dst := strings.TrimSpace(in.args[len(in.args)-1])
		switch in.op {
		case "SHLQ":
			if c, ok := evalConst(in.args[0]); ok && (c == 3 || c == 2 || c == 4) {
				res.Obligations++
				res.Count("byte_scalings", 1)
				if bytes[dst] {
					res.Add(core.Finding{Rule: "ASM.units", Key: fmt.Sprintf("ASM.units|%s.%s|%s", core.RelPkg(filepath.Dir(rel(fn.file))), fn.name, dst),
						Pos: fmt.Sprintf("%s:%d", rel(in.file), in.line), Func: fn.name,
						Msg: fmt.Sprintf("%s already holds a byte quantity and is scaled by the element size again", dst)})
				}
				bytes[dst] = true
			}
		case "MOVQ":
			src := strings.TrimSpace(in.args[0])
			if bytes[src] {
				bytes[dst] = true
			} else if regexp.MustCompile(`^(R[0-9]+|[ABCD]X|[SD]I|BP)$`).MatchString(dst) {
				delete(bytes, dst)
			}
		case "IMULQ":
			src := strings.TrimSpace(in.args[0])
			if bytes[src] {
				bytes[dst] = true
			}
		case "NEGQ", "SUBQ", "ADDQ", "DECQ", "INCQ":
			// unit preserved (adding constants to byte offsets is the file's own business)
		case "CMOVQLT", "CMOVQGT", "CMOVQEQ", "CMOVQNE", "CMOVQLE", "CMOVQGE":
			src := strings.TrimSpace(in.args[0])
			if bytes[src] {
				bytes[dst] = true
			}
		case "XORQ":
			if len(in.args) == 2 && strings.TrimSpace(in.args[0]) == dst {
				// zero: compatible with both units; keep as unknown
				delete(bytes, dst)
			}
		case "LEAQ":
			m := parseMem(in.args[0])
			if m.ok && m.idx != "" {
				res.Obligations++
				res.Count("scaled_address_computations", 1)
				if bytes[m.idx] && m.scaleIsSize {
					// (a literal scale of 2 or 4 on a byte stride advances by several strides: legitimate)
					if m.base != m.idx {
						res.Add(core.Finding{Rule: "ASM.units", Key: fmt.Sprintf("ASM.units|%s.%s|%s", core.RelPkg(filepath.Dir(rel(fn.file))), fn.name, m.idx),
							Pos: fmt.Sprintf("%s:%d", rel(in.file), in.line), Func: fn.name,
							Msg: fmt.Sprintf("LEAQ %s scales %s by SIZE (%d) although it already holds a byte quantity (it was derived from a value shifted by the element size): the offset is %d times too large", in.args[0], m.idx, m.scale, m.scale)})
					}
				}
				if bytes[m.idx] && m.base == m.idx {
					bytes[dst] = true
				}
			}
		}
	}
}
