package asmx

import (
	"fmt"
	"regexp"
	"strings"

	"gverif/core"
)

// ASM.lost — no partial result is dropped. The kernels keep running sums in
// vector registers (SUM, P_SUM, X0..X3); a value is lost when
//
//   - an accumulating instruction (OP src, R with R read and written) into a
//     pure reduction accumulator (a register that, inside the loops, is read
//     only by the instructions accumulating into it) is followed on some
//     path to RET by no instruction that reads R — e.g. an early exit placed
//     before the step that folds the accumulators together; or
//   - outside the loops, a value derived from the operand arrays that is
//     moved into R is overwritten by another full write of R on some path
//     before anything has read it — e.g. a tail that re-initialises the sum
//     instead of adding to it. (Inside a loop a copy made for the next
//     iteration is legitimately dead on the exit path; copies of scalars
//     loaded from the frame, such as alpha, are not data.)
//
// Instructions whose operand roles are not in the tables below (including
// LONG/BYTE-encoded ones) are taken to read every register they mention (or
// all vector registers when they mention none), so they can only hide a
// finding, never create one.

var vecRegRe = regexp.MustCompile(`\b([XY](?:1[0-5]|[0-9]))\b`)

func vecRegs(arg string) []string {
	var out []string
	for _, m := range vecRegRe.FindAllString(arg, -1) {
		// X and Y name the same physical register
		out = append(out, "V"+m[1:])
	}
	return out
}

func isVecReg(arg string) (string, bool) {
	a := strings.TrimSpace(arg)
	if vecRegRe.MatchString(a) && vecRegRe.FindString(a) == a {
		return "V" + a[1:], true
	}
	return "", false
}

// full-write moves: dst = f(src); the old value of dst is not read
var fullMoves = map[string]bool{"MOVUPS": true, "MOVUPD": true, "MOVAPS": true, "MOVAPD": true, "MOVDDUP": true, "MOVSLDUP": true, "MOVSHDUP": true,
	"MOVQ": true, "PSHUFD": true, "CVTSS2SD": true, "CVTPS2PD": true, "SQRTSD": true, "VMOVUPD": true, "VMOVUPS": true, "VBROADCASTSD": true, "VBROADCASTSS": true, "VMOVDDUP": true}

// read-modify-write arithmetic: dst = dst op src
var rmwOps = map[string]bool{"ADDPD": true, "ADDPS": true, "ADDSD": true, "ADDSS": true, "SUBPD": true, "SUBPS": true, "SUBSD": true, "SUBSS": true,
	"MULPD": true, "MULPS": true, "MULSD": true, "MULSS": true, "DIVPD": true, "DIVSD": true, "DIVPS": true, "DIVSS": true, "MAXPD": true, "MAXSD": true, "MAXPS": true,
	"MINPD": true, "MINSD": true, "ADDSUBPD": true, "ADDSUBPS": true, "HADDPD": true, "HADDPS": true, "ANDPD": true, "ANDPS": true, "ORPD": true, "ORPS": true,
	"ANDNPD": true, "ANDNPS": true}

var accumulateOps = map[string]bool{"ADDPD": true, "ADDPS": true, "ADDSD": true, "ADDSS": true, "SUBPD": true, "SUBPS": true, "SUBSD": true, "SUBSS": true,
	"ADDSUBPD": true, "ADDSUBPS": true, "HADDPD": true, "HADDPS": true, "MAXPD": true, "MAXSD": true, "MAXPS": true}

var zeroIdioms = map[string]bool{"XORPS": true, "XORPD": true, "PXOR": true, "VXORPS": true, "VXORPD": true, "VPXOR": true}

var allVec = func() []string {
	var out []string
	for i := 0; i < 16; i++ {
		out = append(out, fmt.Sprintf("V%d", i))
	}
	return out
}()

type role struct {
	reads  map[string]bool
	full   string // register fully overwritten ("" if none)
	data   bool   // the full write carries data (not the zero idiom)
	accum  string // register accumulated into
	opaque bool
}

// encodedRe recognises the repository's byte-encoded instruction macros,
// whose names spell the operands: ADDSUBPS_X2_X3 is ADDSUBPS X2, X3.
var encodedRe = regexp.MustCompile(`^([A-Z0-9]+?)_((?:[XY][0-9]+_)*[XY][0-9]+)$`)

// encodedMemRe: MOVDDUP_8_XPTR_INCX__X4 is MOVDDUP 8(XPTR)(INCX*1), X4 — a
// load from an operand array into the register after the double underscore.
var encodedMemRe = regexp.MustCompile(`^([A-Z0-9]+?)_[A-Z0-9_]*XPTR[A-Z0-9_]*__([XY][0-9]+)$`)

func decodeEncoded(in instr) instr {
	if len(in.args) != 0 {
		return in
	}
	if m := encodedRe.FindStringSubmatch(in.op); m != nil {
		in.op = m[1]
		in.args = strings.Split(m[2], "_")
	} else if m := encodedMemRe.FindStringSubmatch(in.op); m != nil {
		in.op = m[1]
		in.args = []string{"(XPTR)", m[2]}
	}
	return in
}

func rolesOf(in instr) role {
	in = decodeEncoded(in)
	r := role{reads: map[string]bool{}}
	n := len(in.args)
	readAll := func(args []string) {
		for _, a := range args {
			for _, v := range vecRegs(a) {
				r.reads[v] = true
			}
		}
	}
	switch {
	case in.op == "RET" || jumps[in.op]:
		return r
	case zeroIdioms[in.op] && n == 2 && strings.TrimSpace(in.args[0]) == strings.TrimSpace(in.args[1]):
		if d, ok := isVecReg(in.args[1]); ok {
			r.full = d
		}
		return r
	case zeroIdioms[in.op] && n == 3 && strings.TrimSpace(in.args[0]) == strings.TrimSpace(in.args[1]):
		if d, ok := isVecReg(in.args[2]); ok {
			r.full = d
		}
		return r
	case fullMoves[in.op] && n == 2:
		readAll(in.args[:1])
		if d, ok := isVecReg(in.args[1]); ok {
			r.full, r.data = d, true
		} else {
			readAll(in.args[1:]) // address registers of a store (none are vector registers)
		}
		return r
	case (in.op == "MOVSD" || in.op == "MOVSS") && n == 2:
		readAll(in.args[:1])
		d, dstReg := isVecReg(in.args[1])
		_, srcReg := isVecReg(in.args[0])
		switch {
		case dstReg && !srcReg:
			r.full, r.data = d, true // load: upper lanes zeroed
		case dstReg && srcReg:
			r.reads[d] = true // merges into the low lane
		}
		return r
	case rmwOps[in.op] && n == 2:
		readAll(in.args)
		if d, ok := isVecReg(in.args[1]); ok && accumulateOps[in.op] {
			r.accum = d
		}
		return r
	}
	// anything else: reads what it mentions; with no vector operand at all
	// and an unknown mnemonic (LONG/BYTE encodings expand to nothing we can
	// read) be conservative
	readAll(in.args)
	if len(r.reads) == 0 {
		switch in.op {
		case "MOVQ", "LEAQ", "ADDQ", "SUBQ", "CMPQ", "TESTQ", "SHLQ", "SHRQ", "ANDQ", "XORQ", "INCQ", "DECQ", "NEGQ", "IMULQ", "ORQ",
			"CMOVQLE", "CMOVQLT", "CMOVQPS", "CMOVQGT", "CMOVQGE", "PREFETCHNTA", "PREFETCHT0", "MOVL", "ADDL", "NOP", "SARQ", "CMOVQEQ", "CMOVQNE", "XCHGQ", "MOVLQZX", "BSFQ":
		default:
			r.opaque = true
			for _, v := range allVec {
				r.reads[v] = true
			}
		}
	}
	return r
}

func checkLost(res *core.Result, fn *textFn) {
	n := len(fn.ins)
	ins := make([]instr, n)
	for i, in := range fn.ins {
		ins[i] = decodeEncoded(in)
	}
	roles := make([]role, n)
	for i, in := range ins {
		roles[i] = rolesOf(in)
		if roles[i].opaque {
			res.Count("opaque_instructions", 1)
		}
	}
	succ := func(i int) []int {
		in := ins[i]
		if in.op == "RET" {
			return nil
		}
		var out []int
		if jumps[in.op] && len(in.args) > 0 {
			if t, ok := fn.label[strings.TrimSpace(in.args[len(in.args)-1])]; ok && t < n {
				out = append(out, t)
			}
			if in.op == "JMP" {
				return out
			}
		}
		if i+1 < n {
			out = append(out, i+1)
		}
		return out
	}
	// first event on R along every path from i: "read", "overwrite", "ret"
	search := func(start int, reg string) (string, int) {
		seen := make([]bool, n)
		var stack []int
		for _, s := range succ(start) {
			stack = append(stack, s)
		}
		for len(stack) > 0 {
			i := stack[len(stack)-1]
			stack = stack[:len(stack)-1]
			if seen[i] {
				continue
			}
			seen[i] = true
			ro := roles[i]
			if ro.reads[reg] || ro.accum == reg {
				continue // this path reads the value
			}
			if ro.full == reg {
				return "overwrite", i
			}
			if ins[i].op == "RET" {
				return "ret", i
			}
			ss := succ(i)
			if len(ss) == 0 {
				continue // falls off the function text (no RET): not a return path we model
			}
			stack = append(stack, ss...)
		}
		return "", -1
	}
	// instructions on a cycle (inside a loop)
	onCycle := make([]bool, n)
	for i := range ins {
		seen := make([]bool, n)
		stack := append([]int{}, succ(i)...)
		for len(stack) > 0 && !onCycle[i] {
			j := stack[len(stack)-1]
			stack = stack[:len(stack)-1]
			if j == i {
				onCycle[i] = true
				break
			}
			if seen[j] {
				continue
			}
			seen[j] = true
			stack = append(stack, succ(j)...)
		}
	}
	// registers that ever hold data derived from the operand arrays (a load
	// through a pointer register, as opposed to a parameter load from the
	// frame) — flow-insensitive
	isArrayMem := func(a string) bool {
		return strings.Contains(a, "(") && !strings.Contains(a, "(FP)") && !strings.Contains(a, "(SP)")
	}
	tainted := map[string]bool{}
	for changed := true; changed; {
		changed = false
		for _, in := range ins {
			if len(in.args) < 2 {
				continue
			}
			d, ok := isVecReg(in.args[len(in.args)-1])
			if !ok || tainted[d] {
				continue
			}
			src := false
			for _, a := range in.args[:len(in.args)-1] {
				if isArrayMem(a) {
					src = true
				}
				for _, v := range vecRegs(a) {
					if tainted[v] {
						src = true
					}
				}
			}
			if src {
				tainted[d] = true
				changed = true
			}
		}
	}
	valueTainted := func(in instr) bool {
		for _, a := range in.args[:len(in.args)-1] {
			if isArrayMem(a) {
				return true
			}
			for _, v := range vecRegs(a) {
				if tainted[v] {
					return true
				}
			}
		}
		return false
	}
	// pure reduction accumulators: inside loops the register is read only by
	// instructions that accumulate into it
	pureAcc := map[string]bool{}
	for _, ro := range roles {
		if ro.accum != "" {
			pureAcc[ro.accum] = true
		}
	}
	for i, ro := range roles {
		if !onCycle[i] {
			continue
		}
		for r := range ro.reads {
			if ro.accum != r {
				delete(pureAcc, r)
			}
		}
	}
	reported := map[string]bool{}
	for i, ro := range roles {
		in := ins[i]
		if ro.accum != "" && !pureAcc[ro.accum] {
			ro.accum = ""
		}
		if ro.full != "" && (onCycle[i] || !valueTainted(in)) {
			ro.data = false
		}
		if ro.accum != "" {
			res.Obligations++
			res.Count("accumulating_instructions", 1)
			if ev, at := search(i, ro.accum); ev != "" {
				key := fmt.Sprintf("ASM.lost|%s|%s|%s %s", rel(fn.file), fn.name, in.op, strings.Join(in.args, ","))
				if !reported[key] {
					reported[key] = true
					how := "the function returns"
					if ev == "overwrite" {
						how = fmt.Sprintf("%s %s overwrites it", ins[at].op, strings.Join(ins[at].args, ", "))
					}
					res.Add(core.Finding{Rule: "ASM.lost", Key: key, Pos: fmt.Sprintf("%s:%d", rel(in.file), in.line), Func: fn.name,
						Msg: fmt.Sprintf("%s %s accumulates into %s, but on some path %s (line %d) before anything reads the register: the partial result is dropped",
							in.op, strings.Join(in.args, ", "), strings.TrimSpace(in.args[len(in.args)-1]), how, ins[at].line)})
				}
			}
		}
		if ro.full != "" && ro.data {
			res.Obligations++
			res.Count("data_moves_into_vector_registers", 1)
			if ev, at := search(i, ro.full); ev == "overwrite" {
				key := fmt.Sprintf("ASM.lost|%s|%s|%s %s", rel(fn.file), fn.name, in.op, strings.Join(in.args, ","))
				if !reported[key] {
					reported[key] = true
					res.Add(core.Finding{Rule: "ASM.lost", Key: key, Pos: fmt.Sprintf("%s:%d", rel(in.file), in.line), Func: fn.name,
						Msg: fmt.Sprintf("the value moved into %s by %s %s is overwritten by %s %s (line %d) on some path before anything reads it",
							strings.TrimSpace(in.args[len(in.args)-1]), in.op, strings.Join(in.args, ", "), ins[at].op, strings.Join(ins[at].args, ", "), ins[at].line)})
				}
			}
		}
	}
}
