// Package globalx implements GLOBAL.write: library code that may be called
// from many goroutines at once must not write package-level state outside
// initialisation, unless the write is made under a lock or sync.Once, or the
// variable is one of the documented process-wide settings.
//
// For every function other than init (and functions only reachable from
// package-level initialisers are not distinguished: the table says so) each
// assignment, inc/dec or element/field store whose root identifier resolves
// to a package-level variable of the analysed package is an obligation.
package globalx

import (
	"fmt"
	"go/ast"
	"go/token"
	"go/types"

	"gverif/core"
)

// Options carries the frozen table of allowed writers: "pkg.Func|var" -> reason.
type Options struct {
	Allowed map[string]string
}

func rootIdent(e ast.Expr) *ast.Ident {
	for {
		switch x := e.(type) {
		case *ast.Ident:
			return x
		case *ast.ParenExpr:
			e = x.X
		case *ast.IndexExpr:
			e = x.X
		case *ast.SelectorExpr:
			// pkg.Var is a qualified identifier, otherwise field of X
			e = x.X
		case *ast.StarExpr:
			e = x.X
		case *ast.SliceExpr:
			e = x.X
		default:
			return nil
		}
	}
}

// Run analyses the packages of scope.
func Run(cfg core.Config, scope core.Scope, opt Options) *core.Result {
	res := core.NewResult("GLOBAL")
	res.Rules = append(res.Rules, "GLOBAL.write: outside init, no function writes a package-level variable (or an element/field of one) unless it holds a mutex locked in the same function, runs inside sync.Once.Do, or is a tabled process-wide setter")
	res.Configs = append(res.Configs, cfg.String())
	pkgs, err := core.Load(cfg, scope.Patterns...)
	if err != nil {
		res.Brokenf("%v", err)
		return res
	}
	used := map[string]bool{}
	for _, pkg := range pkgs {
		info := pkg.TypesInfo
		for _, file := range pkg.Syntax {
			if !scope.InFile(file.Pos()) {
				continue
			}
			for _, d := range file.Decls {
				fd, ok := d.(*ast.FuncDecl)
				if !ok || fd.Body == nil {
					continue
				}
				res.Count("functions", 1)
				if fd.Recv == nil && fd.Name.Name == "init" {
					continue
				}
				name := core.FuncName(pkg, fd)
				locks := false
				ast.Inspect(fd.Body, func(n ast.Node) bool {
					if c, ok := n.(*ast.CallExpr); ok {
						if sel, ok := c.Fun.(*ast.SelectorExpr); ok && (sel.Sel.Name == "Lock" || sel.Sel.Name == "Do") {
							locks = true
						}
					}
					return true
				})
				check := func(lhs ast.Expr, pos token.Pos) {
					id := rootIdent(lhs)
					if id == nil {
						return
					}
					v, ok := core.ObjOf(info, id).(*types.Var)
					if !ok || v.Pkg() != pkg.Types || v.Parent() != pkg.Types.Scope() {
						return
					}
					res.Obligations++
					res.Count("package_level_writes", 1)
					if locks {
						res.Count("writes_under_lock_or_once", 1)
						return
					}
					key := fmt.Sprintf("GLOBAL.write|%s|%s", name, v.Name())
					ek := name + "|" + v.Name()
					if _, ok := opt.Allowed[ek]; ok {
						used[ek] = true
						res.Count("tabled_setters", 1)
						return
					}
					res.Add(core.Finding{Rule: "GLOBAL.write", Key: key, Pos: core.Pos(pos), Func: name,
						Msg: fmt.Sprintf("%s writes the package-level variable %s outside init without a lock or sync.Once: two goroutines using the package at once race on it", name, v.Name())})
				}
				ast.Inspect(fd.Body, func(n ast.Node) bool {
					switch s := n.(type) {
					case *ast.AssignStmt:
						if s.Tok == token.DEFINE {
							return true
						}
						for _, l := range s.Lhs {
							check(l, s.Pos())
						}
					case *ast.IncDecStmt:
						check(s.X, s.Pos())
					}
					return true
				})
			}
		}
	}
	for ek := range opt.Allowed {
		if !used[ek] {
			res.Stale("GLOBAL.write: stale table entry %s", ek)
		}
	}
	return res
}
