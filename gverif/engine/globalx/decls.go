package globalx

import (
	"fmt"
	"go/ast"
	"go/token"
	"go/types"

	"gverif/core"
)

// RunDecls implements GLOBAL.state: the packages in scope declare no
// package-level variable that can hold shared mutable state — a map, slice,
// pointer, channel, function, interface, or a struct or array containing one
// (sync.Map, sync.Pool, caches of transform objects, …). GLOBAL.write sees
// only direct stores to package variables; state reached through methods of a
// package-level sync.Map is shared between all users of the package all the
// same (seed C17-f4 cached one CmplxFFT per length, so that two Hilbert
// transformers of equal length used one scratch buffer).
func RunDecls(conf core.Config, scope core.Scope, exempt map[string]string) *core.Result {
	res := core.NewResult("GLOBALSTATE")
	res.Rules = append(res.Rules, "GLOBAL.state: no package-level variable of the packages in scope has a type that can hold shared mutable state (map, slice, pointer, chan, func, interface, or a struct/array containing one)")
	res.Configs = append(res.Configs, conf.String())
	pkgs, err := core.Load(conf, scope.Patterns...)
	if err != nil {
		res.Brokenf("%v", err)
		return res
	}
	var mutable func(t types.Type, depth int) bool
	mutable = func(t types.Type, depth int) bool {
		if depth > 6 {
			return true
		}
		switch u := t.Underlying().(type) {
		case *types.Basic:
			return false
		case *types.Array:
			return mutable(u.Elem(), depth+1)
		case *types.Struct:
			for i := 0; i < u.NumFields(); i++ {
				if mutable(u.Field(i).Type(), depth+1) {
					return true
				}
			}
			return false
		default:
			return true
		}
	}
	for _, pkg := range pkgs {
		if pkg.Types.Name() == "main" {
			continue
		}
		for _, file := range pkg.Syntax {
			if !scope.InFile(file.Pos()) {
				continue
			}
			for _, d := range file.Decls {
				gd, ok := d.(*ast.GenDecl)
				if !ok || gd.Tok != token.VAR {
					continue
				}
				for _, sp := range gd.Specs {
					vs := sp.(*ast.ValueSpec)
					for _, n := range vs.Names {
						o := pkg.TypesInfo.Defs[n]
						if o == nil || n.Name == "_" {
							continue
						}
						res.Obligations++
						res.Count("package_level_variables", 1)
						if !mutable(o.Type(), 0) {
							continue
						}
						key := pkg.Types.Path() + "." + n.Name
						if _, ok := exempt[key]; ok {
							res.Count("package_variables_exempt_by_table", 1)
							continue
						}
						res.Add(core.Finding{Rule: "GLOBAL.state", Key: "GLOBAL.state|" + key, Pos: core.Pos(n.Pos()), Func: key,
							Msg: fmt.Sprintf("package-level variable %s has type %s, which can hold mutable state shared by every user of the package: a value obtained through it by one goroutine is the same object another goroutine works on", n.Name, types.TypeString(o.Type(), types.RelativeTo(pkg.Types)))})
					}
				}
			}
		}
	}
	res.Count("packages", len(pkgs))
	return res
}
