// Package args implements the ARGS engine: argument-contract analysis of
// BLAS/LAPACK entry points on the per-function CFG. See DESIGN.md §3.3.
package args

import (
	"fmt"
	"go/ast"
	"go/constant"
	"go/token"
	"go/types"
	"os"
	"path/filepath"
	"sort"
	"strings"

	"gverif/cfgx"
	"gverif/core"
	"gverif/engine/flagx"

	"golang.org/x/tools/go/cfg"
	"golang.org/x/tools/go/packages"
	"golang.org/x/tools/go/types/typeutil"
)

// Options selects rules and carries the frozen exception tables.
type Options struct {
	// RecvType restricts analysis to exported methods of this receiver.
	RecvType string
	// CompleteExempt lists "Func.param" pairs confirmed by reading to have
	// no argument check legitimately, with the reason.
	CompleteExempt map[string]string
	// LenExempt lists "Func.param" pairs without a length check, confirmed
	// legitimate (not defects), with the reason.
	LenExempt map[string]string
	// OptionalExempt lists "Func.param" pairs whose uses are guarded by an
	// equivalent condition the syntactic rule cannot see, with the reason.
	OptionalExempt map[string]string
	// Unchecked lists routines whose documentation states that arguments
	// are not validated.
	Unchecked map[string]string
}

type fn struct {
	helpers map[*types.Func]*helperInfo
	pkg     *packages.Package
	info    *types.Info
	fd      *ast.FuncDecl
	name    string
	short   string
	res     *core.Result
	opts    *Options
	params  []*types.Var
	slices  map[types.Object]bool
	work    map[types.Object]bool // workspace params (exempt as operands)
	errs    map[types.Object]bool
	lwork   types.Object
	lquery  map[types.Object]bool
	par     map[ast.Node]ast.Node
	g       *cfgx.Graph
	// alias maps local slice variables to the slice parameters they view.
	alias map[types.Object]map[types.Object]bool
	// deps maps locals to the parameters their value derives from.
	deps map[types.Object]map[types.Object]bool
	// data marks locals whose value derives from slice contents or
	// non-pure calls.
	// non-pure calls, with the position of the earliest such assignment
	// (a condition textually before it still sees a scalar-derived value).
	data map[types.Object]token.Pos
}

func errorsObjects(pkg *packages.Package) map[types.Object]bool {
	out := map[types.Object]bool{}
	for _, f := range pkg.Syntax {
		name := filepath.Base(core.Fset.Position(f.Pos()).Filename)
		if name != "errors.go" {
			continue
		}
		for _, d := range f.Decls {
			gd, ok := d.(*ast.GenDecl)
			if !ok {
				continue
			}
			for _, s := range gd.Specs {
				if vs, ok := s.(*ast.ValueSpec); ok {
					for _, n := range vs.Names {
						if o := pkg.TypesInfo.Defs[n]; o != nil {
							out[o] = true
						}
					}
				}
			}
		}
	}
	return out
}

func isSlice(t types.Type) bool {
	_, ok := t.Underlying().(*types.Slice)
	return ok
}

func isWorkName(n string) bool { return n == "work" || n == "iwork" || n == "rwork" }

// rootParam returns the slice parameter(s) an expression views.
func (f *fn) roots(e ast.Expr) map[types.Object]bool {
	for {
		switch x := e.(type) {
		case *ast.SliceExpr:
			e = x.X
			continue
		case *ast.ParenExpr:
			e = x.X
			continue
		case *ast.Ident:
			o := core.ObjOf(f.info, x)
			if f.slices[o] {
				return map[types.Object]bool{o: true}
			}
			return f.alias[o]
		}
		return nil
	}
}

func (f *fn) isBuiltin(c *ast.CallExpr, names ...string) bool {
	id, ok := c.Fun.(*ast.Ident)
	if !ok {
		return false
	}
	if _, ok := f.info.Uses[id].(*types.Builtin); !ok {
		return false
	}
	for _, n := range names {
		if id.Name == n {
			return true
		}
	}
	return false
}

func (f *fn) isConversion(c *ast.CallExpr) bool {
	tv, ok := f.info.Types[c.Fun]
	return ok && tv.IsType()
}

// pureScalarCall: calls whose result depends only on their scalar
// arguments (min/max/abs helpers, math functions, Ilaenv/Iparmq).
func (f *fn) pureScalarCall(c *ast.CallExpr) bool {
	if f.isConversion(c) || f.isBuiltin(c, "len", "cap", "min", "max") {
		return true
	}
	if f.helperCall(c) != nil {
		// a validation helper only reads its arguments; what it returns
		// (flags, derived dimensions) is a function of the scalar arguments
		return true
	}
	fnobj := typeutil.Callee(f.info, c)
	if fnobj == nil {
		return false
	}
	if p := fnobj.Pkg(); p != nil && (p.Path() == "math" || p.Path() == "math/cmplx" || strings.HasSuffix(p.Path(), "internal/math32") || strings.HasSuffix(p.Path(), "internal/cmplx64")) {
		return true
	}
	switch fnobj.Name() {
	case "min", "max", "abs", "Ilaenv", "Iparmq", "blocks":
		for _, a := range c.Args {
			if tv, ok := f.info.Types[a]; ok && isSlice(tv.Type) {
				return false
			}
		}
		return true
	}
	return false
}

// isQueryCall reports whether c passes the literal -1 in an lwork position.
func (f *fn) isQueryCall(c *ast.CallExpr) bool {
	fnobj, _ := typeutil.Callee(f.info, c).(*types.Func)
	if fnobj == nil {
		return false
	}
	sig := fnobj.Type().(*types.Signature)
	if sig.Params().Len() != len(c.Args) {
		return false
	}
	for i := 0; i < sig.Params().Len(); i++ {
		if sig.Params().At(i).Name() == "lwork" {
			if tv, ok := f.info.Types[c.Args[i]]; ok && tv.Value != nil {
				if v, ok := constant.Int64Val(tv.Value); ok && v == -1 {
					return true
				}
			}
		}
	}
	return false
}

// triState evaluates a condition under a given query mode: +1 true, -1
// false, 0 unknown. Only the lwork == -1 predicate family is interpreted.
func (f *fn) triState(e ast.Expr, query bool) int {
	b2i := func(b bool) int {
		if b {
			return 1
		}
		return -1
	}
	switch x := e.(type) {
	case *ast.ParenExpr:
		return f.triState(x.X, query)
	case *ast.UnaryExpr:
		if x.Op == token.NOT {
			return -f.triState(x.X, query)
		}
	case *ast.Ident:
		if o := core.ObjOf(f.info, x); o != nil && f.lquery[o] {
			return b2i(query)
		}
	case *ast.BinaryExpr:
		switch x.Op {
		case token.LAND:
			a, b := f.triState(x.X, query), f.triState(x.Y, query)
			if a == -1 || b == -1 {
				return -1
			}
			if a == 1 && b == 1 {
				return 1
			}
			return 0
		case token.LOR:
			a, b := f.triState(x.X, query), f.triState(x.Y, query)
			if a == 1 || b == 1 {
				return 1
			}
			if a == -1 && b == -1 {
				return -1
			}
			return 0
		case token.EQL, token.NEQ:
			if f.lwork == nil {
				return 0
			}
			isLwork := func(e ast.Expr) bool {
				id, ok := e.(*ast.Ident)
				return ok && core.ObjOf(f.info, id) == f.lwork
			}
			isM1 := func(e ast.Expr) bool {
				tv, ok := f.info.Types[e]
				if !ok || tv.Value == nil {
					return false
				}
				v, ok := constant.Int64Val(tv.Value)
				return ok && v == -1
			}
			if (isLwork(x.X) && isM1(x.Y)) || (isLwork(x.Y) && isM1(x.X)) {
				if x.Op == token.EQL {
					return b2i(query)
				}
				return b2i(!query)
			}
		}
	}
	return 0
}

// prepare computes aliases, dependency closures and lquery locals.
func (f *fn) prepare() {
	f.alias = map[types.Object]map[types.Object]bool{}
	f.deps = map[types.Object]map[types.Object]bool{}
	f.data = map[types.Object]token.Pos{}
	f.lquery = map[types.Object]bool{}
	paramSet := map[types.Object]bool{}
	for _, p := range f.params {
		paramSet[p] = true
	}
	assign := func(lhs ast.Expr, rhs ast.Expr) bool {
		id, ok := lhs.(*ast.Ident)
		if !ok || id.Name == "_" {
			return false
		}
		o := core.ObjOf(f.info, id)
		if o == nil || paramSet[o] && false {
			return false
		}
		changed := false
		taint := func() {
			if paramSet[o] {
				return
			}
			if p, ok := f.data[o]; !ok || lhs.Pos() < p {
				f.data[o] = lhs.Pos()
				changed = true
			}
		}
		if rhs == nil {
			// value from a multi-value call or range: data
			taint()
			return changed
		}
		if isSlice(o.Type()) && !f.slices[o] {
			for r := range f.roots(rhs) {
				if f.alias[o] == nil {
					f.alias[o] = map[types.Object]bool{}
				}
				if !f.alias[o][r] {
					f.alias[o][r] = true
					changed = true
				}
			}
		}
		d, isData := f.exprDeps(rhs)
		for p := range d {
			if f.deps[o] == nil {
				f.deps[o] = map[types.Object]bool{}
			}
			if !f.deps[o][p] {
				f.deps[o][p] = true
				changed = true
			}
		}
		if isData {
			taint()
		}
		return changed
	}
	// lquery := lwork == -1   (also `var lquery = lwork == -1`)
	ast.Inspect(f.fd.Body, func(n ast.Node) bool {
		if as, ok := n.(*ast.AssignStmt); ok && as.Tok == token.DEFINE && len(as.Lhs) == 1 && len(as.Rhs) == 1 {
			if id, ok := as.Lhs[0].(*ast.Ident); ok {
				if f.triState(as.Rhs[0], true) == 1 && f.triState(as.Rhs[0], false) == -1 {
					f.lquery[f.info.Defs[id]] = true
				}
			}
		}
		if vs, ok := n.(*ast.ValueSpec); ok && len(vs.Names) == len(vs.Values) {
			for i, id := range vs.Names {
				if f.triState(vs.Values[i], true) == 1 && f.triState(vs.Values[i], false) == -1 {
					if o := f.info.Defs[id]; o != nil {
						f.lquery[o] = true
					}
				}
			}
		}
		return true
	})
	for iter := 0; iter < 40; iter++ {
		changed := false
		ast.Inspect(f.fd.Body, func(n ast.Node) bool {
			switch s := n.(type) {
			case *ast.AssignStmt:
				for i := range s.Lhs {
					var r ast.Expr
					if len(s.Lhs) == len(s.Rhs) {
						r = s.Rhs[i]
					} else if len(s.Rhs) == 1 {
						// a, b := helper(…): every result of a pure scalar
						// call derives from the call's arguments
						if c, ok := s.Rhs[0].(*ast.CallExpr); ok && f.pureScalarCall(c) {
							r = c
						}
					}
					if assign(s.Lhs[i], r) {
						changed = true
					}
				}
			case *ast.ValueSpec:
				for i := range s.Names {
					var r ast.Expr
					if len(s.Names) == len(s.Values) {
						r = s.Values[i]
					} else if len(s.Values) == 0 {
						continue
					}
					if assign(s.Names[i], r) {
						changed = true
					}
				}
			case *ast.RangeStmt:
				if s.Key != nil {
					// the key of a range over a slice depends on its length only
					if id, ok := s.Key.(*ast.Ident); ok && id.Name != "_" {
						if o := core.ObjOf(f.info, id); o != nil {
							d, _ := f.exprDeps(s.X)
							for p := range d {
								if f.deps[o] == nil {
									f.deps[o] = map[types.Object]bool{}
								}
								if !f.deps[o][p] {
									f.deps[o][p] = true
									changed = true
								}
							}
						}
					}
				}
				if s.Value != nil {
					if assign(s.Value, nil) {
						changed = true
					}
				}
			}
			return true
		})
		if !changed {
			break
		}
	}
}

// exprDeps returns the parameters an expression's value derives from and
// whether it reads slice contents or results of non-pure calls.
func (f *fn) exprDeps(e ast.Expr) (map[types.Object]bool, bool) {
	deps := map[types.Object]bool{}
	data := false
	var walk func(e ast.Expr)
	walk = func(e ast.Expr) {
		switch x := e.(type) {
		case nil:
		case *ast.Ident:
			o := core.ObjOf(f.info, x)
			if o == nil {
				return
			}
			if v, ok := o.(*types.Var); ok {
				for _, p := range f.params {
					if p == v {
						deps[o] = true
					}
				}
			}
			for p := range f.deps[o] {
				deps[p] = true
			}
			if p, ok := f.data[o]; ok && p < x.Pos() {
				data = true
			}
		case *ast.ParenExpr:
			walk(x.X)
		case *ast.UnaryExpr:
			walk(x.X)
		case *ast.BinaryExpr:
			walk(x.X)
			walk(x.Y)
		case *ast.BasicLit:
		case *ast.SelectorExpr:
			// qualified constants (blas.NoTrans) or fields
			if _, ok := f.info.Uses[x.Sel].(*types.Const); ok {
				return
			}
			walk(x.X)
		case *ast.CallExpr:
			if f.isBuiltin(x, "len", "cap") {
				// length of a slice: depends on the parameter, not on contents
				for r := range f.roots(x.Args[0]) {
					deps[r] = true
				}
				if len(f.roots(x.Args[0])) == 0 {
					walk(x.Args[0])
				}
				return
			}
			if f.pureScalarCall(x) {
				for _, a := range x.Args {
					walk(a)
				}
				return
			}
			data = true
			for _, a := range x.Args {
				walk(a)
			}
		case *ast.IndexExpr:
			data = true
			walk(x.X)
			walk(x.Index)
		case *ast.SliceExpr:
			walk(x.X)
			walk(x.Low)
			walk(x.High)
			walk(x.Max)
		case *ast.StarExpr:
			data = true
			walk(x.X)
		default:
			data = true
		}
	}
	walk(e)
	return deps, data
}

// check is an argument-check panic site.
// A validation helper is an unexported function of the analysed package whose
// body only tests its arguments and panics with the package's errors.go
// constants: no stores, no copy, no calls other than len/cap/min/max/abs,
// conversions, panic and other validation helpers. A call to one is treated
// as the argument checks it contains: its arguments are validated there, a
// slice whose length it tests has passed a length branch, and (for
// ARGS.order) the call site is a check site. This keeps the rules stable
// when a prologue is moved into a helper.
type helperInfo struct {
	checked map[int]bool // parameter index occurs in a condition
	lens    map[int]bool // len(parameter) occurs in a condition
}

func validationHelpers(pkg *packages.Package, errs map[types.Object]bool) map[*types.Func]*helperInfo {
	info := pkg.TypesInfo
	cand := map[*types.Func]*ast.FuncDecl{}
	for _, file := range pkg.Syntax {
		for _, d := range file.Decls {
			fd, ok := d.(*ast.FuncDecl)
			if !ok || fd.Body == nil || fd.Name.IsExported() {
				continue
			}
			if fn, ok := info.Defs[fd.Name].(*types.Func); ok {
				cand[fn] = fd
			}
		}
	}
	out := map[*types.Func]*helperInfo{}
	// iterate so that helpers may call helpers
	for changed := true; changed; {
		changed = false
		for fn, fd := range cand {
			if out[fn] != nil {
				continue
			}
			pure, panics := true, false
			ast.Inspect(fd.Body, func(n ast.Node) bool {
				switch x := n.(type) {
				case *ast.AssignStmt:
					for _, l := range x.Lhs {
						if _, ok := l.(*ast.Ident); !ok {
							pure = false
						}
					}
				case *ast.IncDecStmt:
					if _, ok := x.X.(*ast.Ident); !ok {
						pure = false
					}
				case *ast.GoStmt, *ast.DeferStmt, *ast.FuncLit:
					pure = false
				case *ast.CallExpr:
					if tv, ok := info.Types[x.Fun]; ok && tv.IsType() {
						return true
					}
					switch f := x.Fun.(type) {
					case *ast.Ident:
						switch f.Name {
						case "len", "cap", "min", "max", "abs":
							return true
						case "panic":
							if len(x.Args) == 1 {
								if id, ok := x.Args[0].(*ast.Ident); ok && errs[core.ObjOf(info, id)] {
									panics = true
									return true
								}
							}
							pure = false
							return true
						}
						if callee, ok := core.ObjOf(info, f).(*types.Func); ok && out[callee] != nil {
							panics = true
							return true
						}
					}
					pure = false
				}
				return pure
			})
			if !pure || !panics {
				continue
			}
			hi := &helperInfo{checked: map[int]bool{}, lens: map[int]bool{}}
			idx := map[types.Object]int{}
			k := 0
			for _, fl := range fd.Type.Params.List {
				for _, nm := range fl.Names {
					idx[info.Defs[nm]] = k
					k++
				}
			}
			note := func(cond ast.Expr) {
				ast.Inspect(cond, func(n ast.Node) bool {
					switch x := n.(type) {
					case *ast.CallExpr:
						if id, ok := x.Fun.(*ast.Ident); ok && (id.Name == "len" || id.Name == "cap") && len(x.Args) == 1 {
							if aid, ok := x.Args[0].(*ast.Ident); ok {
								if i, ok := idx[core.ObjOf(info, aid)]; ok {
									hi.lens[i] = true
									hi.checked[i] = true
								}
							}
						}
					case *ast.Ident:
						if i, ok := idx[core.ObjOf(info, x)]; ok {
							hi.checked[i] = true
						}
					}
					return true
				})
			}
			ast.Inspect(fd.Body, func(n ast.Node) bool {
				switch x := n.(type) {
				case *ast.IfStmt:
					note(x.Cond)
				case *ast.CaseClause:
					for _, e := range x.List {
						note(e)
					}
				case *ast.SwitchStmt:
					if x.Tag != nil {
						note(x.Tag)
					}
				case *ast.CallExpr:
					// arguments handed on to a nested helper
					if f, ok := x.Fun.(*ast.Ident); ok {
						if callee, ok := core.ObjOf(info, f).(*types.Func); ok && out[callee] != nil {
							for ai, a := range x.Args {
								if out[callee].checked[ai] {
									note(a)
								}
								if out[callee].lens[ai] {
									if aid, ok := a.(*ast.Ident); ok {
										if i, ok := idx[core.ObjOf(info, aid)]; ok {
											hi.lens[i] = true
										}
									}
								}
							}
						}
					}
				}
				return true
			})
			out[fn] = hi
			changed = true
		}
	}
	return out
}

// helperCall resolves a call to a validation helper.
func (f *fn) helperCall(c *ast.CallExpr) *helperInfo {
	if f.helpers == nil {
		return nil
	}
	callee, _ := typeutil.Callee(f.info, c).(*types.Func)
	if callee == nil {
		return nil
	}
	return f.helpers[callee]
}

type check struct {
	call   *ast.CallExpr
	cname  string
	conds  []ast.Expr
	data   bool // some controlling condition reads data: not an argument check
	deps   map[types.Object]bool
	inLoop bool
}

func (f *fn) checks() []*check {
	var out []*check
	ast.Inspect(f.fd.Body, func(n ast.Node) bool {
		c, ok := n.(*ast.CallExpr)
		if ok {
			if hi := f.helperCall(c); hi != nil {
				ck := &check{call: c, cname: types.ExprString(c.Fun), deps: map[types.Object]bool{}}
				for i, a := range c.Args {
					if !hi.checked[i] {
						continue
					}
					d, _ := f.exprDeps(a)
					for p := range d {
						ck.deps[p] = true
					}
					for r := range f.roots(a) {
						ck.deps[r] = true
					}
				}
				// conditions the call itself is nested under
				var child ast.Node = c
				for p := f.par[c]; p != nil && p != f.fd.Body; child, p = p, f.par[p] {
					if s, ok := p.(*ast.IfStmt); ok && (child == s.Body || child == s.Else) {
						ck.conds = append(ck.conds, s.Cond)
						if _, isData := f.exprDeps(s.Cond); isData {
							ck.data = true
						}
					}
				}
				out = append(out, ck)
				return true
			}
		}
		if !ok || !cfgx.IsPanic(f.info, c) || len(c.Args) != 1 {
			return true
		}
		id, ok := c.Args[0].(*ast.Ident)
		if !ok {
			return true
		}
		o := core.ObjOf(f.info, id)
		if !f.errs[o] {
			return true
		}
		ck := &check{call: c, cname: id.Name, deps: map[types.Object]bool{}}
		// controlling conditions by syntactic nesting
		var child ast.Node = c
		for p := f.par[c]; p != nil && p != f.fd.Body; child, p = p, f.par[p] {
			switch s := p.(type) {
			case *ast.IfStmt:
				if child == s.Body || child == s.Else {
					ck.conds = append(ck.conds, s.Cond)
				}
			case *ast.CaseClause:
				sw, _ := f.par[f.par[s]].(*ast.SwitchStmt)
				if sw == nil {
					break
				}
				if sw.Tag != nil {
					ck.conds = append(ck.conds, sw.Tag)
				}
				// every clause up to and including this one (or all, for default)
				for _, cl := range sw.Body.List {
					cc := cl.(*ast.CaseClause)
					ck.conds = append(ck.conds, cc.List...)
					if cc == s && s.List != nil {
						break
					}
				}
			case *ast.ForStmt:
				ck.inLoop = true
				if s.Cond != nil {
					ck.conds = append(ck.conds, s.Cond)
				}
			case *ast.RangeStmt:
				ck.inLoop = true
				ck.conds = append(ck.conds, s.X)
			case *ast.FuncLit:
				ck.data = true
			}
		}
		for _, cond := range ck.conds {
			d, isData := f.exprDeps(cond)
			if isData {
				ck.data = true
			}
			for p := range d {
				ck.deps[p] = true
			}
		}
		out = append(out, ck)
		return true
	})
	return out
}

// writeSite is a node that may modify an operand.
type writeSite struct {
	node  ast.Node
	param types.Object
	what  string
}

func (f *fn) writeSites(includeWork bool) []writeSite {
	var out []writeSite
	add := func(n ast.Node, e ast.Expr, what string) {
		for r := range f.roots(e) {
			if f.work[r] && !includeWork {
				continue
			}
			out = append(out, writeSite{n, r, what})
		}
	}
	lhsBase := func(e ast.Expr) ast.Expr {
		if ix, ok := e.(*ast.IndexExpr); ok {
			return ix.X
		}
		return nil
	}
	ast.Inspect(f.fd.Body, func(n ast.Node) bool {
		switch s := n.(type) {
		case *ast.AssignStmt:
			for _, l := range s.Lhs {
				if b := lhsBase(l); b != nil {
					add(s, b, "store")
				}
			}
		case *ast.IncDecStmt:
			if b := lhsBase(s.X); b != nil {
				add(s, b, "store")
			}
		case *ast.CallExpr:
			if f.isBuiltin(s, "copy") {
				add(s, s.Args[0], "copy")
				return true
			}
			if f.isBuiltin(s, "len", "cap", "panic", "append", "min", "max") || f.isConversion(s) {
				return true
			}
			if f.isQueryCall(s) || f.helperCall(s) != nil {
				return true
			}
			for _, a := range s.Args {
				if tv, ok := f.info.Types[a]; ok && isSlice(tv.Type) {
					if f.calleeMayWrite(s, a) {
						add(s, a, "call "+types.ExprString(s.Fun))
					}
				}
			}
		}
		return true
	})
	return out
}

// readOnlyCallees lists routines (by method/function name) that never
// modify any slice argument. Confirmed by reading; used only to avoid
// treating norm/index/dot computations as operand writes.
var readOnlyCallees = map[string]bool{
	"Dlange": true, "Dlansy": true, "Dlantr": true, "Dlanst": true, "Dlansb": true, "Dlantb": true, "Dlangt": true, "Dlangb": true, "Dlanhs": true,
	"Idamax": true, "Isamax": true, "Izamax": true, "Icamax": true,
	"Dnrm2": true, "Snrm2": true, "Dznrm2": true, "Scnrm2": true,
	"Dasum": true, "Sasum": true, "Dzasum": true, "Scasum": true,
	"Ddot": true, "Sdot": true, "Dsdot": true, "Sdsdot": true, "Zdotu": true, "Zdotc": true, "Cdotu": true, "Cdotc": true,
	"Dlassq": true, "Dlapy2": true, "Iladlc": true, "Iladlr": true,
	"DotUnitary": true, "DotInc": true, "L2NormUnitary": true, "L2NormInc": true, "L2DistanceUnitary": true,
	"DotuUnitary": true, "DotcUnitary": true, "DotuInc": true, "DotcInc": true, "DdotUnitary": true, "DdotInc": true,
	"Sum": true, "L1Norm": true, "L1NormInc": true, "LinfNorm": true,
}

func (f *fn) calleeMayWrite(c *ast.CallExpr, arg ast.Expr) bool {
	var name string
	switch fun := c.Fun.(type) {
	case *ast.Ident:
		name = fun.Name
	case *ast.SelectorExpr:
		name = fun.Sel.Name
	}
	return !readOnlyCallees[name]
}

// useSites returns the nodes where slice parameter p's elements may be
// touched: indexing, slicing, ranging, passing on.
type useSite struct {
	node  ast.Node
	param types.Object
	what  string
}

func (f *fn) useSites() []useSite {
	var out []useSite
	add := func(n ast.Node, e ast.Expr, what string) {
		for r := range f.roots(e) {
			out = append(out, useSite{n, r, what})
		}
	}
	ast.Inspect(f.fd.Body, func(n ast.Node) bool {
		switch s := n.(type) {
		case *ast.IndexExpr:
			add(s, s.X, "index")
		case *ast.SliceExpr:
			add(s, s.X, "slice")
		case *ast.RangeStmt:
			add(s.X, s.X, "range")
		case *ast.CallExpr:
			if f.isBuiltin(s, "len", "cap", "panic") || f.isConversion(s) || f.isQueryCall(s) {
				if f.isBuiltin(s, "len", "cap") {
					return false
				}
				return true
			}
			if f.delegatesValidation(s) || f.helperCall(s) != nil {
				// The whole slice handed to a routine that is itself
				// subject to ARGS.lencheck (or to a validation helper):
				// validation is delegated.
				return true
			}
			for _, a := range s.Args {
				if id, ok := a.(*ast.Ident); ok {
					if tv, ok := f.info.Types[a]; ok && isSlice(tv.Type) {
						add(a, id, "pass to "+types.ExprString(s.Fun))
					}
				}
			}
		}
		return true
	})
	return out
}

// delegatesValidation reports whether the callee is an exported method of
// a BLAS/LAPACK Implementation (directly or through the blas interfaces),
// i.e. a routine whose own prologue is checked by this engine.
func (f *fn) delegatesValidation(c *ast.CallExpr) bool {
	fnobj, _ := typeutil.Callee(f.info, c).(*types.Func)
	if fnobj == nil || !fnobj.Exported() {
		return false
	}
	sig := fnobj.Type().(*types.Signature)
	if sig.Recv() == nil {
		return false
	}
	t := sig.Recv().Type()
	if p, ok := t.(*types.Pointer); ok {
		t = p.Elem()
	}
	n, ok := t.(*types.Named)
	if !ok || n.Obj().Pkg() == nil {
		return false
	}
	path := n.Obj().Pkg().Path()
	switch {
	case n.Obj().Name() == "Implementation" && (strings.HasSuffix(path, "lapack/gonum") || strings.HasSuffix(path, "blas/gonum")):
		return true
	case strings.HasSuffix(path, "/blas"):
		_, isIface := n.Underlying().(*types.Interface)
		return isIface
	}
	return false
}

func (f *fn) mentionsLen(e ast.Expr, p types.Object) bool {
	found := false
	ast.Inspect(e, func(n ast.Node) bool {
		if c, ok := n.(*ast.CallExpr); ok && f.isBuiltin(c, "len", "cap") {
			if f.roots(c.Args[0])[p] {
				found = true
			}
		}
		if id, ok := n.(*ast.Ident); ok {
			// nil comparison / a local holding len(p)
			_ = id
		}
		return !found
	})
	return found
}

// Run analyses exported methods of opts.RecvType in the scope.
func Run(cfg core.Config, scope core.Scope, opts Options) *core.Result {
	res := core.NewResult("ARGS")
	res.Rules = append(res.Rules,
		"ARGS.order: no argument check (panic with an errors.go constant whose conditions read only scalars and slice lengths) is reachable from an operand write",
		"ARGS.lencheck: every use of a slice parameter is dominated by a branch whose condition mentions its length",
		"ARGS.query: in lwork == -1 mode the only stores are to work[0]/iwork[0] and the only calls are queries or scalar helpers",
		"ARGS.optional: an operand validated only under a boolean flag (it may be nil otherwise) is used only under that flag",
		"ARGS.complete: every int, flag and slice parameter occurs in the controlling condition of at least one argument check")
	res.Configs = append(res.Configs, cfg.String())
	pkgs, err := core.Load(cfg, scope.Patterns...)
	if err != nil {
		res.Brokenf("%v", err)
		return res
	}
	usedExempt := map[string]bool{}
	for _, pkg := range pkgs {
		errs := errorsObjects(pkg)
		if len(errs) == 0 {
			res.Brokenf("%s: no errors.go declarations found", pkg.PkgPath)
			continue
		}
		res.Count("error_constants", len(errs))
		for _, file := range pkg.Syntax {
			if !scope.InFile(file.Pos()) {
				continue
			}
			for _, d := range file.Decls {
				fd, ok := d.(*ast.FuncDecl)
				if !ok || fd.Body == nil || fd.Recv == nil || !fd.Name.IsExported() {
					continue
				}
				if !strings.HasSuffix(core.FuncName(pkg, fd), "."+opts.RecvType+"."+fd.Name.Name) {
					continue
				}
				analyse(res, pkg, fd, errs, &opts, usedExempt)
			}
		}
	}
	if scope.Files == nil {
		for k := range opts.CompleteExempt {
			if !usedExempt["c:"+k] {
				res.Stale("stale exemption ARGS.complete %s: no longer needed or function gone", k)
			}
		}
		for k := range opts.OptionalExempt {
			if !usedExempt["o:"+k] {
				res.Stale("stale exemption ARGS.optional %s", k)
			}
		}
		for k := range opts.Unchecked {
			if !usedExempt["u:"+k] {
				res.Stale("stale exemption Unchecked %s: function gone", k)
			}
		}
		for k := range opts.LenExempt {
			if !usedExempt["l:"+k] {
				res.Stale("stale exemption ARGS.lencheck %s: no longer needed or function gone", k)
			}
		}
	}
	return res
}

var helperCache = map[*packages.Package]map[*types.Func]*helperInfo{}

func helpersOf(pkg *packages.Package, errs map[types.Object]bool) map[*types.Func]*helperInfo {
	if h, ok := helperCache[pkg]; ok {
		return h
	}
	h := validationHelpers(pkg, errs)
	helperCache[pkg] = h
	return h
}

func analyse(res *core.Result, pkg *packages.Package, fd *ast.FuncDecl, errs map[types.Object]bool, opts *Options, usedExempt map[string]bool) {
	f := &fn{pkg: pkg, info: pkg.TypesInfo, fd: fd, name: core.FuncName(pkg, fd), short: fd.Name.Name, res: res, opts: opts,
		slices: map[types.Object]bool{}, work: map[types.Object]bool{}, errs: errs, helpers: helpersOf(pkg, errs)}
	obj := pkg.TypesInfo.Defs[fd.Name].(*types.Func)
	sig := obj.Type().(*types.Signature)
	for i := 0; i < sig.Params().Len(); i++ {
		p := sig.Params().At(i)
		f.params = append(f.params, p)
		if isSlice(p.Type()) {
			f.slices[p] = true
			if isWorkName(p.Name()) {
				f.work[p] = true
			}
		}
		if p.Name() == "lwork" {
			f.lwork = p
		}
	}
	if _, ok := opts.Unchecked[f.short]; ok {
		usedExempt["u:"+f.short] = true
		res.Count("routines_documented_unchecked", 1)
		return
	}
	f.par = cfgx.Parents(fd.Body)
	f.prepare()
	f.g = cfgx.New(fd.Body, f.info)
	res.Count("entry_points", 1)

	cks := f.checks()
	var argChecks []*check
	for _, c := range cks {
		if c.data {
			res.Count("data_checks_out_of_scope", 1)
			if os.Getenv("ARGS_DEBUG") != "" {
				fmt.Println("DATA-CHECK", f.name, c.cname, core.Pos(c.call.Pos()))
			}
		} else {
			argChecks = append(argChecks, c)
		}
	}
	res.Count("argument_checks", len(argChecks))

	modes := []struct {
		name  string
		query bool
	}{{"", false}}
	if f.lwork != nil {
		modes = []struct {
			name  string
			query bool
		}{{"compute", false}, {"query", true}}
		res.Count("lwork_routines", 1)
	}
	writes := f.writeSites(false)
	uses := f.useSites()
	flaggedOrder := map[string]bool{}
	flaggedLen := map[string]bool{}
	for _, mode := range modes {
		query := mode.query
		f.g.Keep = func(b *cfg.Block, i int) bool {
			c := cfgx.Cond(b)
			if c == nil || f.lwork == nil {
				return true
			}
			t := f.triState(c, query)
			if t == 1 {
				return i == 0
			}
			if t == -1 {
				return i == 1
			}
			return true
		}
		reach := f.g.Reachable()

		// ---- ARGS.order
		after := make([]bool, len(f.g.Blocks)) // blocks reachable after some write
		type firstWrite struct {
			w writeSite
		}
		var origin = map[int32]writeSite{}
		for _, w := range writes {
			loc, ok := f.g.Where[w.node]
			if !ok || !reach[loc.Block] {
				continue
			}
			res.Count("operand_write_sites", 1)
			fr := f.g.From(f.g.Blocks[loc.Block])
			for i, v := range fr {
				if v && !after[i] {
					after[i] = true
					origin[int32(i)] = w
				}
			}
		}
		for _, c := range argChecks {
			loc, ok := f.g.Where[c.call]
			if !ok {
				continue
			}
			if !reach[loc.Block] {
				continue
			}
			res.Obligations++
			if w := origin[loc.Block]; after[loc.Block] && !flaggedOrder[w.param.Name()] {
				flaggedOrder[w.param.Name()] = true
				res.Add(core.Finding{
					Rule: "ARGS.order",
					Key:  fmt.Sprintf("ARGS.order|%s|%s", f.name, w.param.Name()),
					Pos:  core.Pos(c.call.Pos()), Func: f.name,
					Msg: fmt.Sprintf("argument check panic(%s) is reachable after operand %q may already have been modified (%s at %s)%s",
						c.cname, w.param.Name(), w.what, core.Pos(w.node.Pos()), modeSuffix(mode.name)),
					Path: []string{"write: " + core.Pos(w.node.Pos()), "check: " + core.Pos(c.call.Pos())},
				})
			}
		}

		// ---- ARGS.lencheck
		checked := map[types.Object][]bool{}
		for p := range f.slices {
			p := p
			checked[p] = f.g.MustPass(func(b *cfg.Block) bool {
				c := cfgx.Cond(b)
				if c != nil && f.mentionsLen(c, p) {
					return true
				}
				// a validation helper that tests len of the argument rooted at p
				for _, n := range b.Nodes {
					found := false
					ast.Inspect(n, func(x ast.Node) bool {
						if call, ok := x.(*ast.CallExpr); ok {
							if hi := f.helperCall(call); hi != nil {
								for i, a := range call.Args {
									if hi.lens[i] && f.roots(a)[p] {
										found = true
									}
								}
							}
						}
						return !found
					})
					if found {
						return true
					}
				}
				return false
			})
		}
		for _, u := range uses {
			loc, ok := f.g.Where[u.node]
			if !ok || !reach[loc.Block] {
				continue
			}
			res.Obligations++
			res.Count("slice_use_sites", 1)
			okDom := checked[u.param][loc.Block]
			if okDom {
				continue
			}
			key := f.short + "." + u.param.Name()
			if _, ok := opts.LenExempt[key]; ok {
				usedExempt["l:"+key] = true
				res.Count("lencheck_exempt_by_table", 1)
				continue
			}
			if flaggedLen[key] {
				continue
			}
			flaggedLen[key] = true
			res.Add(core.Finding{
				Rule: "ARGS.lencheck",
				Key:  fmt.Sprintf("ARGS.lencheck|%s|%s", f.name, u.param.Name()),
				Pos:  core.Pos(u.node.Pos()), Func: f.name,
				Msg: fmt.Sprintf("slice parameter %q is used (%s) on a path where no branch on len(%s) has been passed%s",
					u.param.Name(), u.what, u.param.Name(), modeSuffix(mode.name)),
			})
		}

		// ---- ARGS.query
		if query {
			f.checkQuery(reach)
		}
	}

	// ---- ARGS.optional
	f.checkOptional(argChecks, uses, usedExempt)

	// ---- ARGS.complete (weak form)
	covered := map[types.Object]bool{}
	for _, c := range argChecks {
		for p := range c.deps {
			covered[p] = true
		}
	}
	for _, p := range f.params {
		if !f.needsCheck(p) {
			continue
		}
		res.Obligations++
		res.Count("parameters_needing_a_check", 1)
		if covered[p] {
			continue
		}
		key := f.short + "." + p.Name()
		if _, ok := opts.CompleteExempt[key]; ok {
			usedExempt["c:"+key] = true
			res.Count("complete_exempt_by_table", 1)
			continue
		}
		res.Add(core.Finding{
			Rule: "ARGS.complete",
			Key:  fmt.Sprintf("ARGS.complete|%s|%s", f.name, p.Name()),
			Pos:  core.Pos(fd.Pos()), Func: f.name,
			Msg: fmt.Sprintf("parameter %q (%s) does not occur in the condition of any argument check", p.Name(), p.Type()),
		})
	}
	if len(res.Samples) < 6 {
		res.Sample(map[string]any{"rule": "ARGS", "func": f.name, "argument_checks": len(argChecks), "operand_write_sites": len(writes), "slice_use_sites": len(uses), "modes": len(modes)})
	}
}

func modeSuffix(m string) string {
	if m == "" {
		return ""
	}
	return " [mode lwork " + map[string]string{"query": "== -1", "compute": "!= -1"}[m] + "]"
}

// needsCheck: ints, named flag types from blas/lapack, and slices.
func (f *fn) needsCheck(p *types.Var) bool {
	if p.Name() == "_" || p.Name() == "" {
		return false
	}
	t := p.Type()
	if isSlice(t) {
		return true
	}
	if n, ok := t.(*types.Named); ok {
		if pk := n.Obj().Pkg(); pk != nil && (strings.HasSuffix(pk.Path(), "/blas") || strings.HasSuffix(pk.Path(), "/lapack")) {
			_, isBasic := n.Underlying().(*types.Basic)
			return isBasic
		}
		return false
	}
	if b, ok := t.(*types.Basic); ok {
		return b.Kind() == types.Int
	}
	return false
}

// checkQuery: in query mode nothing but work[0]/iwork[0] is stored and only
// query calls / scalar helpers are called.
func (f *fn) checkQuery(reach []bool) {
	isZero := func(e ast.Expr) bool {
		tv, ok := f.info.Types[e]
		if !ok || tv.Value == nil {
			return false
		}
		v, ok := constant.Int64Val(tv.Value)
		return ok && v == 0
	}
	flag := func(n ast.Node, what string) {
		f.res.Add(core.Finding{
			Rule: "ARGS.query",
			Key:  fmt.Sprintf("ARGS.query|%s|%s", f.name, what),
			Pos:  core.Pos(n.Pos()), Func: f.name,
			Msg: fmt.Sprintf("workspace query (lwork == -1) path %s; a query must touch nothing but work[0]", what),
		})
	}
	for _, w := range f.writeSites(true) {
		loc, ok := f.g.Where[w.node]
		if !ok || !reach[loc.Block] {
			continue
		}
		f.res.Obligations++
		f.res.Count("query_mode_effects", 1)
		switch s := w.node.(type) {
		case *ast.AssignStmt:
			okAll := true
			for _, l := range s.Lhs {
				ix, isIx := l.(*ast.IndexExpr)
				if !isIx {
					continue
				}
				if !(f.work[w.param] && isZero(ix.Index)) {
					okAll = false
				}
			}
			if !okAll {
				flag(s, "stores to "+w.param.Name())
			}
		case *ast.CallExpr:
			if f.work[w.param] {
				// passing the workspace to a non-query callee in query mode
				flag(s, "passes "+w.param.Name()+" to non-query call "+types.ExprString(s.Fun))
			} else {
				flag(s, "passes operand "+w.param.Name()+" to "+types.ExprString(s.Fun))
			}
		default:
			flag(w.node, "modifies "+w.param.Name())
		}
	}
}

var _ = sort.Strings

// checkOptional: a slice parameter whose every length check is guarded by
// the same boolean conjunct G (e.g. `wantv && len(v) < ...`) is optional
// under G: it may be nil when G is false, so every element access or
// hand-over of it must itself be nested under a condition that has G as a
// conjunct.
func (f *fn) checkOptional(checks []*check, uses []useSite, usedExempt map[string]bool) {
	conjuncts := func(e ast.Expr) []ast.Expr {
		var out []ast.Expr
		var walk func(e ast.Expr)
		walk = func(e ast.Expr) {
			switch x := e.(type) {
			case *ast.ParenExpr:
				walk(x.X)
			case *ast.BinaryExpr:
				if x.Op == token.LAND {
					walk(x.X)
					walk(x.Y)
					return
				}
				out = append(out, e)
			default:
				out = append(out, e)
			}
		}
		walk(e)
		return out
	}
	isBoolFlag := func(e ast.Expr) bool {
		switch x := e.(type) {
		case *ast.Ident:
			tv, ok := f.info.Types[e]
			if !ok {
				return false
			}
			b, ok := tv.Type.Underlying().(*types.Basic)
			return ok && b.Kind() == types.Bool
		case *ast.UnaryExpr:
			if x.Op == token.NOT {
				_, ok := x.X.(*ast.Ident)
				return ok
			}
		}
		return false
	}
	// canon gives the canonical name of a guard: a boolean flag is itself;
	// a count compared with zero (ncc != 0, ncc > 0, 0 < ncc) is "ncc!=0".
	canon := func(e ast.Expr) string {
		e = ast.Unparen(e)
		if isBoolFlag(e) {
			return types.ExprString(e)
		}
		be, ok := e.(*ast.BinaryExpr)
		if !ok {
			return ""
		}
		isZero := func(x ast.Expr) bool {
			tv, ok := f.info.Types[x]
			return ok && tv.Value != nil && tv.Value.ExactString() == "0"
		}
		intIdent := func(x ast.Expr) string {
			id, ok := ast.Unparen(x).(*ast.Ident)
			if !ok {
				return ""
			}
			tv, ok := f.info.Types[id]
			if !ok {
				return ""
			}
			if b, ok := tv.Type.Underlying().(*types.Basic); ok && b.Info()&types.IsInteger != 0 {
				return id.Name
			}
			return ""
		}
		switch {
		case (be.Op == token.NEQ || be.Op == token.GTR) && isZero(be.Y) && intIdent(be.X) != "":
			return intIdent(be.X) + "!=0"
		case (be.Op == token.NEQ || be.Op == token.LSS) && isZero(be.X) && intIdent(be.Y) != "":
			return intIdent(be.Y) + "!=0"
		}
		return ""
	}
	guards := map[types.Object]map[string]int{}
	guardExpr := map[types.Object]map[string]ast.Expr{}
	nchecks := map[types.Object]int{}
	var fe *flagx.FlagEnv
	for _, c := range checks {
		// the innermost condition is the one that names the parameter
		if len(c.conds) == 0 {
			continue
		}
		for _, cond := range c.conds {
			for p := range f.slices {
				if !f.mentionsLen(cond, p) {
					continue
				}
				// top-level disjuncts: `ldu < 1, wantu && ldu < m` style lists are separate conds already
				cj := conjuncts(cond)
				var flags []string
				lenConj := false
				for _, x := range cj {
					if f.mentionsLen(x, p) {
						lenConj = true
					} else if g := canon(x); g != "" {
						flags = append(flags, g)
					}
				}
				if !lenConj {
					continue
				}
				nchecks[p]++
				if guards[p] == nil {
					guards[p] = map[string]int{}
				}
				for _, fl := range flags {
					guards[p][fl]++
				}
				for _, x := range cj {
					if g := canon(x); g != "" && !f.mentionsLen(x, p) {
						if guardExpr[p] == nil {
							guardExpr[p] = map[string]ast.Expr{}
						}
						guardExpr[p][g] = x
					}
				}
			}
		}
	}
	for p, gs := range guards {
		var G string
		for fl, n := range gs {
			if n == nchecks[p] {
				G = fl
			}
		}
		if G == "" {
			continue
		}
		f.res.Count("optional_operands", 1)
		if _, ok := f.opts.OptionalExempt[f.short+"."+p.Name()]; ok {
			usedExempt["o:"+f.short+"."+p.Name()] = true
			f.res.Count("optional_exempt_by_table", 1)
			continue
		}
		flagged := false
		for _, u := range uses {
			if u.param != p || flagged {
				continue
			}
			f.res.Obligations++
			f.res.Count("optional_operand_uses", 1)
			ok := false
			var child ast.Node = u.node
			for par := f.par[u.node]; par != nil && !ok; child, par = par, f.par[par] {
				switch s := par.(type) {
				case *ast.IfStmt:
					if child == s.Body {
						for _, x := range conjuncts(s.Cond) {
							if canon(x) == G {
								ok = true
							}
						}
					}
				case *ast.CaseClause:
					for _, ce := range s.List {
						for _, x := range conjuncts(ce) {
							if canon(x) == G {
								ok = true
							}
						}
					}
				case *ast.ForStmt:
					// the body of `for j := 0; j < cnt; j++` runs only when
					// cnt > 0: it is guarded by the flag "cnt!=0"
					if child == ast.Node(s.Body) && strings.HasSuffix(G, "!=0") {
						if c, isBin := s.Cond.(*ast.BinaryExpr); isBin && c.Op == token.LSS {
							if id, isID := ast.Unparen(c.Y).(*ast.Ident); isID && id.Name+"!=0" == G {
								if init, isAs := s.Init.(*ast.AssignStmt); isAs && len(init.Rhs) == 1 {
									if tv, has := f.info.Types[init.Rhs[0]]; has && tv.Value != nil && tv.Value.ExactString() == "0" {
										ok = true
										f.res.Count("optional_operand_uses_inside_a_loop_over_the_count", 1)
									}
								}
							}
						}
					}
				}
			}
			if !ok && strings.HasPrefix(u.what, "pass to ") {
				// handing the operand, whole, to an unexported helper of the
				// same package splits the routine, it does not use the
				// operand here
				var c *ast.CallExpr
				for n := f.par[u.node]; n != nil && c == nil; n = f.par[n] {
					c, _ = n.(*ast.CallExpr)
				}
				if c != nil {
					if fn, _ := typeutil.Callee(f.info, c).(*types.Func); fn != nil && !fn.Exported() && fn.Pkg() == f.pkg.Types {
						ok = true
						f.res.Count("optional_operands_handed_to_unexported_helpers", 1)
					}
				}
			}
			if !ok {
				// the flag may be tested in another form (a boolean derived
				// from the same comparison): decide on the control-flow graph
				// that the use is unreachable when the guard is false
				if ge := guardExpr[p][G]; ge != nil {
					if fe == nil {
						fe = flagx.NewFlagEnv(f.info, f.fd)
					}
					if r, decided := fe.ReachableWhenAllFalse([]ast.Expr{ge}, []ast.Node{u.node}); decided && len(r) == 0 {
						ok = true
						f.res.Count("optional_operand_uses_decided_on_the_cfg", 1)
					}
				}
			}
			if ok {
				continue
			}
			flagged = true
			f.res.Add(core.Finding{
				Rule: "ARGS.optional",
				Key:  fmt.Sprintf("ARGS.optional|%s|%s", f.name, p.Name()),
				Pos:  core.Pos(u.node.Pos()), Func: f.name,
				Msg: fmt.Sprintf("operand %q is only validated when %s holds (it may be nil otherwise) but is used (%s) outside any branch on %s", p.Name(), G, u.what, G),
			})
		}
	}
}
