package loopidx

import (
	"fmt"
	"go/ast"
	"go/token"
	"go/types"

	"gverif/core"
)

// RunContinueSkip implements LOOPIDX.continue: where the body of a counting
// loop ends with induction bookkeeping for a variable declared outside the
// loop (`ix += incX`, `offset += n - i`, `kk += i + 1` as one of the last
// top-level statements of the body), a `continue` of that loop skips the
// bookkeeping unless the same variable was advanced on the way to it. A
// zero-skip shortcut (`if xi == 0 && yi == 0 { continue }`) added above
// leaves the running offset of the packed or strided operand one row behind
// for every later iteration.
func RunContinueSkip(conf core.Config, scope core.Scope) *core.Result {
	res := core.NewResult("CONTSKIP")
	res.Rules = append(res.Rules, "LOOPIDX.continue: no continue statement of a loop bypasses the trailing induction update (v += e, v -= e, v++ as a final top-level statement of the body) of an integer storage offset (non-constant step, used in an index or slice bound) declared outside the loop, unless the statement list leading to the continue updates that variable itself")
	res.Configs = append(res.Configs, conf.String())
	pkgs, err := core.Load(conf, scope.Patterns...)
	if err != nil {
		res.Brokenf("%v", err)
		return res
	}
	for _, pkg := range pkgs {
		info := pkg.TypesInfo
		for _, f := range pkg.Syntax {
			if !scope.InFile(f.Pos()) {
				continue
			}
			for _, d := range f.Decls {
				fd, ok := d.(*ast.FuncDecl)
				if !ok || fd.Body == nil {
					continue
				}
				name := core.FuncName(pkg, fd)
				updated := func(s ast.Stmt) types.Object {
					switch x := s.(type) {
					case *ast.AssignStmt:
						if (x.Tok == token.ADD_ASSIGN || x.Tok == token.SUB_ASSIGN) && len(x.Lhs) == 1 {
							if id, ok := x.Lhs[0].(*ast.Ident); ok {
								return core.ObjOf(info, id)
							}
						}
					case *ast.IncDecStmt:
						if id, ok := x.X.(*ast.Ident); ok {
							return core.ObjOf(info, id)
						}
					}
					return nil
				}
				ast.Inspect(fd.Body, func(n ast.Node) bool {
					var body *ast.BlockStmt
					var loop ast.Stmt
					switch s := n.(type) {
					case *ast.ForStmt:
						body, loop = s.Body, s
					case *ast.RangeStmt:
						body, loop = s.Body, s
					default:
						return true
					}
					// trailing induction updates
					trailing := map[types.Object]ast.Stmt{}
					for i := len(body.List) - 1; i >= 0; i-- {
						o := updated(body.List[i])
						if o == nil {
							break
						}
						v, ok := o.(*types.Var)
						if !ok || (v.Pos() >= loop.Pos() && v.Pos() < loop.End()) {
							continue
						}
						// a storage offset: an integer advanced by a non-constant
						// step (an increment, a leading dimension, a row length
						// that depends on the loop variable) and used in an index
						// or slice bound inside the body; counters (n++) and
						// floating-point accumulators are something else
						if b, isBasic := v.Type().Underlying().(*types.Basic); !isBasic || b.Info()&types.IsInteger == 0 {
							continue
						}
						as, isAssign := body.List[i].(*ast.AssignStmt)
						if !isAssign {
							continue
						}
						if tv, ok := info.Types[as.Rhs[0]]; ok && tv.Value != nil {
							continue
						}
						indexed := false
						ast.Inspect(body, func(k ast.Node) bool {
							var idx []ast.Expr
							switch x := k.(type) {
							case *ast.IndexExpr:
								idx = []ast.Expr{x.Index}
							case *ast.SliceExpr:
								idx = []ast.Expr{x.Low, x.High}
							}
							for _, e := range idx {
								if e == nil {
									continue
								}
								ast.Inspect(e, func(m ast.Node) bool {
									if id, ok := m.(*ast.Ident); ok && core.ObjOf(info, id) == o {
										indexed = true
									}
									return true
								})
							}
							return !indexed
						})
						if indexed {
							trailing[o] = body.List[i]
						}
					}
					if len(trailing) == 0 {
						return true
					}
					res.Count("loops_with_trailing_induction_updates", 1)
					// continue statements of this loop with the statement lists leading to them
					var walk func(list []ast.Stmt, advanced map[types.Object]bool)
					walk = func(list []ast.Stmt, advanced map[types.Object]bool) {
						adv := map[types.Object]bool{}
						for o := range advanced {
							adv[o] = true
						}
						for _, s := range list {
							if o := updated(s); o != nil {
								adv[o] = true
							}
							switch x := s.(type) {
							case *ast.BranchStmt:
								if x.Tok == token.CONTINUE && x.Label == nil {
									for o, upd := range trailing {
										res.Obligations++
										res.Count("continue_statements_against_trailing_updates", 1)
										if !adv[o] {
											res.Add(core.Finding{Rule: "LOOPIDX.continue", Key: fmt.Sprintf("LOOPIDX.continue|%s|%s", name, o.Name()), Pos: core.Pos(x.Pos()), Func: name,
												Msg: fmt.Sprintf("%s: this continue skips the induction update %s at %s, so %s lags behind for every later iteration", name, stmtText(upd), core.Pos(upd.Pos()), o.Name())})
										}
									}
								}
							case *ast.IfStmt:
								walk(x.Body.List, adv)
								for e := x.Else; e != nil; {
									switch y := e.(type) {
									case *ast.BlockStmt:
										walk(y.List, adv)
										e = nil
									case *ast.IfStmt:
										walk(y.Body.List, adv)
										e = y.Else
									default:
										e = nil
									}
								}
							case *ast.BlockStmt:
								walk(x.List, adv)
							case *ast.SwitchStmt:
								for _, c := range x.Body.List {
									walk(c.(*ast.CaseClause).Body, adv)
								}
							}
						}
					}
					walk(body.List, nil)
					return true
				})
			}
		}
	}
	return res
}

func stmtText(s ast.Stmt) string {
	switch x := s.(type) {
	case *ast.AssignStmt:
		return types.ExprString(x.Lhs[0]) + " " + x.Tok.String() + " " + types.ExprString(x.Rhs[0])
	case *ast.IncDecStmt:
		return types.ExprString(x.X) + x.Tok.String()
	}
	return "update"
}
