// Package loopidx implements a small contradiction rule: a counting loop
// that stores through a slice but whose body never mentions the loop
// counter (nor anything derived from it) touches the same elements on
// every iteration — the counter was meant to appear in the index.
package loopidx

import (
	"fmt"
	"go/ast"
	"go/token"
	"go/types"

	"gverif/core"
)

// Run checks all functions of the scope.
func Run(cfg core.Config, scope core.Scope) *core.Result {
	res := core.NewResult("LOOPIDX")
	res.Rules = append(res.Rules, "LOOPIDX.origin: the key of `for j := range r`, where r is a local reslice base[lo:hi] with a non-zero lower bound, is an index into r: it is not used bare to index base (the offset lo would be lost)",
		"LOOPIDX.unused: in a counting for loop that stores to slice elements, some store index (or a value feeding it) depends on the loop counter or on a variable updated in the loop")
	res.Configs = append(res.Configs, cfg.String())
	pkgs, err := core.Load(cfg, scope.Patterns...)
	if err != nil {
		res.Brokenf("%v", err)
		return res
	}
	for _, pkg := range pkgs {
		info := pkg.TypesInfo
		for _, f := range pkg.Syntax {
			if !scope.InFile(f.Pos()) {
				continue
			}
			for _, d := range f.Decls {
				fd, ok := d.(*ast.FuncDecl)
				if !ok || fd.Body == nil {
					continue
				}
				name := core.FuncName(pkg, fd)
				checkOrigin(res, info, fd, name)
				ast.Inspect(fd.Body, func(n ast.Node) bool {
					fs, ok := n.(*ast.ForStmt)
					if !ok || fs.Init == nil || fs.Cond == nil {
						return true
					}
					as, ok := fs.Init.(*ast.AssignStmt)
					if !ok || as.Tok != token.DEFINE || len(as.Lhs) != 1 {
						return true
					}
					id, ok := as.Lhs[0].(*ast.Ident)
					if !ok {
						return true
					}
					counter := info.Defs[id]
					if counter == nil {
						return true
					}
					// variables updated in the loop (post statement or body)
					varying := map[types.Object]bool{counter: true}
					mark := func(e ast.Expr) {
						if x, ok := e.(*ast.Ident); ok {
							if o := core.ObjOf(info, x); o != nil {
								varying[o] = true
							}
						}
					}
					ast.Inspect(fs, func(x ast.Node) bool {
						switch s := x.(type) {
						case *ast.AssignStmt:
							for _, l := range s.Lhs {
								mark(l)
							}
						case *ast.IncDecStmt:
							mark(s.X)
						case *ast.RangeStmt:
							if s.Key != nil {
								mark(s.Key)
							}
							if s.Value != nil {
								mark(s.Value)
							}
						}
						return true
					})
					delete(varying, nil)
					// element stores in the body (not in nested function literals)
					var stores []*ast.IndexExpr
					hasCall := false
					ast.Inspect(fs.Body, func(x ast.Node) bool {
						switch s := x.(type) {
						case *ast.FuncLit:
							return false
						case *ast.CallExpr:
							if _, isConv := info.Types[s.Fun]; !(isConv && info.Types[s.Fun].IsType()) {
								if idf, ok := s.Fun.(*ast.Ident); !ok || (idf.Name != "len" && idf.Name != "cap" && idf.Name != "min" && idf.Name != "max") {
									hasCall = true
								}
							}
						case *ast.AssignStmt:
							for _, l := range s.Lhs {
								if ix, ok := l.(*ast.IndexExpr); ok {
									if tv, ok := info.Types[ix.X]; ok {
										if _, isSlice := tv.Type.Underlying().(*types.Slice); isSlice {
											stores = append(stores, ix)
										}
									}
								}
							}
						}
						return true
					})
					if len(stores) == 0 {
						return true
					}
					res.Obligations++
					res.Count("counting_loops_with_element_stores", 1)
					// does the body mention the counter at all?
					mentions := false
					ast.Inspect(fs.Body, func(x ast.Node) bool {
						if xi, ok := x.(*ast.Ident); ok && core.ObjOf(info, xi) == counter {
							mentions = true
						}
						return !mentions
					})
					if mentions {
						return true
					}
					// the counter is unused: every store must then depend on
					// some other variable updated by the loop, or the body
					// must call something (repetition for effect)
					for _, ix := range stores {
						dep := false
						ast.Inspect(ix.Index, func(x ast.Node) bool {
							if xi, ok := x.(*ast.Ident); ok {
								if o := core.ObjOf(info, xi); o != nil && o != counter && varying[o] {
									dep = true
								}
							}
							return !dep
						})
						if dep || hasCall {
							continue
						}
						res.Add(core.Finding{
							Rule: "LOOPIDX.unused",
							Key:  fmt.Sprintf("LOOPIDX.unused|%s|%s", name, types.ExprString(ix)),
							Pos:  core.Pos(ix.Pos()), Func: name,
							Msg: fmt.Sprintf("loop counter %s is never used in the loop body: %s is stored on every one of the iterations (the counter was meant to appear in the index)",
								id.Name, types.ExprString(ix)),
						})
						break
					}
					return true
				})
			}
		}
	}
	return res
}

// checkOrigin implements LOOPIDX.origin.
func checkOrigin(res *core.Result, info *types.Info, fd *ast.FuncDecl, name string) {
	// local reslices r := base[lo:hi] with a lower bound that is not the constant 0
	type reslice struct {
		base types.Object
		lo   ast.Expr
	}
	def := map[types.Object]reslice{}
	multi := map[types.Object]bool{}
	ast.Inspect(fd.Body, func(n ast.Node) bool {
		as, ok := n.(*ast.AssignStmt)
		if !ok || len(as.Lhs) != len(as.Rhs) {
			return true
		}
		for i, l := range as.Lhs {
			id, ok := l.(*ast.Ident)
			if !ok {
				continue
			}
			o := core.ObjOf(info, id)
			if o == nil {
				continue
			}
			se, ok := as.Rhs[i].(*ast.SliceExpr)
			if !ok || se.Low == nil {
				multi[o] = true
				continue
			}
			if tv, ok := info.Types[se.Low]; ok && tv.Value != nil && tv.Value.ExactString() == "0" {
				multi[o] = true
				continue
			}
			bid, ok := se.X.(*ast.Ident)
			if !ok {
				multi[o] = true
				continue
			}
			if _, dup := def[o]; dup {
				// redefined in a loop body with another offset: still a reslice of the same base?
				if def[o].base != core.ObjOf(info, bid) {
					multi[o] = true
				}
				continue
			}
			def[o] = reslice{core.ObjOf(info, bid), se.Low}
		}
		return true
	})
	ast.Inspect(fd.Body, func(n ast.Node) bool {
		rs, ok := n.(*ast.RangeStmt)
		if !ok || rs.Key == nil {
			return true
		}
		rid, ok := rs.X.(*ast.Ident)
		if !ok {
			return true
		}
		r := core.ObjOf(info, rid)
		d, ok := def[r]
		if !ok || multi[r] || d.base == nil {
			return true
		}
		kid, ok := rs.Key.(*ast.Ident)
		if !ok || kid.Name == "_" {
			return true
		}
		key := core.ObjOf(info, kid)
		res.Obligations++
		res.Count("range_loops_over_local_reslices", 1)
		ast.Inspect(rs.Body, func(x ast.Node) bool {
			ix, ok := x.(*ast.IndexExpr)
			if !ok {
				return true
			}
			b, ok1 := ix.X.(*ast.Ident)
			k, ok2 := ix.Index.(*ast.Ident)
			if ok1 && ok2 && core.ObjOf(info, b) == d.base && core.ObjOf(info, k) == key {
				res.Add(core.Finding{
					Rule: "LOOPIDX.origin",
					Key:  fmt.Sprintf("LOOPIDX.origin|%s|%s[%s]", name, b.Name, k.Name),
					Pos:  core.Pos(ix.Pos()), Func: name,
					Msg: fmt.Sprintf("%s is the key of `range %s`, and %s = %s[%s:…]: indexing %s with it drops the offset %s (meant %s[%s])",
						k.Name, rid.Name, rid.Name, b.Name, types.ExprString(d.lo), b.Name, types.ExprString(d.lo), rid.Name, k.Name),
				})
			}
			return true
		})
		return true
	})
}
