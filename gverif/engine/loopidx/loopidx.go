// Package loopidx implements a small contradiction rule: a counting loop
// that stores through a slice but whose body never mentions the loop
// counter (nor anything derived from it) touches the same elements on
// every iteration — the counter was meant to appear in the index.
package loopidx

import (
	"fmt"
	"go/ast"
	"go/token"
	"go/types"

	"gverif/core"
)

// Run checks all functions of the scope.
func Run(cfg core.Config, scope core.Scope) *core.Result {
	res := core.NewResult("LOOPIDX")
	res.Rules = append(res.Rules, "LOOPIDX.unused: in a counting for loop that stores to slice elements, some store index (or a value feeding it) depends on the loop counter or on a variable updated in the loop")
	res.Configs = append(res.Configs, cfg.String())
	pkgs, err := core.Load(cfg, scope.Patterns...)
	if err != nil {
		res.Brokenf("%v", err)
		return res
	}
	for _, pkg := range pkgs {
		info := pkg.TypesInfo
		for _, f := range pkg.Syntax {
			if !scope.InFile(f.Pos()) {
				continue
			}
			for _, d := range f.Decls {
				fd, ok := d.(*ast.FuncDecl)
				if !ok || fd.Body == nil {
					continue
				}
				name := core.FuncName(pkg, fd)
				ast.Inspect(fd.Body, func(n ast.Node) bool {
					fs, ok := n.(*ast.ForStmt)
					if !ok || fs.Init == nil || fs.Cond == nil {
						return true
					}
					as, ok := fs.Init.(*ast.AssignStmt)
					if !ok || as.Tok != token.DEFINE || len(as.Lhs) != 1 {
						return true
					}
					id, ok := as.Lhs[0].(*ast.Ident)
					if !ok {
						return true
					}
					counter := info.Defs[id]
					if counter == nil {
						return true
					}
					// variables updated in the loop (post statement or body)
					varying := map[types.Object]bool{counter: true}
					mark := func(e ast.Expr) {
						if x, ok := e.(*ast.Ident); ok {
							if o := core.ObjOf(info, x); o != nil {
								varying[o] = true
							}
						}
					}
					ast.Inspect(fs, func(x ast.Node) bool {
						switch s := x.(type) {
						case *ast.AssignStmt:
							for _, l := range s.Lhs {
								mark(l)
							}
						case *ast.IncDecStmt:
							mark(s.X)
						case *ast.RangeStmt:
							if s.Key != nil {
								mark(s.Key)
							}
							if s.Value != nil {
								mark(s.Value)
							}
						}
						return true
					})
					delete(varying, nil)
					// element stores in the body (not in nested function literals)
					var stores []*ast.IndexExpr
					hasCall := false
					ast.Inspect(fs.Body, func(x ast.Node) bool {
						switch s := x.(type) {
						case *ast.FuncLit:
							return false
						case *ast.CallExpr:
							if _, isConv := info.Types[s.Fun]; !(isConv && info.Types[s.Fun].IsType()) {
								if idf, ok := s.Fun.(*ast.Ident); !ok || (idf.Name != "len" && idf.Name != "cap" && idf.Name != "min" && idf.Name != "max") {
									hasCall = true
								}
							}
						case *ast.AssignStmt:
							for _, l := range s.Lhs {
								if ix, ok := l.(*ast.IndexExpr); ok {
									if tv, ok := info.Types[ix.X]; ok {
										if _, isSlice := tv.Type.Underlying().(*types.Slice); isSlice {
											stores = append(stores, ix)
										}
									}
								}
							}
						}
						return true
					})
					if len(stores) == 0 {
						return true
					}
					res.Obligations++
					res.Count("counting_loops_with_element_stores", 1)
					// does the body mention the counter at all?
					mentions := false
					ast.Inspect(fs.Body, func(x ast.Node) bool {
						if xi, ok := x.(*ast.Ident); ok && core.ObjOf(info, xi) == counter {
							mentions = true
						}
						return !mentions
					})
					if mentions {
						return true
					}
					// the counter is unused: every store must then depend on
					// some other variable updated by the loop, or the body
					// must call something (repetition for effect)
					for _, ix := range stores {
						dep := false
						ast.Inspect(ix.Index, func(x ast.Node) bool {
							if xi, ok := x.(*ast.Ident); ok {
								if o := core.ObjOf(info, xi); o != nil && o != counter && varying[o] {
									dep = true
								}
							}
							return !dep
						})
						if dep || hasCall {
							continue
						}
						res.Add(core.Finding{
							Rule: "LOOPIDX.unused",
							Key:  fmt.Sprintf("LOOPIDX.unused|%s|%s", name, types.ExprString(ix)),
							Pos:  core.Pos(ix.Pos()), Func: name,
							Msg: fmt.Sprintf("loop counter %s is never used in the loop body: %s is stored on every one of the iterations (the counter was meant to appear in the index)",
								id.Name, types.ExprString(ix)),
						})
						break
					}
					return true
				})
			}
		}
	}
	return res
}
