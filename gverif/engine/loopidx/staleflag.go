package loopidx

import (
	"fmt"
	"go/ast"
	"go/token"
	"go/types"

	"golang.org/x/tools/go/cfg"

	"gverif/cfgx"
	"gverif/core"
)

// RunStaleFlag implements LOOPFLAG.stale: a local flag declared outside a
// loop whose assignments inside the loop store at least two different
// constants in the arms of a branch (a per-iteration classification such as
// "scaled down / scaled up") and which is read later in the same iteration
// must be decided in every iteration: if some path from the start of an
// iteration reaches the read without passing an assignment, the read sees the
// classification of an earlier iteration (Dsteqr undid a scaling it had not
// applied to the current block).
func RunStaleFlag(conf core.Config, scope core.Scope) *core.Result {
	res := core.NewResult("STALEFLAG")
	res.Rules = append(res.Rules, "LOOPFLAG.stale: a local that the arms of a branch inside a loop set to two or more different constants, and that is read later in the same iteration, is assigned on every path from the start of the iteration to that read (or declared inside the loop)")
	res.Configs = append(res.Configs, conf.String())
	pkgs, err := core.Load(conf, scope.Patterns...)
	if err != nil {
		res.Brokenf("%v", err)
		return res
	}
	usedExempt := map[string]bool{}
	defer func() {
		for k := range StaleFlagExempt {
			if !usedExempt[k] {
				res.Stale("LOOPFLAG.stale: stale exemption %s", k)
			}
		}
	}()
	for _, pkg := range pkgs {
		info := pkg.TypesInfo
		for _, f := range pkg.Syntax {
			if !scope.InFile(f.Pos()) {
				continue
			}
			for _, d := range f.Decls {
				fd, ok := d.(*ast.FuncDecl)
				if !ok || fd.Body == nil {
					continue
				}
				name := core.FuncName(pkg, fd)
				// outermost loops
				var loops []ast.Stmt
				var find func(n ast.Node)
				find = func(n ast.Node) {
					ast.Inspect(n, func(c ast.Node) bool {
						switch s := c.(type) {
						case *ast.FuncLit:
							return false
						case *ast.ForStmt:
							loops = append(loops, s)
							return false
						case *ast.RangeStmt:
							loops = append(loops, s)
							return false
						}
						return true
					})
				}
				find(fd.Body)
				if len(loops) == 0 {
					continue
				}
				var g *cfgx.Graph
				for _, loop := range loops {
					var body *ast.BlockStmt
					switch s := loop.(type) {
					case *ast.ForStmt:
						body = s.Body
					case *ast.RangeStmt:
						body = s.Body
					}
					// candidate variables: declared outside the loop, assigned constants inside
					type cand struct {
						assigns []*ast.AssignStmt
						consts  map[string]bool
						other   bool
					}
					cands := map[types.Object]*cand{}
					ast.Inspect(body, func(n ast.Node) bool {
						if _, ok := n.(*ast.FuncLit); ok {
							return false
						}
						switch s := n.(type) {
						case *ast.AssignStmt:
							for i, l := range s.Lhs {
								id, ok := l.(*ast.Ident)
								if !ok {
									continue
								}
								o := core.ObjOf(info, id)
								v, ok := o.(*types.Var)
								if !ok || v.Pos() >= loop.Pos() && v.Pos() < loop.End() {
									continue
								}
								c := cands[o]
								if c == nil {
									c = &cand{consts: map[string]bool{}}
									cands[o] = c
								}
								if s.Tok != token.ASSIGN || len(s.Lhs) != len(s.Rhs) {
									c.other = true
									continue
								}
								tv, ok := info.Types[s.Rhs[i]]
								if !ok || tv.Value == nil {
									c.other = true
									continue
								}
								c.consts[tv.Value.ExactString()] = true
								c.assigns = append(c.assigns, s)
							}
						case *ast.IncDecStmt:
							if id, ok := s.X.(*ast.Ident); ok {
								if c := cands[core.ObjOf(info, id)]; c != nil {
									c.other = true
								} else if o := core.ObjOf(info, id); o != nil {
									cands[o] = &cand{other: true, consts: map[string]bool{}}
								}
							}
						case *ast.UnaryExpr:
							if s.Op == token.AND {
								if id, ok := ast.Unparen(s.X).(*ast.Ident); ok {
									if o := core.ObjOf(info, id); o != nil {
										if cands[o] == nil {
											cands[o] = &cand{consts: map[string]bool{}}
										}
										cands[o].other = true
									}
								}
							}
						}
						return true
					})
					for o, c := range cands {
						if c.other || len(c.consts) < 2 {
							continue
						}
						if b, ok := o.Type().Underlying().(*types.Basic); !ok || b.Info()&types.IsInteger == 0 {
							continue
						}
						// the assignments are arms of one branch statement
						res.Obligations++
						res.Count("multi_valued_flags_set_inside_loops", 1)
						if g == nil {
							g = cfgx.New(fd.Body, info)
						}
						isAssign := map[*cfg.Block]int{} // block -> index of first assignment
						for _, a := range c.assigns {
							if loc, ok := g.Where[a]; ok {
								b := g.Blocks[loc.Block]
								if i, ok := isAssign[b]; !ok || loc.Index < i {
									isAssign[b] = loc.Index
								}
							}
						}
						// reads inside the loop
						var reads []*ast.Ident
						ast.Inspect(body, func(n ast.Node) bool {
							if as, ok := n.(*ast.AssignStmt); ok {
								for _, r := range as.Rhs {
									ast.Inspect(r, func(m ast.Node) bool {
										if id, ok := m.(*ast.Ident); ok && core.ObjOf(info, id) == o {
											reads = append(reads, id)
										}
										return true
									})
								}
								for _, l := range as.Lhs {
									if _, ok := l.(*ast.Ident); !ok {
										ast.Inspect(l, func(m ast.Node) bool {
											if id, ok := m.(*ast.Ident); ok && core.ObjOf(info, id) == o {
												reads = append(reads, id)
											}
											return true
										})
									}
								}
								return false
							}
							if id, ok := n.(*ast.Ident); ok && core.ObjOf(info, id) == o {
								reads = append(reads, id)
							}
							return true
						})
						// iteration start: the block holding the first node of the body
						var start *cfg.Block
						if len(body.List) > 0 {
							var first ast.Node = body.List[0]
							// the first statement may be compound: find the block containing its first evaluated node
							best := token.Pos(-1)
							for _, b := range g.Blocks {
								for _, n := range b.Nodes {
									if n.Pos() >= first.Pos() && n.End() <= body.End() && (best < 0 || n.Pos() < best) {
										best = n.Pos()
										start = b
									}
								}
							}
						}
						if start == nil {
							continue
						}
						for _, r := range reads {
							loc, ok := g.Where[r]
							if !ok {
								continue
							}
							rb := g.Blocks[loc.Block]
							// (a) some assignment reaches the read within the iteration
							// (b) a path start -> read with no assignment
							reach := func(from *cfg.Block, fromIdx int, avoidAssign bool) bool {
								seen := map[*cfg.Block]bool{}
								var walk func(b *cfg.Block, idx int) bool
								walk = func(b *cfg.Block, idx int) bool {
									if b == rb {
										ai, has := isAssign[b]
										if !(avoidAssign && has && ai >= idx && ai < loc.Index) && idx <= loc.Index {
											return true
										}
										if idx <= loc.Index {
											return false
										}
									}
									if avoidAssign {
										if ai, has := isAssign[b]; has && ai >= idx {
											return false
										}
									}
									for _, s := range g.Succs(b) {
										if s == start || seen[s] {
											continue // next iteration
										}
										if len(s.Nodes) > 0 && (s.Nodes[0].Pos() < body.Pos() || s.Nodes[0].Pos() >= body.End()) {
											continue // left the body (loop header, post statement or exit)
										}
										seen[s] = true
										if walk(s, 0) {
											return true
										}
									}
									return false
								}
								return walk(from, fromIdx)
							}
							fromAssign := false
							for b, i := range isAssign {
								if reach(b, i+1, false) {
									fromAssign = true
								}
							}
							if !fromAssign {
								continue
							}
							res.Count("reads_after_a_classification_in_the_same_iteration", 1)
							if reach(start, 0, true) {
								if _, ok := StaleFlagExempt[name+"|"+o.Name()]; ok {
									usedExempt[name+"|"+o.Name()] = true
									res.Count("carried_flags_exempt_by_table", 1)
									break
								}
								res.Add(core.Finding{Rule: "LOOPFLAG.stale", Key: fmt.Sprintf("LOOPFLAG.stale|%s|%s", name, o.Name()), Pos: core.Pos(r.Pos()), Func: name,
									Msg: fmt.Sprintf("%s: %s is declared outside the loop at %s, set to one of %d constants in some iterations and read here, but an iteration that takes none of the assigning arms reads the value left by an earlier iteration", name, o.Name(), core.Pos(loop.Pos()), len(c.consts))})
								break
							}
						}
					}
				}
			}
		}
	}
	return res
}

// StaleFlagExempt lists "function|variable" flags that are carried from one
// iteration to the next on purpose (confirmed by reading).
var StaleFlagExempt = map[string]string{
	"lapack/gonum.Implementation.Dbdsqr|idir": "the direction of the QR sweep is chosen when a new submatrix starts (ll > oldm || m < oldll) and deliberately kept while the same submatrix is worked on, as in the reference DBDSQR",
}
