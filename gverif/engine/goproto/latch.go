package goproto

import (
	"fmt"
	"go/ast"
	"go/token"
	"go/types"

	"gverif/cfgx"
	"gverif/core"
)

// RunLatch implements GOPROTO.latch: a first-wins latch keeps what it latched.
//
//	select {
//	case <-done:
//	default:
//		finalStatus = status
//		finalError = err
//		close(done)
//	}
//
// closes done exactly once and records the status that did it; every later
// terminal status finds done closed and is dropped. The variables assigned in
// the default arm (next to the close) are therefore assigned nowhere else in
// the loop that contains the select: an assignment hoisted out of the arm
// ("set it, then close if still open") lets every later status overwrite the
// one that actually ended the run, so the reported outcome depends on how many
// evaluations were still in flight.
func RunLatch(conf core.Config, scope core.Scope) *core.Result {
	res := core.NewResult("GOPROTO.latch")
	res.Rules = append(res.Rules, "GOPROTO.latch: a variable assigned in the default arm of a `select { case <-ch: default: …; close(ch) }` latch is assigned nowhere else in the enclosing loop, and neither is a local that the function returns")
	res.Configs = append(res.Configs, conf.String())
	pkgs, err := core.Load(conf, scope.Patterns...)
	if err != nil {
		res.Brokenf("%v", err)
		return res
	}
	for _, pkg := range pkgs {
		info := pkg.TypesInfo
		for _, file := range pkg.Syntax {
			if !scope.InFile(file.Pos()) {
				continue
			}
			for _, d := range file.Decls {
				fd, ok := d.(*ast.FuncDecl)
				if !ok || fd.Body == nil {
					continue
				}
				name := core.FuncName(pkg, fd)
				par := cfgx.Parents(fd.Body)
				ast.Inspect(fd.Body, func(n ast.Node) bool {
					sel, ok := n.(*ast.SelectStmt)
					if !ok {
						return true
					}
					var ch string
					var def *ast.CommClause
					for _, c := range sel.Body.List {
						cc := c.(*ast.CommClause)
						if cc.Comm == nil {
							def = cc
							continue
						}
						if es, ok := cc.Comm.(*ast.ExprStmt); ok && len(cc.Body) == 0 {
							if u, ok := es.X.(*ast.UnaryExpr); ok && u.Op == token.ARROW {
								ch = types.ExprString(u.X)
							}
						}
					}
					if def == nil || ch == "" {
						return true
					}
					closes := false
					latched := map[types.Object]bool{}
					for _, st := range def.Body {
						ast.Inspect(st, func(y ast.Node) bool {
							switch x := y.(type) {
							case *ast.CallExpr:
								if id, ok := x.Fun.(*ast.Ident); ok && id.Name == "close" && len(x.Args) == 1 && types.ExprString(x.Args[0]) == ch {
									closes = true
								}
							case *ast.AssignStmt:
								if x.Tok == token.ASSIGN {
									for _, l := range x.Lhs {
										if id, ok := l.(*ast.Ident); ok {
											if o := core.ObjOf(info, id); o != nil {
												latched[o] = true
											}
										}
									}
								}
							}
							return true
						})
					}
					if !closes {
						return true
					}
					res.Obligations++
					res.Count("close_once_latches", 1)
					res.Count("latched_variables", len(latched))
					var loop ast.Node
					for p := par[sel]; p != nil; p = par[p] {
						switch p.(type) {
						case *ast.ForStmt, *ast.RangeStmt:
							loop = p
						}
						if loop != nil {
							break
						}
					}
					if loop == nil {
						return true
					}
					// the variables the function returns are the outcome of the
					// loop: when assigned inside the loop they belong in the arm
					// even if the arm (no longer) assigns them
					ast.Inspect(fd.Body, func(y ast.Node) bool {
						if _, ok := y.(*ast.FuncLit); ok {
							return false
						}
						if r, ok := y.(*ast.ReturnStmt); ok {
							for _, e := range r.Results {
								if id, ok := ast.Unparen(e).(*ast.Ident); ok {
									if o, ok := core.ObjOf(info, id).(*types.Var); ok && o.Pos() < loop.Pos() && o.Pos() > fd.Body.Pos() {
										latched[o] = true
									}
								}
							}
						}
						return true
					})
					if len(latched) == 0 {
						return true
					}
					ast.Inspect(loop, func(y ast.Node) bool {
						if y == ast.Node(def) {
							return false
						}
						as, ok := y.(*ast.AssignStmt)
						if !ok {
							return true
						}
						for _, l := range as.Lhs {
							if id, ok := l.(*ast.Ident); ok && latched[core.ObjOf(info, id)] {
								res.Add(core.Finding{Rule: "GOPROTO.latch", Key: fmt.Sprintf("GOPROTO.latch|%s|%s", name, id.Name), Pos: core.Pos(as.Pos()), Func: name,
									Msg: fmt.Sprintf("%s is latched in the default arm of the close-once select on %s at %s, but is also assigned here, in the same loop and outside that arm: later events overwrite the value that was recorded when %s was closed", id.Name, ch, core.Pos(sel.Pos()), ch)})
							}
						}
						return true
					})
					return true
				})
			}
		}
	}
	return res
}
