// Package goproto implements the GOPROTO engine: goroutine, WaitGroup and
// channel protocols. See DESIGN.md §3.8.
package goproto

import (
	"fmt"
	"go/ast"
	"go/constant"
	"go/token"
	"go/types"
	"strings"

	"gverif/cfgx"
	"gverif/core"

	"golang.org/x/tools/go/cfg"
	"golang.org/x/tools/go/packages"
	"golang.org/x/tools/go/types/typeutil"
)

type fnCtx struct {
	pkg  *packages.Package
	info *types.Info
	fd   *ast.FuncDecl
	name string
	res  *core.Result
	par  map[ast.Node]ast.Node
	// closures assigned once to local variables: worker := func(){...}
	lits map[types.Object]*ast.FuncLit
	gos  []*goSite
}

type goSite struct {
	stmt   *ast.GoStmt
	lit    *ast.FuncLit // nil if not resolvable
	inLoop bool
}

func isNamedType(t types.Type, pkgPath, name string) bool {
	if p, ok := t.(*types.Pointer); ok {
		t = p.Elem()
	}
	n, ok := t.(*types.Named)
	return ok && n.Obj().Pkg() != nil && n.Obj().Pkg().Path() == pkgPath && n.Obj().Name() == name
}

// Run analyses every function containing a go statement in the scope.
func Run(cfg core.Config, scope core.Scope) *core.Result {
	res := core.NewResult("GOPROTO")
	res.Rules = append(res.Rules,
		"GOPROTO.capture: a variable of the spawning function that a goroutine assigns is written under a mutex that also covers every other concurrent access, or by a single goroutine whose completion (WaitGroup) every other access waits for",
		"GOPROTO.scratch: a buffer allocated with make in the spawning function is not written (handed whole to a call, used as copy destination, or stored at an index that does not depend on the goroutine) by a goroutine that is started more than once, unless under a lock",
		"GOPROTO.semcap: a channel used as a counting semaphore (sent to before a go statement, received from inside the goroutine) is created with a capacity that is provably at least 1",
		"GOPROTO.accumzero: a destination parameter that a function accumulates into while collecting results from a channel (dst[k] += …, or dst.Set*(…, … + dst.At(…))) is zeroed on every path before the collection, in the function itself or in every caller of an unexported function",
		"GOPROTO.wg: every WaitGroup Add is matched by goroutines that defer Done, with a count equal to the spawning loop's trip count, and Wait is reached",
		"GOPROTO.close: every channel that is ranged over or used as a quit signal is closed by exactly one site that is reached on all exits of its function",
		"GOPROTO.sibling: the serial and concurrent implementations dispatched from one call site read the same settings parameters")
	res.Configs = append(res.Configs, cfg.String())
	pkgs, err := core.Load(cfg, scope.Patterns...)
	if err != nil {
		res.Brokenf("%v", err)
		return res
	}
	for _, pkg := range pkgs {
		for _, f := range pkg.Syntax {
			if !scope.InFile(f.Pos()) {
				continue
			}
			for _, d := range f.Decls {
				fd, ok := d.(*ast.FuncDecl)
				if !ok || fd.Body == nil {
					continue
				}
				c := newCtx(res, pkg, fd)
				if len(c.gos) > 0 {
					res.Count("spawning_functions", 1)
					res.Count("go_statements", len(c.gos))
					c.capture()
					c.scratch()
					c.semaphores()
					c.waitGroups()
					c.channels()
					res.Sample(map[string]any{"rule": "GOPROTO", "func": c.name, "go_statements": len(c.gos)})
				}
				c.siblings()
				c.accumZero()
			}
		}
	}
	return res
}

func newCtx(res *core.Result, pkg *packages.Package, fd *ast.FuncDecl) *fnCtx {
	c := &fnCtx{pkg: pkg, info: pkg.TypesInfo, fd: fd, name: core.FuncName(pkg, fd), res: res,
		par: cfgx.Parents(fd.Body), lits: map[types.Object]*ast.FuncLit{}}
	ast.Inspect(fd.Body, func(n ast.Node) bool {
		if as, ok := n.(*ast.AssignStmt); ok && len(as.Lhs) == 1 && len(as.Rhs) == 1 {
			if lit, ok := as.Rhs[0].(*ast.FuncLit); ok {
				if id, ok := as.Lhs[0].(*ast.Ident); ok {
					if o := core.ObjOf(c.info, id); o != nil {
						c.lits[o] = lit
					}
				}
			}
		}
		return true
	})
	ast.Inspect(fd.Body, func(n ast.Node) bool {
		g, ok := n.(*ast.GoStmt)
		if !ok {
			return true
		}
		gs := &goSite{stmt: g}
		switch f := g.Call.Fun.(type) {
		case *ast.FuncLit:
			gs.lit = f
		case *ast.Ident:
			gs.lit = c.lits[core.ObjOf(c.info, f)]
		}
		for p := c.par[g]; p != nil; p = c.par[p] {
			switch p.(type) {
			case *ast.ForStmt, *ast.RangeStmt:
				gs.inLoop = true
			case *ast.FuncLit:
				goto done
			}
		}
	done:
		c.gos = append(c.gos, gs)
		return true
	})
	return c
}

func within(n ast.Node, outer ast.Node) bool {
	return outer != nil && n.Pos() >= outer.Pos() && n.End() <= outer.End()
}

// enclosingLit returns the innermost function literal containing n.
func (c *fnCtx) enclosingLit(n ast.Node) *ast.FuncLit {
	for p := c.par[n]; p != nil; p = c.par[p] {
		if l, ok := p.(*ast.FuncLit); ok {
			return l
		}
	}
	return nil
}

// methodCallOn returns the selector text X for a call X.name().
func methodCallOn(n ast.Node, name string) (string, *ast.CallExpr, bool) {
	c, ok := n.(*ast.CallExpr)
	if !ok {
		return "", nil, false
	}
	sel, ok := c.Fun.(*ast.SelectorExpr)
	if !ok || sel.Sel.Name != name {
		return "", nil, false
	}
	return types.ExprString(sel.X), c, true
}

// lockRegion reports the mutex expression guarding statement-level node n:
// an earlier sibling X.Lock() with a later sibling X.Unlock() (or an
// earlier defer X.Unlock()) in some enclosing statement list, up to limit.
func (c *fnCtx) lockRegion(n ast.Node, limit ast.Node) (string, bool) {
	var child ast.Node = n
	for p := c.par[n]; p != nil; child, p = p, c.par[p] {
		var list []ast.Stmt
		switch b := p.(type) {
		case *ast.BlockStmt:
			list = b.List
		case *ast.CaseClause:
			list = b.Body
		case *ast.CommClause:
			list = b.Body
		}
		if list != nil {
			idx := -1
			for i, s := range list {
				if s == child {
					idx = i
				}
			}
			if idx >= 0 {
				locked := map[string]bool{}
				deferred := map[string]bool{}
				for i := 0; i < idx; i++ {
					switch s := list[i].(type) {
					case *ast.ExprStmt:
						if x, _, ok := methodCallOn(s.X, "Lock"); ok {
							locked[x] = true
						}
						if x, _, ok := methodCallOn(s.X, "Unlock"); ok {
							delete(locked, x)
						}
					case *ast.DeferStmt:
						if x, _, ok := methodCallOn(s.Call, "Unlock"); ok {
							deferred[x] = true
						}
					}
				}
				for x := range locked {
					if deferred[x] {
						return x, true
					}
					for i := idx + 1; i < len(list); i++ {
						if es, ok := list[i].(*ast.ExprStmt); ok {
							if y, _, ok := methodCallOn(es.X, "Unlock"); ok && y == x {
								return x, true
							}
						}
					}
				}
			}
		}
		if p == limit {
			break
		}
	}
	return "", false
}

// doneGroups returns the WaitGroup expressions a closure Done()s by defer.
func (c *fnCtx) doneGroups(lit *ast.FuncLit) map[string]bool {
	out := map[string]bool{}
	ast.Inspect(lit.Body, func(n ast.Node) bool {
		if d, ok := n.(*ast.DeferStmt); ok {
			if x, _, ok := methodCallOn(d.Call, "Done"); ok {
				out[x] = true
			}
			if fl, ok := d.Call.Fun.(*ast.FuncLit); ok {
				ast.Inspect(fl.Body, func(m ast.Node) bool {
					if x, _, ok := methodCallOn(m, "Done"); ok {
						out[x] = true
					}
					return true
				})
			}
		}
		return true
	})
	return out
}

// waitedBefore: every path from the entry of body to node n passes a call
// X.Wait() for some X in groups.
func (c *fnCtx) waitedBefore(body *ast.BlockStmt, n ast.Node, groups map[string]bool) bool {
	g := cfgx.New(body, c.info)
	loc, ok := g.Where[n]
	if !ok {
		return false
	}
	isWait := func(x ast.Node) bool {
		found := false
		ast.Inspect(x, func(m ast.Node) bool {
			if _, isLit := m.(*ast.FuncLit); isLit {
				return false
			}
			if w, _, ok := methodCallOn(m, "Wait"); ok && groups[w] {
				found = true
			}
			return !found
		})
		return found
	}
	in := g.MustPass(func(b *cfg.Block) bool {
		for _, x := range b.Nodes {
			if isWait(x) {
				return true
			}
		}
		return false
	})
	if in[loc.Block] {
		return true
	}
	b := g.Blocks[loc.Block]
	for i := 0; i < loc.Index; i++ {
		if isWait(b.Nodes[i]) {
			return true
		}
	}
	return false
}

func (c *fnCtx) bodyOf(n ast.Node) *ast.BlockStmt {
	if l := c.enclosingLit(n); l != nil {
		return l.Body
	}
	return c.fd.Body
}

// capture implements GOPROTO.capture.
func (c *fnCtx) capture() {
	for _, gs := range c.gos {
		if gs.lit == nil {
			continue
		}
		lit := gs.lit
		// shared writes: assignments to identifiers declared outside lit
		type write struct {
			obj  types.Object
			node ast.Node
		}
		var writes []write
		add := func(e ast.Expr, n ast.Node) {
			id, ok := e.(*ast.Ident)
			if !ok || id.Name == "_" {
				return
			}
			o := core.ObjOf(c.info, id)
			v, ok := o.(*types.Var)
			if !ok || v.IsField() {
				return
			}
			if o.Pos() >= lit.Pos() && o.Pos() <= lit.End() {
				return // declared inside the closure (incl. its parameters)
			}
			if o.Parent() == c.pkg.Types.Scope() {
				return
			}
			if !(o.Pos() >= c.fd.Pos() && o.Pos() <= c.fd.End()) {
				return
			}
			writes = append(writes, write{o, n})
		}
		ast.Inspect(lit.Body, func(n ast.Node) bool {
			switch s := n.(type) {
			case *ast.AssignStmt:
				if s.Tok != token.DEFINE {
					for _, l := range s.Lhs {
						add(l, s)
					}
				}
			case *ast.IncDecStmt:
				add(s.X, s)
			case *ast.UnaryExpr:
				// &v handed to a callee that fills it in is out of reach
			}
			return true
		})
		done := c.doneGroups(lit)
		for _, w := range writes {
			c.res.Obligations++
			c.res.Count("shared_writes_in_goroutines", 1)
			key := fmt.Sprintf("GOPROTO.capture|%s|%s", c.name, w.obj.Name())
			mutex, underLock := c.lockRegion(w.node, lit)
			if !underLock {
				if gs.inLoop {
					c.res.Add(core.Finding{Rule: "GOPROTO.capture", Key: key, Pos: core.Pos(w.node.Pos()), Func: c.name,
						Msg: fmt.Sprintf("variable %s of the spawning function is assigned by goroutines started in a loop without holding a mutex: concurrent instances race", w.obj.Name())})
					continue
				}
				if len(done) == 0 {
					c.res.Add(core.Finding{Rule: "GOPROTO.capture", Key: key, Pos: core.Pos(w.node.Pos()), Func: c.name,
						Msg: fmt.Sprintf("variable %s of the spawning function is assigned by a goroutine that neither holds a mutex nor signals completion through a deferred WaitGroup.Done", w.obj.Name())})
					continue
				}
			}
			// every other access after the spawn must be ordered with the write
			ast.Inspect(c.fd.Body, func(n ast.Node) bool {
				id, ok := n.(*ast.Ident)
				if !ok || core.ObjOf(c.info, id) != w.obj {
					return true
				}
				if within(id, lit) {
					if underLock {
						// other accesses inside the same closure must hold the mutex too
						if m, ok := c.lockRegion(c.stmtOf(id), lit); !ok || m != mutex {
							if c.stmtOf(id) != w.node {
								c.res.Add(core.Finding{Rule: "GOPROTO.capture", Key: key, Pos: core.Pos(id.Pos()), Func: c.name,
									Msg: fmt.Sprintf("variable %s is written under %s elsewhere in this goroutine but accessed here without it", w.obj.Name(), mutex)})
							}
						}
					}
					return true
				}
				if id.Pos() < gs.stmt.Pos() && c.enclosingLit(id) == nil {
					return true // before the spawn in the spawner: ordered by the go statement
				}
				if id.Pos() == w.obj.Pos() {
					return true
				}
				c.res.Obligations++
				c.res.Count("concurrent_accesses_checked", 1)
				if underLock {
					if m, ok := c.lockRegion(c.stmtOf(id), nil); ok && m == mutex {
						return true
					}
				}
				if len(done) > 0 && c.waitedBefore(c.bodyOf(id), c.stmtOf(id), done) {
					return true
				}
				c.res.Add(core.Finding{Rule: "GOPROTO.capture", Key: key, Pos: core.Pos(id.Pos()), Func: c.name,
					Msg: fmt.Sprintf("variable %s is assigned by the goroutine started at %s; this access is neither under the same mutex nor after a Wait() for that goroutine's completion",
						w.obj.Name(), core.Pos(gs.stmt.Pos())),
					Path: []string{"write: " + core.Pos(w.node.Pos()), "access: " + core.Pos(id.Pos())}})
				return true
			})
		}
	}
}

// stmtOf returns the innermost statement containing n.
// scratch implements GOPROTO.scratch: every worker needs its own scratch
// buffer. A slice that the spawning function allocates with make and that a
// goroutine started in a loop then hands whole to a callee, fills with copy
// or stores to at a goroutine-independent index is shared by all workers.
func (c *fnCtx) scratch() {
	// slices allocated with make at the level of the spawning function
	made := map[types.Object]ast.Node{}
	ast.Inspect(c.fd.Body, func(n ast.Node) bool {
		as, ok := n.(*ast.AssignStmt)
		if !ok || len(as.Lhs) != len(as.Rhs) {
			return true
		}
		for i, r := range as.Rhs {
			call, ok := r.(*ast.CallExpr)
			if !ok {
				continue
			}
			if id, ok := call.Fun.(*ast.Ident); !ok || id.Name != "make" {
				continue
			}
			if lid, ok := as.Lhs[i].(*ast.Ident); ok {
				if o := core.ObjOf(c.info, lid); o != nil {
					if _, isSlice := o.Type().Underlying().(*types.Slice); isSlice {
						made[o] = as
					}
				}
			}
		}
		return true
	})
	if len(made) == 0 {
		return
	}
	for _, g := range c.gos {
		if !g.inLoop || g.lit == nil {
			continue
		}
		// objects local to the goroutine (its parameters and everything it declares)
		local := map[types.Object]bool{}
		ast.Inspect(g.lit, func(n ast.Node) bool {
			if id, ok := n.(*ast.Ident); ok {
				if o := c.info.Defs[id]; o != nil {
					local[o] = true
				}
			}
			return true
		})
		// variables of the spawning loop are per goroutine too (Go 1.22 semantics or passed explicitly)
		for p := c.par[g.stmt]; p != nil; p = c.par[p] {
			switch l := p.(type) {
			case *ast.ForStmt:
				if l.Init != nil {
					ast.Inspect(l.Init, func(n ast.Node) bool {
						if id, ok := n.(*ast.Ident); ok {
							if o := c.info.Defs[id]; o != nil {
								local[o] = true
							}
						}
						return true
					})
				}
			case *ast.RangeStmt:
				for _, e := range []ast.Expr{l.Key, l.Value} {
					if id, ok := e.(*ast.Ident); ok {
						if o := c.info.Defs[id]; o != nil {
							local[o] = true
						}
					}
				}
			}
		}
		shared := func(e ast.Expr) (types.Object, bool) {
			id, ok := ast.Unparen(e).(*ast.Ident)
			if !ok {
				return nil, false
			}
			o := core.ObjOf(c.info, id)
			def, ok := made[o]
			if !ok || local[o] || within(def, g.lit) {
				return nil, false
			}
			return o, true
		}
		dependsOnLocal := func(e ast.Expr) bool {
			dep := false
			ast.Inspect(e, func(n ast.Node) bool {
				if id, ok := n.(*ast.Ident); ok && local[core.ObjOf(c.info, id)] {
					dep = true
				}
				return !dep
			})
			return dep
		}
		report := func(o types.Object, n ast.Node, how string) {
			if _, locked := c.lockRegion(n, g.lit); locked {
				return
			}
			c.res.Add(core.Finding{Rule: "GOPROTO.scratch", Key: fmt.Sprintf("GOPROTO.scratch|%s|%s", c.name, o.Name()), Pos: core.Pos(n.Pos()), Func: c.name,
				Msg: fmt.Sprintf("%s is allocated once by the spawning function (%s) but %s by a goroutine that is started in a loop: every worker writes the same buffer", o.Name(), core.Pos(made[o].Pos()), how)})
		}
		ast.Inspect(g.lit.Body, func(n ast.Node) bool {
			switch x := n.(type) {
			case *ast.CallExpr:
				fname := ""
				if id, ok := x.Fun.(*ast.Ident); ok {
					fname = id.Name
				}
				switch fname {
				case "len", "cap":
					return true
				case "copy":
					if len(x.Args) == 2 {
						if o, ok := shared(x.Args[0]); ok {
							c.res.Obligations++
							report(o, x, "is the destination of copy")
						}
					}
					return true
				}
				for _, a := range x.Args {
					if o, ok := shared(a); ok {
						c.res.Obligations++
						c.res.Count("made_buffers_handed_to_calls_in_looped_goroutines", 1)
						// read-only use cannot be told from a write here: a
						// callee in the same package that never stores through
						// the parameter is accepted
						if c.calleeWrites(x, a) {
							report(o, x, fmt.Sprintf("is handed whole to %s, which writes it", types.ExprString(x.Fun)))
						}
					}
				}
			case *ast.AssignStmt:
				for _, l := range x.Lhs {
					if ix, ok := l.(*ast.IndexExpr); ok {
						if o, ok := shared(ix.X); ok {
							c.res.Obligations++
							c.res.Count("made_buffer_element_stores_in_looped_goroutines", 1)
							if !dependsOnLocal(ix.Index) {
								report(o, x, fmt.Sprintf("is stored to at the goroutine-independent index %s", types.ExprString(ix.Index)))
							}
						}
					}
				}
			}
			return true
		})
	}
}

// calleeWrites reports whether the callee of call may store through the
// parameter that receives arg: for a function or closure whose body is
// available in this package the body is inspected (an element store, a copy
// destination or a hand-over to another call); anything else is assumed to
// write.
func (c *fnCtx) calleeWrites(call *ast.CallExpr, arg ast.Expr) bool {
	idx := -1
	for i, a := range call.Args {
		if a == arg {
			idx = i
		}
	}
	var ftype *ast.FuncType
	var body *ast.BlockStmt
	switch f := call.Fun.(type) {
	case *ast.Ident:
		o := core.ObjOf(c.info, f)
		if lit, ok := c.lits[o]; ok {
			ftype, body = lit.Type, lit.Body
		} else if fn, ok := o.(*types.Func); ok {
			if fd := c.declOf(fn); fd != nil {
				ftype, body = fd.Type, fd.Body
			}
		}
	}
	if body == nil || idx < 0 {
		return true
	}
	var param types.Object
	k := 0
	for _, fl := range ftype.Params.List {
		for _, n := range fl.Names {
			if k == idx {
				param = c.info.Defs[n]
			}
			k++
		}
	}
	if param == nil {
		return true
	}
	writes := false
	ast.Inspect(body, func(n ast.Node) bool {
		switch x := n.(type) {
		case *ast.AssignStmt:
			for _, l := range x.Lhs {
				if ix, ok := l.(*ast.IndexExpr); ok {
					if id, ok := ix.X.(*ast.Ident); ok && core.ObjOf(c.info, id) == param {
						writes = true
					}
				}
			}
		case *ast.CallExpr:
			if id, ok := x.Fun.(*ast.Ident); ok && (id.Name == "len" || id.Name == "cap") {
				return true
			}
			for i, a := range x.Args {
				if id, ok := ast.Unparen(a).(*ast.Ident); ok && core.ObjOf(c.info, id) == param {
					if fid, ok := x.Fun.(*ast.Ident); ok && fid.Name == "copy" && i == 1 {
						continue // copy source
					}
					writes = true
				}
			}
		}
		return !writes
	})
	return writes
}

// semaphores implements GOPROTO.semcap. The dispatcher sends a token on the
// channel before each `go`; a worker gives it back when it finishes. With
// capacity 0 the first send blocks before any worker exists.
func (c *fnCtx) semaphores() {
	// channels made in this function: object -> capacity expression (nil if unbuffered)
	made := map[types.Object]ast.Expr{}
	ast.Inspect(c.fd.Body, func(n ast.Node) bool {
		as, ok := n.(*ast.AssignStmt)
		if !ok || len(as.Lhs) != len(as.Rhs) {
			return true
		}
		for i, r := range as.Rhs {
			call, ok := r.(*ast.CallExpr)
			if !ok {
				continue
			}
			if id, ok := call.Fun.(*ast.Ident); !ok || id.Name != "make" || len(call.Args) == 0 {
				continue
			}
			tv, ok := c.info.Types[call.Args[0]]
			if !ok {
				continue
			}
			if _, isChan := tv.Type.Underlying().(*types.Chan); !isChan {
				continue
			}
			if lid, ok := as.Lhs[i].(*ast.Ident); ok {
				if o := core.ObjOf(c.info, lid); o != nil {
					if len(call.Args) >= 2 {
						made[o] = call.Args[1]
					} else {
						made[o] = nil
					}
				}
			}
		}
		return true
	})
	if len(made) == 0 {
		return
	}
	// positive: provably >= 1
	var positive func(e ast.Expr) bool
	positive = func(e ast.Expr) bool {
		e = ast.Unparen(e)
		if tv, ok := c.info.Types[e]; ok && tv.Value != nil {
			return constant.Sign(tv.Value) > 0
		}
		switch x := e.(type) {
		case *ast.BinaryExpr:
			switch x.Op {
			case token.MUL, token.ADD:
				return positive(x.X) && positive(x.Y)
			}
		case *ast.CallExpr:
			if tv, ok := c.info.Types[x.Fun]; ok && tv.IsType() && len(x.Args) == 1 {
				return positive(x.Args[0])
			}
			switch f := x.Fun.(type) {
			case *ast.SelectorExpr:
				if id, ok := f.X.(*ast.Ident); ok {
					if pn, ok := core.ObjOf(c.info, id).(*types.PkgName); ok && pn.Imported().Path() == "runtime" {
						return f.Sel.Name == "GOMAXPROCS" || f.Sel.Name == "NumCPU"
					}
				}
			case *ast.Ident:
				if f.Name == "max" {
					for _, a := range x.Args {
						if positive(a) {
							return true
						}
					}
				}
				if f.Name == "min" {
					for _, a := range x.Args {
						if !positive(a) {
							return false
						}
					}
					return len(x.Args) > 0
				}
			}
		}
		return false
	}
	for _, g := range c.gos {
		if g.lit == nil {
			continue
		}
		// the statement just before the go statement sends on a made channel …
		list, idx := c.siblings_(g.stmt)
		if idx <= 0 {
			continue
		}
		send, ok := list[idx-1].(*ast.SendStmt)
		if !ok {
			continue
		}
		id, ok := ast.Unparen(send.Chan).(*ast.Ident)
		if !ok {
			continue
		}
		ch := core.ObjOf(c.info, id)
		capExpr, isMade := made[ch]
		if !isMade {
			continue
		}
		// … and the goroutine receives from it
		receives := false
		ast.Inspect(g.lit.Body, func(n ast.Node) bool {
			if u, ok := n.(*ast.UnaryExpr); ok && u.Op == token.ARROW {
				if rid, ok := ast.Unparen(u.X).(*ast.Ident); ok && core.ObjOf(c.info, rid) == ch {
					receives = true
				}
			}
			return true
		})
		if !receives {
			continue
		}
		c.res.Obligations++
		c.res.Count("counting_semaphores", 1)
		if capExpr == nil || !positive(capExpr) {
			what := "no capacity"
			if capExpr != nil {
				what = "capacity " + types.ExprString(capExpr)
			}
			c.res.Add(core.Finding{Rule: "GOPROTO.semcap", Key: fmt.Sprintf("GOPROTO.semcap|%s|%s", c.name, id.Name), Pos: core.Pos(send.Pos()), Func: c.name,
				Msg: fmt.Sprintf("%s is a counting semaphore (a token is sent before each goroutine is started and returned by the goroutine) created with %s, which is not provably >= 1: with capacity 0 the first send blocks before any worker exists and the call never returns", id.Name, what)})
		}
	}
}

// accumZero implements GOPROTO.accumzero. The serial arms assign every
// element of the destination; the concurrent arms add the workers' partial
// results to it as they arrive, so whatever the destination held before the
// call becomes part of the answer unless it was zeroed first.
func (c *fnCtx) accumZero() {
	params := map[types.Object]bool{}
	for _, fl := range c.fd.Type.Params.List {
		for _, n := range fl.Names {
			if o := c.info.Defs[n]; o != nil {
				params[o] = true
			}
		}
	}
	rootParam := func(e ast.Expr) types.Object {
		for {
			switch x := ast.Unparen(e).(type) {
			case *ast.Ident:
				if o := core.ObjOf(c.info, x); params[o] {
					return o
				}
				return nil
			case *ast.IndexExpr:
				e = x.X
			case *ast.SelectorExpr:
				e = x.X
			case *ast.StarExpr:
				e = x.X
			default:
				return nil
			}
		}
	}
	// collection loops: range over a channel, or a loop whose body receives
	var loops []ast.Stmt
	ast.Inspect(c.fd.Body, func(n ast.Node) bool {
		switch l := n.(type) {
		case *ast.FuncLit:
			return false
		case *ast.RangeStmt:
			if tv, ok := c.info.Types[l.X]; ok {
				if _, isChan := tv.Type.Underlying().(*types.Chan); isChan {
					loops = append(loops, l)
				}
			}
		case *ast.ForStmt:
			recv := false
			ast.Inspect(l.Body, func(x ast.Node) bool {
				if _, isLit := x.(*ast.FuncLit); isLit {
					return false
				}
				if u, ok := x.(*ast.UnaryExpr); ok && u.Op == token.ARROW {
					recv = true
				}
				return !recv
			})
			if recv {
				loops = append(loops, l)
			}
		}
		return true
	})
	for _, loop := range loops {
		var body *ast.BlockStmt
		switch l := loop.(type) {
		case *ast.RangeStmt:
			body = l.Body
		case *ast.ForStmt:
			body = l.Body
		}
		// accumulated parameters
		acc := map[types.Object]ast.Node{}
		reads := map[types.Object]bool{}
		ast.Inspect(body, func(n ast.Node) bool {
			switch x := n.(type) {
			case *ast.CallExpr:
				if sel, ok := x.Fun.(*ast.SelectorExpr); ok && (sel.Sel.Name == "At" || sel.Sel.Name == "AtVec") {
					if o := rootParam(sel.X); o != nil {
						reads[o] = true
					}
				}
			}
			return true
		})
		ast.Inspect(body, func(n ast.Node) bool {
			switch x := n.(type) {
			case *ast.AssignStmt:
				if x.Tok == token.ADD_ASSIGN || x.Tok == token.SUB_ASSIGN {
					for _, l := range x.Lhs {
						if ix, ok := l.(*ast.IndexExpr); ok {
							if o := rootParam(ix.X); o != nil {
								acc[o] = x
							}
						}
					}
				}
			case *ast.CallExpr:
				if sel, ok := x.Fun.(*ast.SelectorExpr); ok && strings.HasPrefix(sel.Sel.Name, "Set") {
					if o := rootParam(sel.X); o != nil && reads[o] {
						acc[o] = x
					}
				}
			}
			return true
		})
		for o, at := range acc {
			c.res.Obligations++
			c.res.Count("destinations_accumulated_from_channels", 1)
			if c.zeroedBefore(c.fd, o.Name(), loop) {
				continue
			}
			// unexported function: every caller zeroes the argument first
			ok := false
			if !c.fd.Name.IsExported() {
				ok = c.callersZero(o)
			}
			if !ok {
				c.res.Add(core.Finding{Rule: "GOPROTO.accumzero", Key: fmt.Sprintf("GOPROTO.accumzero|%s|%s", c.name, o.Name()), Pos: core.Pos(at.Pos()), Func: c.name,
					Msg: fmt.Sprintf("%s adds the results arriving on a channel to %s, but %s is not zeroed before the collection starts (neither here nor in every caller): a reused destination keeps its old contents in the answer, unlike the serial arm, which assigns every element", c.fd.Name.Name, o.Name(), o.Name())})
			}
		}
	}
}

// zeroedBefore: some statement before `before` in fd (same function, any
// nesting, source order) zeroes name: name.Zero(), name[i] = 0 or
// name.Set*(…, 0) in a loop.
func (c *fnCtx) zeroedBefore(fd *ast.FuncDecl, name string, before ast.Node) bool {
	isZero := func(e ast.Expr) bool {
		tv, ok := c.info.Types[e]
		return ok && tv.Value != nil && constant.Sign(constant.ToFloat(tv.Value)) == 0 && tv.Value.Kind() != constant.Bool && tv.Value.Kind() != constant.String
	}
	found := false
	ast.Inspect(fd.Body, func(n ast.Node) bool {
		if n == nil || found {
			return false
		}
		if before != nil && n.Pos() >= before.Pos() {
			return false
		}
		switch x := n.(type) {
		case *ast.FuncLit:
			return false
		case *ast.CallExpr:
			if sel, ok := x.Fun.(*ast.SelectorExpr); ok {
				if id, ok := ast.Unparen(sel.X).(*ast.Ident); ok && id.Name == name {
					if sel.Sel.Name == "Zero" {
						found = true
					}
					if strings.HasPrefix(sel.Sel.Name, "Set") && len(x.Args) > 0 && isZero(x.Args[len(x.Args)-1]) {
						found = true
					}
				}
			}
		case *ast.AssignStmt:
			if x.Tok == token.ASSIGN && len(x.Lhs) == 1 && len(x.Rhs) == 1 && isZero(x.Rhs[0]) {
				if ix, ok := x.Lhs[0].(*ast.IndexExpr); ok {
					if id, ok := ast.Unparen(ix.X).(*ast.Ident); ok && id.Name == name {
						found = true
					}
				}
			}
		}
		return true
	})
	return found
}

// callersZero: every call of c.fd in the package passes, for parameter p, an
// identifier that the caller zeroes before the call.
func (c *fnCtx) callersZero(p types.Object) bool {
	idx := -1
	k := 0
	for _, fl := range c.fd.Type.Params.List {
		for _, n := range fl.Names {
			if c.info.Defs[n] == p {
				idx = k
			}
			k++
		}
	}
	self, _ := c.info.Defs[c.fd.Name].(*types.Func)
	if idx < 0 || self == nil {
		return false
	}
	calls, ok := 0, true
	for _, f := range c.pkg.Syntax {
		for _, d := range f.Decls {
			fd, isFn := d.(*ast.FuncDecl)
			if !isFn || fd.Body == nil {
				continue
			}
			ast.Inspect(fd.Body, func(n ast.Node) bool {
				call, isCall := n.(*ast.CallExpr)
				if !isCall {
					return true
				}
				if fn, _ := typeutil.Callee(c.info, call).(*types.Func); fn != self || idx >= len(call.Args) {
					return true
				}
				calls++
				id, isID := ast.Unparen(call.Args[idx]).(*ast.Ident)
				if !isID || !c.zeroedBefore(fd, id.Name, call) {
					ok = false
				}
				return true
			})
		}
	}
	return calls > 0 && ok
}

func (c *fnCtx) stmtOf(n ast.Node) ast.Node {
	for p := n; p != nil; p = c.par[p] {
		if _, ok := p.(ast.Stmt); ok {
			return p
		}
	}
	return n
}

// waitGroups implements GOPROTO.wg.
func (c *fnCtx) waitGroups() {
	// WaitGroup variables declared in the function
	groups := map[string]types.Object{}
	ast.Inspect(c.fd.Body, func(n ast.Node) bool {
		if id, ok := n.(*ast.Ident); ok {
			if o, ok := c.info.Defs[id].(*types.Var); ok && isNamedType(o.Type(), "sync", "WaitGroup") {
				groups[id.Name] = o
			}
		}
		return true
	})
	for name := range groups {
		c.res.Obligations++
		c.res.Count("wait_groups", 1)
		key := fmt.Sprintf("GOPROTO.wg|%s|%s", c.name, name)
		flag := func(pos token.Pos, msg string) {
			c.res.Add(core.Finding{Rule: "GOPROTO.wg", Key: key, Pos: core.Pos(pos), Func: c.name, Msg: msg})
		}
		var adds []*ast.CallExpr
		var waits []*ast.CallExpr
		ast.Inspect(c.fd.Body, func(n ast.Node) bool {
			if x, call, ok := methodCallOn(n, "Add"); ok && x == name {
				adds = append(adds, call)
			}
			if x, call, ok := methodCallOn(n, "Wait"); ok && x == name {
				waits = append(waits, call)
			}
			return true
		})
		// goroutines that Done() this group
		var doers []*goSite
		for _, gs := range c.gos {
			if gs.lit == nil {
				continue
			}
			mentionsDone := false
			ast.Inspect(gs.lit.Body, func(n ast.Node) bool {
				if x, _, ok := methodCallOn(n, "Done"); ok && x == name {
					mentionsDone = true
				}
				return true
			})
			if !mentionsDone {
				continue
			}
			doers = append(doers, gs)
			if !c.doneGroups(gs.lit)[name] {
				flag(gs.stmt.Pos(), fmt.Sprintf("goroutine calls %s.Done() but not through defer: an early return or panic in the body leaves Wait() blocked", name))
			}
		}
		if len(adds) == 0 {
			if len(doers) > 0 {
				flag(doers[0].stmt.Pos(), fmt.Sprintf("%s.Done() is called by goroutines but %s.Add is never called", name, name))
			}
			continue
		}
		if len(waits) == 0 {
			flag(adds[0].Pos(), fmt.Sprintf("%s.Add is called but %s.Wait() is never reached: goroutines are left behind", name, name))
		}
		if len(doers) == 0 {
			// a goroutine started through a named function or method
			// (go w.run()) has its body elsewhere: Done may be called there
			unresolved := false
			for _, gs := range c.gos {
				if gs.lit == nil {
					unresolved = true
				}
			}
			if unresolved {
				c.res.Count("waitgroups_with_goroutine_bodies_elsewhere", 1)
				continue
			}
			flag(adds[0].Pos(), fmt.Sprintf("%s.Add is called but no spawned goroutine calls %s.Done()", name, name))
			continue
		}
		for _, add := range adds {
			c.res.Obligations++
			c.res.Count("waitgroup_add_sites", 1)
			if len(add.Args) != 1 {
				continue
			}
			arg := add.Args[0]
			if bl, ok := arg.(*ast.BasicLit); ok && bl.Value == "1" {
				// Add(1): the next go statement in the same statement list must be a doer
				okPair := false
				stmt := c.stmtOf(add)
				if list, idx := c.siblings_(stmt); list != nil {
					for i := idx + 1; i < len(list); i++ {
						if g, ok := list[i].(*ast.GoStmt); ok {
							for _, d := range doers {
								if d.stmt == g {
									okPair = true
								}
							}
							break
						}
					}
				}
				if !okPair {
					flag(add.Pos(), fmt.Sprintf("%s.Add(1) is not followed in the same block by a goroutine that defers %s.Done()", name, name))
				}
				continue
			}
			// Add(e): doers must sit in loops whose trip count is e
			for _, d := range doers {
				if !c.tripCountMatches(d, arg) {
					flag(add.Pos(), fmt.Sprintf("%s.Add(%s) does not match the number of goroutines started at %s (the spawning loop is not `for i := 0; i < %s; i++`, nor the blocks(m,bs)*blocks(n,bs) tiling idiom)",
						name, types.ExprString(arg), core.Pos(d.stmt.Pos()), types.ExprString(arg)))
				}
			}
		}
	}
}

func (c *fnCtx) siblings_(stmt ast.Node) ([]ast.Stmt, int) {
	var list []ast.Stmt
	switch b := c.par[stmt].(type) {
	case *ast.BlockStmt:
		list = b.List
	case *ast.CaseClause:
		list = b.Body
	}
	for i, s := range list {
		if s == stmt {
			return list, i
		}
	}
	return nil, -1
}

// tripCountMatches: the go statement is in `for i := 0; i < e; i++`, or e
// is blocks(A,S)*blocks(B,S) and the go statement is nested in
// `for i := 0; i < A; i += S { for j := 0; j < B; j += S {`.
func (c *fnCtx) tripCountMatches(d *goSite, e ast.Expr) bool {
	var loops []*ast.ForStmt
	for p := c.par[d.stmt]; p != nil; p = c.par[p] {
		if f, ok := p.(*ast.ForStmt); ok {
			loops = append(loops, f)
		}
		if _, ok := p.(*ast.FuncLit); ok {
			break
		}
	}
	upper := func(f *ast.ForStmt) (bound string, step string, ok bool) {
		be, isBin := f.Cond.(*ast.BinaryExpr)
		if !isBin || be.Op != token.LSS {
			return "", "", false
		}
		init, isAs := f.Init.(*ast.AssignStmt)
		if !isAs || len(init.Rhs) != 1 {
			return "", "", false
		}
		if bl, isLit := init.Rhs[0].(*ast.BasicLit); !isLit || bl.Value != "0" {
			return "", "", false
		}
		switch p := f.Post.(type) {
		case *ast.IncDecStmt:
			if p.Tok == token.INC {
				return types.ExprString(be.Y), "1", true
			}
		case *ast.AssignStmt:
			if p.Tok == token.ADD_ASSIGN && len(p.Rhs) == 1 {
				return types.ExprString(be.Y), types.ExprString(p.Rhs[0]), true
			}
		}
		return "", "", false
	}
	want := types.ExprString(e)
	if len(loops) == 1 {
		if b, s, ok := upper(loops[0]); ok && s == "1" && b == want {
			return true
		}
	}
	// tiling idiom
	if id, ok := e.(*ast.Ident); ok && len(loops) == 2 {
		var def ast.Expr
		obj := core.ObjOf(c.info, id)
		ast.Inspect(c.fd.Body, func(n ast.Node) bool {
			if as, ok := n.(*ast.AssignStmt); ok && len(as.Lhs) == 1 && len(as.Rhs) == 1 {
				if l, ok := as.Lhs[0].(*ast.Ident); ok && core.ObjOf(c.info, l) == obj {
					def = as.Rhs[0]
				}
			}
			return true
		})
		if mul, ok := def.(*ast.BinaryExpr); ok && mul.Op == token.MUL {
			blocksOf := func(x ast.Expr) (string, string, bool) {
				call, ok := x.(*ast.CallExpr)
				if !ok || len(call.Args) != 2 {
					return "", "", false
				}
				if f, ok := call.Fun.(*ast.Ident); !ok || f.Name != "blocks" {
					return "", "", false
				}
				return types.ExprString(call.Args[0]), types.ExprString(call.Args[1]), true
			}
			a1, s1, ok1 := blocksOf(mul.X)
			a2, s2, ok2 := blocksOf(mul.Y)
			bo, so, oko := upper(loops[1]) // outer
			bi, si, oki := upper(loops[0]) // inner
			if ok1 && ok2 && oko && oki && bo == a1 && so == s1 && bi == a2 && si == s2 {
				return true
			}
		}
	}
	return false
}

// channels implements GOPROTO.close.
func (c *fnCtx) channels() {
	chans := map[types.Object]string{}
	ast.Inspect(c.fd.Body, func(n ast.Node) bool {
		as, ok := n.(*ast.AssignStmt)
		if !ok || len(as.Lhs) != len(as.Rhs) {
			return true
		}
		for i, r := range as.Rhs {
			call, ok := r.(*ast.CallExpr)
			if !ok {
				continue
			}
			if f, ok := call.Fun.(*ast.Ident); !ok || f.Name != "make" || len(call.Args) == 0 {
				continue
			}
			if _, isChan := call.Args[0].(*ast.ChanType); !isChan {
				continue
			}
			if id, ok := as.Lhs[i].(*ast.Ident); ok {
				if o := core.ObjOf(c.info, id); o != nil {
					chans[o] = id.Name
				}
			}
		}
		return true
	})
	// channel parameters of closures alias the argument they are spawned with
	alias := map[types.Object]types.Object{}
	for _, gs := range c.gos {
		if gs.lit == nil || gs.lit.Type.Params == nil {
			continue
		}
		var params []*ast.Ident
		for _, f := range gs.lit.Type.Params.List {
			params = append(params, f.Names...)
		}
		for i, a := range gs.stmt.Call.Args {
			if i >= len(params) {
				break
			}
			if id, ok := a.(*ast.Ident); ok {
				if o := core.ObjOf(c.info, id); o != nil {
					if _, isCh := chans[o]; isCh {
						alias[c.info.Defs[params[i]]] = o
					}
				}
			}
		}
	}
	resolve := func(e ast.Expr) types.Object {
		id, ok := e.(*ast.Ident)
		if !ok {
			return nil
		}
		o := core.ObjOf(c.info, id)
		if a, ok := alias[o]; ok {
			return a
		}
		return o
	}
	for ch, name := range chans {
		var closes []*ast.CallExpr
		var ranges []*ast.RangeStmt
		var quits []ast.Node
		ast.Inspect(c.fd.Body, func(n ast.Node) bool {
			switch x := n.(type) {
			case *ast.CallExpr:
				if f, ok := x.Fun.(*ast.Ident); ok && f.Name == "close" && len(x.Args) == 1 && resolve(x.Args[0]) == ch {
					closes = append(closes, x)
				}
			case *ast.RangeStmt:
				if resolve(x.X) == ch {
					ranges = append(ranges, x)
				}
			case *ast.CommClause:
				// case <-quit: with no value used
				if es, ok := x.Comm.(*ast.ExprStmt); ok {
					if u, ok := es.X.(*ast.UnaryExpr); ok && u.Op == token.ARROW && resolve(u.X) == ch {
						quits = append(quits, x)
					}
				}
			}
			return true
		})
		if len(ranges) == 0 && len(quits) == 0 && len(closes) == 0 {
			continue
		}
		c.res.Obligations++
		c.res.Count("channels_with_close_protocol", 1)
		key := fmt.Sprintf("GOPROTO.close|%s|%s", c.name, name)
		flag := func(pos token.Pos, msg string) {
			c.res.Add(core.Finding{Rule: "GOPROTO.close", Key: key, Pos: core.Pos(pos), Func: c.name, Msg: msg})
		}
		// a channel handed to another function may be closed there (e.g.
		// operations is closed by Method.Run: see GOPROTO.run)
		escapes := false
		ast.Inspect(c.fd.Body, func(n ast.Node) bool {
			call, ok := n.(*ast.CallExpr)
			if !ok {
				return true
			}
			if _, isGo := c.par[call].(*ast.GoStmt); isGo {
				if _, isLit := call.Fun.(*ast.FuncLit); isLit {
					return true
				}
				if id, ok := call.Fun.(*ast.Ident); ok && c.lits[core.ObjOf(c.info, id)] != nil {
					return true
				}
			}
			if f, ok := call.Fun.(*ast.Ident); ok && (f.Name == "close" || f.Name == "len" || f.Name == "cap") {
				return true
			}
			for _, a := range call.Args {
				if resolve(a) == ch {
					escapes = true
				}
			}
			return true
		})
		if len(closes) == 0 {
			if escapes {
				c.res.Count("channels_closed_by_callee", 1)
				continue
			}
			if len(ranges) > 0 {
				flag(ranges[0].Pos(), fmt.Sprintf("channel %s is ranged over but never closed: the receiving goroutine never terminates", name))
			} else if len(quits) > 0 {
				flag(quits[0].Pos(), fmt.Sprintf("quit channel %s is selected on but never closed: workers are left behind", name))
			}
			continue
		}
		if len(closes) > 1 {
			flag(closes[1].Pos(), fmt.Sprintf("channel %s is closed at %d sites (first at %s): a second close panics", name, len(closes), core.Pos(closes[0].Pos())))
			continue
		}
		// the single close must be reached on every exit of its function
		cl := closes[0]
		if _, isDefer := c.par[cl].(*ast.DeferStmt); isDefer {
			continue
		}
		body := c.bodyOf(cl)
		// Only an unconditional close (a top-level statement of its
		// function) is required on every exit; a close nested in a
		// select/switch/if is part of a data-driven shutdown protocol
		// (optimize.minimize) whose order is not decidable here.
		if st := c.stmtOf(cl); c.par[st] != ast.Node(body) {
			c.res.Count("conditional_closes_existence_only", 1)
			continue
		}
		g := cfgx.New(body, c.info)
		has := func(b *cfg.Block) bool {
			for _, n := range b.Nodes {
				found := false
				ast.Inspect(n, func(m ast.Node) bool {
					if m == ast.Node(cl) {
						found = true
					}
					return !found
				})
				if found {
					return true
				}
			}
			return false
		}
		in := g.MustPass(has)
		reach := g.Reachable()
		for _, b := range g.Blocks {
			if !reach[b.Index] || len(b.Succs) != 0 || b.Kind == cfg.KindUnreachable {
				continue
			}
			// exit block: either passed before or contains the close
			if in[b.Index] || has(b) {
				continue
			}
			// blocks ending in panic are not normal exits
			if endsInPanic(c.info, b) {
				continue
			}
			flag(cl.Pos(), fmt.Sprintf("close(%s) is not reached on every exit of its function (an exit at %s skips it): receivers would block forever", name, exitPos(b, body)))
			break
		}
	}
}

func endsInPanic(info *types.Info, b *cfg.Block) bool {
	if len(b.Nodes) == 0 {
		return false
	}
	if es, ok := b.Nodes[len(b.Nodes)-1].(*ast.ExprStmt); ok {
		if call, ok := es.X.(*ast.CallExpr); ok {
			return cfgx.IsPanic(info, call)
		}
	}
	return false
}

func exitPos(b *cfg.Block, body *ast.BlockStmt) string {
	if len(b.Nodes) > 0 {
		return core.Pos(b.Nodes[len(b.Nodes)-1].Pos())
	}
	return core.Pos(body.End())
}

// siblings implements GOPROTO.sibling: two unexported functions called in
// the same function with at least three identical argument expressions,
// one of them under a test of a worker/concurrency count against 1.
func (c *fnCtx) siblings() {
	type callInfo struct {
		call *ast.CallExpr
		fn   *types.Func
	}
	var calls []callInfo
	ast.Inspect(c.fd.Body, func(n ast.Node) bool {
		call, ok := n.(*ast.CallExpr)
		if !ok {
			return true
		}
		fn, _ := typeutil.Callee(c.info, call).(*types.Func)
		if fn == nil || fn.Exported() || fn.Pkg() != c.pkg.Types {
			return true
		}
		if fn.Type().(*types.Signature).Recv() != nil {
			return true
		}
		calls = append(calls, callInfo{call, fn})
		return true
	})
	for i := 0; i < len(calls); i++ {
		for j := i + 1; j < len(calls); j++ {
			a, b := calls[i], calls[j]
			if a.fn == b.fn {
				continue
			}
			// one under `if X == 1`
			guarded := func(ci callInfo) bool {
				for p := c.par[ci.call]; p != nil; p = c.par[p] {
					if is, ok := p.(*ast.IfStmt); ok {
						if be, ok := is.Cond.(*ast.BinaryExpr); ok && be.Op == token.EQL {
							if bl, ok := be.Y.(*ast.BasicLit); ok && bl.Value == "1" {
								return true
							}
						}
					}
				}
				return false
			}
			if guarded(a) == guarded(b) {
				continue
			}
			// parameter correspondence by identical argument text
			sa, sb := a.fn.Type().(*types.Signature), b.fn.Type().(*types.Signature)
			type pair struct{ pa, pb *types.Var }
			var pairs []pair
			for x, ax := range a.call.Args {
				for y, by := range b.call.Args {
					if types.ExprString(ax) == types.ExprString(by) && x < sa.Params().Len() && y < sb.Params().Len() {
						pairs = append(pairs, pair{sa.Params().At(x), sb.Params().At(y)})
					}
				}
			}
			if len(pairs) < 3 {
				continue
			}
			da, db := c.declOf(a.fn), c.declOf(b.fn)
			if da == nil || db == nil {
				continue
			}
			c.res.Count("serial_concurrent_sibling_pairs", 1)
			c.res.Sample(map[string]any{"rule": "GOPROTO.sibling", "dispatcher": c.name, "serial_or_concurrent": []string{a.fn.Name(), b.fn.Name()}, "shared_parameters": len(pairs)})
			for _, p := range pairs {
				c.res.Obligations++
				c.res.Count("sibling_parameters_compared", 1)
				ra, rb := readsParam(c.info, da, p.pa), readsParam(c.info, db, p.pb)
				if ra != rb {
					who, other := a.fn.Name(), b.fn.Name()
					pn := p.pb.Name()
					if !ra {
						who, other = other, who
						pn = p.pa.Name()
					}
					c.res.Add(core.Finding{
						Rule: "GOPROTO.sibling",
						Key:  fmt.Sprintf("GOPROTO.sibling|%s|%s", c.pkgRel()+"."+other, pn),
						Pos:  core.Pos(c.declOf(map[bool]*types.Func{true: b.fn, false: a.fn}[!rb]).Pos()), Func: c.pkgRel() + "." + other,
						Msg: fmt.Sprintf("%s reads parameter %q but its sibling %s, dispatched from the same call site with the same argument, never does: the setting is silently ignored on that path",
							who, pn, other),
					})
				}
			}
		}
	}
}

func (c *fnCtx) pkgRel() string { return core.RelPkg(c.pkg.PkgPath) }

func (c *fnCtx) declOf(fn *types.Func) *ast.FuncDecl {
	for _, f := range c.pkg.Syntax {
		for _, d := range f.Decls {
			if fd, ok := d.(*ast.FuncDecl); ok && c.info.Defs[fd.Name] == fn {
				return fd
			}
		}
	}
	return nil
}

func readsParam(info *types.Info, fd *ast.FuncDecl, p *types.Var) bool {
	found := false
	if fd.Body == nil {
		return true
	}
	ast.Inspect(fd.Body, func(n ast.Node) bool {
		if id, ok := n.(*ast.Ident); ok && info.Uses[id] == p {
			// an assignment target is not a read
			found = true
		}
		return !found
	})
	return found
}

var _ = strings.HasPrefix

// ---------------------------------------------------------------------
// GOPROTO.run (C19): the Method.Run shutdown contract.

// RunProtocol checks every method named Run with the optimize.Method
// signature (operation chan<- Task, result <-chan Task, tasks []Task):
// every path to a normal exit passes a drain of result (a `for range
// result` loop without break/return, directly or through a helper that
// drains the corresponding argument on all its paths) and then closes
// operation exactly once.
func RunProtocol(conf core.Config) *core.Result {
	res := core.NewResult("GOPROTO.run")
	res.Rules = append(res.Rules, "GOPROTO.run: in every optimize Method.Run, on every path to a normal exit the result channel is drained (ranged to closure) before close(operation), and operation is closed exactly once")
	res.Configs = append(res.Configs, conf.String())
	pkgs, err := core.Load(conf, "./optimize")
	if err != nil {
		res.Brokenf("%v", err)
		return res
	}
	pkg := pkgs[0]
	info := pkg.TypesInfo
	decls := map[*types.Func]*ast.FuncDecl{}
	for _, f := range pkg.Syntax {
		for _, d := range f.Decls {
			if fd, ok := d.(*ast.FuncDecl); ok && fd.Body != nil {
				if fn, ok := info.Defs[fd.Name].(*types.Func); ok {
					decls[fn] = fd
				}
			}
		}
	}
	isRecvChan := func(t types.Type) bool {
		ch, ok := t.Underlying().(*types.Chan)
		return ok && ch.Dir() == types.RecvOnly
	}
	isSendChan := func(t types.Type) bool {
		ch, ok := t.Underlying().(*types.Chan)
		return ok && ch.Dir() == types.SendOnly
	}
	// drains[fn][i]: fn ranges parameter i to closure on every normal path
	drains := map[*types.Func]map[int]bool{}
	closes := map[*types.Func]map[int]bool{}
	var eventsFor func(fd *ast.FuncDecl, param types.Object, wantDrain bool) func(n ast.Node) bool
	eventsFor = func(fd *ast.FuncDecl, param types.Object, wantDrain bool) func(n ast.Node) bool {
		par := cfgx.Parents(fd.Body)
		return func(n ast.Node) bool {
			found := false
			ast.Inspect(n, func(x ast.Node) bool {
				if _, ok := x.(*ast.FuncLit); ok {
					return false
				}
				switch e := x.(type) {
				case *ast.Ident:
					// the range expression of `for ... := range param`
					if wantDrain && core.ObjOf(info, e) == param {
						if rs, ok := par[e].(*ast.RangeStmt); ok && rs.X == ast.Expr(e) {
							clean := true
							ast.Inspect(rs.Body, func(y ast.Node) bool {
								switch b := y.(type) {
								case *ast.ReturnStmt:
									clean = false
								case *ast.BranchStmt:
									if b.Tok == token.BREAK || b.Tok == token.GOTO {
										// a break inside a nested switch/select/for only leaves that statement
										nested := false
										for p := par[b]; p != nil && p != ast.Node(rs); p = par[p] {
											switch p.(type) {
											case *ast.SwitchStmt, *ast.TypeSwitchStmt, *ast.SelectStmt, *ast.ForStmt, *ast.RangeStmt:
												nested = true
											}
										}
										if !nested || b.Label != nil {
											clean = false
										}
									}
								}
								return true
							})
							if clean {
								found = true
							}
						}
					}
				case *ast.CallExpr:
					if !wantDrain {
						if f, ok := e.Fun.(*ast.Ident); ok && f.Name == "close" && len(e.Args) == 1 {
							if id, ok := e.Args[0].(*ast.Ident); ok && core.ObjOf(info, id) == param {
								found = true
							}
						}
					}
					if callee, _ := typeutil.Callee(info, e).(*types.Func); callee != nil {
						table := drains
						if !wantDrain {
							table = closes
						}
						for i, a := range e.Args {
							if id, ok := a.(*ast.Ident); ok && core.ObjOf(info, id) == param && table[callee][i] {
								found = true
							}
						}
					}
				}
				return !found
			})
			return found
		}
	}
	// allPaths: every normal exit of fd is preceded by an event
	allPaths := func(fd *ast.FuncDecl, ev func(ast.Node) bool) bool {
		g := cfgx.New(fd.Body, info)
		has := func(b *cfg.Block) bool {
			for _, n := range b.Nodes {
				if ev(n) {
					return true
				}
			}
			return false
		}
		in := g.MustPass(has)
		reach := g.Reachable()
		for _, b := range g.Blocks {
			if !reach[b.Index] || len(b.Succs) != 0 || b.Kind == cfg.KindUnreachable || endsInPanic(info, b) {
				continue
			}
			if !(in[b.Index] || has(b)) {
				return false
			}
		}
		return true
	}
	for iter := 0; iter < 5; iter++ {
		changed := false
		for fn, fd := range decls {
			sig := fn.Type().(*types.Signature)
			for i := 0; i < sig.Params().Len(); i++ {
				p := sig.Params().At(i)
				if isRecvChan(p.Type()) && !drains[fn][i] {
					if allPaths(fd, eventsFor(fd, p, true)) {
						if drains[fn] == nil {
							drains[fn] = map[int]bool{}
						}
						drains[fn][i] = true
						changed = true
					}
				}
				if isSendChan(p.Type()) && !closes[fn][i] {
					if allPaths(fd, eventsFor(fd, p, false)) {
						if closes[fn] == nil {
							closes[fn] = map[int]bool{}
						}
						closes[fn][i] = true
						changed = true
					}
				}
			}
		}
		if !changed {
			break
		}
	}
	for fn, fd := range decls {
		if fn.Name() != "Run" {
			continue
		}
		sig := fn.Type().(*types.Signature)
		if sig.Recv() == nil || sig.Params().Len() != 3 || !isSendChan(sig.Params().At(0).Type()) || !isRecvChan(sig.Params().At(1).Type()) {
			continue
		}
		name := core.FuncName(pkg, fd)
		op, rs := sig.Params().At(0), sig.Params().At(1)
		res.Count("run_methods", 1)
		res.Obligations += 3
		drainEv := eventsFor(fd, rs, true)
		closeEv := eventsFor(fd, op, false)
		flag := func(what, msg string, pos token.Pos) {
			res.Add(core.Finding{Rule: "GOPROTO.run", Key: fmt.Sprintf("GOPROTO.run|%s|%s", name, what), Pos: core.Pos(pos), Func: name, Msg: msg})
		}
		if !allPaths(fd, closeEv) {
			flag("close", fmt.Sprintf("some path through Run returns without closing %s: minimize's distributor would wait forever", op.Name()), fd.Pos())
		}
		// the drain must come before the close on every path: at each close
		// node, a drain must already have been passed
		g := cfgx.New(fd.Body, info)
		hasDrain := func(b *cfg.Block) bool {
			for _, n := range b.Nodes {
				if drainEv(n) {
					return true
				}
			}
			return false
		}
		in := g.MustPass(hasDrain)
		reach := g.Reachable()
		ncloses := 0
		for _, b := range g.Blocks {
			if !reach[b.Index] {
				continue
			}
			passed := in[b.Index]
			for _, n := range b.Nodes {
				if drainEv(n) {
					passed = true
				}
				if closeEv(n) {
					ncloses++
					if !passed {
						flag("order", fmt.Sprintf("close(%s) can be reached before %s has been drained to closure: the documented shutdown order (results closed before operations) is not guaranteed", op.Name(), rs.Name()), n.Pos())
					}
					// a second close reachable from this one
					seen := map[int32]bool{}
					var walk func(bb *cfg.Block, from int) bool
					walk = func(bb *cfg.Block, from int) bool {
						for i := from; i < len(bb.Nodes); i++ {
							if closeEv(bb.Nodes[i]) {
								return true
							}
						}
						for _, sc := range bb.Succs {
							if !seen[sc.Index] {
								seen[sc.Index] = true
								if walk(sc, 0) {
									return true
								}
							}
						}
						return false
					}
					idx := 0
					for i, m := range b.Nodes {
						if m == n {
							idx = i
						}
					}
					if walk(b, idx+1) {
						flag("twice", fmt.Sprintf("%s can be closed twice on one path", op.Name()), n.Pos())
					}
				}
			}
		}
		res.Sample(map[string]any{"rule": "GOPROTO.run", "method": name, "close_sites": ncloses})
	}
	return res
}

// ---------------------------------------------------------------------
// GOPROTO.lockpair and GOPROTO.once

// RunLocks checks every function of the scope: (lockpair) each X.Lock() /
// X.RLock() statement is followed, in the same statement list, by the
// matching X.Unlock() / X.RUnlock() statement or a deferred one — a lock
// taken inside an `if` and released inside another leaves the region in
// between unprotected on some configurations; (once) a field assigned
// inside a sync.Once.Do closure is never read in the same function outside
// that closure, and every other method of the type that reads it first
// calls the initialising method.
func RunLocks(conf core.Config, scope core.Scope) *core.Result {
	res := core.NewResult("GOPROTO.locks")
	res.Rules = append(res.Rules,
		"GOPROTO.lockpair: every Lock()/RLock() statement is paired with its Unlock() in the same statement list (or a deferred Unlock)",
		"GOPROTO.lockexit: between a Lock() and an explicit (not deferred) Unlock() of the same statement list no statement can leave the function by return or panic",
		"GOPROTO.once: a field initialised inside sync.Once.Do is read only after the Do call: never around it, and in other methods only after the initialising method was called")
	res.Configs = append(res.Configs, conf.String())
	pkgs, err := core.Load(conf, scope.Patterns...)
	if err != nil {
		res.Brokenf("%v", err)
		return res
	}
	for _, pkg := range pkgs {
		info := pkg.TypesInfo
		type onceInit struct {
			field  string
			method *ast.FuncDecl
			recvT  string
		}
		var inits []onceInit
		var decls []*ast.FuncDecl
		for _, f := range pkg.Syntax {
			if !scope.InFile(f.Pos()) {
				continue
			}
			for _, d := range f.Decls {
				if fd, ok := d.(*ast.FuncDecl); ok && fd.Body != nil {
					decls = append(decls, fd)
				}
			}
		}
		for _, fd := range decls {
			name := core.FuncName(pkg, fd)
			par := cfgx.Parents(fd.Body)
			ast.Inspect(fd.Body, func(n ast.Node) bool {
				es, ok := n.(*ast.ExprStmt)
				if !ok {
					return true
				}
				for _, pair := range [][2]string{{"Lock", "Unlock"}, {"RLock", "RUnlock"}} {
					x, call, ok := methodCallOn(es.X, pair[0])
					if !ok {
						continue
					}
					if sel, ok := call.Fun.(*ast.SelectorExpr); ok {
						if tv, ok := info.Types[sel.X]; !ok || !(isNamedType(tv.Type, "sync", "Mutex") || isNamedType(tv.Type, "sync", "RWMutex")) {
							continue
						}
					}
					res.Obligations++
					res.Count("lock_statements", 1)
					var list []ast.Stmt
					switch b := par[es].(type) {
					case *ast.BlockStmt:
						list = b.List
					case *ast.CaseClause:
						list = b.Body
					case *ast.CommClause:
						list = b.Body
					}
					idx := -1
					for i, s := range list {
						if s == ast.Stmt(es) {
							idx = i
						}
					}
					paired := false
					// `defer mu.Unlock()` immediately before the Lock is the
					// unit package's idiom
					for i := 0; i < idx; i++ {
						if ds, ok := list[i].(*ast.DeferStmt); ok {
							if y, _, ok := methodCallOn(ds.Call, pair[1]); ok && y == x {
								paired = true
							}
						}
					}
					for i := idx + 1; idx >= 0 && i < len(list); i++ {
						switch s := list[i].(type) {
						case *ast.ExprStmt:
							if y, _, ok := methodCallOn(s.X, pair[1]); ok && y == x {
								if !paired {
									// an explicit unlock: nothing between the two may
									// leave the function, or the lock stays held
									res.Obligations++
									res.Count("explicit_unlock_regions", 1)
									for j := idx + 1; j < i; j++ {
										var exit ast.Node
										ast.Inspect(list[j], func(y ast.Node) bool {
											switch z := y.(type) {
											case *ast.FuncLit:
												return false
											case *ast.ReturnStmt:
												exit = z
											case *ast.CallExpr:
												if cfgx.IsPanic(info, z) {
													exit = z
												}
											}
											return exit == nil
										})
										if exit != nil {
											res.Add(core.Finding{Rule: "GOPROTO.lockexit", Key: fmt.Sprintf("GOPROTO.lockexit|%s|%s", name, x), Pos: core.Pos(exit.Pos()), Func: name,
												Msg: fmt.Sprintf("the function can be left here (return or panic) between %s.%s() and the explicit %s.%s(): the lock stays held and every later user of %s blocks for ever; unlock with defer, or before leaving", x, pair[0], x, pair[1], x)})
											break
										}
									}
								}
								paired = true
							}
						case *ast.DeferStmt:
							if y, _, ok := methodCallOn(s.Call, pair[1]); ok && y == x {
								paired = true
							}
						}
					}
					if !paired {
						res.Add(core.Finding{Rule: "GOPROTO.lockpair", Key: fmt.Sprintf("GOPROTO.lockpair|%s|%s", name, x), Pos: core.Pos(es.Pos()), Func: name,
							Msg: fmt.Sprintf("%s.%s() has no matching %s() in the same statement list: the lock and the region it protects are not executed as one unit", x, pair[0], pair[1])})
					}
				}
				return true
			})
			// once.Do
			ast.Inspect(fd.Body, func(n ast.Node) bool {
				call, ok := n.(*ast.CallExpr)
				if !ok || len(call.Args) != 1 {
					return true
				}
				sel, ok := call.Fun.(*ast.SelectorExpr)
				if !ok || sel.Sel.Name != "Do" {
					return true
				}
				if tv, ok := info.Types[sel.X]; !ok || !isNamedType(tv.Type, "sync", "Once") {
					return true
				}
				lit, ok := call.Args[0].(*ast.FuncLit)
				if !ok {
					return true
				}
				res.Count("once_do_sites", 1)
				fields := map[string]bool{}
				ast.Inspect(lit.Body, func(m ast.Node) bool {
					if as, ok := m.(*ast.AssignStmt); ok {
						for _, l := range as.Lhs {
							if s2, ok := l.(*ast.SelectorExpr); ok {
								fields[types.ExprString(s2)] = true
							}
						}
					}
					return true
				})
				for fld := range fields {
					res.Obligations++
					ast.Inspect(fd.Body, func(m ast.Node) bool {
						if m == ast.Node(lit) {
							return false
						}
						if s2, ok := m.(*ast.SelectorExpr); ok && types.ExprString(s2) == fld {
							res.Add(core.Finding{Rule: "GOPROTO.once", Key: fmt.Sprintf("GOPROTO.once|%s|%s", name, fld), Pos: core.Pos(s2.Pos()), Func: name,
								Msg: fmt.Sprintf("%s is initialised inside %s.Do but is read outside the closure in the same function: a second goroutine can observe it partially initialised (double-checked locking)", fld, types.ExprString(sel.X))})
							return false
						}
						return true
					})
					if fd.Recv != nil {
						parts := strings.SplitN(fld, ".", 2)
						if len(parts) == 2 {
							inits = append(inits, onceInit{field: parts[1], method: fd, recvT: recvTypeOf(fd)})
						}
					}
				}
				return true
			})
		}
		// other methods reading a once-initialised field must call the initialiser first
		for _, in := range inits {
			for _, fd := range decls {
				if fd == in.method || fd.Recv == nil || recvTypeOf(fd) != in.recvT || len(fd.Recv.List[0].Names) != 1 {
					continue
				}
				recv := fd.Recv.List[0].Names[0].Name
				var reads []ast.Node
				ast.Inspect(fd.Body, func(m ast.Node) bool {
					if s2, ok := m.(*ast.SelectorExpr); ok && s2.Sel.Name == in.field {
						if id, ok := s2.X.(*ast.Ident); ok && id.Name == recv {
							reads = append(reads, s2)
						}
					}
					return true
				})
				if len(reads) == 0 {
					continue
				}
				g := cfgx.New(fd.Body, info)
				inState := g.MustPass(func(b *cfg.Block) bool {
					for _, n := range b.Nodes {
						found := false
						ast.Inspect(n, func(x ast.Node) bool {
							if _, c, ok := methodCallOn(x, in.method.Name.Name); ok && c != nil {
								found = true
							}
							return !found
						})
						if found {
							return true
						}
					}
					return false
				})
				for _, r := range reads {
					res.Obligations++
					res.Count("once_field_reads", 1)
					loc, ok := g.Where[r]
					if !ok {
						continue
					}
					okRead := inState[loc.Block]
					if !okRead {
						// same block, earlier node
						b := g.Blocks[loc.Block]
						for i := 0; i < loc.Index; i++ {
							ast.Inspect(b.Nodes[i], func(x ast.Node) bool {
								if _, c, ok := methodCallOn(x, in.method.Name.Name); ok && c != nil {
									okRead = true
								}
								return true
							})
						}
					}
					if !okRead {
						res.Add(core.Finding{Rule: "GOPROTO.once", Key: fmt.Sprintf("GOPROTO.once|%s|%s", core.FuncName(pkg, fd), in.field), Pos: core.Pos(r.Pos()), Func: core.FuncName(pkg, fd),
							Msg: fmt.Sprintf("field %s is initialised lazily by %s (sync.Once) but is read here on a path that has not called %s", in.field, in.method.Name.Name, in.method.Name.Name)})
					}
				}
			}
		}
	}
	return res
}

func recvTypeOf(fd *ast.FuncDecl) string {
	if fd.Recv == nil || len(fd.Recv.List) == 0 {
		return ""
	}
	t := fd.Recv.List[0].Type
	if s, ok := t.(*ast.StarExpr); ok {
		t = s.X
	}
	if id, ok := t.(*ast.Ident); ok {
		return id.Name
	}
	return ""
}
