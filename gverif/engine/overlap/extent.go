package overlap

import (
	"fmt"
	"go/ast"
	"go/token"
	"go/types"

	"gverif/core"
)

// RunExtent implements OVERLAP.extent: the distance returned by
// offset/offsetComplex is measured in elements of the backing array, so the
// early-out tests "one operand ends before the other begins" compare it
// with a storage length (len of a Data slice), never with a logical element
// count (N, Rows, Cols), which ignores the increment or stride.
func RunExtent(conf core.Config) *core.Result {
	res := core.NewResult("OVERLAP.extent")
	res.Rules = append(res.Rules, "OVERLAP.lattice: a storage offset is reduced by an increment or stride only with the remainder operator, never a bitwise one", "OVERLAP.extent: a storage offset (result of offset/offsetComplex) is compared only with zero or with the storage length len(x.Data) of an operand")
	res.Configs = append(res.Configs, conf.String())
	pkgs, err := core.Load(conf, "./mat")
	if err != nil {
		res.Brokenf("%v", err)
		return res
	}
	pkg := pkgs[0]
	info := pkg.TypesInfo
	for _, f := range pkg.Syntax {
		for _, d := range f.Decls {
			fd, ok := d.(*ast.FuncDecl)
			if !ok || fd.Body == nil {
				continue
			}
			name := core.FuncName(pkg, fd)
			offs := map[types.Object]bool{}
			lens := map[types.Object]bool{} // locals defined as len(slice)
			ast.Inspect(fd.Body, func(n ast.Node) bool {
				as, ok := n.(*ast.AssignStmt)
				if !ok || len(as.Lhs) != len(as.Rhs) {
					return true
				}
				for i, r := range as.Rhs {
					id, ok := as.Lhs[i].(*ast.Ident)
					if !ok {
						continue
					}
					if c, ok := r.(*ast.CallExpr); ok {
						if fid, ok := c.Fun.(*ast.Ident); ok {
							switch fid.Name {
							case "offset", "offsetComplex":
								offs[core.ObjOf(info, id)] = true
							case "len":
								lens[core.ObjOf(info, id)] = true
							}
						}
					}
				}
				return true
			})
			if len(offs) == 0 {
				continue
			}
			isOff := func(e ast.Expr) bool {
				e = ast.Unparen(e)
				if u, ok := e.(*ast.UnaryExpr); ok && u.Op == token.SUB {
					e = ast.Unparen(u.X)
				}
				id, ok := e.(*ast.Ident)
				return ok && offs[core.ObjOf(info, id)]
			}
			isStorageLen := func(e ast.Expr) bool {
				e = ast.Unparen(e)
				if tv, ok := info.Types[e]; ok && tv.Value != nil {
					return true
				}
				if id, ok := e.(*ast.Ident); ok && lens[core.ObjOf(info, id)] {
					return true
				}
				c, ok := e.(*ast.CallExpr)
				if !ok || len(c.Args) != 1 {
					return false
				}
				fid, ok := c.Fun.(*ast.Ident)
				if !ok || (fid.Name != "len" && fid.Name != "cap") {
					return false
				}
				tv, ok := info.Types[c.Args[0]]
				if !ok {
					return false
				}
				_, isSlice := tv.Type.Underlying().(*types.Slice)
				return isSlice
			}
			ast.Inspect(fd.Body, func(n ast.Node) bool {
				be, ok := n.(*ast.BinaryExpr)
				if !ok {
					return true
				}
				switch be.Op {
				case token.LSS, token.LEQ, token.GTR, token.GEQ:
				case token.REM, token.AND, token.OR, token.XOR, token.AND_NOT, token.SHL, token.SHR:
					// OVERLAP.lattice: whether an offset falls on the
					// lattice of an increment is a remainder.
					if isOff(be.X) {
						res.Obligations++
						res.Count("offset_lattice_tests", 1)
						if be.Op != token.REM {
							res.Add(core.Finding{Rule: "OVERLAP.lattice", Key: fmt.Sprintf("OVERLAP.lattice|%s|%s", name, be.Op), Pos: core.Pos(be.Pos()), Func: name,
								Msg: fmt.Sprintf("%s combines a storage offset with %s by the bitwise operator %s: whether two equally strided views share elements depends on the remainder of the offset modulo the increment; the bit pattern rejects disjoint views (offset 2, increment 4) and accepts overlapping ones (offset 3, increment 3)", name, types.ExprString(be.Y), be.Op)})
						}
					}
					return true
				default:
					return true
				}
				var other ast.Expr
				switch {
				case isOff(be.X):
					other = be.Y
				case isOff(be.Y):
					other = be.X
				default:
					return true
				}
				res.Obligations++
				res.Count("offset_comparisons", 1)
				if !isStorageLen(other) {
					res.Add(core.Finding{Rule: "OVERLAP.extent", Key: fmt.Sprintf("OVERLAP.extent|%s|%s", name, types.ExprString(other)), Pos: core.Pos(be.Pos()), Func: name,
						Msg: fmt.Sprintf("%s compares a storage offset with %s, which is not the storage length of an operand: an operand with stride or increment > 1 reaches further than its element count, so the early-out misses real overlaps", types.ExprString(be), types.ExprString(other))})
				}
				return true
			})
		}
	}
	return res
}
