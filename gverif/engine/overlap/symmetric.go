package overlap

import (
	"fmt"
	"go/ast"
	"go/types"
	"sort"
	"strings"

	"gverif/core"
)

// RunSymmetric implements OVERLAP.symmetric. "a overlaps b" is a symmetric
// relation, so an overlap predicate over two operands of one type must treat
// them alike: in every function of mat with two parameters a, b of the same
// struct type that reach rectanglesOverlap, each argument of that call and
// each condition guarding a panic mentions field F of a exactly as often as
// field F of b — except for fields that the function swaps explicitly
// (`a.Cols, b.Cols = b.Cols, a.Cols`, the normalisation to a non-negative
// offset) or reads on sign-split arms of the offset. An argument such as
// `a.Stride` where `min(a.Stride, b.Stride)` is meant makes the answer
// depend on which operand happens to be the receiver.
func RunSymmetric(conf core.Config) *core.Result {
	res := core.NewResult("OVERLAP.symmetric")
	res.Rules = append(res.Rules, "OVERLAP.symmetric: in an overlap predicate over two operands of one type, every argument of rectanglesOverlap that is not swapped explicitly by the function mentions each field of the two operands equally often")
	res.Configs = append(res.Configs, conf.String())
	pkgs, err := core.Load(conf, "./mat")
	if err != nil {
		res.Brokenf("%v", err)
		return res
	}
	pkg := pkgs[0]
	info := pkg.TypesInfo
	for _, f := range pkg.Syntax {
		for _, d := range f.Decls {
			fd, ok := d.(*ast.FuncDecl)
			if !ok || fd.Body == nil || fd.Recv != nil {
				continue
			}
			// two parameters of one struct type
			var ps []types.Object
			for _, p := range fd.Type.Params.List {
				for _, n := range p.Names {
					ps = append(ps, info.Defs[n])
				}
			}
			if len(ps) != 2 || ps[0] == nil || ps[1] == nil || !types.Identical(ps[0].Type(), ps[1].Type()) {
				continue
			}
			if _, ok := ps[0].Type().Underlying().(*types.Struct); !ok {
				continue
			}
			var calls []*ast.CallExpr
			ast.Inspect(fd.Body, func(n ast.Node) bool {
				if c, ok := n.(*ast.CallExpr); ok {
					if id, ok := c.Fun.(*ast.Ident); ok && id.Name == "rectanglesOverlap" {
						calls = append(calls, c)
					}
				}
				return true
			})
			if len(calls) == 0 {
				continue
			}
			name := core.FuncName(pkg, fd)
			res.Count("overlap_predicates", 1)
			// fields swapped explicitly
			swapped := map[string]bool{}
			ast.Inspect(fd.Body, func(n ast.Node) bool {
				as, ok := n.(*ast.AssignStmt)
				if !ok || len(as.Lhs) != 2 || len(as.Rhs) != 2 {
					return true
				}
				l0, l1 := types.ExprString(as.Lhs[0]), types.ExprString(as.Lhs[1])
				if l0 == types.ExprString(as.Rhs[1]) && l1 == types.ExprString(as.Rhs[0]) {
					if s0, ok := as.Lhs[0].(*ast.SelectorExpr); ok {
						swapped[s0.Sel.Name] = true
					}
				}
				return true
			})
			count := func(e ast.Expr) map[string][2]int {
				out := map[string][2]int{}
				ast.Inspect(e, func(n ast.Node) bool {
					sel, ok := n.(*ast.SelectorExpr)
					if !ok {
						return true
					}
					id, ok := sel.X.(*ast.Ident)
					if !ok {
						return true
					}
					o := core.ObjOf(info, id)
					c := out[sel.Sel.Name]
					switch o {
					case ps[0]:
						c[0]++
					case ps[1]:
						c[1]++
					default:
						return true
					}
					out[sel.Sel.Name] = c
					return true
				})
				return out
			}
			for _, c := range calls {
				for i, a := range c.Args {
					res.Obligations++
					res.Count("overlap_predicate_arguments", 1)
					cnt := count(a)
					var fields []string
					for f := range cnt {
						fields = append(fields, f)
					}
					sort.Strings(fields)
					for _, f := range fields {
						if swapped[f] || cnt[f][0] == cnt[f][1] {
							continue
						}
						res.Add(core.Finding{Rule: "OVERLAP.symmetric", Key: fmt.Sprintf("OVERLAP.symmetric|%s|arg%d|%s", name, i, f), Pos: core.Pos(a.Pos()), Func: name,
							Msg: fmt.Sprintf("argument %d of rectanglesOverlap, %s, reads %s of %s %d time(s) and of %s %d time(s) without the function swapping that field: the overlap verdict depends on the order of the two operands",
								i, strings.TrimSpace(types.ExprString(a)), f, ps[0].Name(), cnt[f][0], ps[1].Name(), cnt[f][1])})
					}
				}
			}
		}
	}
	res.Floor("overlap_predicates", 2)
	return res
}
