package overlap

import (
	"fmt"
	"go/ast"
	"go/token"
	"go/types"

	"gverif/core"
)

// RunElemSize implements OVERLAP.elemsize: in mat, a function that turns
// an address difference of two slices into an element offset divides by
// the size of exactly the slices' element type, whether the size is
// written as unsafe.Sizeof(T(0)) or kept in a package variable initialised
// from reflect.TypeOf(T(0)).Size(). The safe build's copy of this code is
// never compiled by the default test run.
func RunElemSize(conf core.Config) *core.Result {
	res := core.NewResult("OVERLAP.elemsize")
	res.Rules = append(res.Rules, "OVERLAP.elemsize: the element size dividing an address difference is the size of the compared slices' element type")
	res.Configs = append(res.Configs, conf.String())
	pkgs, err := core.Load(conf, "./mat")
	if err != nil {
		res.Brokenf("%v", err)
		return res
	}
	pkg := pkgs[0]
	info := pkg.TypesInfo
	// package variables initialised from a size expression
	sizeVar := map[types.Object]types.Type{}
	sizeType := func(e ast.Expr) types.Type {
		var found types.Type
		ast.Inspect(e, func(n ast.Node) bool {
			c, ok := n.(*ast.CallExpr)
			if !ok || len(c.Args) != 1 {
				return true
			}
			sel, ok := c.Fun.(*ast.SelectorExpr)
			if !ok {
				return true
			}
			switch sel.Sel.Name {
			case "Sizeof", "TypeOf":
				if tv, ok := info.Types[c.Args[0]]; ok {
					found = tv.Type
				}
			}
			return found == nil
		})
		return found
	}
	for _, f := range pkg.Syntax {
		for _, d := range f.Decls {
			gd, ok := d.(*ast.GenDecl)
			if !ok || (gd.Tok != token.VAR && gd.Tok != token.CONST) {
				continue
			}
			for _, s := range gd.Specs {
				vs := s.(*ast.ValueSpec)
				for i, n := range vs.Names {
					if i < len(vs.Values) {
						if t := sizeType(vs.Values[i]); t != nil {
							sizeVar[info.Defs[n]] = t
						}
					}
				}
			}
		}
	}
	for _, f := range pkg.Syntax {
		for _, d := range f.Decls {
			fd, ok := d.(*ast.FuncDecl)
			if !ok || fd.Body == nil || fd.Recv != nil {
				continue
			}
			fn := info.Defs[fd.Name].(*types.Func)
			sig := fn.Type().(*types.Signature)
			if sig.Params().Len() != 2 {
				continue
			}
			s0, ok0 := sig.Params().At(0).Type().Underlying().(*types.Slice)
			s1, ok1 := sig.Params().At(1).Type().Underlying().(*types.Slice)
			if !ok0 || !ok1 || !types.Identical(s0.Elem(), s1.Elem()) {
				continue
			}
			name := core.FuncName(pkg, fd)
			ast.Inspect(fd.Body, func(n ast.Node) bool {
				be, ok := n.(*ast.BinaryExpr)
				if !ok || be.Op != token.QUO {
					return true
				}
				var t types.Type
				if id, ok := be.Y.(*ast.Ident); ok {
					t = sizeVar[core.ObjOf(info, id)]
				}
				if t == nil {
					t = sizeType(be.Y)
				}
				if t == nil {
					return true
				}
				res.Obligations++
				res.Count("address_difference_divisions", 1)
				res.Sample(map[string]any{"rule": "OVERLAP.elemsize", "func": name, "element": s0.Elem().String(), "size_of": t.String()})
				if !types.Identical(t, s0.Elem()) {
					res.Add(core.Finding{Rule: "OVERLAP.elemsize", Key: fmt.Sprintf("OVERLAP.elemsize|%s", name), Pos: core.Pos(be.Pos()), Func: name,
						Msg: fmt.Sprintf("the address difference of two []%s is divided by the size of %s: every offset the overlap predicate sees is scaled wrongly", s0.Elem(), t)})
				}
				return true
			})
		}
	}
	return res
}
