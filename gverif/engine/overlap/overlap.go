// Package overlap implements the OVERLAP engine: aliasing guards in mat.
// See DESIGN.md §3.5.
//
// For every exported pointer-receiver method of the overlap-aware mat types
// a forward must-analysis over the CFG tracks, per matrix operand, whether
// the operand is known not to partially overlap the receiver: after a
// checkOverlap*/isolatedWorkspace call, on the true edge of an identity
// test recv == operand, on the edge that implies an isolated workspace
// (restore != nil), or after delegation to a method that itself guards the
// operand. At every receiver write, each operand still read at or after the
// write must be guarded.
package overlap

import (
	"fmt"
	"go/ast"
	"go/token"
	"go/types"
	"sort"
	"strings"

	"gverif/cfgx"
	"gverif/core"

	"golang.org/x/tools/go/cfg"
	"golang.org/x/tools/go/packages"
	"golang.org/x/tools/go/types/typeutil"
)

var awareTypes = map[string]bool{"Dense": true, "VecDense": true, "SymDense": true, "TriDense": true, "CDense": true,
	"BandDense": true, "SymBandDense": true, "TriBandDense": true, "DiagDense": true, "Tridiag": true}

func hasDims(t types.Type) bool {
	ms := types.NewMethodSet(t)
	for i := 0; i < ms.Len(); i++ {
		if ms.At(i).Obj().Name() == "Dims" {
			return true
		}
	}
	if _, ok := t.Underlying().(*types.Pointer); !ok {
		ms = types.NewMethodSet(types.NewPointer(t))
		for i := 0; i < ms.Len(); i++ {
			if ms.At(i).Obj().Name() == "Dims" {
				return true
			}
		}
	}
	return false
}

// aliasCarrier: a type whose values can share storage with a matrix.
func aliasCarrier(t types.Type) bool {
	if t == nil {
		return false
	}
	if hasDims(t) {
		return true
	}
	switch u := t.Underlying().(type) {
	case *types.Slice:
		return true
	case *types.Struct:
		for i := 0; i < u.NumFields(); i++ {
			if u.Field(i).Name() == "Data" {
				return true
			}
		}
	case *types.Pointer:
		return aliasCarrier(u.Elem())
	case *types.Interface:
		return true
	}
	return false
}

type summary struct {
	fn        *types.Func
	decl      *ast.FuncDecl
	guards    map[int]bool // parameter index guarded somewhere (existence)
	writes    bool         // may write the receiver
	recvAware bool
}

type analysis struct {
	pkg  *packages.Package
	info *types.Info
	res  *core.Result
	sums map[*types.Func]*summary
}

var pureRecvMethods = map[string]bool{"Dims": true, "At": true, "at": true, "AtVec": true, "atVec": true, "IsEmpty": true, "Caps": true, "T": true, "TTri": true,
	"Len": true, "Cap": true, "RawMatrix": true, "RawVector": true, "RawSymmetric": true, "RawTriangular": true, "asGeneral": true,
	"SymmetricDim": true, "Triangle": true, "Bandwidth": true, "isUpper": true, "triKind": true, "asSymBlas": true, "asTriDense": true,
	"checkOverlap": true, "checkOverlapMatrix": true, "checkOverlapComplex": true, "isolatedWorkspace": true,
	"reuseAsNonZeroed": true, "reuseAsZeroed": true, "DiagView": true, "Trace": true, "Norm": true, "Diag": true, "TBand": true,
	"SymBand": true, "TriBand": true, "RawBand": true, "RawSymBand": true, "RawTriBand": true, "RawCMatrix": true, "H": true,
	"rawRowView": true, "RawRowView": true, "ColView": true, "RowView": true, "Slice": true, "slice": true, "sliceVec": true, "SliceVec": true,
	"Grow": true, "View": true, "asDense": true}

// Run analyses package mat.
func Run(cfg core.Config) *core.Result {
	res := core.NewResult("OVERLAP")
	res.Rules = append(res.Rules,
		"OVERLAP.guard: on every path to a receiver write, each operand read at or after the write has passed a checkOverlap*/isolatedWorkspace/identity guard (directly or by delegation)",
		"OVERLAP.iso: the restore function returned by isolatedWorkspace is deferred or called")
	res.Configs = append(res.Configs, cfg.String())
	pkgs, err := core.Load(cfg, "./mat")
	if err != nil {
		res.Brokenf("%v", err)
		return res
	}
	pkg := pkgs[0]
	a := &analysis{pkg: pkg, info: pkg.TypesInfo, res: res, sums: map[*types.Func]*summary{}}
	// pass 1: summaries (existence of guards, receiver writes)
	var decls []*ast.FuncDecl
	for _, f := range pkg.Syntax {
		for _, d := range f.Decls {
			if fd, ok := d.(*ast.FuncDecl); ok && fd.Body != nil {
				decls = append(decls, fd)
			}
		}
	}
	for _, fd := range decls {
		fn, _ := a.info.Defs[fd.Name].(*types.Func)
		if fn == nil {
			continue
		}
		a.sums[fn] = &summary{fn: fn, decl: fd, guards: map[int]bool{}}
	}
	for iter := 0; iter < 6; iter++ {
		changed := false
		for _, fd := range decls {
			if a.summarise(fd) {
				changed = true
			}
		}
		if !changed {
			break
		}
	}
	// pass 2: path analysis
	for _, fd := range decls {
		if fd.Recv == nil || !fd.Name.IsExported() {
			continue
		}
		rt := recvTypeName(fd)
		if !awareTypes[rt] {
			continue
		}
		if _, isPtr := fd.Recv.List[0].Type.(*ast.StarExpr); !isPtr {
			continue
		}
		if r, ok := copySemantics(fd.Name.Name); ok {
			res.Count("copy_family_methods_out_of_scope", 1)
			_ = r
			continue
		}
		a.analyse(fd)
	}
	return res
}

// copySemantics: methods documented as element copies between possibly
// overlapping storage (memmove semantics; Dense.Copy picks the direction).
// They do not panic on overlap by design, so OVERLAP.guard does not apply.
func copySemantics(name string) (string, bool) {
	switch {
	case strings.HasPrefix(name, "Copy"), strings.HasPrefix(name, "CloneFrom"), name == "DiagFrom", name == "SetRawMatrix":
		return "copy/clone semantics: overlap is legal and handled by direction-aware copying", true
	}
	return "", false
}

func recvTypeName(fd *ast.FuncDecl) string {
	if fd.Recv == nil || len(fd.Recv.List) == 0 {
		return ""
	}
	t := fd.Recv.List[0].Type
	if s, ok := t.(*ast.StarExpr); ok {
		t = s.X
	}
	if id, ok := t.(*ast.Ident); ok {
		return id.Name
	}
	return ""
}

type fnState struct {
	a        *analysis
	fd       *ast.FuncDecl
	name     string
	recv     types.Object
	operands []*types.Var
	opIndex  map[types.Object]int
	taint    map[types.Object]uint32 // local -> operand bitset
	recvT    map[types.Object]bool   // receiver-derived locals
	restores map[types.Object]bool   // restore funcs from isolatedWorkspace
	dstParam bool
	assertOK map[types.Object]ast.Expr // ok variable -> asserted expression
}

func (s *fnState) exprTaint(e ast.Node) uint32 {
	var t uint32
	ast.Inspect(e, func(n ast.Node) bool {
		if id, ok := n.(*ast.Ident); ok {
			o := core.ObjOf(s.a.info, id)
			if i, ok := s.opIndex[o]; ok {
				t |= 1 << uint(i)
			}
			t |= s.taint[o]
		}
		return true
	})
	return t
}

// rawReads returns the operands whose raw storage (mat/Data fields,
// Raw*() projections, locals of raw type) is mentioned in n; reads through
// At/AtVec/Dims of an operand of unknown type do not count.
func (s *fnState) rawReads(n ast.Node) uint32 {
	var t uint32
	isRawType := func(ty types.Type) bool {
		if ty == nil {
			return false
		}
		switch u := ty.Underlying().(type) {
		case *types.Slice:
			return true
		case *types.Struct:
			for i := 0; i < u.NumFields(); i++ {
				if u.Field(i).Name() == "Data" {
					return true
				}
			}
		}
		return false
	}
	ast.Inspect(n, func(x ast.Node) bool {
		switch e := x.(type) {
		case *ast.FuncLit:
			return false
		case *ast.Ident:
			if o := core.ObjOf(s.a.info, e); o != nil && isRawType(o.Type()) {
				t |= s.taint[o]
			}
		case *ast.SelectorExpr:
			if e.Sel.Name == "mat" || e.Sel.Name == "Data" {
				t |= s.exprTaint(e.X)
				return false
			}
		case *ast.CallExpr:
			if sel, ok := e.Fun.(*ast.SelectorExpr); ok {
				switch sel.Sel.Name {
				case "RawMatrix", "RawVector", "RawSymmetric", "RawTriangular", "RawBand", "RawSymBand", "RawTriBand", "asGeneral", "RawCMatrix", "rawRowView", "RawRowView", "asSymBlas":
					t |= s.exprTaint(sel.X)
					return false
				case "At", "AtVec", "at", "atVec", "Dims", "Len", "SymmetricDim", "Triangle":
					return false
				}
			}
		}
		return true
	})
	return t
}

func (s *fnState) recvDerived(e ast.Expr) bool {
	found := false
	ast.Inspect(e, func(n ast.Node) bool {
		if id, ok := n.(*ast.Ident); ok {
			o := core.ObjOf(s.a.info, id)
			if o != nil && (o == s.recv || s.recvT[o]) {
				found = true
			}
		}
		return !found
	})
	return found
}

func (s *fnState) typeOf(e ast.Expr) types.Type {
	if tv, ok := s.a.info.Types[e]; ok {
		return tv.Type
	}
	if id, ok := e.(*ast.Ident); ok {
		if o := core.ObjOf(s.a.info, id); o != nil {
			return o.Type()
		}
	}
	return nil
}

func newState(a *analysis, fd *ast.FuncDecl) *fnState {
	s := &fnState{a: a, fd: fd, name: core.FuncName(a.pkg, fd), opIndex: map[types.Object]int{},
		taint: map[types.Object]uint32{}, recvT: map[types.Object]bool{}, restores: map[types.Object]bool{}, assertOK: map[types.Object]ast.Expr{}}
	if fd.Recv != nil && len(fd.Recv.List[0].Names) == 1 {
		s.recv = a.info.Defs[fd.Recv.List[0].Names[0]]
	}
	fn := a.info.Defs[fd.Name].(*types.Func)
	sig := fn.Type().(*types.Signature)
	// "...To(dst, ...)" convention: the destination is dst, the receiver is
	// a read-only operand.
	var recvVar *types.Var
	if v, ok := s.recv.(*types.Var); ok {
		recvVar = v
	}
	for i := 0; i < sig.Params().Len(); i++ {
		p := sig.Params().At(i)
		if p.Name() == "dst" {
			if pt, ok := p.Type().(*types.Pointer); ok {
				if n, ok := pt.Elem().(*types.Named); ok && awareTypes[n.Obj().Name()] {
					s.recv = p
					s.dstParam = true
				}
			}
		}
	}
	// The receiver of a ...To method (the factor or matrix being applied)
	// is not treated as an operand: dst-versus-receiver overlap is outside
	// the claimed rule (see DESIGN.md).
	_ = recvVar
	for i := 0; i < sig.Params().Len(); i++ {
		p := sig.Params().At(i)
		if p.Name() == "" || p.Name() == "_" || types.Object(p) == s.recv {
			continue
		}
		if hasDims(p.Type()) {
			s.opIndex[p] = len(s.operands)
			s.operands = append(s.operands, p)
		}
	}
	// ok variables of type assertions on operand-derived values
	ast.Inspect(fd.Body, func(n ast.Node) bool {
		as, ok := n.(*ast.AssignStmt)
		if !ok || len(as.Lhs) != 2 || len(as.Rhs) != 1 {
			return true
		}
		ta, ok := as.Rhs[0].(*ast.TypeAssertExpr)
		if !ok {
			return true
		}
		if id, ok := as.Lhs[1].(*ast.Ident); ok && id.Name != "_" {
			if o := core.ObjOf(a.info, id); o != nil {
				s.assertOK[o] = ta.X
			}
		}
		return true
	})
	// flow-insensitive taint closure
	for iter := 0; iter < 10; iter++ {
		changed := false
		set := func(lhs ast.Expr, rhs ast.Node) {
			id, ok := lhs.(*ast.Ident)
			if !ok || id.Name == "_" {
				return
			}
			o := core.ObjOf(a.info, id)
			if o == nil || o == s.recv {
				return
			}
			if !aliasCarrier(o.Type()) {
				return
			}
			if _, isOp := s.opIndex[o]; isOp {
				return
			}
			t := s.exprTaint(rhs)
			if t&^s.taint[o] != 0 {
				s.taint[o] |= t
				changed = true
			}
			if e, ok := rhs.(ast.Expr); ok && s.recvDerived(e) && !s.recvT[o] {
				// a fresh workspace from isolatedWorkspace is assigned to the
				// receiver variable itself, never to another local
				if c, ok := e.(*ast.CallExpr); !ok || !isMethodNamed(c, "isolatedWorkspace") {
					s.recvT[o] = true
					changed = true
				}
			}
		}
		ast.Inspect(fd.Body, func(n ast.Node) bool {
			switch x := n.(type) {
			case *ast.AssignStmt:
				if len(x.Lhs) == len(x.Rhs) {
					for i := range x.Lhs {
						set(x.Lhs[i], x.Rhs[i])
					}
				} else if len(x.Rhs) == 1 {
					if c, ok := x.Rhs[0].(*ast.CallExpr); ok && isMethodNamed(c, "isolatedWorkspace") && len(x.Lhs) == 2 {
						if id, ok := x.Lhs[1].(*ast.Ident); ok {
							if o := core.ObjOf(a.info, id); o != nil {
								s.restores[o] = true
							}
						}
						return true
					}
					for i := range x.Lhs {
						set(x.Lhs[i], x.Rhs[0])
					}
				}
			case *ast.ValueSpec:
				for i, nm := range x.Names {
					if len(x.Values) == len(x.Names) {
						set(nm, x.Values[i])
					} else if len(x.Values) == 1 {
						set(nm, x.Values[0])
					}
				}
			case *ast.TypeSwitchStmt:
				var src ast.Expr
				switch as := x.Assign.(type) {
				case *ast.AssignStmt:
					if ta, ok := as.Rhs[0].(*ast.TypeAssertExpr); ok {
						src = ta.X
					}
				}
				if src != nil {
					t := s.exprTaint(src)
					for _, cl := range x.Body.List {
						if o := a.info.Implicits[cl]; o != nil && t&^s.taint[o] != 0 {
							s.taint[o] |= t
							changed = true
						}
					}
				}
			case *ast.RangeStmt:
				if x.Value != nil {
					set(x.Value, x.X)
				}
			}
			return true
		})
		if !changed {
			break
		}
	}
	return s
}

func isMethodNamed(c *ast.CallExpr, names ...string) bool {
	sel, ok := c.Fun.(*ast.SelectorExpr)
	if !ok {
		return false
	}
	for _, n := range names {
		if sel.Sel.Name == n {
			return true
		}
	}
	return false
}

func isGuardName(n string) bool {
	return strings.HasPrefix(n, "checkOverlap") || n == "isolatedWorkspace"
}

// summarise (re)computes the existence summary of fd; reports change.
func (a *analysis) summarise(fd *ast.FuncDecl) bool {
	fn := a.info.Defs[fd.Name].(*types.Func)
	sum := a.sums[fn]
	s := newState(a, fd)
	sig := fn.Type().(*types.Signature)
	paramIdx := map[types.Object]int{}
	for i := 0; i < sig.Params().Len(); i++ {
		paramIdx[sig.Params().At(i)] = i
	}
	changed := false
	markGuard := func(t uint32) {
		for i, p := range s.operands {
			if t&(1<<uint(i)) != 0 {
				k := paramIdx[p]
				if !sum.guards[k] {
					sum.guards[k] = true
					changed = true
				}
			}
		}
	}
	ast.Inspect(fd.Body, func(n ast.Node) bool {
		c, ok := n.(*ast.CallExpr)
		if !ok {
			return true
		}
		if sel, ok := c.Fun.(*ast.SelectorExpr); ok {
			if isGuardName(sel.Sel.Name) && s.recvDerived(sel.X) {
				for _, arg := range c.Args {
					markGuard(s.exprTaint(arg))
				}
				return true
			}
			if strings.HasPrefix(sel.Sel.Name, "checkOverlap") && !s.recvDerived(sel.X) {
				for _, arg := range c.Args {
					if s.recvDerived(arg) {
						markGuard(s.exprTaint(sel.X))
					}
				}
				return true
			}
		}
		callee, _ := typeutil.Callee(a.info, c).(*types.Func)
		if cs := a.sums[callee]; cs != nil {
			// delegation: receiver-derived receiver, operand-tainted args
			if sel, ok := c.Fun.(*ast.SelectorExpr); ok && s.recvDerived(sel.X) {
				for i, arg := range c.Args {
					if cs.guards[i] {
						markGuard(s.exprTaint(arg))
					}
				}
				if cs.writes && !sum.writes {
					sum.writes = true
					changed = true
				}
			}
		}
		if a.isWrite(s, n) && !sum.writes {
			sum.writes = true
			changed = true
		}
		return true
	})
	ast.Inspect(fd.Body, func(n ast.Node) bool {
		if a.isWrite(s, n) && !sum.writes {
			sum.writes = true
			changed = true
		}
		return true
	})
	return changed
}

func pkgOf(info *types.Info, c *ast.CallExpr) string {
	if fn := typeutil.Callee(info, c); fn != nil && fn.Pkg() != nil {
		return fn.Pkg().Path()
	}
	return ""
}

// isWrite reports whether node n directly writes the receiver's storage.
func (a *analysis) isWrite(s *fnState, n ast.Node) bool {
	switch x := n.(type) {
	case *ast.CallExpr:
		p := pkgOf(a.info, x)
		switch {
		case strings.HasSuffix(p, "blas/blas64") || strings.HasSuffix(p, "blas/cblas128"):
			if len(x.Args) == 0 {
				return false
			}
			if s.recvDerived(x.Args[len(x.Args)-1]) {
				return true
			}
			if fn := typeutil.Callee(a.info, x); fn != nil && (fn.Name() == "Swap" || fn.Name() == "Rot" || fn.Name() == "Rotm") {
				for _, arg := range x.Args {
					if s.recvDerived(arg) {
						return true
					}
				}
			}
			return false
		case strings.HasSuffix(p, "lapack/lapack64"):
			for _, arg := range x.Args {
				if s.recvDerived(arg) {
					return true
				}
			}
			return false
		}
		if strings.Contains(p, "internal/asm/") {
			// kernels write their first slice argument (...To(dst, ...)) or y
			for _, arg := range x.Args {
				if s.recvDerived(arg) {
					return true
				}
			}
			return false
		}
		if id, ok := x.Fun.(*ast.Ident); ok && id.Name == "copy" && len(x.Args) == 2 {
			return s.recvDerived(x.Args[0])
		}
		if sel, ok := x.Fun.(*ast.SelectorExpr); ok && s.recvDerived(sel.X) {
			switch sel.Sel.Name {
			case "set", "setVec", "Set", "SetVec", "SetSym", "SetTri", "SetBand", "SetSymBand", "SetTriBand", "setDiag", "SetDiag", "Zero", "setTriBand":
				return true
			}
		}
	case *ast.AssignStmt:
		for _, l := range x.Lhs {
			if ix, ok := l.(*ast.IndexExpr); ok && s.recvDerived(ix.X) {
				return true
			}
		}
	case *ast.IncDecStmt:
		if ix, ok := x.X.(*ast.IndexExpr); ok && s.recvDerived(ix.X) {
			return true
		}
	}
	return false
}

// isKernelWrite: a BLAS/LAPACK/asm kernel call or a direct store/copy into
// the receiver's Data.
func (a *analysis) isKernelWrite(s *fnState, n ast.Node) bool {
	switch x := n.(type) {
	case *ast.CallExpr:
		p := pkgOf(a.info, x)
		if strings.HasSuffix(p, "blas/blas64") || strings.HasSuffix(p, "blas/cblas128") || strings.HasSuffix(p, "lapack/lapack64") || strings.Contains(p, "internal/asm/") {
			return true
		}
		if id, ok := x.Fun.(*ast.Ident); ok && id.Name == "copy" {
			return true
		}
		return false
	case *ast.AssignStmt, *ast.IncDecStmt:
		return true
	}
	return false
}

func (a *analysis) analyse(fd *ast.FuncDecl) {
	s := newState(a, fd)
	if len(s.operands) == 0 || s.recv == nil {
		return
	}
	res := a.res
	g := cfgx.New(fd.Body, a.info)
	all := uint32(1)<<uint(len(s.operands)) - 1
	nb := len(g.Blocks)

	// per node: guard gains, write flag, operand reads
	type nodeFx struct {
		gain   uint32
		write  bool
		kernel bool
		reads  uint32
		pos    token.Pos
		desc   string
	}
	fx := make([][]nodeFx, nb)
	for _, b := range g.Blocks {
		fx[b.Index] = make([]nodeFx, len(b.Nodes))
		for i, n := range b.Nodes {
			f := &fx[b.Index][i]
			f.pos = n.Pos()
			f.reads = s.rawReads(n)
			ast.Inspect(n, func(x ast.Node) bool {
				if _, ok := x.(*ast.FuncLit); ok {
					return false
				}
				if c, ok := x.(*ast.CallExpr); ok {
					if sel, ok := c.Fun.(*ast.SelectorExpr); ok && !s.recvDerived(sel.X) && strings.HasPrefix(sel.Sel.Name, "checkOverlap") {
						// reversed form: operand.checkOverlap(receiver storage)
						for _, arg := range c.Args {
							if s.recvDerived(arg) {
								f.gain |= s.exprTaint(sel.X)
							}
						}
					}
					if sel, ok := c.Fun.(*ast.SelectorExpr); ok && s.recvDerived(sel.X) {
						if sel.Sel.Name == "isolatedWorkspace" {
							f.gain = all
						} else if isGuardName(sel.Sel.Name) {
							for _, arg := range c.Args {
								f.gain |= s.exprTaint(arg)
							}
						} else if callee, _ := typeutil.Callee(a.info, c).(*types.Func); callee != nil {
							if _, isCopy := copySemantics(callee.Name()); isCopy && len(c.Args) > 0 {
								// A method that panics on overlap and hands an
								// operand on to one of the copy methods (which do
								// not check) must have guarded it: the copy
								// methods move elements in one direction only.
								var t uint32
								for _, arg := range c.Args {
									t |= s.exprTaint(arg)
								}
								if t != 0 {
									f.write, f.kernel = true, true
									f.reads |= t
									f.desc = "call " + types.ExprString(c.Fun)
									res.Count("delegations_to_copy_methods", 1)
								}
							}
							if cs := a.sums[callee]; cs != nil {
								var delegated uint32
								for k, arg := range c.Args {
									if cs.guards[k] {
										delegated |= s.exprTaint(arg)
									}
								}
								f.gain |= delegated
								if cs.writes && !pureRecvMethods[sel.Sel.Name] {
									f.write = true
									f.desc = "call " + types.ExprString(c.Fun)
								}
							}
						}
					}
				}
				if a.isWrite(s, x) {
					f.write = true
					if a.isKernelWrite(s, x) {
						f.kernel = true
					}
					if f.desc == "" {
						switch y := x.(type) {
						case *ast.CallExpr:
							f.desc = "call " + types.ExprString(y.Fun)
						default:
							f.desc = "store to receiver data"
						}
					}
				}
				return true
			})
		}
	}
	// liveness of operand reads: readsFrom[b] = operands read in b or later
	readsIn := make([]uint32, nb)
	for _, b := range g.Blocks {
		for i := range b.Nodes {
			readsIn[b.Index] |= fx[b.Index][i].reads
		}
	}
	liveOut := make([]uint32, nb)
	for changed := true; changed; {
		changed = false
		for i := nb - 1; i >= 0; i-- {
			b := g.Blocks[i]
			var v uint32
			for _, sc := range b.Succs {
				v |= readsIn[sc.Index] | liveOut[sc.Index]
			}
			if v != liveOut[i] {
				liveOut[i] = v
				changed = true
			}
		}
	}
	// simpler and exact edge facts: evaluate separately for each edge
	edgeFacts := func(b *cfg.Block, succIdx int) uint32 {
		c := cfgx.Cond(b)
		if c == nil {
			return 0
		}
		// holds(e, want): facts implied when e evaluates to want
		var holds func(e ast.Expr, want bool) uint32
		holds = func(e ast.Expr, want bool) uint32 {
			switch x := e.(type) {
			case *ast.Ident:
				// `x, ok := operand.(T)`: when the assertion fails the
				// operand's storage cannot be inspected by this arm, so an
				// overlap check is impossible there (vacuous guard).
				if src, isOK := s.assertOK[core.ObjOf(a.info, x)]; isOK && !want {
					return s.exprTaint(src)
				}
			case *ast.ParenExpr:
				return holds(x.X, want)
			case *ast.UnaryExpr:
				if x.Op == token.NOT {
					return holds(x.X, !want)
				}
			case *ast.BinaryExpr:
				switch x.Op {
				case token.LAND:
					if want {
						return holds(x.X, true) | holds(x.Y, true)
					}
					// !(p && q): p failed, or p held and q failed
					return holds(x.X, false) & (holds(x.X, true) | holds(x.Y, false))
				case token.LOR:
					if !want {
						return holds(x.X, false) | holds(x.Y, false)
					}
					// p || q: p held, or p failed and q held
					return holds(x.X, true) & (holds(x.X, false) | holds(x.Y, true))
				case token.EQL, token.NEQ:
					equal := (x.Op == token.EQL) == want
					var other ast.Expr
					if s.recvDerived(x.X) {
						other = x.Y
					} else if s.recvDerived(x.Y) {
						other = x.X
					}
					if other != nil {
						if equal {
							return s.exprTaint(other)
						}
						return 0
					}
					isRestore := func(e ast.Expr) bool {
						id, ok := e.(*ast.Ident)
						return ok && s.restores[core.ObjOf(a.info, id)]
					}
					isNil := func(e ast.Expr) bool {
						id, ok := e.(*ast.Ident)
						return ok && id.Name == "nil"
					}
					if (isRestore(x.X) && isNil(x.Y)) || (isRestore(x.Y) && isNil(x.X)) {
						if !equal {
							return all
						}
					}
				}
			}
			return 0
		}
		return holds(c, succIdx == 0)
	}

	// forward must analysis
	in := make([]uint32, nb)
	outE := make([][]uint32, nb)
	reach := g.Reachable()
	for i := range in {
		in[i] = all
	}
	in[0] = 0
	preds := make([][][2]int32, nb) // (pred block, succ index)
	for _, b := range g.Blocks {
		for k, sc := range b.Succs {
			preds[sc.Index] = append(preds[sc.Index], [2]int32{b.Index, int32(k)})
		}
		outE[b.Index] = make([]uint32, len(b.Succs))
		for k := range outE[b.Index] {
			outE[b.Index][k] = all // optimistic start for the must-analysis
		}
	}
	blockOut := func(b *cfg.Block, st uint32) uint32 {
		for i := range b.Nodes {
			st |= fx[b.Index][i].gain
		}
		return st
	}
	for changed := true; changed; {
		changed = false
		for _, b := range g.Blocks {
			if !reach[b.Index] {
				continue
			}
			st := in[b.Index]
			if b.Index != 0 {
				st = all
				any := false
				for _, p := range preds[b.Index] {
					if !reach[p[0]] {
						continue
					}
					any = true
					st &= outE[p[0]][p[1]]
				}
				if !any {
					st = 0
				}
			}
			if st != in[b.Index] {
				in[b.Index] = st
				changed = true
			}
			o := blockOut(b, st)
			for k := range b.Succs {
				v := o | edgeFacts(b, k)
				if v != outE[b.Index][k] {
					outE[b.Index][k] = v
					changed = true
				}
			}
		}
	}
	// obligations at writes
	flagged := map[string]bool{}
	hasWrite := false
	for _, b := range g.Blocks {
		if !reach[b.Index] {
			continue
		}
		st := in[b.Index]
		for i := range b.Nodes {
			f := fx[b.Index][i]
			st |= f.gain
			if !f.write {
				continue
			}
			hasWrite = true
			// Operands whose storage is read by the very statement that
			// writes the receiver (a kernel call or a Data[...] store that
			// also takes operand-derived raw data): the arms where the
			// code can see both storages. Generic At/set loops over
			// operands of unknown type are not obligations (no storage to
			// compare), and delegating calls are analysed in the callee.
			if !f.kernel {
				continue
			}
			live := f.reads
			_ = liveOut
			for k, p := range s.operands {
				bit := uint32(1) << uint(k)
				if live&bit == 0 {
					continue
				}
				res.Obligations++
				res.Count("operand_write_obligations", 1)
				if st&bit != 0 {
					continue
				}
				key := fmt.Sprintf("OVERLAP.guard|%s|%s|%s", s.name, p.Name(), strings.TrimPrefix(f.desc, "call "))
				if flagged[key] {
					continue
				}
				flagged[key] = true
				res.Add(core.Finding{
					Rule: "OVERLAP.guard",
					Key:  key,
					Pos:  core.Pos(f.pos), Func: s.name,
					Msg: fmt.Sprintf("receiver is written (%s) on a path where operand %q, still read at or after this point, has passed no checkOverlap/isolatedWorkspace/identity guard: a partially overlapping %s would silently corrupt the result",
						f.desc, p.Name(), p.Name()),
				})
			}
		}
	}
	if hasWrite {
		res.Count("methods_with_operands_and_writes", 1)
		res.Count("operand_parameters", len(s.operands))
		if len(res.Samples) < 6 {
			var ops []string
			for _, p := range s.operands {
				ops = append(ops, p.Name())
			}
			sort.Strings(ops)
			res.Sample(map[string]any{"rule": "OVERLAP.guard", "method": s.name, "operands": ops, "blocks": nb})
		}
	}
	// OVERLAP.iso
	for o := range s.restores {
		res.Obligations++
		res.Count("isolated_workspace_sites", 1)
		called := false
		ast.Inspect(fd.Body, func(n ast.Node) bool {
			if c, ok := n.(*ast.CallExpr); ok {
				if id, ok := c.Fun.(*ast.Ident); ok && core.ObjOf(a.info, id) == o {
					called = true
				}
			}
			return true
		})
		if !called {
			res.Add(core.Finding{
				Rule: "OVERLAP.iso",
				Key:  fmt.Sprintf("OVERLAP.iso|%s|%s", s.name, o.Name()),
				Pos:  core.Pos(o.Pos()), Func: s.name,
				Msg: "the restore function of isolatedWorkspace is never deferred or called: the result computed in the workspace is dropped",
			})
		}
	}
}
