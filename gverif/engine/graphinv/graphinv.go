// Package graphinv implements the GRAPHINV engine: representation
// invariants of the map-backed graph containers. See DESIGN.md §3.9.
package graphinv

import (
	"fmt"
	"go/ast"
	"go/token"
	"go/types"
	"sort"
	"strings"

	"gverif/cfgx"
	"gverif/core"

	"golang.org/x/tools/go/cfg"
	"golang.org/x/tools/go/packages"
)

// effect is an abstract mutation of an adjacency relation.
type effect struct {
	kind string // ADD, DEL, DELROW, DELCOL, PRUNE
	rel  string // field name
	a, b string // key expressions (canonical text)
	l    string // line id for multigraphs ("" otherwise)
	src  string // DELCOL: relation iterated to find the rows
	pos  token.Pos
}

func (e effect) String() string {
	s := e.kind + "_" + e.rel + "(" + e.a
	if e.b != "" {
		s += "," + e.b
	}
	if e.l != "" {
		s += "," + e.l
	}
	s += ")"
	if e.src != "" {
		s += " via " + e.src
	}
	return s
}

type graphType struct {
	name     string
	named    *types.Named
	adj      []string // adjacency fields (nested int64 maps)
	depth    map[string]int
	directed bool
	nodes    string // nodes map field
	nodeIDs  string
	lineIDs  string
}

func nestedDepth(t types.Type) int {
	d := 0
	for {
		m, ok := t.Underlying().(*types.Map)
		if !ok {
			return d
		}
		if b, ok := m.Key().Underlying().(*types.Basic); !ok || b.Kind() != types.Int64 {
			return d
		}
		d++
		t = m.Elem()
	}
}

func isUIDSet(t types.Type) bool {
	if p, ok := t.(*types.Pointer); ok {
		t = p.Elem()
	}
	n, ok := t.(*types.Named)
	return ok && n.Obj().Name() == "Set" && n.Obj().Pkg() != nil && strings.HasSuffix(n.Obj().Pkg().Path(), "graph/set/uid")
}

func discover(pkg *packages.Package) []*graphType {
	var out []*graphType
	sc := pkg.Types.Scope()
	for _, name := range sc.Names() {
		tn, ok := sc.Lookup(name).(*types.TypeName)
		if !ok {
			continue
		}
		named, ok := tn.Type().(*types.Named)
		if !ok {
			continue
		}
		st, ok := named.Underlying().(*types.Struct)
		if !ok {
			continue
		}
		gt := &graphType{name: name, named: named, depth: map[string]int{}}
		for i := 0; i < st.NumFields(); i++ {
			f := st.Field(i)
			d := nestedDepth(f.Type())
			switch {
			case isUIDSet(f.Type()):
				gt.nodeIDs = f.Name()
			case d >= 2:
				// innermost element decides: *uid.Set => line id pools
				t := f.Type()
				for j := 0; j < d; j++ {
					t = t.Underlying().(*types.Map).Elem()
				}
				if isUIDSet(t) {
					gt.lineIDs = f.Name()
				} else {
					gt.adj = append(gt.adj, f.Name())
					gt.depth[f.Name()] = d
				}
			case d == 1 && f.Name() == "nodes":
				gt.nodes = f.Name()
			}
		}
		if len(gt.adj) == 0 || gt.nodes == "" {
			continue
		}
		gt.directed = len(gt.adj) == 2
		if len(gt.adj) > 2 {
			continue
		}
		out = append(out, gt)
	}
	return out
}

type methodCtx struct {
	pkg   *packages.Package
	info  *types.Info
	gt    *graphType
	fd    *ast.FuncDecl
	name  string
	recv  types.Object
	alias map[types.Object]string // local -> "rel[a]" canonical prefix
	res   *core.Result
}

// relPath parses g.R[k1][k2]... and returns rel and keys; also through
// local aliases `fm := g.R[k]` / `fm, ok := g.R[k]`.
func (m *methodCtx) relPath(e ast.Expr) (rel string, keys []string, ok bool) {
	switch x := e.(type) {
	case *ast.ParenExpr:
		return m.relPath(x.X)
	case *ast.IndexExpr:
		r, k, ok := m.relPath(x.X)
		if !ok {
			return "", nil, false
		}
		return r, append(k, types.ExprString(x.Index)), true
	case *ast.SelectorExpr:
		if id, isID := x.X.(*ast.Ident); isID && core.ObjOf(m.info, id) == m.recv {
			for _, a := range m.gt.adj {
				if x.Sel.Name == a {
					return a, nil, true
				}
			}
		}
	case *ast.Ident:
		if p, isAlias := m.alias[core.ObjOf(m.info, x)]; isAlias {
			parts := strings.Split(p, "\x00")
			return parts[0], append([]string{}, parts[1:]...), true
		}
	}
	return "", nil, false
}

// litKeys returns the (possibly nested) single key path of a map literal
// such as map[int64]T{tid: e} or map[..]map[..]T{tid: {lid: l}}.
func litKeys(e ast.Expr) ([]string, bool) {
	cl, ok := e.(*ast.CompositeLit)
	if !ok || len(cl.Elts) != 1 {
		return nil, false
	}
	kv, ok := cl.Elts[0].(*ast.KeyValueExpr)
	if !ok {
		return nil, false
	}
	keys := []string{types.ExprString(kv.Key)}
	if inner, ok := kv.Value.(*ast.CompositeLit); ok && len(inner.Elts) == 1 {
		if ik, ok := litKeys(inner); ok {
			keys = append(keys, ik...)
		}
	}
	return keys, true
}

func (m *methodCtx) effects() (effs []effect, unrecognised []ast.Node) {
	depthOf := func(rel string) int { return m.gt.depth[rel] }
	mk := func(kind, rel string, keys []string, pos token.Pos) effect {
		e := effect{kind: kind, rel: rel, pos: pos}
		if len(keys) > 0 {
			e.a = keys[0]
		}
		if len(keys) > 1 {
			e.b = keys[1]
		}
		if len(keys) > 2 {
			e.l = keys[2]
		}
		return e
	}
	// aliases first
	ast.Inspect(m.fd.Body, func(n ast.Node) bool {
		as, ok := n.(*ast.AssignStmt)
		if !ok || as.Tok != token.DEFINE || len(as.Rhs) != 1 {
			return true
		}
		rel, keys, ok := m.relPath(as.Rhs[0])
		if !ok || len(keys) == 0 {
			return true
		}
		if id, ok := as.Lhs[0].(*ast.Ident); ok {
			if o := m.info.Defs[id]; o != nil {
				if _, isMap := o.Type().Underlying().(*types.Map); isMap {
					m.alias[o] = strings.Join(append([]string{rel}, keys...), "\x00")
				}
			}
		}
		return true
	})
	handled := map[ast.Node]bool{}
	ast.Inspect(m.fd.Body, func(n ast.Node) bool {
		switch s := n.(type) {
		case *ast.RangeStmt:
			// for x := range g.S[a] { delete(g.R[x], a) }
			srel, skeys, ok := m.relPath(s.X)
			if !ok || len(skeys) != 1 || s.Key == nil {
				return true
			}
			kid, ok := s.Key.(*ast.Ident)
			if !ok || len(s.Body.List) != 1 {
				return true
			}
			es, ok := s.Body.List[0].(*ast.ExprStmt)
			if !ok {
				return true
			}
			call, ok := es.X.(*ast.CallExpr)
			if !ok || len(call.Args) != 2 {
				return true
			}
			if f, ok := call.Fun.(*ast.Ident); !ok || f.Name != "delete" {
				return true
			}
			rel, keys, ok := m.relPath(call.Args[0])
			if !ok || len(keys) != 1 || keys[0] != kid.Name {
				return true
			}
			col := types.ExprString(call.Args[1])
			if col != skeys[0] {
				return true
			}
			e := mk("DELCOL", rel, []string{col}, s.Pos())
			e.src = srel
			effs = append(effs, e)
			handled[call] = true
			return true
		case *ast.IfStmt:
			// if len(g.R[a][b]) == 0 { delete(g.R[a], b) }
			be, ok := s.Cond.(*ast.BinaryExpr)
			if !ok || be.Op != token.EQL || len(s.Body.List) != 1 || s.Else != nil {
				return true
			}
			lc, ok := be.X.(*ast.CallExpr)
			if !ok || len(lc.Args) != 1 {
				return true
			}
			if f, ok := lc.Fun.(*ast.Ident); !ok || f.Name != "len" {
				return true
			}
			rel, keys, ok := m.relPath(lc.Args[0])
			if !ok || len(keys) != 2 {
				return true
			}
			es, ok := s.Body.List[0].(*ast.ExprStmt)
			if !ok {
				return true
			}
			call, ok := es.X.(*ast.CallExpr)
			if !ok || len(call.Args) != 2 {
				return true
			}
			if f, ok := call.Fun.(*ast.Ident); !ok || f.Name != "delete" {
				return true
			}
			rel2, keys2, ok := m.relPath(call.Args[0])
			if !ok || rel2 != rel || len(keys2) != 1 || keys2[0] != keys[0] || types.ExprString(call.Args[1]) != keys[1] {
				return true
			}
			effs = append(effs, mk("PRUNE", rel, keys, s.Pos()))
			handled[call] = true
			return true
		case *ast.CallExpr:
			if handled[s] {
				return true
			}
			f, ok := s.Fun.(*ast.Ident)
			if !ok || f.Name != "delete" || len(s.Args) != 2 {
				return true
			}
			rel, keys, ok := m.relPath(s.Args[0])
			if !ok {
				return true
			}
			keys = append(keys, types.ExprString(s.Args[1]))
			switch {
			case len(keys) == 1:
				effs = append(effs, mk("DELROW", rel, keys, s.Pos()))
			case len(keys) == depthOf(rel):
				effs = append(effs, mk("DEL", rel, keys, s.Pos()))
			default:
				// deleting an inner map of a multigraph outside the PRUNE idiom
				unrecognised = append(unrecognised, s)
			}
		case *ast.AssignStmt:
			if s.Tok != token.ASSIGN || len(s.Lhs) != 1 || len(s.Rhs) != 1 {
				return true
			}
			rel, keys, ok := m.relPath(s.Lhs[0])
			if !ok {
				return true
			}
			if len(keys) == 0 {
				unrecognised = append(unrecognised, s) // whole relation replaced
				return true
			}
			if lk, isLit := litKeys(s.Rhs[0]); isLit {
				keys = append(keys, lk...)
			}
			if len(keys) == depthOf(rel) {
				effs = append(effs, mk("ADD", rel, keys, s.Pos()))
			} else {
				unrecognised = append(unrecognised, s)
			}
		}
		return true
	})
	return
}

// Run checks graph/simple, graph/multi and graph/set/uid under cfg.
func Run(cfg core.Config) *core.Result {
	res := core.NewResult("GRAPHINV")
	res.Rules = append(res.Rules,
		"GRAPHINV.converse: in every method the adjacency effects are closed under the converse (ADD_from(a,b) with ADD_to(b,a), DELROW_from(a) with DELCOL_to(a) iterating from[a], ...; self-converse for undirected types)",
		"GRAPHINV.ids: a new node key is followed by Use on the node pool; Release is preceded by the deletion of the key; line insertions are followed by Use on the line pool",
		"GRAPHINV.remove: RemoveNode deletes the node key, the row and the column of every adjacency relation and releases the ID",
		"GRAPHINV.uid: in uid.Set every update of 'used' is executed together with the dual update of 'free'")
	res.Configs = append(res.Configs, cfg.String())
	pkgs, err := core.Load(cfg, "./graph/simple", "./graph/multi", "./graph/set/uid")
	if err != nil {
		res.Brokenf("%v", err)
		return res
	}
	for _, pkg := range pkgs {
		if strings.HasSuffix(pkg.PkgPath, "graph/set/uid") {
			checkUID(res, pkg)
			continue
		}
		types_ := discover(pkg)
		res.Count("map_backed_graph_types", len(types_))
		for _, gt := range types_ {
			checkType(res, pkg, gt)
		}
	}
	return res
}

func checkType(res *core.Result, pkg *packages.Package, gt *graphType) {
	info := pkg.TypesInfo
	conv := func(rel string) string {
		if !gt.directed {
			return rel
		}
		if rel == gt.adj[0] {
			return gt.adj[1]
		}
		return gt.adj[0]
	}
	for _, f := range pkg.Syntax {
		for _, d := range f.Decls {
			fd, ok := d.(*ast.FuncDecl)
			if !ok || fd.Body == nil || fd.Recv == nil || len(fd.Recv.List[0].Names) != 1 {
				continue
			}
			rt := fd.Recv.List[0].Type
			if s, ok := rt.(*ast.StarExpr); ok {
				rt = s.X
			}
			if id, ok := rt.(*ast.Ident); !ok || id.Name != gt.name {
				continue
			}
			m := &methodCtx{pkg: pkg, info: info, gt: gt, fd: fd, name: core.FuncName(pkg, fd),
				recv: info.Defs[fd.Recv.List[0].Names[0]], alias: map[types.Object]string{}, res: res}
			effs, unrec := m.effects()
			for _, u := range unrec {
				// delete(g.R[a], b) on a multigraph drops every line between
				// a and b; outside RemoveNode's row/column loops it is only
				// legitimate as the pruning step `if len(g.R[a][b]) == 0 {…}`
				// after a line was deleted
				if call, ok := u.(*ast.CallExpr); ok {
					if f, ok := call.Fun.(*ast.Ident); ok && f.Name == "delete" {
						res.Obligations++
						res.Add(core.Finding{Rule: "GRAPHINV.prune", Key: fmt.Sprintf("GRAPHINV.prune|%s|%s", m.name, nodeText(u)), Pos: core.Pos(u.Pos()), Func: m.name,
							Msg: fmt.Sprintf("%s removes every line between the two nodes but is not the body of `if len(%s[%s]) == 0`: whether the edge has become empty must be tested after the line was deleted, otherwise live lines are dropped", nodeText(u), types.ExprString(call.Args[0]), types.ExprString(call.Args[1]))})
						continue
					}
				}
				res.Brokenf("GRAPHINV: unrecognised adjacency mutation in %s at %s: %s (the engine's idiom list must be extended before this code can be judged)",
					m.name, core.Pos(u.Pos()), nodeText(u))
			}
			if len(effs) > 0 {
				res.Count("mutating_methods", 1)
				res.Count("adjacency_effects", len(effs))
				var es []string
				for _, e := range effs {
					es = append(es, e.String())
				}
				res.Sample(map[string]any{"rule": "GRAPHINV.converse", "method": m.name, "effects": es})
			}
			// converse closure
			has := func(kind, rel, a, b, l, src string) bool {
				for _, e := range effs {
					if e.kind == kind && e.rel == rel && e.a == a && e.b == b && e.l == l && (src == "" || e.src == src) {
						return true
					}
				}
				return false
			}
			for _, e := range effs {
				res.Obligations++
				var ok bool
				var want string
				switch e.kind {
				case "ADD", "DEL", "PRUNE":
					ok = has(e.kind, conv(e.rel), e.b, e.a, e.l, "")
					want = effect{kind: e.kind, rel: conv(e.rel), a: e.b, b: e.a, l: e.l}.String()
				case "DELROW":
					ok = has("DELCOL", conv(e.rel), e.a, "", "", e.rel)
					want = effect{kind: "DELCOL", rel: conv(e.rel), a: e.a, src: e.rel}.String()
				case "DELCOL":
					ok = has("DELROW", conv(e.rel), e.a, "", "", "") && e.src == conv(e.rel)
					want = effect{kind: "DELROW", rel: conv(e.rel), a: e.a}.String() + " (and the column scan must iterate " + conv(e.rel) + "[" + e.a + "])"
				}
				if !ok {
					res.Add(core.Finding{
						Rule: "GRAPHINV.converse",
						Key:  fmt.Sprintf("GRAPHINV.converse|%s|%s", m.name, e.String()),
						Pos:  core.Pos(e.pos), Func: m.name,
						Msg: fmt.Sprintf("adjacency effect %s has no converse %s in this method: the forward and reverse relations stop being mirror images", e.String(), want),
					})
				}
			}
			m.checkTogether(effs, conv)
			m.checkIDs(effs)
			if fd.Name.Name == "RemoveNode" {
				m.checkRemoveNode(effs)
			}
		}
	}
}

func nodeText(n ast.Node) string {
	switch x := n.(type) {
	case ast.Expr:
		return types.ExprString(x)
	case *ast.AssignStmt:
		return types.ExprString(x.Lhs[0]) + " = ..."
	}
	return fmt.Sprintf("%T", n)
}

// callsOn finds calls recv.<field>[...]*.Method(arg).
func (m *methodCtx) poolCalls(field, method string) []*ast.CallExpr {
	var out []*ast.CallExpr
	if field == "" {
		return nil
	}
	ast.Inspect(m.fd.Body, func(n ast.Node) bool {
		c, ok := n.(*ast.CallExpr)
		if !ok {
			return true
		}
		sel, ok := c.Fun.(*ast.SelectorExpr)
		if !ok || sel.Sel.Name != method {
			return true
		}
		x := sel.X
		for {
			if ix, ok := x.(*ast.IndexExpr); ok {
				x = ix.X
				continue
			}
			break
		}
		if s2, ok := x.(*ast.SelectorExpr); ok && s2.Sel.Name == field {
			if id, ok := s2.X.(*ast.Ident); ok && core.ObjOf(m.info, id) == m.recv {
				out = append(out, c)
			}
		}
		// the pool reached through a helper method of the receiver that
		// returns it: g.lineIDsFor(fid, tid).Use(lid)
		if hc, ok := x.(*ast.CallExpr); ok {
			if hs, ok := hc.Fun.(*ast.SelectorExpr); ok {
				if id, ok := hs.X.(*ast.Ident); ok && core.ObjOf(m.info, id) == m.recv {
					if tv, ok := m.info.Types[hc]; ok && tv.Type != nil {
						if pt, ok := tv.Type.(*types.Pointer); ok {
							if nt, ok := pt.Elem().(*types.Named); ok && nt.Obj().Name() == "Set" && nt.Obj().Pkg() != nil && nt.Obj().Pkg().Name() == "uid" {
								out = append(out, c)
							}
						}
					}
				}
			}
		}
		return true
	})
	return out
}

func (m *methodCtx) checkIDs(effs []effect) {
	gt := m.gt
	g := cfgx.New(m.fd.Body, m.info)
	contains := func(b *cfg.Block, target ast.Node) bool {
		for _, n := range b.Nodes {
			found := false
			ast.Inspect(n, func(x ast.Node) bool {
				if x == target {
					found = true
				}
				return !found
			})
			if found {
				return true
			}
		}
		return false
	}
	// every exit must have passed `ev` if it passed `trigger`: checked as
	// "ev post-dominates trigger" through a must-pass on the reversed question:
	// from the trigger node, no exit is reachable without passing ev.
	reachesExitWithout := func(trigger, ev ast.Node) bool {
		loc, ok := g.Where[trigger]
		if !ok {
			return false
		}
		seen := map[int32]bool{}
		var walk func(b *cfg.Block, from int) bool
		walk = func(b *cfg.Block, from int) bool {
			for i := from; i < len(b.Nodes); i++ {
				found := false
				ast.Inspect(b.Nodes[i], func(x ast.Node) bool {
					if x == ev {
						found = true
					}
					return !found
				})
				if found {
					return false
				}
			}
			if len(b.Succs) == 0 {
				if len(b.Nodes) > 0 {
					if es, ok := b.Nodes[len(b.Nodes)-1].(*ast.ExprStmt); ok {
						if c, ok := es.X.(*ast.CallExpr); ok && cfgx.IsPanic(m.info, c) {
							return false
						}
					}
				}
				return true
			}
			for _, s := range b.Succs {
				if !seen[s.Index] {
					seen[s.Index] = true
					if walk(s, 0) {
						return true
					}
				}
			}
			return false
		}
		return walk(g.Blocks[loc.Block], loc.Index+1)
	}
	_ = contains
	// node insertions
	ast.Inspect(m.fd.Body, func(n ast.Node) bool {
		as, ok := n.(*ast.AssignStmt)
		if !ok || as.Tok != token.ASSIGN || len(as.Lhs) != 1 {
			return true
		}
		ix, ok := as.Lhs[0].(*ast.IndexExpr)
		if !ok {
			return true
		}
		sel, ok := ix.X.(*ast.SelectorExpr)
		if !ok || sel.Sel.Name != gt.nodes {
			return true
		}
		if id, ok := sel.X.(*ast.Ident); !ok || core.ObjOf(m.info, id) != m.recv {
			return true
		}
		key := types.ExprString(ix.Index)
		m.res.Obligations++
		m.res.Count("node_map_insertions", 1)
		// replacement of an existing key: else-branch of `if _, ok := g.nodes[k]; !ok`
		par := cfgx.Parents(m.fd.Body)
		var child ast.Node = as
		for p := par[as]; p != nil; child, p = p, par[p] {
			if is, ok := p.(*ast.IfStmt); ok && (is.Else == child || is.Body == child) {
				if init, ok := is.Init.(*ast.AssignStmt); ok && len(init.Rhs) == 1 && len(init.Lhs) == 2 {
					if rix, ok := init.Rhs[0].(*ast.IndexExpr); ok && types.ExprString(rix.Index) == key && types.ExprString(rix.X) == types.ExprString(ix.X) {
						okName := types.ExprString(init.Lhs[1])
						cond := ast.Unparen(is.Cond)
						// else-arm of `!ok`, or then-arm of `ok`: the key exists
						if u, isNot := cond.(*ast.UnaryExpr); isNot && u.Op == token.NOT && types.ExprString(ast.Unparen(u.X)) == okName && is.Else == child {
							return true
						}
						if types.ExprString(cond) == okName && is.Body == child {
							return true
						}
					}
				}
			}
		}
		// otherwise a Use(key) on the node pool must follow on all paths
		uses := m.poolCalls(gt.nodeIDs, "Use")
		okUse := false
		for _, u := range uses {
			if len(u.Args) == 1 && types.ExprString(u.Args[0]) == key && !reachesExitWithout(as, u) {
				okUse = true
			}
		}
		if !okUse {
			m.res.Add(core.Finding{
				Rule: "GRAPHINV.ids",
				Key:  fmt.Sprintf("GRAPHINV.ids|%s|nodes[%s]", m.name, key),
				Pos:  core.Pos(as.Pos()), Func: m.name,
				Msg: fmt.Sprintf("node key %s is inserted but %s.Use(%s) does not follow on every path: NewNode could later issue a colliding ID", key, gt.nodeIDs, key),
			})
		}
		return true
	})
	// releases must be preceded by the deletion of the key
	for _, rel := range m.poolCalls(gt.nodeIDs, "Release") {
		if len(rel.Args) != 1 {
			continue
		}
		key := types.ExprString(rel.Args[0])
		m.res.Obligations++
		m.res.Count("id_releases", 1)
		var del ast.Node
		ast.Inspect(m.fd.Body, func(n ast.Node) bool {
			c, ok := n.(*ast.CallExpr)
			if !ok || len(c.Args) != 2 {
				return true
			}
			if f, ok := c.Fun.(*ast.Ident); !ok || f.Name != "delete" {
				return true
			}
			if s, ok := c.Args[0].(*ast.SelectorExpr); ok && s.Sel.Name == gt.nodes && types.ExprString(c.Args[1]) == key {
				del = c
			}
			return true
		})
		okDel := false
		if del != nil {
			in := g.MustPass(func(b *cfg.Block) bool { return contains(b, del) })
			if loc, ok := g.Where[rel]; ok {
				okDel = in[loc.Block]
				if !okDel && contains(g.Blocks[loc.Block], del) && del.Pos() < rel.Pos() {
					okDel = true
				}
			}
		}
		if !okDel {
			m.res.Add(core.Finding{
				Rule: "GRAPHINV.ids",
				Key:  fmt.Sprintf("GRAPHINV.ids|%s|Release(%s)", m.name, key),
				Pos:  core.Pos(rel.Pos()), Func: m.name,
				Msg: fmt.Sprintf("%s.Release(%s) is not preceded on every path by delete(%s, %s): a live node's ID would be handed out again", gt.nodeIDs, key, gt.nodes, key),
			})
		}
	}
	// line insertions must be followed by Use on the line pool
	if gt.lineIDs != "" {
		var adds []effect
		for _, e := range effs {
			if e.kind == "ADD" && e.l != "" {
				adds = append(adds, e)
			}
		}
		if len(adds) > 0 {
			m.res.Obligations++
			m.res.Count("line_insertion_methods", 1)
			uses := m.poolCalls(gt.lineIDs, "Use")
			ok := false
			for _, u := range uses {
				if len(u.Args) == 1 && types.ExprString(u.Args[0]) == adds[0].l {
					// must be reached on every normal exit of the method
					in := g.MustPass(func(b *cfg.Block) bool { return contains(b, u) })
					all := true
					for _, b := range g.Blocks {
						if len(b.Succs) == 0 && b.Kind != cfg.KindUnreachable && g.Reachable()[b.Index] {
							if !(in[b.Index] || contains(b, u)) {
								if len(b.Nodes) > 0 {
									if es, isE := b.Nodes[len(b.Nodes)-1].(*ast.ExprStmt); isE {
										if c, isC := es.X.(*ast.CallExpr); isC && cfgx.IsPanic(m.info, c) {
											continue
										}
									}
								}
								all = false
							}
						}
					}
					if all {
						ok = true
					}
				}
			}
			if !ok {
				m.res.Add(core.Finding{
					Rule: "GRAPHINV.ids",
					Key:  fmt.Sprintf("GRAPHINV.ids|%s|lines", m.name),
					Pos:  core.Pos(adds[0].pos), Func: m.name,
					Msg: fmt.Sprintf("a line with ID %s is inserted but %s[..][..].Use(%s) is not reached on every path: NewLine could issue a colliding line ID", adds[0].l, gt.lineIDs, adds[0].l),
				})
			}
		}
	}
}

func (m *methodCtx) checkRemoveNode(effs []effect) {
	gt := m.gt
	if len(m.fd.Type.Params.List) != 1 || len(m.fd.Type.Params.List[0].Names) != 1 {
		return
	}
	id := m.fd.Type.Params.List[0].Names[0].Name
	m.res.Count("remove_node_methods", 1)
	need := []string{}
	for _, rel := range gt.adj {
		need = append(need, "DELROW_"+rel+"("+id+")", "DELCOL_"+rel+"("+id+")")
	}
	have := map[string]bool{}
	for _, e := range effs {
		have[effect{kind: e.kind, rel: e.rel, a: e.a}.String()] = true
	}
	sort.Strings(need)
	for _, n := range need {
		m.res.Obligations++
		if !have[n] {
			m.res.Add(core.Finding{
				Rule: "GRAPHINV.remove",
				Key:  fmt.Sprintf("GRAPHINV.remove|%s|%s", m.name, n),
				Pos:  core.Pos(m.fd.Pos()), Func: m.name,
				Msg: fmt.Sprintf("RemoveNode lacks the effect %s: edges incident to the removed node would survive in one direction", n),
			})
		}
	}
	m.res.Obligations += 2
	deletesNode := false
	ast.Inspect(m.fd.Body, func(n ast.Node) bool {
		if c, ok := n.(*ast.CallExpr); ok && len(c.Args) == 2 {
			if f, ok := c.Fun.(*ast.Ident); ok && f.Name == "delete" {
				if s, ok := c.Args[0].(*ast.SelectorExpr); ok && s.Sel.Name == gt.nodes && types.ExprString(c.Args[1]) == id {
					deletesNode = true
				}
			}
		}
		return true
	})
	if !deletesNode {
		m.res.Add(core.Finding{Rule: "GRAPHINV.remove", Key: fmt.Sprintf("GRAPHINV.remove|%s|nodes", m.name), Pos: core.Pos(m.fd.Pos()), Func: m.name,
			Msg: "RemoveNode never deletes the node key from the nodes map"})
	}
	if len(m.poolCalls(gt.nodeIDs, "Release")) == 0 {
		m.res.Add(core.Finding{Rule: "GRAPHINV.remove", Key: fmt.Sprintf("GRAPHINV.remove|%s|release", m.name), Pos: core.Pos(m.fd.Pos()), Func: m.name,
			Msg: "RemoveNode never releases the node's ID"})
	}
}

// checkUID: in every method of uid.Set, used.Add(x) is executed together
// with free.Remove(x) and used.Remove(x) with free.Add(x): one dominates or
// post-dominates the other.
func checkUID(res *core.Result, pkg *packages.Package) {
	info := pkg.TypesInfo
	for _, f := range pkg.Syntax {
		for _, d := range f.Decls {
			fd, ok := d.(*ast.FuncDecl)
			if !ok || fd.Body == nil || fd.Recv == nil {
				continue
			}
			name := core.FuncName(pkg, fd)
			type ev struct {
				field, op, arg string
				node           ast.Node
			}
			var evs []ev
			ast.Inspect(fd.Body, func(n ast.Node) bool {
				c, ok := n.(*ast.CallExpr)
				if !ok || len(c.Args) != 1 {
					return true
				}
				sel, ok := c.Fun.(*ast.SelectorExpr)
				if !ok || (sel.Sel.Name != "Add" && sel.Sel.Name != "Remove") {
					return true
				}
				fs, ok := sel.X.(*ast.SelectorExpr)
				if !ok || (fs.Sel.Name != "used" && fs.Sel.Name != "free") {
					return true
				}
				evs = append(evs, ev{fs.Sel.Name, sel.Sel.Name, types.ExprString(c.Args[0]), c})
				return true
			})
			if len(evs) == 0 {
				continue
			}
			g := cfgx.New(fd.Body, info)
			res.Count("uid_set_methods", 1)
			for _, e := range evs {
				res.Obligations++
				res.Count("uid_set_updates", 1)
				dualField := map[string]string{"used": "free", "free": "used"}[e.field]
				dualOp := map[string]string{"Add": "Remove", "Remove": "Add"}[e.op]
				okPair := false
				for _, o := range evs {
					if o.field != dualField || o.op != dualOp || o.arg != e.arg {
						continue
					}
					if together(g, info, e.node, o.node) {
						okPair = true
					}
				}
				if !okPair {
					res.Add(core.Finding{
						Rule: "GRAPHINV.uid",
						Key:  fmt.Sprintf("GRAPHINV.uid|%s|%s.%s", name, e.field, e.op),
						Pos:  core.Pos(e.node.Pos()), Func: name,
						Msg: fmt.Sprintf("%s.%s(%s) is not always executed together with %s.%s(%s): the used and free ID sets stop being complementary, so a live ID can be issued again",
							e.field, e.op, e.arg, dualField, dualOp, e.arg),
					})
				}
			}
		}
	}
}

// together: whenever a executes, b executes too (b dominates a, or every
// path from a to a normal exit passes b).
func together(g *cfgx.Graph, info *types.Info, a, b ast.Node) bool {
	la, ok1 := g.Where[a]
	lb, ok2 := g.Where[b]
	if !ok1 || !ok2 {
		return false
	}
	contains := func(blk *cfg.Block, target ast.Node) bool {
		for _, n := range blk.Nodes {
			found := false
			ast.Inspect(n, func(x ast.Node) bool {
				if x == target {
					found = true
				}
				return !found
			})
			if found {
				return true
			}
		}
		return false
	}
	// b before a on all paths
	in := g.MustPass(func(blk *cfg.Block) bool { return contains(blk, b) })
	if in[la.Block] || (la.Block == lb.Block && lb.Index < la.Index) {
		return true
	}
	// b after a on all paths
	seen := map[int32]bool{}
	var escapes func(blk *cfg.Block, from int) bool
	escapes = func(blk *cfg.Block, from int) bool {
		for i := from; i < len(blk.Nodes); i++ {
			found := false
			ast.Inspect(blk.Nodes[i], func(x ast.Node) bool {
				if x == b {
					found = true
				}
				return !found
			})
			if found {
				return false
			}
		}
		if len(blk.Succs) == 0 {
			if len(blk.Nodes) > 0 {
				if es, ok := blk.Nodes[len(blk.Nodes)-1].(*ast.ExprStmt); ok {
					if c, ok := es.X.(*ast.CallExpr); ok && cfgx.IsPanic(info, c) {
						return false
					}
				}
			}
			return true
		}
		for _, s := range blk.Succs {
			if !seen[s.Index] {
				seen[s.Index] = true
				if escapes(s, 0) {
					return true
				}
			}
		}
		return false
	}
	return !escapes(g.Blocks[la.Block], la.Index+1)
}

// checkTogether implements GRAPHINV.together, the path form of the converse
// rule: an ADD or DEL effect and its converse execute together. For every
// site of such an effect, some site of the converse effect dominates it, or
// lies on every path from it to a normal return (panicking paths leave no
// graph to be inconsistent). The set-level rule accepts a method in which an
// early return or a missing switch arm separates the two updates.
func (m *methodCtx) checkTogether(effs []effect, conv func(string) string) {
	var g *cfgx.Graph
	locOf := func(pos token.Pos) (cfgx.Loc, bool) {
		for n, l := range g.Where {
			if n.Pos() == pos {
				return l, true
			}
		}
		return cfgx.Loc{}, false
	}
	for _, e := range effs {
		if e.kind != "ADD" && e.kind != "DEL" {
			continue
		}
		var convs []effect
		for _, c := range effs {
			if c.kind == e.kind && c.rel == conv(e.rel) && c.a == e.b && c.b == e.a && c.l == e.l && c.pos != e.pos {
				convs = append(convs, c)
			}
		}
		if len(convs) == 0 {
			continue // reported by GRAPHINV.converse (or self-converse)
		}
		if g == nil {
			g = cfgx.New(m.fd.Body, m.info)
		}
		el, ok := locOf(e.pos)
		if !ok {
			continue
		}
		m.res.Obligations++
		m.res.Count("effects_paired_with_a_converse_site", 1)
		at := map[int32][]int{}
		for _, c := range convs {
			if cl, ok := locOf(c.pos); ok {
				at[cl.Block] = append(at[cl.Block], cl.Index)
			}
		}
		gen := func(b *cfg.Block) bool { return len(at[b.Index]) > 0 }
		// same block, before or after
		okHere := len(at[el.Block]) > 0
		dominated := g.MustPass(gen)[el.Block]
		post := g.MustReachExit(gen)[el.Block]
		if okHere || dominated || post {
			continue
		}
		want := effect{kind: e.kind, rel: conv(e.rel), a: e.b, b: e.a, l: e.l}.String()
		m.res.Add(core.Finding{Rule: "GRAPHINV.together", Key: fmt.Sprintf("GRAPHINV.together|%s|%s", m.name, e.String()), Pos: core.Pos(e.pos), Func: m.name,
			Msg: fmt.Sprintf("adjacency effect %s is not accompanied by its converse %s on every path: a path from here to a return avoids every site of the converse update, so the forward and reverse relations stop being mirror images", e.String(), want)})
	}
}
