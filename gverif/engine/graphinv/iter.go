package graphinv

import (
	"fmt"
	"go/ast"
	"go/constant"
	"go/token"
	"go/types"

	"gverif/cfgx"
	"gverif/core"

	"golang.org/x/tools/go/cfg"
)

// RunIterators implements GRAPHINV.iter for graph/iterator: on every path
// of Next() that can return true, a cursor field (a receiver field that
// Len() reads) is advanced, or Next delegates to another iterator's Next.
// This is the static form of "Len is the correct remaining count".
func RunIterators(conf core.Config) *core.Result {
	res := core.NewResult("GRAPHINV.iter")
	res.Rules = append(res.Rules, "GRAPHINV.iter: every path of an iterator's Next() that can return true advances a cursor field read by Len(), or delegates to another Next()")
	res.Configs = append(res.Configs, conf.String())
	pkgs, err := core.Load(conf, "./graph/iterator")
	if err != nil {
		res.Brokenf("%v", err)
		return res
	}
	pkg := pkgs[0]
	info := pkg.TypesInfo
	type methods struct{ next, length *ast.FuncDecl }
	byType := map[string]*methods{}
	for _, f := range pkg.Syntax {
		for _, d := range f.Decls {
			fd, ok := d.(*ast.FuncDecl)
			if !ok || fd.Recv == nil || fd.Body == nil || len(fd.Recv.List[0].Names) != 1 {
				continue
			}
			rt := fd.Recv.List[0].Type
			if s, ok := rt.(*ast.StarExpr); ok {
				rt = s.X
			}
			id, ok := rt.(*ast.Ident)
			if !ok {
				continue
			}
			if byType[id.Name] == nil {
				byType[id.Name] = &methods{}
			}
			switch fd.Name.Name {
			case "Next":
				byType[id.Name].next = fd
			case "Len":
				byType[id.Name].length = fd
			}
		}
	}
	for tname, m := range byType {
		if m.next == nil || m.length == nil {
			continue
		}
		res.Count("iterator_types", 1)
		name := core.FuncName(pkg, m.next)
		recvLen := info.Defs[m.length.Recv.List[0].Names[0]]
		recvNext := info.Defs[m.next.Recv.List[0].Names[0]]
		// cursor fields: receiver fields read in Len
		cursor := map[string]bool{}
		ast.Inspect(m.length.Body, func(n ast.Node) bool {
			if sel, ok := n.(*ast.SelectorExpr); ok {
				if id, ok := sel.X.(*ast.Ident); ok && core.ObjOf(info, id) == recvLen {
					cursor[sel.Sel.Name] = true
				}
			}
			return true
		})
		advances := func(n ast.Node) bool {
			found := false
			isCursor := func(e ast.Expr) bool {
				sel, ok := e.(*ast.SelectorExpr)
				if !ok || !cursor[sel.Sel.Name] {
					return false
				}
				id, ok := sel.X.(*ast.Ident)
				return ok && core.ObjOf(info, id) == recvNext
			}
			ast.Inspect(n, func(x ast.Node) bool {
				switch s := x.(type) {
				case *ast.IncDecStmt:
					if isCursor(s.X) {
						found = true
					}
				case *ast.AssignStmt:
					for _, l := range s.Lhs {
						if isCursor(l) {
							found = true
						}
					}
				case *ast.CallExpr:
					// delegation to another iterator's Next / a fill routine
					if sel, ok := s.Fun.(*ast.SelectorExpr); ok && (sel.Sel.Name == "Next") {
						if _, isRecvField := sel.X.(*ast.SelectorExpr); isRecvField {
							if tv, ok := info.Types[sel.X]; ok {
								if _, isNamed := derefNamed(tv.Type); isNamed && hasMethod(tv.Type, "Len") {
									found = true
								}
							}
						}
					}
				}
				return !found
			})
			return found
		}
		g := cfgx.New(m.next.Body, info)
		for _, b := range g.Blocks {
			for _, n := range b.Nodes {
				rs, ok := n.(*ast.ReturnStmt)
				if !ok || len(rs.Results) != 1 {
					continue
				}
				if tv, ok := info.Types[rs.Results[0]]; ok && tv.Value != nil && tv.Value.Kind() == constant.Bool && !constant.BoolVal(tv.Value) {
					continue // return false
				}
				res.Obligations++
				res.Count("next_true_returns", 1)
				if advances(rs) {
					continue
				}
				// assumption: a returned boolean variable is true on this path
				var assume types.Object
				if id, ok := rs.Results[0].(*ast.Ident); ok {
					assume = core.ObjOf(info, id)
				}
				if !allPathsAdvance(g, info, rs, advances, assume) {
					res.Add(core.Finding{
						Rule: "GRAPHINV.iter",
						Key:  fmt.Sprintf("GRAPHINV.iter|%s|%s", name, tname),
						Pos:  core.Pos(rs.Pos()), Func: name,
						Msg: fmt.Sprintf("Next() can return true on a path that advances none of the cursor fields read by Len() (%v): Len would not decrease and the iterator could run past its end", keys(cursor)),
					})
				}
			}
		}
		res.Sample(map[string]any{"rule": "GRAPHINV.iter", "type": tname, "cursor_fields": keys(cursor)})
	}
	return res
}

func keys(m map[string]bool) []string {
	var out []string
	for k := range m {
		out = append(out, k)
	}
	return out
}

func derefNamed(t types.Type) (*types.Named, bool) {
	if p, ok := t.(*types.Pointer); ok {
		t = p.Elem()
	}
	n, ok := t.(*types.Named)
	return n, ok
}

func hasMethod(t types.Type, name string) bool {
	if _, isPtr := t.(*types.Pointer); !isPtr {
		t = types.NewPointer(t)
	}
	ms := types.NewMethodSet(t)
	for i := 0; i < ms.Len(); i++ {
		if ms.At(i).Obj().Name() == name {
			return true
		}
	}
	return false
}

// allPathsAdvance: every feasible path from entry to target passes an
// advancing node; branches on the assumed-true variable are pruned.
func allPathsAdvance(g *cfgx.Graph, info *types.Info, target ast.Node, adv func(ast.Node) bool, assume types.Object) bool {
	tloc, ok := g.Where[target]
	if !ok {
		return true
	}
	var tri func(e ast.Expr) int
	tri = func(e ast.Expr) int {
		switch x := e.(type) {
		case *ast.ParenExpr:
			return tri(x.X)
		case *ast.Ident:
			if assume != nil && core.ObjOf(info, x) == assume {
				return 1
			}
		case *ast.UnaryExpr:
			if x.Op == token.NOT {
				return -tri(x.X)
			}
		}
		return 0
	}
	// the assumption only holds after the variable's last definition; it is
	// applied to branch conditions, which in these methods follow it.
	old := g.Keep
	g.Keep = func(b *cfg.Block, i int) bool {
		c := cfgx.Cond(b)
		if c == nil {
			return true
		}
		switch tri(c) {
		case 1:
			return i == 0
		case -1:
			return i == 1
		}
		return true
	}
	defer func() { g.Keep = old }()
	in := g.MustPass(func(b *cfg.Block) bool {
		for _, n := range b.Nodes {
			if adv(n) {
				return true
			}
		}
		return false
	})
	if !g.Reachable()[tloc.Block] {
		return true
	}
	if in[tloc.Block] {
		return true
	}
	b := g.Blocks[tloc.Block]
	for i := 0; i < tloc.Index; i++ {
		if adv(b.Nodes[i]) {
			return true
		}
	}
	return false
}
