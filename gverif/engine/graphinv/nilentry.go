package graphinv

import (
	"fmt"
	"go/ast"
	"go/token"
	"go/types"
	"strings"

	"golang.org/x/tools/go/cfg"

	"gverif/cfgx"
	"gverif/core"
)

// RunNilEntry implements GRAPHINV.nilentry, a contradiction rule: where some
// method of a package compares an entry F[a][b] of a map field whose values
// are pointers with nil (so the authors believe the entry can be missing),
// every method call on such an entry, F[x][y].M(…), in that package is
// guarded: on the control-flow graph pruned under the assumption that the
// entry IS nil, the call is not reachable from the entry of the function
// without passing an assignment to that entry (or to a prefix F[x] of it).
func RunNilEntry(conf core.Config, patterns ...string) *core.Result {
	res := core.NewResult("NILENTRY")
	res.Rules = append(res.Rules, "GRAPHINV.nilentry: a method call on an entry F[x][y] of a map field with pointer values, whose entries are compared with nil elsewhere in the package, is unreachable when that entry is nil, unless an assignment to the entry (or a prefix) precedes it")
	res.Configs = append(res.Configs, conf.String())
	pkgs, err := core.Load(conf, patterns...)
	if err != nil {
		res.Brokenf("%v", err)
		return res
	}
	for _, pkg := range pkgs {
		info := pkg.TypesInfo
		// entry expression: IndexExpr chain over a selector of a field, whose type is a pointer
		entryField := func(e ast.Expr) *types.Var {
			ix, ok := ast.Unparen(e).(*ast.IndexExpr)
			if !ok {
				return nil
			}
			if tv, ok := info.Types[ix]; !ok || tv.Type == nil {
				return nil
			} else if _, isPtr := tv.Type.Underlying().(*types.Pointer); !isPtr {
				return nil
			}
			var x ast.Expr = ix
			for {
				if i, ok := ast.Unparen(x).(*ast.IndexExpr); ok {
					if _, isMap := info.TypeOf(i.X).Underlying().(*types.Map); !isMap {
						return nil
					}
					x = i.X
					continue
				}
				break
			}
			sel, ok := ast.Unparen(x).(*ast.SelectorExpr)
			if !ok {
				return nil
			}
			v, _ := info.Uses[sel.Sel].(*types.Var)
			if v == nil || !v.IsField() {
				return nil
			}
			return v
		}
		believed := map[*types.Var]bool{}
		for _, f := range pkg.Syntax {
			ast.Inspect(f, func(n ast.Node) bool {
				be, ok := n.(*ast.BinaryExpr)
				if !ok || (be.Op != token.EQL && be.Op != token.NEQ) {
					return true
				}
				if id, ok := ast.Unparen(be.Y).(*ast.Ident); ok && id.Name == "nil" {
					if v := entryField(be.X); v != nil {
						believed[v] = true
					}
				}
				return true
			})
		}
		res.Count("map_fields_whose_entries_are_compared_with_nil", len(believed))
		for _, f := range pkg.Syntax {
			for _, d := range f.Decls {
				fd, ok := d.(*ast.FuncDecl)
				if !ok || fd.Body == nil {
					continue
				}
				name := core.FuncName(pkg, fd)
				var sites []*ast.CallExpr
				ast.Inspect(fd.Body, func(n ast.Node) bool {
					c, ok := n.(*ast.CallExpr)
					if !ok {
						return true
					}
					sel, ok := c.Fun.(*ast.SelectorExpr)
					if !ok {
						return true
					}
					if v := entryField(sel.X); v != nil && believed[v] {
						sites = append(sites, c)
					}
					return true
				})
				if len(sites) == 0 {
					continue
				}
				for _, site := range sites {
					res.Obligations++
					res.Count("method_calls_on_map_entries", 1)
					E := types.ExprString(ast.Unparen(site.Fun.(*ast.SelectorExpr).X))
					g := cfgx.New(fd.Body, info)
					g.Keep = cfgx.KeepUnder(cfgx.WithBoolDefs(info, fd.Body, func(e ast.Expr) (bool, bool) {
						be, ok := ast.Unparen(e).(*ast.BinaryExpr)
						if !ok || (be.Op != token.EQL && be.Op != token.NEQ) {
							return false, false
						}
						if id, ok := ast.Unparen(be.Y).(*ast.Ident); !ok || id.Name != "nil" {
							return false, false
						}
						if types.ExprString(ast.Unparen(be.X)) != E {
							return false, false
						}
						return be.Op == token.EQL, true
					}))
					loc, ok := g.Where[site]
					if !ok {
						continue
					}
					// index of the first kill in each block
					killAt := func(b *cfg.Block) int {
						for i, n := range b.Nodes {
							hit := false
							ast.Inspect(n, func(m ast.Node) bool {
								as, ok := m.(*ast.AssignStmt)
								if !ok {
									return true
								}
								for _, l := range as.Lhs {
									t := types.ExprString(ast.Unparen(l))
									if t == E || strings.HasPrefix(E, t+"[") {
										hit = true
									}
								}
								return true
							})
							if hit {
								return i
							}
						}
						return -1
					}
					seen := make([]bool, len(g.Blocks))
					reached := false
					var walk func(b *cfg.Block)
					walk = func(b *cfg.Block) {
						if seen[b.Index] || reached {
							return
						}
						seen[b.Index] = true
						k := killAt(b)
						if b.Index == loc.Block {
							if k < 0 || k >= loc.Index {
								reached = true
							}
							return
						}
						if k >= 0 {
							return
						}
						for _, s := range g.Succs(b) {
							walk(s)
						}
					}
					if len(g.Blocks) > 0 {
						walk(g.Blocks[0])
					}
					if reached {
						res.Add(core.Finding{Rule: "GRAPHINV.nilentry", Key: fmt.Sprintf("GRAPHINV.nilentry|%s|%s", name, E), Pos: core.Pos(site.Pos()), Func: name,
							Msg: fmt.Sprintf("%s calls %s although the entry can be missing (other methods compare it with nil first): with no entry for that pair the method runs on a nil pointer", name, types.ExprString(site.Fun))})
					}
				}
			}
		}
	}
	return res
}

// RunDiag implements GRAPHINV.diag: in the dense-matrix graphs the diagonal
// of the weight matrix is not an edge slot — it holds the `self` value that
// Weight reports for x == y — so every store into the matrix at a position
// given by two node IDs, g.mat.Set(int(a), int(b), …) or SetSym, is
// unreachable on the control-flow graph pruned under a == b.
func RunDiag(conf core.Config) *core.Result {
	res := core.NewResult("GRAPHDIAG")
	res.Rules = append(res.Rules, "GRAPHINV.diag: in the dense-matrix graph types no store g.mat.Set/SetSym(int(a), int(b), …) at a position given by two node IDs is reachable when a == b (the diagonal holds the self weight)")
	res.Configs = append(res.Configs, conf.String())
	pkgs, err := core.Load(conf, "./graph/simple")
	if err != nil {
		res.Brokenf("%v", err)
		return res
	}
	for _, pkg := range pkgs {
		info := pkg.TypesInfo
		for _, f := range pkg.Syntax {
			for _, d := range f.Decls {
				fd, ok := d.(*ast.FuncDecl)
				if !ok || fd.Body == nil || fd.Recv == nil {
					continue
				}
				name := core.FuncName(pkg, fd)
				idOf := func(e ast.Expr) types.Object {
					e = ast.Unparen(e)
					if c, ok := e.(*ast.CallExpr); ok && len(c.Args) == 1 {
						if tv, ok := info.Types[c.Fun]; ok && tv.IsType() {
							e = ast.Unparen(c.Args[0])
						}
					}
					id, ok := e.(*ast.Ident)
					if !ok {
						return nil
					}
					return core.ObjOf(info, id)
				}
				ast.Inspect(fd.Body, func(n ast.Node) bool {
					c, ok := n.(*ast.CallExpr)
					if !ok || len(c.Args) != 3 {
						return true
					}
					sel, ok := c.Fun.(*ast.SelectorExpr)
					if !ok || (sel.Sel.Name != "Set" && sel.Sel.Name != "SetSym") {
						return true
					}
					if in, ok := ast.Unparen(sel.X).(*ast.SelectorExpr); !ok || in.Sel.Name != "mat" {
						return true
					}
					a, b := idOf(c.Args[0]), idOf(c.Args[1])
					if a == nil || b == nil || a == b {
						return true
					}
					res.Obligations++
					res.Count("matrix_stores_at_a_pair_of_node_ids", 1)
					g := cfgx.New(fd.Body, info)
					g.Keep = cfgx.KeepUnder(cfgx.WithBoolDefs(info, fd.Body, func(e ast.Expr) (bool, bool) {
						be, ok := ast.Unparen(e).(*ast.BinaryExpr)
						if !ok || (be.Op != token.EQL && be.Op != token.NEQ) {
							return false, false
						}
						x, y := idOf(be.X), idOf(be.Y)
						if x == nil || y == nil || !((x == a && y == b) || (x == b && y == a)) {
							return false, false
						}
						return be.Op == token.EQL, true
					}))
					loc, ok := g.Where[c]
					if !ok {
						return true
					}
					if g.Reachable()[loc.Block] {
						res.Add(core.Finding{Rule: "GRAPHINV.diag", Key: fmt.Sprintf("GRAPHINV.diag|%s|%s", name, types.ExprString(c.Fun)), Pos: core.Pos(c.Pos()), Func: name,
							Msg: fmt.Sprintf("%s stores into the weight matrix at (%s, %s) without excluding equal IDs: for equal IDs the store overwrites the diagonal, which holds the self weight reported by Weight(x, x)", name, types.ExprString(c.Args[0]), types.ExprString(c.Args[1]))})
					}
					return true
				})
			}
		}
	}
	return res
}

// RunRangeFirst implements GRAPHINV.rangefirst: the dense-matrix graphs panic
// for a node ID outside the matrix through the first slice index g.nodes[x]
// or matrix access g.mat.Set/SetSym/At(int(x), …) that uses it. "Documented
// panics leave the graph unchanged" then requires that no store into the
// receiver's state precedes that first use: on the control-flow graph pruned
// under "g.has(x) is false", no path from the entry performs a receiver
// store (g.nodes[y] = …, g.mat.Set…) and afterwards reaches the first site
// that indexes with x.
func RunRangeFirst(conf core.Config) *core.Result {
	res := core.NewResult("RANGEFIRST")
	res.Rules = append(res.Rules, "GRAPHINV.rangefirst: in the dense-matrix graph types the first slice index or matrix access that uses a node ID is not preceded by a store into the receiver's state on any path where that ID is outside the matrix (g.has(id) false)")
	res.Configs = append(res.Configs, conf.String())
	pkgs, err := core.Load(conf, "./graph/simple")
	if err != nil {
		res.Brokenf("%v", err)
		return res
	}
	for _, pkg := range pkgs {
		info := pkg.TypesInfo
		for _, f := range pkg.Syntax {
			for _, d := range f.Decls {
				fd, ok := d.(*ast.FuncDecl)
				if !ok || fd.Body == nil || fd.Recv == nil || len(fd.Recv.List) != 1 || len(fd.Recv.List[0].Names) != 1 {
					continue
				}
				recv := info.Defs[fd.Recv.List[0].Names[0]]
				if recv == nil {
					continue
				}
				name := core.FuncName(pkg, fd)
				recvField := func(e ast.Expr, field string) bool {
					sel, ok := ast.Unparen(e).(*ast.SelectorExpr)
					if !ok || sel.Sel.Name != field {
						return false
					}
					id, ok := ast.Unparen(sel.X).(*ast.Ident)
					return ok && core.ObjOf(info, id) == recv
				}
				idOf := func(e ast.Expr) types.Object {
					e = ast.Unparen(e)
					if c, ok := e.(*ast.CallExpr); ok && len(c.Args) == 1 {
						if tv, ok := info.Types[c.Fun]; ok && tv.IsType() {
							e = ast.Unparen(c.Args[0])
						}
					}
					id, ok := e.(*ast.Ident)
					if !ok {
						return nil
					}
					o := core.ObjOf(info, id)
					if o == nil {
						return nil
					}
					if b, ok := o.Type().Underlying().(*types.Basic); !ok || b.Kind() != types.Int64 {
						return nil
					}
					return o
				}
				// events of a node, in source order
				type event struct {
					pos   token.Pos
					write bool
					ids   []types.Object
					text  string
				}
				eventsOf := func(n ast.Node) []event {
					var evs []event
					ast.Inspect(n, func(m ast.Node) bool {
						switch x := m.(type) {
						case *ast.FuncLit:
							return false
						case *ast.AssignStmt:
							for _, l := range x.Lhs {
								if ix, ok := ast.Unparen(l).(*ast.IndexExpr); ok && recvField(ix.X, "nodes") {
									if _, isSlice := info.TypeOf(ix.X).Underlying().(*types.Slice); isSlice {
										ev := event{pos: ix.Pos(), write: true, text: types.ExprString(ix)}
										if o := idOf(ix.Index); o != nil {
											ev.ids = append(ev.ids, o)
										}
										evs = append(evs, ev)
									}
								}
							}
						case *ast.IndexExpr:
							if recvField(x.X, "nodes") {
								if _, isSlice := info.TypeOf(x.X).Underlying().(*types.Slice); isSlice {
									if o := idOf(x.Index); o != nil {
										evs = append(evs, event{pos: x.Pos(), ids: []types.Object{o}, text: types.ExprString(x)})
									}
								}
							}
						case *ast.CallExpr:
							sel, ok := x.Fun.(*ast.SelectorExpr)
							if !ok || !recvField(sel.X, "mat") || len(x.Args) < 2 {
								return true
							}
							ev := event{pos: x.Pos(), text: types.ExprString(x.Fun)}
							switch sel.Sel.Name {
							case "Set", "SetSym":
								ev.write = true
							case "At":
							default:
								return true
							}
							for _, a := range x.Args[:2] {
								if o := idOf(a); o != nil {
									ev.ids = append(ev.ids, o)
								}
							}
							evs = append(evs, ev)
						}
						return true
					})
					// an index expression on the left of an assignment was added twice (write first)
					var out []event
					seen := map[token.Pos]bool{}
					for _, e := range evs {
						if seen[e.pos] {
							continue
						}
						seen[e.pos] = true
						out = append(out, e)
					}
					return out
				}
				ids := map[types.Object]bool{}
				any := false
				for _, ev := range eventsOf(fd.Body) {
					any = true
					for _, o := range ev.ids {
						ids[o] = true
					}
				}
				if !any || len(ids) == 0 {
					continue
				}
				for x := range ids {
					res.Obligations++
					res.Count("node_ids_used_as_indices", 1)
					g := cfgx.New(fd.Body, info)
					g.Keep = cfgx.KeepUnder(cfgx.WithBoolDefs(info, fd.Body, func(e ast.Expr) (bool, bool) {
						c, ok := ast.Unparen(e).(*ast.CallExpr)
						if !ok || len(c.Args) != 1 {
							return false, false
						}
						sel, ok := c.Fun.(*ast.SelectorExpr)
						if !ok || sel.Sel.Name != "has" {
							return false, false
						}
						if idOf(c.Args[0]) != x {
							return false, false
						}
						return false, true
					}))
					type st struct {
						b int32
						w bool
					}
					seen := map[st]bool{}
					var found *event
					var first *event
					var walk func(b *cfg.Block, written *event)
					walk = func(b *cfg.Block, written *event) {
						k := st{b.Index, written != nil}
						if seen[k] || found != nil {
							return
						}
						seen[k] = true
						for _, n := range b.Nodes {
							for _, ev := range eventsOf(n) {
								ev := ev
								uses := false
								for _, o := range ev.ids {
									if o == x {
										uses = true
									}
								}
								if uses {
									if written != nil {
										found, first = written, &ev
									}
									return
								}
								if ev.write && written == nil {
									written = &ev
								}
							}
						}
						for _, s := range g.Succs(b) {
							walk(s, written)
						}
					}
					if len(g.Blocks) > 0 {
						walk(g.Blocks[0], nil)
					}
					if found != nil {
						res.Add(core.Finding{Rule: "GRAPHINV.rangefirst", Key: fmt.Sprintf("GRAPHINV.rangefirst|%s|%s", name, x.Name()), Pos: core.Pos(first.pos), Func: name,
							Msg: fmt.Sprintf("%s: %s is the first use of the node ID %s as an index and faults when the ID is outside the matrix, but the receiver was already modified by %s at %s: the panic leaves the graph changed", name, first.text, x.Name(), found.text, core.Pos(found.pos))})
					}
				}
			}
		}
	}
	return res
}
