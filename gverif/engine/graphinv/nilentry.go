package graphinv

import (
	"fmt"
	"go/ast"
	"go/token"
	"go/types"
	"strings"

	"golang.org/x/tools/go/cfg"

	"gverif/cfgx"
	"gverif/core"
)

// RunNilEntry implements GRAPHINV.nilentry, a contradiction rule: where some
// method of a package compares an entry F[a][b] of a map field whose values
// are pointers with nil (so the authors believe the entry can be missing),
// every method call on such an entry, F[x][y].M(…), in that package is
// guarded: on the control-flow graph pruned under the assumption that the
// entry IS nil, the call is not reachable from the entry of the function
// without passing an assignment to that entry (or to a prefix F[x] of it).
func RunNilEntry(conf core.Config, patterns ...string) *core.Result {
	res := core.NewResult("NILENTRY")
	res.Rules = append(res.Rules, "GRAPHINV.nilentry: a method call on an entry F[x][y] of a map field with pointer values, whose entries are compared with nil elsewhere in the package, is unreachable when that entry is nil, unless an assignment to the entry (or a prefix) precedes it")
	res.Configs = append(res.Configs, conf.String())
	pkgs, err := core.Load(conf, patterns...)
	if err != nil {
		res.Brokenf("%v", err)
		return res
	}
	for _, pkg := range pkgs {
		info := pkg.TypesInfo
		// entry expression: IndexExpr chain over a selector of a field, whose type is a pointer
		entryField := func(e ast.Expr) *types.Var {
			ix, ok := ast.Unparen(e).(*ast.IndexExpr)
			if !ok {
				return nil
			}
			if tv, ok := info.Types[ix]; !ok || tv.Type == nil {
				return nil
			} else if _, isPtr := tv.Type.Underlying().(*types.Pointer); !isPtr {
				return nil
			}
			var x ast.Expr = ix
			for {
				if i, ok := ast.Unparen(x).(*ast.IndexExpr); ok {
					if _, isMap := info.TypeOf(i.X).Underlying().(*types.Map); !isMap {
						return nil
					}
					x = i.X
					continue
				}
				break
			}
			sel, ok := ast.Unparen(x).(*ast.SelectorExpr)
			if !ok {
				return nil
			}
			v, _ := info.Uses[sel.Sel].(*types.Var)
			if v == nil || !v.IsField() {
				return nil
			}
			return v
		}
		believed := map[*types.Var]bool{}
		for _, f := range pkg.Syntax {
			ast.Inspect(f, func(n ast.Node) bool {
				be, ok := n.(*ast.BinaryExpr)
				if !ok || (be.Op != token.EQL && be.Op != token.NEQ) {
					return true
				}
				if id, ok := ast.Unparen(be.Y).(*ast.Ident); ok && id.Name == "nil" {
					if v := entryField(be.X); v != nil {
						believed[v] = true
					}
				}
				return true
			})
		}
		res.Count("map_fields_whose_entries_are_compared_with_nil", len(believed))
		for _, f := range pkg.Syntax {
			for _, d := range f.Decls {
				fd, ok := d.(*ast.FuncDecl)
				if !ok || fd.Body == nil {
					continue
				}
				name := core.FuncName(pkg, fd)
				var sites []*ast.CallExpr
				ast.Inspect(fd.Body, func(n ast.Node) bool {
					c, ok := n.(*ast.CallExpr)
					if !ok {
						return true
					}
					sel, ok := c.Fun.(*ast.SelectorExpr)
					if !ok {
						return true
					}
					if v := entryField(sel.X); v != nil && believed[v] {
						sites = append(sites, c)
					}
					return true
				})
				if len(sites) == 0 {
					continue
				}
				for _, site := range sites {
					res.Obligations++
					res.Count("method_calls_on_map_entries", 1)
					E := types.ExprString(ast.Unparen(site.Fun.(*ast.SelectorExpr).X))
					g := cfgx.New(fd.Body, info)
					g.Keep = cfgx.KeepUnder(func(e ast.Expr) (bool, bool) {
						be, ok := ast.Unparen(e).(*ast.BinaryExpr)
						if !ok || (be.Op != token.EQL && be.Op != token.NEQ) {
							return false, false
						}
						if id, ok := ast.Unparen(be.Y).(*ast.Ident); !ok || id.Name != "nil" {
							return false, false
						}
						if types.ExprString(ast.Unparen(be.X)) != E {
							return false, false
						}
						return be.Op == token.EQL, true
					})
					loc, ok := g.Where[site]
					if !ok {
						continue
					}
					// index of the first kill in each block
					killAt := func(b *cfg.Block) int {
						for i, n := range b.Nodes {
							hit := false
							ast.Inspect(n, func(m ast.Node) bool {
								as, ok := m.(*ast.AssignStmt)
								if !ok {
									return true
								}
								for _, l := range as.Lhs {
									t := types.ExprString(ast.Unparen(l))
									if t == E || strings.HasPrefix(E, t+"[") {
										hit = true
									}
								}
								return true
							})
							if hit {
								return i
							}
						}
						return -1
					}
					seen := make([]bool, len(g.Blocks))
					reached := false
					var walk func(b *cfg.Block)
					walk = func(b *cfg.Block) {
						if seen[b.Index] || reached {
							return
						}
						seen[b.Index] = true
						k := killAt(b)
						if b.Index == loc.Block {
							if k < 0 || k >= loc.Index {
								reached = true
							}
							return
						}
						if k >= 0 {
							return
						}
						for _, s := range g.Succs(b) {
							walk(s)
						}
					}
					if len(g.Blocks) > 0 {
						walk(g.Blocks[0])
					}
					if reached {
						res.Add(core.Finding{Rule: "GRAPHINV.nilentry", Key: fmt.Sprintf("GRAPHINV.nilentry|%s|%s", name, E), Pos: core.Pos(site.Pos()), Func: name,
							Msg: fmt.Sprintf("%s calls %s although the entry can be missing (other methods compare it with nil first): with no entry for that pair the method runs on a nil pointer", name, types.ExprString(site.Fun))})
					}
				}
			}
		}
	}
	return res
}

// RunDiag implements GRAPHINV.diag: in the dense-matrix graphs the diagonal
// of the weight matrix is not an edge slot — it holds the `self` value that
// Weight reports for x == y — so every store into the matrix at a position
// given by two node IDs, g.mat.Set(int(a), int(b), …) or SetSym, is
// unreachable on the control-flow graph pruned under a == b.
func RunDiag(conf core.Config) *core.Result {
	res := core.NewResult("GRAPHDIAG")
	res.Rules = append(res.Rules, "GRAPHINV.diag: in the dense-matrix graph types no store g.mat.Set/SetSym(int(a), int(b), …) at a position given by two node IDs is reachable when a == b (the diagonal holds the self weight)")
	res.Configs = append(res.Configs, conf.String())
	pkgs, err := core.Load(conf, "./graph/simple")
	if err != nil {
		res.Brokenf("%v", err)
		return res
	}
	for _, pkg := range pkgs {
		info := pkg.TypesInfo
		for _, f := range pkg.Syntax {
			for _, d := range f.Decls {
				fd, ok := d.(*ast.FuncDecl)
				if !ok || fd.Body == nil || fd.Recv == nil {
					continue
				}
				name := core.FuncName(pkg, fd)
				idOf := func(e ast.Expr) types.Object {
					e = ast.Unparen(e)
					if c, ok := e.(*ast.CallExpr); ok && len(c.Args) == 1 {
						if tv, ok := info.Types[c.Fun]; ok && tv.IsType() {
							e = ast.Unparen(c.Args[0])
						}
					}
					id, ok := e.(*ast.Ident)
					if !ok {
						return nil
					}
					return core.ObjOf(info, id)
				}
				ast.Inspect(fd.Body, func(n ast.Node) bool {
					c, ok := n.(*ast.CallExpr)
					if !ok || len(c.Args) != 3 {
						return true
					}
					sel, ok := c.Fun.(*ast.SelectorExpr)
					if !ok || (sel.Sel.Name != "Set" && sel.Sel.Name != "SetSym") {
						return true
					}
					if in, ok := ast.Unparen(sel.X).(*ast.SelectorExpr); !ok || in.Sel.Name != "mat" {
						return true
					}
					a, b := idOf(c.Args[0]), idOf(c.Args[1])
					if a == nil || b == nil || a == b {
						return true
					}
					res.Obligations++
					res.Count("matrix_stores_at_a_pair_of_node_ids", 1)
					g := cfgx.New(fd.Body, info)
					g.Keep = cfgx.KeepUnder(func(e ast.Expr) (bool, bool) {
						be, ok := ast.Unparen(e).(*ast.BinaryExpr)
						if !ok || (be.Op != token.EQL && be.Op != token.NEQ) {
							return false, false
						}
						x, y := idOf(be.X), idOf(be.Y)
						if x == nil || y == nil || !((x == a && y == b) || (x == b && y == a)) {
							return false, false
						}
						return be.Op == token.EQL, true
					})
					loc, ok := g.Where[c]
					if !ok {
						return true
					}
					if g.Reachable()[loc.Block] {
						res.Add(core.Finding{Rule: "GRAPHINV.diag", Key: fmt.Sprintf("GRAPHINV.diag|%s|%s", name, types.ExprString(c.Fun)), Pos: core.Pos(c.Pos()), Func: name,
							Msg: fmt.Sprintf("%s stores into the weight matrix at (%s, %s) without excluding equal IDs: for equal IDs the store overwrites the diagonal, which holds the self weight reported by Weight(x, x)", name, types.ExprString(c.Args[0]), types.ExprString(c.Args[1]))})
					}
					return true
				})
			}
		}
	}
	return res
}
