package graphinv

import (
	"fmt"
	"go/ast"
	"go/token"
	"go/types"
	"strings"

	"gverif/cfgx"
	"gverif/core"

	"golang.org/x/tools/go/cfg"
	"golang.org/x/tools/go/types/typeutil"
)

// RunOrder checks three conventions of the concrete graph containers
// (graph/simple, graph/multi) that carry the "documented panics leave the
// graph unchanged" and "queries agree with each other" clauses:
//
// GRAPHINV.panicorder — in a method of a container type no explicit
// panic(...) is reachable after the method has written the receiver's state
// (a store or delete on a receiver map, a mutating call on a receiver field
// or on the receiver itself).
//
// GRAPHINV.absent — the dense-matrix graphs compare a stored weight with the
// `absent` marker only through the NaN-aware helper isSame; a direct == or
// != against .absent makes one query disagree with the others when absent
// is NaN.
//
// GRAPHINV.iterreset — a method with a value receiver that consumes an
// iterator held in the receiver (calls Next on it, or on the embedded
// iterator) resets it on every path to a return, so that the same edge
// value answers the next query from the start.
func RunOrder(conf core.Config) *core.Result {
	res := core.NewResult("GRAPHINV")
	res.Rules = append(res.Rules,
		"GRAPHINV.panicorder: in the methods of graph/simple and graph/multi container types no explicit panic is reachable after a write to the receiver's state",
		"GRAPHINV.absent: the absent marker of the dense-matrix graphs is compared only through isSame (NaN-aware)",
		"GRAPHINV.iterreset: a value-receiver method that calls Next on an iterator held by the receiver calls Reset on it on every path to a return")
	res.Configs = append(res.Configs, conf.String())
	pkgs, err := core.Load(conf, "./graph/simple", "./graph/multi")
	if err != nil {
		res.Brokenf("%v", err)
		return res
	}
	mutators := map[string]bool{"AddNode": true, "RemoveNode": true, "SetEdge": true, "SetWeightedEdge": true, "RemoveEdge": true,
		"SetLine": true, "SetWeightedLine": true, "RemoveLine": true, "Use": true, "Release": true, "Set": true, "SetSym": true, "Reset": true}
	for _, pkg := range pkgs {
		info := pkg.TypesInfo
		for _, file := range pkg.Syntax {
			for _, d := range file.Decls {
				fd, ok := d.(*ast.FuncDecl)
				if !ok || fd.Body == nil || fd.Recv == nil || len(fd.Recv.List) == 0 || len(fd.Recv.List[0].Names) == 0 {
					continue
				}
				name := core.FuncName(pkg, fd)
				recv := info.Defs[fd.Recv.List[0].Names[0]]
				if recv == nil {
					continue
				}
				_, ptrRecv := recv.Type().(*types.Pointer)
				rootIsRecv := func(e ast.Expr) bool {
					for {
						switch x := e.(type) {
						case *ast.Ident:
							return core.ObjOf(info, x) == recv
						case *ast.SelectorExpr:
							e = x.X
						case *ast.IndexExpr:
							e = x.X
						case *ast.ParenExpr:
							e = x.X
						case *ast.StarExpr:
							e = x.X
						default:
							return false
						}
					}
				}

				// ---- absent
				ast.Inspect(fd.Body, func(n ast.Node) bool {
					switch x := n.(type) {
					case *ast.CallExpr:
						if id, ok := x.Fun.(*ast.Ident); ok && id.Name == "isSame" {
							for _, a := range x.Args {
								if sel, ok := a.(*ast.SelectorExpr); ok && sel.Sel.Name == "absent" {
									res.Count("isSame_absent_comparisons", 1)
									res.Obligations++
								}
							}
						}
					case *ast.BinaryExpr:
						if x.Op != token.EQL && x.Op != token.NEQ {
							return true
						}
						for _, side := range []ast.Expr{x.X, x.Y} {
							if sel, ok := ast.Unparen(side).(*ast.SelectorExpr); ok && sel.Sel.Name == "absent" && rootIsRecv(sel) {
								res.Obligations++
								res.Add(core.Finding{Rule: "GRAPHINV.absent", Key: fmt.Sprintf("GRAPHINV.absent|%s|%s", name, types.ExprString(x)),
									Pos: core.Pos(x.Pos()), Func: name,
									Msg: fmt.Sprintf("%s compares a weight with the absent marker directly; every other query uses isSame, which treats NaN as equal to NaN, so with absent = NaN this query reports edges the others do not", types.ExprString(x))})
							}
						}
					}
					return true
				})

				// ---- iterreset (value receivers holding an iterator)
				if !ptrRecv {
					checkIterReset(res, info, fd, name, recv)
				}

				// ---- panicorder (pointer receivers: containers)
				if !ptrRecv {
					continue
				}
				g := cfgx.New(fd.Body, info)
				isWrite := func(n ast.Node) (bool, string) {
					found, what := false, ""
					ast.Inspect(n, func(x ast.Node) bool {
						if found {
							return false
						}
						switch s := x.(type) {
						case *ast.FuncLit:
							return false
						case *ast.AssignStmt:
							if s.Tok == token.DEFINE {
								return true
							}
							for _, l := range s.Lhs {
								if _, isIdent := l.(*ast.Ident); !isIdent && rootIsRecv(l) {
									found, what = true, types.ExprString(l)+" = …"
								}
							}
						case *ast.IncDecStmt:
							if _, isIdent := s.X.(*ast.Ident); !isIdent && rootIsRecv(s.X) {
								found, what = true, types.ExprString(s.X)
							}
						case *ast.CallExpr:
							if id, ok := s.Fun.(*ast.Ident); ok && id.Name == "delete" && len(s.Args) == 2 && rootIsRecv(s.Args[0]) {
								found, what = true, "delete("+types.ExprString(s.Args[0])+", …)"
							}
							if sel, ok := s.Fun.(*ast.SelectorExpr); ok && mutators[sel.Sel.Name] && rootIsRecv(sel.X) {
								found, what = true, types.ExprString(sel)+"(…)"
							}
						}
						return true
					})
					return found, what
				}
				type wsite struct {
					b    *cfg.Block
					idx  int
					what string
					pos  token.Pos
				}
				var writes []wsite
				type psite struct {
					b   *cfg.Block
					idx int
					n   ast.Node
				}
				var panics []psite
				for _, b := range g.Blocks {
					for i, n := range b.Nodes {
						if ok, what := isWrite(n); ok {
							writes = append(writes, wsite{b, i, what, n.Pos()})
						}
						if es, ok := n.(*ast.ExprStmt); ok {
							if call, ok := es.X.(*ast.CallExpr); ok && cfgx.IsPanic(info, call) {
								panics = append(panics, psite{b, i, n})
							}
						}
					}
				}
				if len(panics) == 0 {
					continue
				}
				res.Count("container_methods_with_panics", 1)
				reach := g.Reachable()
				for _, p := range panics {
					if !reach[p.b.Index] {
						continue
					}
					res.Obligations++
					res.Count("explicit_panics", 1)
					for _, w := range writes {
						after := false
						if w.b == p.b && w.idx < p.idx {
							after = true
						} else if g.From(w.b)[p.b.Index] {
							after = true
						}
						if after {
							arg := ""
							if call, ok := p.n.(*ast.ExprStmt).X.(*ast.CallExpr); ok && len(call.Args) == 1 {
								arg = types.ExprString(call.Args[0])
							}
							res.Add(core.Finding{Rule: "GRAPHINV.panicorder", Key: fmt.Sprintf("GRAPHINV.panicorder|%s|%s", name, arg),
								Pos: core.Pos(p.n.Pos()), Func: name,
								Msg:  fmt.Sprintf("panic(%s) is reachable after the graph was modified (%s): a rejected call must leave the graph unchanged", arg, w.what),
								Path: []string{"write at " + core.Pos(w.pos), "panic at " + core.Pos(p.n.Pos())}})
							break
						}
					}
				}
			}
		}
	}
	return res
}

// checkIterReset: the receiver is a struct value with an (embedded) iterator
// field; if the method calls Next on it, every return is preceded by Reset.
func checkIterReset(res *core.Result, info *types.Info, fd *ast.FuncDecl, name string, recv types.Object) {
	isRecvIterCall := func(call *ast.CallExpr, method string) bool {
		sel, ok := call.Fun.(*ast.SelectorExpr)
		if !ok || sel.Sel.Name != method || len(call.Args) != 0 {
			return false
		}
		// e.Next() (promoted) or e.Field.Next()
		root := sel.X
		for {
			switch x := root.(type) {
			case *ast.SelectorExpr:
				root = x.X
				continue
			case *ast.Ident:
				return core.ObjOf(info, x) == recv
			}
			return false
		}
	}
	var nexts []*ast.CallExpr
	ast.Inspect(fd.Body, func(n ast.Node) bool {
		if c, ok := n.(*ast.CallExpr); ok && isRecvIterCall(c, "Next") {
			nexts = append(nexts, c)
		}
		return true
	})
	if len(nexts) == 0 {
		return
	}
	res.Obligations++
	res.Count("receiver_iterator_consumers", 1)
	g := cfgx.New(fd.Body, info)
	hasReset := func(b *cfg.Block) bool {
		for _, n := range b.Nodes {
			found := false
			ast.Inspect(n, func(x ast.Node) bool {
				if c, ok := x.(*ast.CallExpr); ok && isRecvIterCall(c, "Reset") {
					found = true
				}
				return !found
			})
			if found {
				return true
			}
		}
		return false
	}
	// every return reachable from a Next must pass a Reset after that Next:
	// forward "may reach a return without Reset" from the Next's block
	for _, nx := range nexts {
		loc, ok := g.Where[nx]
		if !ok {
			continue
		}
		start := g.Blocks[loc.Block]
		seen := map[int32]bool{}
		var bad *cfg.Block
		var walk func(b *cfg.Block)
		walk = func(b *cfg.Block) {
			if seen[b.Index] || bad != nil {
				return
			}
			seen[b.Index] = true
			if b != start && hasReset(b) {
				return
			}
			if len(b.Succs) == 0 && b.Live {
				// a return (or fall off the end); panics do not count
				isPanic := false
				if len(b.Nodes) > 0 {
					if es, ok := b.Nodes[len(b.Nodes)-1].(*ast.ExprStmt); ok {
						if c, ok := es.X.(*ast.CallExpr); ok && cfgx.IsPanic(info, c) {
							isPanic = true
						}
					}
				}
				if !isPanic {
					bad = b
				}
				return
			}
			for _, s := range b.Succs {
				walk(s)
			}
		}
		for _, s := range start.Succs {
			walk(s)
		}
		if bad != nil {
			pos := fd.Body.Rbrace
			if len(bad.Nodes) > 0 {
				pos = bad.Nodes[len(bad.Nodes)-1].Pos()
			}
			res.Add(core.Finding{Rule: "GRAPHINV.iterreset", Key: fmt.Sprintf("GRAPHINV.iterreset|%s", name), Pos: core.Pos(pos), Func: name,
				Msg:  fmt.Sprintf("%s consumes the iterator held by its receiver (%s) and can return without resetting it: the next query on the same edge value sees an exhausted iterator", strings.TrimPrefix(name, "graph/"), types.ExprString(nx)),
				Path: []string{"Next at " + core.Pos(nx.Pos()), "return at " + core.Pos(pos)}})
			return
		}
	}
}

// RunExpose implements GRAPHINV.expose: the ordered iterators of
// graph/iterator keep the slice they are given, and graph.NodesOf/EdgesOf hand
// that very slice to the caller (NodeSlice), who may sort or reverse it
// (topo.SortStabilized does). A container type of graph/simple or graph/multi
// therefore never builds an ordered iterator over a slice it keeps in a
// receiver field: the argument of iterator.NewOrdered* is a local that was
// allocated in the method, not the field itself or a local aliasing it.
func RunExpose(conf core.Config) *core.Result {
	res := core.NewResult("GRAPHEXPOSE")
	res.Rules = append(res.Rules, "GRAPHINV.expose: no method of graph/simple or graph/multi passes a slice field of its receiver (or a local assigned from one without copying) to an iterator.NewOrdered* constructor")
	res.Configs = append(res.Configs, conf.String())
	pkgs, err := core.Load(conf, "./graph/simple", "./graph/multi")
	if err != nil {
		res.Brokenf("%v", err)
		return res
	}
	for _, pkg := range pkgs {
		info := pkg.TypesInfo
		for _, file := range pkg.Syntax {
			for _, d := range file.Decls {
				fd, ok := d.(*ast.FuncDecl)
				if !ok || fd.Body == nil || fd.Recv == nil || len(fd.Recv.List) != 1 || len(fd.Recv.List[0].Names) != 1 {
					continue
				}
				recv := info.Defs[fd.Recv.List[0].Names[0]]
				name := core.FuncName(pkg, fd)
				// fieldRooted: g.f, g.f[i:j], (and locals assigned from those)
				aliases := map[types.Object]bool{}
				var fieldRooted func(e ast.Expr) bool
				fieldRooted = func(e ast.Expr) bool {
					switch x := ast.Unparen(e).(type) {
					case *ast.SliceExpr:
						return fieldRooted(x.X)
					case *ast.SelectorExpr:
						if id, ok := ast.Unparen(x.X).(*ast.Ident); ok && core.ObjOf(info, id) == recv {
							if tv, ok := info.Types[x]; ok {
								_, isSlice := tv.Type.Underlying().(*types.Slice)
								return isSlice
							}
						}
					case *ast.Ident:
						return aliases[core.ObjOf(info, x)]
					}
					return false
				}
				for changed := true; changed; {
					changed = false
					ast.Inspect(fd.Body, func(n ast.Node) bool {
						as, ok := n.(*ast.AssignStmt)
						if !ok || len(as.Lhs) != len(as.Rhs) {
							return true
						}
						for i, l := range as.Lhs {
							if id, ok := l.(*ast.Ident); ok && fieldRooted(as.Rhs[i]) {
								if o := core.ObjOf(info, id); o != nil && !aliases[o] {
									aliases[o] = true
									changed = true
								}
							}
						}
						return true
					})
				}
				ast.Inspect(fd.Body, func(n ast.Node) bool {
					c, ok := n.(*ast.CallExpr)
					if !ok || len(c.Args) == 0 {
						return true
					}
					fn, _ := typeutil.Callee(info, c).(*types.Func)
					if fn == nil || fn.Pkg() == nil || fn.Pkg().Path() != core.ModPath+"/graph/iterator" || !strings.HasPrefix(fn.Name(), "NewOrdered") {
						return true
					}
					res.Obligations++
					res.Count("ordered_iterator_constructions", 1)
					if fieldRooted(c.Args[0]) {
						res.Add(core.Finding{Rule: "GRAPHINV.expose", Key: fmt.Sprintf("GRAPHINV.expose|%s|%s", name, fn.Name()), Pos: core.Pos(c.Pos()), Func: name,
							Msg: fmt.Sprintf("%s builds %s over %s, a slice the receiver keeps: graph.NodesOf/EdgesOf return that slice to the caller, who may reorder it (topo.SortStabilized reverses it) and so corrupt the graph's ID-indexed storage", name, fn.Name(), types.ExprString(c.Args[0]))})
					}
					return true
				})
			}
		}
	}
	return res
}

// RunRelit implements GRAPHINV.relit: a method that rebuilds a value of its
// receiver's struct type from the receiver's own fields (ReversedEdge,
// ReversedLine: `return WeightedLine{F: l.T, T: l.F, W: l.W, UID: l.UID}`)
// carries every field over. A keyed literal of the receiver's type whose
// values read receiver fields and that leaves a field out zeroes that field in
// the copy — the weight of a reversed weighted line, for instance, which an
// undirected multigraph returns for every query from the other end.
func RunRelit(conf core.Config, patterns ...string) *core.Result {
	res := core.NewResult("GRAPHRELIT")
	res.Rules = append(res.Rules, "GRAPHINV.relit: a keyed composite literal of the receiver's own struct type, built inside a method from the receiver's fields, names every field of the type")
	res.Configs = append(res.Configs, conf.String())
	pkgs, err := core.Load(conf, patterns...)
	if err != nil {
		res.Brokenf("%v", err)
		return res
	}
	for _, pkg := range pkgs {
		info := pkg.TypesInfo
		for _, file := range pkg.Syntax {
			for _, d := range file.Decls {
				fd, ok := d.(*ast.FuncDecl)
				if !ok || fd.Body == nil || fd.Recv == nil || len(fd.Recv.List) != 1 || len(fd.Recv.List[0].Names) != 1 {
					continue
				}
				recv := info.Defs[fd.Recv.List[0].Names[0]]
				if recv == nil {
					continue
				}
				rt := recv.Type()
				if p, ok := rt.(*types.Pointer); ok {
					rt = p.Elem()
				}
				st, ok := rt.Underlying().(*types.Struct)
				if !ok {
					continue
				}
				name := core.FuncName(pkg, fd)
				ast.Inspect(fd.Body, func(n ast.Node) bool {
					cl, ok := n.(*ast.CompositeLit)
					if !ok || len(cl.Elts) == 0 {
						return true
					}
					tv, ok := info.Types[cl]
					if !ok || !types.Identical(tv.Type, rt) {
						return true
					}
					named := map[string]bool{}
					fromRecv := 0
					for _, e := range cl.Elts {
						kv, ok := e.(*ast.KeyValueExpr)
						if !ok {
							return true // positional literals name every field by construction
						}
						if k, ok := kv.Key.(*ast.Ident); ok {
							named[k.Name] = true
						}
						ast.Inspect(kv.Value, func(y ast.Node) bool {
							if sel, ok := y.(*ast.SelectorExpr); ok {
								if id, ok := ast.Unparen(sel.X).(*ast.Ident); ok && core.ObjOf(info, id) == recv {
									fromRecv++
								}
							}
							return true
						})
					}
					if fromRecv < 2 {
						return true
					}
					res.Obligations++
					res.Count("receiver_rebuilding_literals", 1)
					var missing []string
					for i := 0; i < st.NumFields(); i++ {
						if f := st.Field(i); !named[f.Name()] {
							missing = append(missing, f.Name())
						}
					}
					if len(missing) > 0 {
						res.Add(core.Finding{Rule: "GRAPHINV.relit", Key: fmt.Sprintf("GRAPHINV.relit|%s|%s", name, strings.Join(missing, ",")), Pos: core.Pos(cl.Pos()), Func: name,
							Msg: fmt.Sprintf("%s rebuilds a %s from the receiver's fields but leaves out %s: the copy has the zero value there", name, types.TypeString(rt, types.RelativeTo(pkg.Types)), strings.Join(missing, ", "))})
					}
					return true
				})
			}
		}
	}
	return res
}

// RunMapInit implements GRAPHINV.mapinit: the adjacency structures are maps
// of maps; a statement that installs a fresh inner map, `g.R[a] = map…{…}`,
// throws away every entry the old inner map held, so it is executed only
// where g.R[a] is known to be absent: under `g.R[a] == nil`, in the not-found
// arm of `if m, ok := g.R[a]; ok/!ok`, or in a method that has just checked
// that the key is new (AddNode panics on a collision first) or deletes the key
// (RemoveNode re-creating an empty row). Reported: such an assignment whose
// controlling conditions test something else (`g.R[a][b] == nil` is true for
// a missing b as well as for a missing a).
func RunMapInit(conf core.Config, patterns ...string) *core.Result {
	res := core.NewResult("GRAPHMAPINIT")
	res.Rules = append(res.Rules, "GRAPHINV.mapinit: an assignment of a fresh map to an element of a map-of-maps field of the receiver is controlled by a test that this very element is nil or absent")
	res.Configs = append(res.Configs, conf.String())
	pkgs, err := core.Load(conf, patterns...)
	if err != nil {
		res.Brokenf("%v", err)
		return res
	}
	for _, pkg := range pkgs {
		info := pkg.TypesInfo
		for _, file := range pkg.Syntax {
			for _, d := range file.Decls {
				fd, ok := d.(*ast.FuncDecl)
				if !ok || fd.Body == nil || fd.Recv == nil || len(fd.Recv.List) != 1 || len(fd.Recv.List[0].Names) != 1 {
					continue
				}
				recv := info.Defs[fd.Recv.List[0].Names[0]]
				name := core.FuncName(pkg, fd)
				par := cfgx.Parents(fd.Body)
				// locals assigned once (`fm := g.from[fid]`) stand for their definition
				defs := map[types.Object]ast.Expr{}
				ndef := map[types.Object]int{}
				ast.Inspect(fd.Body, func(n ast.Node) bool {
					if a, ok := n.(*ast.AssignStmt); ok && len(a.Lhs) == len(a.Rhs) {
						for i, l := range a.Lhs {
							if id, ok := l.(*ast.Ident); ok {
								if o := core.ObjOf(info, id); o != nil {
									ndef[o]++
									defs[o] = a.Rhs[i]
								}
							}
						}
					}
					return true
				})
				text := func(e ast.Expr) string {
					e = ast.Unparen(e)
					if id, ok := e.(*ast.Ident); ok {
						if o := core.ObjOf(info, id); o != nil && ndef[o] == 1 {
							return types.ExprString(ast.Unparen(defs[o]))
						}
					}
					return types.ExprString(e)
				}
				ast.Inspect(fd.Body, func(n ast.Node) bool {
					as, ok := n.(*ast.AssignStmt)
					if !ok || as.Tok != token.ASSIGN || len(as.Lhs) != 1 || len(as.Rhs) != 1 {
						return true
					}
					ix, ok := ast.Unparen(as.Lhs[0]).(*ast.IndexExpr)
					if !ok {
						return true
					}
					sel, ok := ast.Unparen(ix.X).(*ast.SelectorExpr)
					if !ok {
						return true
					}
					if id, ok := ast.Unparen(sel.X).(*ast.Ident); !ok || core.ObjOf(info, id) != recv {
						return true
					}
					// the element type must itself be a map, and the value a fresh map
					tv, ok := info.Types[as.Lhs[0]]
					if !ok {
						return true
					}
					if _, isMap := tv.Type.Underlying().(*types.Map); !isMap {
						return true
					}
					fresh := false
					switch r := ast.Unparen(as.Rhs[0]).(type) {
					case *ast.CompositeLit:
						fresh = true
					case *ast.CallExpr:
						if f, ok := r.Fun.(*ast.Ident); ok && f.Name == "make" {
							fresh = true
						}
					}
					if !fresh {
						return true
					}
					res.Obligations++
					res.Count("inner_map_installations", 1)
					elem := types.ExprString(ix)
					okGuard := false
					// (a) enclosing conditions
					var child ast.Node = as
					for p := par[as]; p != nil && !okGuard; child, p = p, par[p] {
						switch x := p.(type) {
						case *ast.IfStmt:
							inThen := child == ast.Node(x.Body)
							if be, ok := ast.Unparen(x.Cond).(*ast.BinaryExpr); ok && be.Op == token.EQL && inThen {
								if text(be.X) == elem && types.ExprString(be.Y) == "nil" {
									okGuard = true
								}
							}
							if init, ok := x.Init.(*ast.AssignStmt); ok && len(init.Lhs) == 2 && len(init.Rhs) == 1 && types.ExprString(ast.Unparen(init.Rhs[0])) == elem {
								okName := types.ExprString(init.Lhs[1])
								c := ast.Unparen(x.Cond)
								if u, isNot := c.(*ast.UnaryExpr); isNot && u.Op == token.NOT && types.ExprString(ast.Unparen(u.X)) == okName && inThen {
									okGuard = true
								}
								if types.ExprString(c) == okName && !inThen {
									okGuard = true
								}
							}
						case *ast.CaseClause:
							for _, e := range x.List {
								if be, ok := ast.Unparen(e).(*ast.BinaryExpr); ok && be.Op == token.EQL && text(be.X) == elem && types.ExprString(be.Y) == "nil" {
									okGuard = true
								}
							}
						}
					}
					// (b) the method established that the key is new, or removes it
					if !okGuard {
						key := types.ExprString(ix.Index)
						ast.Inspect(fd.Body, func(y ast.Node) bool {
							switch x := y.(type) {
							case *ast.IfStmt:
								// if _, exists := g.nodes[key]; exists { panic }
								if init, ok := x.Init.(*ast.AssignStmt); ok && len(init.Rhs) == 1 {
									if rix, ok := ast.Unparen(init.Rhs[0]).(*ast.IndexExpr); ok && types.ExprString(rix.Index) == key && x.Pos() < as.Pos() {
										for _, st := range x.Body.List {
											if es, ok := st.(*ast.ExprStmt); ok {
												if c, ok := es.X.(*ast.CallExpr); ok && cfgx.IsPanic(info, c) {
													okGuard = true
												}
											}
										}
									}
								}
							case *ast.CallExpr:
								if f, ok := x.Fun.(*ast.Ident); ok && f.Name == "delete" && len(x.Args) == 2 && types.ExprString(x.Args[1]) == key {
									okGuard = true
								}
							}
							return !okGuard
						})
					}
					if !okGuard {
						res.Add(core.Finding{Rule: "GRAPHINV.mapinit", Key: fmt.Sprintf("GRAPHINV.mapinit|%s|%s", name, elem), Pos: core.Pos(as.Pos()), Func: name,
							Msg: fmt.Sprintf("%s is given a fresh map without a test that it is nil or absent: when it already holds entries (other neighbours of the node) they are all dropped", elem)})
					}
					return true
				})
			}
		}
	}
	return res
}
