package graphinv

import (
	"fmt"
	"go/ast"
	"go/constant"
	"go/token"
	"go/types"
	"strings"

	"gverif/core"
)

// RunIterFamily implements ITER.remaining: the slice-backed iterators of
// graph/iterator (struct { idx int; <one slice field> }) keep in idx the
// position of the current element (-1 before the first Next, len after the
// last), so what remains is s[idx+1:]. Decided on linear forms over idx and
// L = len(s), not on spelling:
//   - every value returned by Len is L-idx-1, or the constant 0 under a
//     condition idx >= L;
//   - every slice returned by a *Slice method is s[a:] with a = idx+1 (a may
//     be a once-assigned local), or nil under idx >= L.
func RunIterFamily(conf core.Config) *core.Result {
	res := core.NewResult("ITERFAMILY")
	res.Rules = append(res.Rules, "ITER.remaining: in every slice-backed iterator of graph/iterator, Len returns len(s)-idx-1 (or 0 when idx >= len(s)) and the Slice method returns s[idx+1:] (or nil when idx >= len(s)), as linear forms over idx and len(s)")
	res.Configs = append(res.Configs, conf.String())
	pkgs, err := core.Load(conf, "./graph/iterator")
	if err != nil {
		res.Brokenf("%v", err)
		return res
	}
	for _, pkg := range pkgs {
		info := pkg.TypesInfo
		field := map[string]string{}
		for _, name := range pkg.Types.Scope().Names() {
			tn, ok := pkg.Types.Scope().Lookup(name).(*types.TypeName)
			if !ok {
				continue
			}
			st, ok := tn.Type().Underlying().(*types.Struct)
			if !ok || st.NumFields() != 2 {
				continue
			}
			var hasIdx bool
			var sl string
			for i := 0; i < st.NumFields(); i++ {
				f := st.Field(i)
				if f.Name() == "idx" {
					hasIdx = true
				} else if _, ok := f.Type().Underlying().(*types.Slice); ok {
					sl = f.Name()
				}
			}
			if hasIdx && sl != "" {
				field[name] = sl
			}
		}
		res.Count("slice_backed_iterators", len(field))
		for _, f := range pkg.Syntax {
			for _, d := range f.Decls {
				fd, ok := d.(*ast.FuncDecl)
				if !ok || fd.Body == nil || fd.Recv == nil || len(fd.Recv.List) != 1 || len(fd.Recv.List[0].Names) != 1 {
					continue
				}
				var tname string
				if se, ok := fd.Recv.List[0].Type.(*ast.StarExpr); ok {
					if id, ok := se.X.(*ast.Ident); ok {
						tname = id.Name
					}
				}
				sl, ok := field[tname]
				if !ok {
					continue
				}
				isLen := fd.Name.Name == "Len"
				isSlice := strings.HasSuffix(fd.Name.Name, "Slice")
				if !isLen && !isSlice {
					continue
				}
				recv := info.Defs[fd.Recv.List[0].Names[0]]
				name := "graph/iterator." + tname + "." + fd.Name.Name
				isRecvField := func(e ast.Expr, fld string) bool {
					sel, ok := ast.Unparen(e).(*ast.SelectorExpr)
					if !ok || sel.Sel.Name != fld {
						return false
					}
					id, ok := ast.Unparen(sel.X).(*ast.Ident)
					return ok && core.ObjOf(info, id) == recv
				}
				// once-assigned locals
				defs := map[types.Object]ast.Expr{}
				count := map[types.Object]int{}
				ast.Inspect(fd.Body, func(n ast.Node) bool {
					switch s := n.(type) {
					case *ast.AssignStmt:
						for i, l := range s.Lhs {
							if id, ok := l.(*ast.Ident); ok {
								if o := core.ObjOf(info, id); o != nil {
									count[o]++
									if len(s.Lhs) == len(s.Rhs) && s.Tok != token.ADD_ASSIGN && s.Tok != token.SUB_ASSIGN {
										defs[o] = s.Rhs[i]
									} else {
										count[o]++
									}
								}
							}
						}
					case *ast.IncDecStmt:
						if id, ok := s.X.(*ast.Ident); ok {
							count[core.ObjOf(info, id)] += 2
						}
					}
					return true
				})
				type lin struct {
					idx, l, c int64
				}
				var eval func(e ast.Expr, depth int) (lin, bool)
				eval = func(e ast.Expr, depth int) (lin, bool) {
					e = ast.Unparen(e)
					if tv, ok := info.Types[e]; ok && tv.Value != nil && tv.Value.Kind() == constant.Int {
						if v, ok := constant.Int64Val(tv.Value); ok {
							return lin{c: v}, true
						}
					}
					switch x := e.(type) {
					case *ast.SelectorExpr:
						if isRecvField(x, "idx") {
							return lin{idx: 1}, true
						}
					case *ast.Ident:
						o := core.ObjOf(info, x)
						if d, ok := defs[o]; ok && count[o] == 1 && depth < 4 {
							return eval(d, depth+1)
						}
					case *ast.UnaryExpr:
						if x.Op == token.SUB {
							if v, ok := eval(x.X, depth); ok {
								return lin{-v.idx, -v.l, -v.c}, true
							}
						}
					case *ast.BinaryExpr:
						a, ok1 := eval(x.X, depth)
						b, ok2 := eval(x.Y, depth)
						if ok1 && ok2 {
							switch x.Op {
							case token.ADD:
								return lin{a.idx + b.idx, a.l + b.l, a.c + b.c}, true
							case token.SUB:
								return lin{a.idx - b.idx, a.l - b.l, a.c - b.c}, true
							}
						}
					case *ast.CallExpr:
						if id, ok := x.Fun.(*ast.Ident); ok && id.Name == "len" && len(x.Args) == 1 {
							arg := ast.Unparen(x.Args[0])
							if isRecvField(arg, sl) {
								return lin{l: 1}, true
							}
							if se, ok := arg.(*ast.SliceExpr); ok && isRecvField(se.X, sl) && se.Max == nil {
								lo, hi := lin{}, lin{l: 1}
								ok1, ok2 := true, true
								if se.Low != nil {
									lo, ok1 = eval(se.Low, depth)
								}
								if se.High != nil {
									hi, ok2 = eval(se.High, depth)
								}
								if ok1 && ok2 {
									return lin{hi.idx - lo.idx, hi.l - lo.l, hi.c - lo.c}, true
								}
							}
						}
					}
					return lin{}, false
				}
				// is the return statement inside an if whose condition is idx >= L ?
				parents := map[ast.Node]ast.Node{}
				var stack []ast.Node
				ast.Inspect(fd.Body, func(n ast.Node) bool {
					if n == nil {
						stack = stack[:len(stack)-1]
						return true
					}
					if len(stack) > 0 {
						parents[n] = stack[len(stack)-1]
					}
					stack = append(stack, n)
					return true
				})
				exhausted := func(n ast.Node) bool {
					for p := parents[n]; p != nil; p = parents[p] {
						is, ok := p.(*ast.IfStmt)
						if !ok {
							continue
						}
						// n must be in the then-branch
						if !(is.Body.Pos() <= n.Pos() && n.End() <= is.Body.End()) {
							continue
						}
						be, ok := ast.Unparen(is.Cond).(*ast.BinaryExpr)
						if !ok {
							continue
						}
						a, ok1 := eval(be.X, 0)
						b, ok2 := eval(be.Y, 0)
						if !ok1 || !ok2 {
							continue
						}
						d := lin{a.idx - b.idx, a.l - b.l, a.c - b.c}
						switch be.Op {
						case token.GEQ: // idx - L >= 0
							if d == (lin{1, -1, 0}) {
								return true
							}
						case token.LEQ: // L - idx <= 0
							if d == (lin{-1, 1, 0}) {
								return true
							}
						case token.EQL: // idx == L (idx never exceeds L)
							if d == (lin{1, -1, 0}) || d == (lin{-1, 1, 0}) {
								return true
							}
						}
					}
					return false
				}
				ast.Inspect(fd.Body, func(n ast.Node) bool {
					if _, ok := n.(*ast.FuncLit); ok {
						return false
					}
					rs, ok := n.(*ast.ReturnStmt)
					if !ok || len(rs.Results) != 1 {
						return true
					}
					res.Obligations++
					res.Count("iterator_results_related_to_idx", 1)
					r := ast.Unparen(rs.Results[0])
					if isLen {
						v, ok := eval(r, 0)
						switch {
						case ok && v == (lin{-1, 1, -1}):
						case ok && v == (lin{}) && exhausted(rs):
						default:
							res.Add(core.Finding{Rule: "ITER.remaining", Key: fmt.Sprintf("ITER.remaining|%s|%s", name, types.ExprString(r)), Pos: core.Pos(rs.Pos()), Func: name,
								Msg: fmt.Sprintf("%s returns %s, which is not len(s)-idx-1 (nor 0 under idx >= len(s)): idx is the position of the current element, so after k calls of Next exactly len(s)-k elements remain — the iterator reports a remaining length that is off", name, types.ExprString(r))})
						}
						return true
					}
					if id, ok := r.(*ast.Ident); ok && id.Name == "nil" && exhausted(rs) {
						return true
					}
					if se, ok := r.(*ast.SliceExpr); ok && isRecvField(se.X, sl) && se.High == nil && se.Low != nil {
						if v, ok := eval(se.Low, 0); ok && v == (lin{1, 0, 1}) {
							return true
						}
					}
					res.Add(core.Finding{Rule: "ITER.remaining", Key: fmt.Sprintf("ITER.remaining|%s|%s", name, types.ExprString(r)), Pos: core.Pos(rs.Pos()), Func: name,
						Msg: fmt.Sprintf("%s returns %s, which is not s[idx+1:] (nor nil under idx >= len(s)): the element at idx was already delivered by Next, so the remaining elements start at idx+1", name, types.ExprString(r))})
					return true
				})
			}
		}
	}
	return res
}
