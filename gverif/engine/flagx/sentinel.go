package flagx

import (
	"fmt"
	"go/ast"
	"go/constant"
	"go/token"
	"go/types"

	"gverif/core"
)

// RunSentinel implements SENTINEL.fill, a cross-check of beliefs between a
// caller and its callee: where a routine of the package compares the
// elements of an integer slice parameter with a negative constant
// (`jpvt[j] == -1`: "this column is free"), a caller in the same package
// that fills the argument uniformly with a constant right before the call
// uses that same constant. A different constant (0, the marker of the
// one-based reference) selects the other arm for every element, so the call
// cannot do what it is made for (with every column "fixed" a pivoted QR does
// not pivot and is not rank-revealing).
func RunSentinel(cfgc core.Config, scope core.Scope) *core.Result {
	res := core.NewResult("SENTINEL")
	res.Rules = append(res.Rules, "SENTINEL.fill: a slice argument filled uniformly with a constant before a call whose callee compares the elements of that parameter with a negative sentinel constant is filled with that sentinel")
	res.Configs = append(res.Configs, cfgc.String())
	pkgs, err := core.Load(cfgc, scope.Patterns...)
	if err != nil {
		res.Brokenf("%v", err)
		return res
	}
	for _, pkg := range pkgs {
		info := pkg.TypesInfo
		// callee beliefs: func -> param index -> sentinel
		type key struct {
			fn  *types.Func
			idx int
		}
		sentinel := map[key]int64{}
		for _, f := range pkg.Syntax {
			for _, d := range f.Decls {
				fd, ok := d.(*ast.FuncDecl)
				if !ok || fd.Body == nil {
					continue
				}
				fn, _ := info.Defs[fd.Name].(*types.Func)
				if fn == nil {
					continue
				}
				pidx := map[types.Object]int{}
				i := 0
				for _, fl := range fd.Type.Params.List {
					for _, n := range fl.Names {
						pidx[info.Defs[n]] = i
						i++
					}
					if len(fl.Names) == 0 {
						i++
					}
				}
				ast.Inspect(fd.Body, func(n ast.Node) bool {
					be, ok := n.(*ast.BinaryExpr)
					if !ok || (be.Op != token.EQL && be.Op != token.NEQ) {
						return true
					}
					ix, ok := ast.Unparen(be.X).(*ast.IndexExpr)
					if !ok {
						return true
					}
					id, ok := ast.Unparen(ix.X).(*ast.Ident)
					if !ok {
						return true
					}
					pi, ok := pidx[core.ObjOf(info, id)]
					if !ok {
						return true
					}
					tv, ok := info.Types[be.Y]
					if !ok || tv.Value == nil || tv.Value.Kind() != constant.Int {
						return true
					}
					if v, ok := constant.Int64Val(tv.Value); ok && v < 0 {
						sentinel[key{fn, pi}] = v
					}
					return true
				})
			}
		}
		res.Count("parameters_compared_with_a_negative_sentinel", len(sentinel))
		for _, f := range pkg.Syntax {
			if !scope.InFile(f.Pos()) {
				continue
			}
			for _, d := range f.Decls {
				fd, ok := d.(*ast.FuncDecl)
				if !ok || fd.Body == nil {
					continue
				}
				name := core.FuncName(pkg, fd)
				// uniform fills in statement lists: for i := range X[...] { X[i] = c } followed (anywhere later in the same list) by a call taking X
				ast.Inspect(fd.Body, func(n ast.Node) bool {
					blk, ok := n.(*ast.BlockStmt)
					if !ok {
						return true
					}
					for si, st := range blk.List {
						rs, ok := st.(*ast.RangeStmt)
						if !ok || len(rs.Body.List) != 1 {
							continue
						}
						as, ok := rs.Body.List[0].(*ast.AssignStmt)
						if !ok || as.Tok != token.ASSIGN || len(as.Lhs) != 1 {
							continue
						}
						ix, ok := as.Lhs[0].(*ast.IndexExpr)
						if !ok {
							continue
						}
						base, ok := ast.Unparen(ix.X).(*ast.Ident)
						if !ok {
							continue
						}
						tv, ok := info.Types[as.Rhs[0]]
						if !ok || tv.Value == nil || tv.Value.Kind() != constant.Int {
							continue
						}
						fill, _ := constant.Int64Val(tv.Value)
						baseObj := core.ObjOf(info, base)
						// the next statement that mentions base
						for _, later := range blk.List[si+1:] {
							mentions := false
							var call *ast.CallExpr
							argIdx := -1
							ast.Inspect(later, func(m ast.Node) bool {
								if id, ok := m.(*ast.Ident); ok && core.ObjOf(info, id) == baseObj {
									mentions = true
								}
								if c, ok := m.(*ast.CallExpr); ok && call == nil {
									for ai, a := range c.Args {
										e := ast.Unparen(a)
										if se, ok := e.(*ast.SliceExpr); ok {
											e = ast.Unparen(se.X)
										}
										if id, ok := e.(*ast.Ident); ok && core.ObjOf(info, id) == baseObj {
											call, argIdx = c, ai
										}
									}
								}
								return true
							})
							if !mentions {
								continue
							}
							if call == nil {
								break
							}
							var callee *types.Func
							switch fun := call.Fun.(type) {
							case *ast.SelectorExpr:
								callee, _ = info.Uses[fun.Sel].(*types.Func)
							case *ast.Ident:
								callee, _ = info.Uses[fun].(*types.Func)
							}
							if callee == nil {
								break
							}
							want, ok := sentinel[key{callee, argIdx}]
							if !ok {
								break
							}
							res.Obligations++
							res.Count("uniform_fills_handed_to_a_sentinel_parameter", 1)
							if fill != want {
								res.Add(core.Finding{Rule: "SENTINEL.fill", Key: fmt.Sprintf("SENTINEL.fill|%s|%s->%s", name, base.Name, callee.Name()), Pos: core.Pos(as.Pos()), Func: name,
									Msg: fmt.Sprintf("%s fills %s with %d before handing it to %s, which marks the special element with %d: every element takes the other arm of the callee's test", name, base.Name, fill, callee.Name(), want)})
							}
							break
						}
					}
					return true
				})
			}
		}
	}
	return res
}
