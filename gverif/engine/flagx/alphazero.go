package flagx

import (
	"fmt"
	"go/ast"
	"go/token"
	"go/types"

	"gverif/cfgx"
	"gverif/core"
)

// RunAlphaZero implements ALPHA.noread: "when alpha is zero, A and B are not
// referenced". Every BLAS routine of the form C = alpha*op(A)*op(B) + beta*C
// (or y = alpha*A*x + beta*y, A += alpha*x*yᵀ, …) returns, or only scales the
// result, once alpha == 0 is known; it must not go on to form the product,
// because 0*NaN and 0*Inf in an operand that the operation does not reference
// would reach the result. The rule: in a routine with parameters alpha and
// beta, every use of alpha other than a comparison with a constant — an
// arithmetic expression, an argument of a kernel or worker call — is
// unreachable in the control-flow graph restricted to the edges consistent
// with alpha == 0 (three-valued conditions, path correlation and booleans
// assigned once as in BETA.scaleguard).
func RunAlphaZero(cfgc core.Config, scope core.Scope) *core.Result {
	res := core.NewResult("ALPHAZERO")
	res.Rules = append(res.Rules, "ALPHA.noread: in a routine with alpha and beta parameters no use of alpha other than a comparison with a constant is reachable in the control-flow graph restricted to the edges consistent with alpha == 0")
	res.Configs = append(res.Configs, cfgc.String())
	pkgs, err := core.Load(cfgc, scope.Patterns...)
	if err != nil {
		res.Brokenf("%v", err)
		return res
	}
	for _, pkg := range pkgs {
		info := pkg.TypesInfo
		for _, file := range pkg.Syntax {
			if !scope.InFile(file.Pos()) {
				continue
			}
			for _, d := range file.Decls {
				fd, ok := d.(*ast.FuncDecl)
				if !ok || fd.Body == nil {
					continue
				}
				var alpha, beta types.Object
				for _, fl := range fd.Type.Params.List {
					for _, n := range fl.Names {
						switch n.Name {
						case "alpha":
							alpha = info.Defs[n]
						case "beta":
							beta = info.Defs[n]
						}
					}
				}
				if alpha == nil || beta == nil {
					continue
				}
				name := core.FuncName(pkg, fd)
				isAlpha := func(e ast.Expr) bool {
					id, ok := ast.Unparen(e).(*ast.Ident)
					return ok && core.ObjOf(info, id) == alpha
				}
				assume := func(c ast.Expr) (bool, bool) {
					be, ok := c.(*ast.BinaryExpr)
					if !ok || (be.Op != token.EQL && be.Op != token.NEQ) || !isAlpha(be.X) {
						return false, false
					}
					tv, ok := info.Types[be.Y]
					if !ok || tv.Value == nil {
						return false, false
					}
					t := isZeroConst(tv.Value)
					if be.Op == token.NEQ {
						t = !t
					}
					return t, true
				}
				// uses of alpha that are not comparisons with constants
				par := cfgx.Parents(fd.Body)
				var sites []*ast.Ident
				ast.Inspect(fd.Body, func(n ast.Node) bool {
					if _, ok := n.(*ast.FuncLit); ok {
						return false
					}
					id, ok := n.(*ast.Ident)
					if !ok || info.Uses[id] != alpha {
						return true
					}
					p := par[id]
					for {
						if pe, ok := p.(*ast.ParenExpr); ok {
							p = par[pe]
							continue
						}
						break
					}
					if be, ok := p.(*ast.BinaryExpr); ok {
						switch be.Op {
						case token.EQL, token.NEQ:
							if tv, ok := info.Types[be.Y]; ok && tv.Value != nil {
								return true
							}
						}
					}
					sites = append(sites, id)
					return true
				})
				if len(sites) == 0 {
					continue
				}
				res.Count("routines_with_alpha_and_beta", 1)
				g := cfgx.New(fd.Body, info)
				reach := g.ReachSome(cfgx.WithBoolDefs(info, fd.Body, assume), cfgx.StableLeaf(info, fd.Body))
				reported := false
				for _, s := range sites {
					res.Obligations++
					res.Count("alpha_uses", 1)
					loc, ok := g.Where[s]
					if !ok || !reach[loc.Block] || reported {
						continue
					}
					reported = true
					res.Add(core.Finding{Rule: "ALPHA.noread", Key: fmt.Sprintf("ALPHA.noread|%s", name), Pos: core.Pos(s.Pos()), Func: name,
						Msg: fmt.Sprintf("%s goes on to use alpha here on a path that is feasible with alpha == 0: the product with the operands is formed although they are not referenced when alpha is zero, so NaN or Inf in them reaches the result as 0*NaN", name)})
				}
			}
		}
	}
	return res
}
