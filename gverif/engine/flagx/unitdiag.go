package flagx

import (
	"fmt"
	"go/ast"
	"go/constant"
	"go/token"
	"go/types"

	"gverif/cfgx"
	"gverif/core"
)

// RunUnitDiag implements FLAG.unitdiag: with diag == blas.Unit the diagonal
// of a triangular operand is "assumed to be one and not referenced". A routine
// with a parameter of type blas.Diag therefore reads a diagonal element
// (`a[i*lda+i]`: the same row and column expression) only on paths where
// diag == blas.NonUnit has been established.
//
// The control-flow graph is pruned to the edges consistent with
// diag == blas.Unit: comparisons of the parameter with the two constants,
// `switch diag` cases, and local booleans defined once from such a comparison
// (`nonUnit := diag == blas.NonUnit`) and their negation. A diagonal read that
// stays reachable uses a stored value the caller was told is never looked at
// (callers keep zeros, NaN or the other factor's diagonal there, as Dgetrf's
// packed L\U does).
func RunUnitDiag(cfgc core.Config, scope core.Scope) *core.Result {
	res := core.NewResult("UNITDIAG")
	res.Rules = append(res.Rules, "FLAG.unitdiag: in a routine with a blas.Diag parameter, a read of a diagonal element X[e*ld+e] is unreachable in the control-flow graph restricted to the edges consistent with diag == blas.Unit")
	res.Configs = append(res.Configs, cfgc.String())
	pkgs, err := core.Load(cfgc, scope.Patterns...)
	if err != nil {
		res.Brokenf("%v", err)
		return res
	}
	for _, pkg := range pkgs {
		info := pkg.TypesInfo
		for _, file := range pkg.Syntax {
			if !scope.InFile(file.Pos()) {
				continue
			}
			for _, d := range file.Decls {
				fd, ok := d.(*ast.FuncDecl)
				if !ok || fd.Body == nil {
					continue
				}
				var diag types.Object
				for _, fl := range fd.Type.Params.List {
					for _, n := range fl.Names {
						if o := info.Defs[n]; o != nil && isBlasNamed(o.Type(), "Diag") {
							diag = o
						}
					}
				}
				if diag == nil {
					continue
				}
				name := core.FuncName(pkg, fd)
				res.Count("routines_with_diag_parameter", 1)
				// the values of blas.Unit and blas.NonUnit, from the package
				var unitVal, nonUnitVal int64 = -1, -1
				if n, ok := diag.Type().(*types.Named); ok {
					sc := n.Obj().Pkg().Scope()
					for nm, dst := range map[string]*int64{"Unit": &unitVal, "NonUnit": &nonUnitVal} {
						if c, ok := sc.Lookup(nm).(*types.Const); ok {
							if v, ok := constant.Int64Val(c.Val()); ok {
								*dst = v
							}
						}
					}
				}
				if unitVal < 0 || nonUnitVal < 0 {
					res.Brokenf("FLAG.unitdiag: blas.Unit/blas.NonUnit not found")
					continue
				}
				// truth of `diag <op> const` when diag == Unit
				cmpTruth := func(e ast.Expr) (bool, bool) {
					be, ok := ast.Unparen(e).(*ast.BinaryExpr)
					if !ok || (be.Op != token.EQL && be.Op != token.NEQ) {
						return false, false
					}
					x, y := ast.Unparen(be.X), ast.Unparen(be.Y)
					if id, ok := y.(*ast.Ident); ok && core.ObjOf(info, id) == diag {
						x, y = y, x
					}
					id, ok := x.(*ast.Ident)
					if !ok || core.ObjOf(info, id) != diag {
						return false, false
					}
					tv, ok := info.Types[y]
					if !ok || tv.Value == nil {
						return false, false
					}
					v, ok := constant.Int64Val(tv.Value)
					if !ok {
						return false, false
					}
					isUnit := v == unitVal
					if v != nonUnitVal && v != unitVal {
						return false, false
					}
					if be.Op == token.NEQ {
						return !isUnit, true
					}
					return isUnit, true
				}
				// local booleans defined exactly once from such a comparison
				boolTruth := map[types.Object]bool{}
				assigns := map[types.Object]int{}
				ast.Inspect(fd.Body, func(n ast.Node) bool {
					as, ok := n.(*ast.AssignStmt)
					if !ok {
						return true
					}
					for i, l := range as.Lhs {
						id, ok := l.(*ast.Ident)
						if !ok {
							continue
						}
						o := core.ObjOf(info, id)
						if o == nil {
							continue
						}
						assigns[o]++
						if len(as.Lhs) == len(as.Rhs) {
							if t, ok := cmpTruth(as.Rhs[i]); ok {
								boolTruth[o] = t
							}
						}
					}
					return true
				})
				for o := range boolTruth {
					if assigns[o] != 1 {
						delete(boolTruth, o)
					}
				}
				var truth func(e ast.Expr) (bool, bool)
				truth = func(e ast.Expr) (bool, bool) {
					e = ast.Unparen(e)
					if t, ok := cmpTruth(e); ok {
						return t, true
					}
					switch x := e.(type) {
					case *ast.Ident:
						if t, ok := boolTruth[core.ObjOf(info, x)]; ok {
							return t, true
						}
					case *ast.UnaryExpr:
						if x.Op == token.NOT {
							if t, ok := truth(x.X); ok {
								return !t, true
							}
						}
					}
					return false, false
				}
				caseOfDiag := map[ast.Expr]bool{}
				ast.Inspect(fd.Body, func(n ast.Node) bool {
					if sw, ok := n.(*ast.SwitchStmt); ok && sw.Tag != nil {
						if id, ok := ast.Unparen(sw.Tag).(*ast.Ident); ok && core.ObjOf(info, id) == diag {
							for _, c := range sw.Body.List {
								for _, e := range c.(*ast.CaseClause).List {
									caseOfDiag[e] = true
								}
							}
						}
					}
					return true
				})
				// diagonal reads; `aii := a[i*lda+i]` loaded ahead of the test is
				// judged at the uses of aii
				var sites []ast.Expr
				written := map[*ast.IndexExpr]bool{}
				loaded := map[types.Object]*ast.IndexExpr{}
				viaLocal := map[*ast.IndexExpr]bool{}
				ast.Inspect(fd.Body, func(n ast.Node) bool {
					as, ok := n.(*ast.AssignStmt)
					if !ok || as.Tok != token.DEFINE || len(as.Lhs) != 1 || len(as.Rhs) != 1 {
						return true
					}
					ix, ok := ast.Unparen(as.Rhs[0]).(*ast.IndexExpr)
					id, ok2 := as.Lhs[0].(*ast.Ident)
					if ok && ok2 && isDiagonalIndex(info, ix) {
						if o := info.Defs[id]; o != nil {
							loaded[o] = ix
							viaLocal[ix] = true
						}
					}
					return true
				})
				ast.Inspect(fd.Body, func(n ast.Node) bool {
					switch x := n.(type) {
					case *ast.FuncLit:
						return false
					case *ast.AssignStmt:
						if x.Tok == token.ASSIGN || x.Tok == token.DEFINE {
							for _, l := range x.Lhs {
								if ix, ok := ast.Unparen(l).(*ast.IndexExpr); ok {
									written[ix] = true
								}
							}
						}
					case *ast.IndexExpr:
						if !written[x] && !viaLocal[x] && isDiagonalIndex(info, x) {
							sites = append(sites, x)
						}
					case *ast.Ident:
						if o := info.Uses[x]; o != nil && loaded[o] != nil {
							sites = append(sites, x)
						}
					}
					return true
				})
				if len(sites) == 0 {
					continue
				}
				g := cfgx.New(fd.Body, info)
				assumeUnit := func(c ast.Expr) (bool, bool) {
					if caseOfDiag[c] {
						if tv, ok := info.Types[c]; ok && tv.Value != nil {
							if v, ok := constant.Int64Val(tv.Value); ok {
								return v == unitVal, true
							}
						}
						return false, false
					}
					return truth(c)
				}
				reach := g.ReachSome(assumeUnit, cfgx.StableLeaf(info, fd.Body))
				for _, s := range sites {
					res.Obligations++
					res.Count("diagonal_reads", 1)
					loc, ok := g.Where[s]
					if !ok {
						res.Brokenf("FLAG.unitdiag: %s: %s not in the control-flow graph", name, core.Pos(s.Pos()))
						continue
					}
					if reach[loc.Block] {
						res.Add(core.Finding{Rule: "FLAG.unitdiag", Key: fmt.Sprintf("FLAG.unitdiag|%s|%s", name, types.ExprString(s)), Pos: core.Pos(s.Pos()), Func: name,
							Msg: fmt.Sprintf("%s reads the diagonal element %s on a path that is feasible with %s == blas.Unit: the stored diagonal of a unit triangular matrix is documented as not referenced", name, types.ExprString(s), diag.Name())})
					}
				}
			}
		}
	}
	return res
}

func isBlasNamed(t types.Type, name string) bool {
	n, ok := t.(*types.Named)
	if !ok || n.Obj().Pkg() == nil {
		return false
	}
	return n.Obj().Name() == name && n.Obj().Pkg().Path() == core.ModPath+"/blas"
}

// isDiagonalIndex recognises X[e*ld + e] and X[ld*e + e] with the same e.
func isDiagonalIndex(info *types.Info, ix *ast.IndexExpr) bool {
	tv, ok := info.Types[ix.X]
	if !ok {
		return false
	}
	if _, isSlice := tv.Type.Underlying().(*types.Slice); !isSlice {
		return false
	}
	add, ok := ast.Unparen(ix.Index).(*ast.BinaryExpr)
	if !ok || add.Op != token.ADD {
		return false
	}
	mul, ok := ast.Unparen(add.X).(*ast.BinaryExpr)
	other := add.Y
	if !ok || mul.Op != token.MUL {
		mul, ok = ast.Unparen(add.Y).(*ast.BinaryExpr)
		other = add.X
		if !ok || mul.Op != token.MUL {
			return false
		}
	}
	o := types.ExprString(ast.Unparen(other))
	return types.ExprString(ast.Unparen(mul.X)) == o || types.ExprString(ast.Unparen(mul.Y)) == o
}
