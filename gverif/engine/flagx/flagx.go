// Package flagx: FLAG.trans — in a real-valued routine that accepts
// blas.ConjTrans, no decision distinguishes blas.ConjTrans from blas.Trans.
//
// For real matrices the conjugate transpose is the transpose, and the BLAS
// contract (and every gonum doc comment) says "if t == blas.Trans or
// blas.ConjTrans". A test written `t == blas.Trans` compiles, passes every
// test that uses Trans, and silently takes the NoTrans arm for ConjTrans.
package flagx

import (
	"fmt"
	"go/ast"
	"go/constant"
	"go/token"
	"go/types"
	"strings"

	"gverif/cfgx"
	"gverif/core"
)

// constVal looks a Transpose constant up in package blas.
func constVal(t types.Type, name string) (int64, bool) {
	c, ok := t.(*types.Named).Obj().Pkg().Scope().Lookup(name).(*types.Const)
	if !ok {
		return 0, false
	}
	return constant.Int64Val(c.Val())
}

func isTranspose(t types.Type) bool {
	n, ok := t.(*types.Named)
	return ok && n.Obj().Name() == "Transpose" && n.Obj().Pkg() != nil && n.Obj().Pkg().Path() == core.ModPath+"/blas"
}

func hasComplex(t types.Type, seen map[types.Type]bool) bool {
	if seen[t] {
		return false
	}
	seen[t] = true
	switch u := t.Underlying().(type) {
	case *types.Basic:
		return u.Info()&types.IsComplex != 0
	case *types.Slice:
		return hasComplex(u.Elem(), seen)
	case *types.Array:
		return hasComplex(u.Elem(), seen)
	case *types.Pointer:
		return hasComplex(u.Elem(), seen)
	case *types.Struct:
		for i := 0; i < u.NumFields(); i++ {
			if hasComplex(u.Field(i).Type(), seen) {
				return true
			}
		}
	}
	return false
}

type evaluator struct {
	info *types.Info
	t    types.Object
	val  int64
}

// atom reports whether e compares t with a Transpose constant and its value
// under ev.val.
func (ev *evaluator) atom(e ast.Expr) (bool, bool) {
	be, ok := e.(*ast.BinaryExpr)
	if !ok || (be.Op != token.EQL && be.Op != token.NEQ) {
		return false, false
	}
	side := func(x, y ast.Expr) (bool, bool) {
		id, ok := ast.Unparen(x).(*ast.Ident)
		if !ok || core.ObjOf(ev.info, id) != ev.t {
			return false, false
		}
		tv, ok := ev.info.Types[y]
		if !ok || tv.Value == nil || tv.Value.Kind() != constant.Int {
			return false, false
		}
		c, _ := constant.Int64Val(tv.Value)
		r := c == ev.val
		if be.Op == token.NEQ {
			r = !r
		}
		return true, r
	}
	if ok, v := side(be.X, be.Y); ok {
		return true, v
	}
	return side(be.Y, be.X)
}

// simplify returns the canonical text of e with the atoms on t replaced by
// their truth values and constants folded.
func (ev *evaluator) simplify(e ast.Expr) string {
	e = ast.Unparen(e)
	if ok, v := ev.atom(e); ok {
		if v {
			return "true"
		}
		return "false"
	}
	switch x := e.(type) {
	case *ast.BinaryExpr:
		if x.Op == token.LAND || x.Op == token.LOR {
			l, r := ev.simplify(x.X), ev.simplify(x.Y)
			if x.Op == token.LAND {
				switch {
				case l == "false" || r == "false":
					return "false"
				case l == "true":
					return r
				case r == "true":
					return l
				}
				return "(" + l + " && " + r + ")"
			}
			switch {
			case l == "true" || r == "true":
				return "true"
			case l == "false":
				return r
			case r == "false":
				return l
			}
			return "(" + l + " || " + r + ")"
		}
	case *ast.UnaryExpr:
		if x.Op == token.NOT {
			s := ev.simplify(x.X)
			switch s {
			case "true":
				return "false"
			case "false":
				return "true"
			}
			return "!" + s
		}
	}
	return types.ExprString(e)
}

func (ev *evaluator) mentions(e ast.Node) bool {
	found := false
	ast.Inspect(e, func(n ast.Node) bool {
		if x, ok := n.(ast.Expr); ok {
			if ok, _ := ev.atom(x); ok {
				found = true
			}
		}
		return !found
	})
	return found
}

func panics(info *types.Info, stmts []ast.Stmt) bool {
	for _, s := range stmts {
		if es, ok := s.(*ast.ExprStmt); ok {
			if c, ok := es.X.(*ast.CallExpr); ok && cfgx.IsPanic(info, c) {
				return true
			}
		}
	}
	return false
}

// selected returns the index of the clause of a switch on t taken for
// ev.val (-1 for none) and whether it is the default clause.
func (ev *evaluator) selected(sw *ast.SwitchStmt) (int, bool) {
	def := -1
	for i, c := range sw.Body.List {
		cc := c.(*ast.CaseClause)
		if cc.List == nil {
			def = i
			continue
		}
		for _, e := range cc.List {
			if tv, ok := ev.info.Types[e]; ok && tv.Value != nil && tv.Value.Kind() == constant.Int {
				if v, _ := constant.Int64Val(tv.Value); v == ev.val {
					return i, false
				}
			}
		}
	}
	return def, def >= 0
}

func (ev *evaluator) isT(e ast.Expr) bool {
	id, ok := ast.Unparen(e).(*ast.Ident)
	return ok && core.ObjOf(ev.info, id) == ev.t
}

// rejected reports whether the function panics for t == ev.val by one of
// the validation idioms.
func (ev *evaluator) rejected(body *ast.BlockStmt) bool {
	rej := false
	ast.Inspect(body, func(n ast.Node) bool {
		switch x := n.(type) {
		case *ast.IfStmt:
			if ev.simplify(x.Cond) == "true" && panics(ev.info, x.Body.List) {
				rej = true
			}
		case *ast.SwitchStmt:
			if x.Tag == nil {
				for _, c := range x.Body.List {
					cc := c.(*ast.CaseClause)
					for _, e := range cc.List {
						if ev.simplify(e) == "true" && panics(ev.info, cc.Body) {
							rej = true
						}
					}
				}
			} else if ev.isT(x.Tag) {
				if i, _ := ev.selected(x); i >= 0 && panics(ev.info, x.Body.List[i].(*ast.CaseClause).Body) {
					rej = true
				}
			}
		}
		return !rej
	})
	return rej
}

func Run(conf core.Config, scope core.Scope) *core.Result {
	res := core.NewResult("FLAG")
	res.Rules = append(res.Rules, "FLAG.trans: in a function without complex operands that takes a blas.Transpose parameter and does not reject blas.ConjTrans, every condition and every switch on that parameter takes the same value for blas.Trans and blas.ConjTrans")
	res.Configs = append(res.Configs, conf.String())
	pkgs, err := core.Load(conf, scope.Patterns...)
	if err != nil {
		res.Brokenf("%v", err)
		return res
	}
	for _, pkg := range pkgs {
		info := pkg.TypesInfo
		for _, f := range pkg.Syntax {
			if !scope.InFile(f.Pos()) || strings.HasSuffix(core.Fset.Position(f.Pos()).Filename, "_test.go") {
				continue
			}
			for _, d := range f.Decls {
				fd, ok := d.(*ast.FuncDecl)
				if !ok || fd.Body == nil {
					continue
				}
				fn, _ := info.Defs[fd.Name].(*types.Func)
				if fn == nil {
					continue
				}
				sig := fn.Type().(*types.Signature)
				cplx := false
				var ts []types.Object
				for i := 0; i < sig.Params().Len(); i++ {
					p := sig.Params().At(i)
					if hasComplex(p.Type(), map[types.Type]bool{}) {
						cplx = true
					}
					if isTranspose(p.Type()) {
						ts = append(ts, p)
					}
				}
				for i := 0; i < sig.Results().Len(); i++ {
					if hasComplex(sig.Results().At(i).Type(), map[types.Type]bool{}) {
						cplx = true
					}
				}
				if len(ts) == 0 {
					continue
				}
				if cplx {
					res.Count("complex_routines_skipped", 1)
					continue
				}
				name := core.FuncName(pkg, fd)
				for _, t := range ts {
					res.Count("transpose_params", 1)
					trans, ok1 := constVal(t.Type(), "Trans")
					conjTrans, ok2 := constVal(t.Type(), "ConjTrans")
					if !ok1 || !ok2 || trans == conjTrans {
						res.Brokenf("FLAG.trans: blas.Trans / blas.ConjTrans not found")
						continue
					}
					evT := &evaluator{info, t, trans}
					evC := &evaluator{info, t, conjTrans}
					if evC.rejected(fd.Body) || evT.rejected(fd.Body) {
						res.Count("conjtrans_rejected", 1)
						continue
					}
					res.Count("conjtrans_accepted", 1)
					parents := cfgx.Parents(fd.Body)
					done := map[ast.Node]bool{}
					report := func(at token.Pos, what string) {
						res.Add(core.Finding{Rule: "FLAG.trans", Key: fmt.Sprintf("FLAG.trans|%s|%s|%s", name, t.Name(), what),
							Pos: core.Pos(at), Func: name,
							Msg: fmt.Sprintf("%s accepts blas.ConjTrans for %s but %s treats it differently from blas.Trans; for real operands the two denote the same operation", name, t.Name(), what)})
					}
					ast.Inspect(fd.Body, func(n ast.Node) bool {
						switch x := n.(type) {
						case *ast.SwitchStmt:
							if x.Tag != nil && evT.isT(x.Tag) {
								res.Obligations++
								res.Count("decisions", 1)
								a, _ := evT.selected(x)
								b, _ := evC.selected(x)
								if a != b {
									report(x.Pos(), "the switch on "+t.Name())
								}
							}
						case ast.Expr:
							if ok, _ := evT.atom(x); !ok {
								return true
							}
							// maximal boolean expression around the atom
							var top ast.Node = x
							for {
								p := parents[top]
								switch q := p.(type) {
								case *ast.ParenExpr:
									top = q
									continue
								case *ast.UnaryExpr:
									if q.Op == token.NOT {
										top = q
										continue
									}
								case *ast.BinaryExpr:
									if q.Op == token.LAND || q.Op == token.LOR {
										top = q
										continue
									}
								}
								break
							}
							if done[top] {
								return true
							}
							done[top] = true
							res.Obligations++
							res.Count("decisions", 1)
							if evT.simplify(top.(ast.Expr)) != evC.simplify(top.(ast.Expr)) {
								report(top.Pos(), "the condition "+types.ExprString(top.(ast.Expr)))
							}
						}
						return true
					})
				}
			}
		}
	}
	return res
}
