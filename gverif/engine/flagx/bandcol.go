package flagx

import (
	"fmt"
	"go/ast"
	"go/token"
	"go/types"

	"gverif/core"
)

// RunBandCol implements BAND.rowcol: row i of a general band matrix in the
// repository's compact row-major storage holds the columns
// max(0, kL-i) … min(kU+1+kL, cols+kL-i) of the band, so the upper end of a
// row's band slice is computed from the *column* count. In a loop over the
// rows `for i := 0; i < rows…` the extent `X + kL - i` handed to min() must
// not be built from the variable that bounds the loop when the function
// distinguishes rows from columns (both m and n parameters, or a row count
// read from a struct that also has Cols): for a wide matrix the row count is
// the smaller one and in-band elements right of it are skipped.
func RunBandCol(cfgc core.Config, scope core.Scope) *core.Result {
	res := core.NewResult("BANDCOL")
	res.Rules = append(res.Rules, "BAND.rowcol: in a loop over the rows of a general band matrix the upper end min(kU+1+kL, X+kL-i) of the row's band slice is computed from the column count, not from the row count that bounds the loop")
	res.Configs = append(res.Configs, cfgc.String())
	pkgs, err := core.Load(cfgc, scope.Patterns...)
	if err != nil {
		res.Brokenf("%v", err)
		return res
	}
	for _, pkg := range pkgs {
		info := pkg.TypesInfo
		for _, file := range pkg.Syntax {
			if !scope.InFile(file.Pos()) {
				continue
			}
			for _, d := range file.Decls {
				fd, ok := d.(*ast.FuncDecl)
				if !ok || fd.Body == nil {
					continue
				}
				name := core.FuncName(pkg, fd)
				// once-assigned locals read from a .Rows selector of a struct with Cols
				rowsOf := map[types.Object]bool{}
				ast.Inspect(fd.Body, func(n ast.Node) bool {
					as, ok := n.(*ast.AssignStmt)
					if !ok || as.Tok != token.DEFINE || len(as.Lhs) != len(as.Rhs) {
						return true
					}
					for i, r := range as.Rhs {
						sel, ok := ast.Unparen(r).(*ast.SelectorExpr)
						if !ok || sel.Sel.Name != "Rows" {
							continue
						}
						st, ok := info.TypeOf(sel.X).Underlying().(*types.Struct)
						if !ok {
							continue
						}
						hasCols := false
						for j := 0; j < st.NumFields(); j++ {
							if st.Field(j).Name() == "Cols" {
								hasCols = true
							}
						}
						if id, ok := as.Lhs[i].(*ast.Ident); ok && hasCols {
							rowsOf[info.Defs[id]] = true
						}
					}
					return true
				})
				var pm, pn types.Object
				for _, fl := range fd.Type.Params.List {
					for _, n := range fl.Names {
						switch n.Name {
						case "m":
							pm = info.Defs[n]
						case "n":
							pn = info.Defs[n]
						}
					}
				}
				var walk func(n ast.Node, loops []*ast.ForStmt)
				walk = func(n ast.Node, loops []*ast.ForStmt) {
					ast.Inspect(n, func(c ast.Node) bool {
						if c == n {
							return true
						}
						switch s := c.(type) {
						case *ast.FuncLit:
							return false
						case *ast.ForStmt:
							walk(s, append(loops[:len(loops):len(loops)], s))
							return false
						case *ast.CallExpr:
							fid, ok := s.Fun.(*ast.Ident)
							if !ok || fid.Name != "min" || len(s.Args) != 2 {
								return true
							}
							for _, a := range s.Args {
								// X + kL - i
								sub, ok := ast.Unparen(a).(*ast.BinaryExpr)
								if !ok || sub.Op != token.SUB {
									continue
								}
								iv, ok := ast.Unparen(sub.Y).(*ast.Ident)
								if !ok {
									continue
								}
								add, ok := ast.Unparen(sub.X).(*ast.BinaryExpr)
								if !ok || add.Op != token.ADD {
									continue
								}
								x, ok := ast.Unparen(add.X).(*ast.Ident)
								if !ok {
									continue
								}
								// the loop whose variable is i
								var loop *ast.ForStmt
								for k := len(loops) - 1; k >= 0; k-- {
									if as, ok := loops[k].Init.(*ast.AssignStmt); ok && len(as.Lhs) == 1 {
										if id, ok := as.Lhs[0].(*ast.Ident); ok && info.Defs[id] != nil && info.Defs[id] == core.ObjOf(info, iv) {
											loop = loops[k]
										}
									}
								}
								if loop == nil {
									continue
								}
								cond, ok := loop.Cond.(*ast.BinaryExpr)
								if !ok || cond.Op != token.LSS {
									continue
								}
								// row count: the bound, or the first argument of min(bound, …)
								b := ast.Unparen(cond.Y)
								if c, ok := b.(*ast.CallExpr); ok && len(c.Args) == 2 {
									if f, ok := c.Fun.(*ast.Ident); ok && f.Name == "min" {
										b = ast.Unparen(c.Args[0])
									}
								}
								bid, ok := b.(*ast.Ident)
								if !ok {
									continue
								}
								rowObj := core.ObjOf(info, bid)
								xObj := core.ObjOf(info, x)
								distinct := rowsOf[rowObj] || (pm != nil && pn != nil && (rowObj == pm || rowObj == pn))
								if !distinct {
									res.Count("band_row_extents_in_square_routines", 1)
									continue
								}
								res.Obligations++
								res.Count("band_row_extents_with_distinct_row_and_column_counts", 1)
								if xObj == rowObj {
									res.Add(core.Finding{Rule: "BAND.rowcol", Key: fmt.Sprintf("BAND.rowcol|%s|%s", name, types.ExprString(a)), Pos: core.Pos(a.Pos()), Func: name,
										Msg: fmt.Sprintf("%s: the upper end %s of the band slice of row %s is computed from %s, the row count that bounds the loop, not from the column count: in a matrix with more columns than rows the in-band elements right of column %s-1 are skipped", name, types.ExprString(s), iv.Name, x.Name, x.Name)})
								}
							}
						}
						return true
					})
				}
				walk(fd.Body, nil)
			}
		}
	}
	return res
}
