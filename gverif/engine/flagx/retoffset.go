package flagx

import (
	"fmt"
	"go/ast"
	"go/token"
	"go/types"

	"gverif/core"
)

// RunRetOffset implements RET.offset: a function that returns `p + E` for a
// scalar parameter p on its working paths ("the dot product plus a
// constant") returns a value that involves p on every path; a quick return of
// a bare constant (`if n == 0 { return 0 }`, inherited from the template the
// routine was generated from) drops the constant for the empty sum.
func RunRetOffset(cfgc core.Config, scope core.Scope) *core.Result {
	res := core.NewResult("RETOFFSET")
	res.Rules = append(res.Rules, "RET.offset: in a function with a return of the form p + E for a scalar parameter p, every return mentions p")
	res.Configs = append(res.Configs, cfgc.String())
	pkgs, err := core.Load(cfgc, scope.Patterns...)
	if err != nil {
		res.Brokenf("%v", err)
		return res
	}
	for _, pkg := range pkgs {
		info := pkg.TypesInfo
		for _, file := range pkg.Syntax {
			if !scope.InFile(file.Pos()) {
				continue
			}
			for _, d := range file.Decls {
				fd, ok := d.(*ast.FuncDecl)
				if !ok || fd.Body == nil || fd.Type.Results == nil || len(fd.Type.Results.List) != 1 {
					continue
				}
				params := map[types.Object]bool{}
				for _, fl := range fd.Type.Params.List {
					for _, n := range fl.Names {
						if o := info.Defs[n]; o != nil {
							if b, ok := o.Type().Underlying().(*types.Basic); ok && b.Info()&(types.IsFloat|types.IsComplex) != 0 {
								params[o] = true
							}
						}
					}
				}
				if len(params) == 0 {
					continue
				}
				var rets []*ast.ReturnStmt
				ast.Inspect(fd.Body, func(n ast.Node) bool {
					if _, ok := n.(*ast.FuncLit); ok {
						return false
					}
					if r, ok := n.(*ast.ReturnStmt); ok && len(r.Results) == 1 {
						rets = append(rets, r)
					}
					return true
				})
				offsets := map[types.Object]bool{}
				for _, r := range rets {
					if be, ok := ast.Unparen(r.Results[0]).(*ast.BinaryExpr); ok && be.Op == token.ADD {
						if id, ok := ast.Unparen(be.X).(*ast.Ident); ok && params[core.ObjOf(info, id)] {
							offsets[core.ObjOf(info, id)] = true
						}
					}
				}
				if len(offsets) == 0 {
					continue
				}
				name := core.FuncName(pkg, fd)
				res.Count("functions_returning_a_parameter_plus_a_value", 1)
				for p := range offsets {
					for _, r := range rets {
						res.Obligations++
						res.Count("returns_of_such_functions", 1)
						found := false
						ast.Inspect(r.Results[0], func(n ast.Node) bool {
							if id, ok := n.(*ast.Ident); ok && core.ObjOf(info, id) == p {
								found = true
							}
							return !found
						})
						if !found {
							res.Add(core.Finding{Rule: "RET.offset", Key: fmt.Sprintf("RET.offset|%s|return %s", name, types.ExprString(r.Results[0])), Pos: core.Pos(r.Pos()), Func: name,
								Msg: fmt.Sprintf("%s returns %s + … on its working paths but `%s` here: the additive parameter %s is dropped on this path", name, p.Name(), types.ExprString(r.Results[0]), p.Name())})
						}
					}
				}
			}
		}
	}
	return res
}
