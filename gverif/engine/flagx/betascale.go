package flagx

import (
	"fmt"
	"go/ast"
	"go/token"
	"go/types"
	"strings"

	"gverif/cfgx"
	"gverif/core"

	"golang.org/x/tools/go/cfg"
	"golang.org/x/tools/go/types/typeutil"
)

// RunBetaScale implements BETA.scaleguard, the complement of BETA.noread:
// code that multiplies the result operand by beta (`y[i] *= beta`,
// `y[i]*beta + …`, a Scal kernel called with beta) is unreachable when
// beta == 0. BETA.noread checks the arm selected by beta == 0; this rule
// checks that such an arm exists in front of every scaling site, so that the
// arm cannot be deleted or a fast path added around it.
//
// The function's control-flow graph is pruned to the edges consistent with
// beta == 0 (the true edge of `beta == 0`, the false edge of `beta != 0`, the
// false edge of `beta == 1`, the true edge of `beta != 1`); a scaling site
// still reachable from the entry reads the old content of the operand with
// beta == 0, and 0*NaN = NaN.
func RunBetaScale(cfgc core.Config, scope core.Scope) *core.Result {
	res := core.NewResult("BETASCALE")
	res.Rules = append(res.Rules, "BETA.scaleguard: every site that multiplies an operand element by the parameter beta (compound *=, element*beta, Scal kernel with beta) is unreachable in the control-flow graph restricted to the edges consistent with beta == 0")
	res.Configs = append(res.Configs, cfgc.String())
	pkgs, err := core.Load(cfgc, scope.Patterns...)
	if err != nil {
		res.Brokenf("%v", err)
		return res
	}
	// callees that special-case a zero scalar themselves (Dscal, Sscal, …):
	// parameter index -> tested against the constant zero in the body
	zeroAware := map[*types.Func]map[int]bool{}
	for _, pkg := range pkgs {
		info := pkg.TypesInfo
		for _, file := range pkg.Syntax {
			for _, d := range file.Decls {
				fd, ok := d.(*ast.FuncDecl)
				if !ok || fd.Body == nil {
					continue
				}
				fn, _ := info.Defs[fd.Name].(*types.Func)
				if fn == nil {
					continue
				}
				idx := map[types.Object]int{}
				k := 0
				for _, fl := range fd.Type.Params.List {
					for _, n := range fl.Names {
						idx[info.Defs[n]] = k
						k++
					}
				}
				ast.Inspect(fd.Body, func(n ast.Node) bool {
					be, ok := n.(*ast.BinaryExpr)
					if !ok || be.Op != token.EQL {
						return true
					}
					id, ok := ast.Unparen(be.X).(*ast.Ident)
					if !ok {
						return true
					}
					i, isParam := idx[core.ObjOf(info, id)]
					if tv, ok := info.Types[be.Y]; isParam && ok && tv.Value != nil && isZeroConst(tv.Value) {
						if zeroAware[fn] == nil {
							zeroAware[fn] = map[int]bool{}
						}
						zeroAware[fn][i] = true
					}
					return true
				})
			}
		}
	}
	for _, pkg := range pkgs {
		info := pkg.TypesInfo
		for _, file := range pkg.Syntax {
			if !scope.InFile(file.Pos()) {
				continue
			}
			for _, d := range file.Decls {
				fd, ok := d.(*ast.FuncDecl)
				if !ok || fd.Body == nil {
					continue
				}
				var beta types.Object
				for _, fl := range fd.Type.Params.List {
					for _, n := range fl.Names {
						if n.Name == "beta" {
							beta = info.Defs[n]
						}
					}
				}
				if beta == nil {
					continue
				}
				name := core.FuncName(pkg, fd)
				isBeta := func(e ast.Expr) bool {
					e = ast.Unparen(e)
					// float64(beta), complex(beta, 0)
					if c, ok := e.(*ast.CallExpr); ok && len(c.Args) >= 1 {
						if tv, ok := info.Types[c.Fun]; ok && tv.IsType() {
							e = ast.Unparen(c.Args[0])
						}
					}
					id, ok := e.(*ast.Ident)
					return ok && core.ObjOf(info, id) == beta
				}
				isElem := func(e ast.Expr) bool {
					ix, ok := ast.Unparen(e).(*ast.IndexExpr)
					if !ok {
						return false
					}
					tv, ok := info.Types[ix.X]
					if !ok {
						return false
					}
					_, isSlice := tv.Type.Underlying().(*types.Slice)
					return isSlice
				}
				type siteT struct {
					node ast.Node
					what string
				}
				var sites []siteT
				ast.Inspect(fd.Body, func(n ast.Node) bool {
					switch x := n.(type) {
					case *ast.FuncLit:
						return false
					case *ast.AssignStmt:
						if x.Tok == token.MUL_ASSIGN && len(x.Lhs) == 1 && isElem(x.Lhs[0]) && isBeta(x.Rhs[0]) {
							sites = append(sites, siteT{x, types.ExprString(x.Lhs[0]) + " *= beta"})
						}
					case *ast.BinaryExpr:
						if x.Op == token.MUL && ((isBeta(x.X) && isElem(x.Y)) || (isBeta(x.Y) && isElem(x.X))) {
							sites = append(sites, siteT{x, types.ExprString(x)})
						}
					case *ast.CallExpr:
						fn, _ := typeutil.Callee(info, x).(*types.Func)
						if fn == nil || !strings.Contains(strings.ToLower(fn.Name()), "scal") {
							return true
						}
						for i, a := range x.Args {
							if isBeta(a) {
								if zeroAware[fn.Origin()][i] {
									res.Count("scaling_calls_to_zero_aware_routines", 1)
									break
								}
								sites = append(sites, siteT{x, fn.Name() + "(…beta…)"})
								break
							}
						}
					}
					return true
				})
				if len(sites) == 0 {
					continue
				}
				res.Count("routines_scaling_by_beta", 1)
				// case expressions of `switch beta { case 0: … }`: go/cfg ends
				// the block with the case expression alone
				caseOfBeta := map[ast.Expr]bool{}
				ast.Inspect(fd.Body, func(n ast.Node) bool {
					if sw, ok := n.(*ast.SwitchStmt); ok && sw.Tag != nil && isBeta(sw.Tag) {
						for _, c := range sw.Body.List {
							for _, e := range c.(*ast.CaseClause).List {
								caseOfBeta[e] = true
							}
						}
					}
					return true
				})
				g := cfgx.New(fd.Body, info)
				assumeBeta := func(c ast.Expr) (bool, bool) {
					if caseOfBeta[c] {
						tv, ok := info.Types[c]
						if !ok || tv.Value == nil {
							return false, false
						}
						return isZeroConst(tv.Value), true
					}
					be, ok := c.(*ast.BinaryExpr)
					if !ok || (be.Op != token.EQL && be.Op != token.NEQ) {
						return false, false
					}
					id, ok := ast.Unparen(be.X).(*ast.Ident)
					if !ok || core.ObjOf(info, id) != beta {
						return false, false
					}
					tv, ok := info.Types[be.Y]
					if !ok || tv.Value == nil {
						return false, false
					}
					// truth of the condition when beta == 0
					truth := isZeroConst(tv.Value)
					if be.Op == token.NEQ {
						truth = !truth
					}
					return truth, true
				}
				assumeBeta = cfgx.WithBoolDefs(info, fd.Body, assumeBeta)
				g.Keep = cfgx.KeepUnder(assumeBeta)
				reach := g.ReachSome(assumeBeta, cfgx.StableLeaf(info, fd.Body))
				// with beta == 0 a preceding explicit zero fill makes the
				// multiplication harmless (Dsymm zeroes C first)
				zeroStore := func(n ast.Node) bool {
					found := false
					ast.Inspect(n, func(y ast.Node) bool {
						// a store under a further condition is not a zero fill
						// of this arm
						switch y.(type) {
						case *ast.IfStmt, *ast.SwitchStmt:
							if y != n {
								return false
							}
						}
						// clear(c[i*ldc : i*ldc+n]) zero-fills too
						if c, ok := y.(*ast.CallExpr); ok && len(c.Args) == 1 {
							if id, ok := c.Fun.(*ast.Ident); ok && (id.Name == "clear" || id.Name == "zero") {
								if tv, ok := info.Types[c.Args[0]]; ok {
									if _, isSlice := tv.Type.Underlying().(*types.Slice); isSlice {
										found = true
									}
								}
							}
						}
						if as, ok := y.(*ast.AssignStmt); ok && as.Tok == token.ASSIGN && len(as.Lhs) == 1 && len(as.Rhs) == 1 && isElem(as.Lhs[0]) {
							if tv, ok := info.Types[as.Rhs[0]]; ok && tv.Value != nil && isZeroConst(tv.Value) {
								found = true
							}
						}
						return !found
					})
					return found
				}
				// conditions (true for beta == 0) that select a zero-filling body
				zeroArm := map[ast.Expr]bool{}
				ast.Inspect(fd.Body, func(n ast.Node) bool {
					switch x := n.(type) {
					case *ast.IfStmt:
						if zeroStore(x.Body) {
							zeroArm[x.Cond] = true
						}
					case *ast.CaseClause:
						for _, e := range x.List {
							for _, st := range x.Body {
								switch st.(type) {
								case *ast.IfStmt, *ast.SwitchStmt:
									continue
								}
								if zeroStore(st) {
									zeroArm[e] = true
								}
							}
						}
					}
					return true
				})
				zeroed := g.MustPass(func(b *cfg.Block) bool {
					// in the pruned graph a kept branch on beta whose condition
					// selects a zero-filling body is followed into that body
					c := cfgx.Cond(b)
					return c != nil && zeroArm[c] && len(b.Succs) == 2 && g.Keep(b, 0) && !g.Keep(b, 1)
				})
				for _, s := range sites {
					res.Obligations++
					res.Count("beta_scaling_sites", 1)
					loc, ok := g.Where[s.node]
					if !ok {
						res.Brokenf("BETA.scaleguard: %s: site %s not in the control-flow graph", name, core.Pos(s.node.Pos()))
						continue
					}
					if reach[loc.Block] && zeroed[loc.Block] {
						res.Count("scaling_sites_after_zero_fill", 1)
						continue
					}
					if reach[loc.Block] {
						res.Add(core.Finding{Rule: "BETA.scaleguard", Key: fmt.Sprintf("BETA.scaleguard|%s|%s", name, s.what), Pos: core.Pos(s.node.Pos()), Func: name,
							Msg: fmt.Sprintf("%s is reachable with beta == 0: the old content of the result operand is multiplied by zero instead of being overwritten, so NaN or Inf left in the output storage propagates", s.what)})
					}
				}
			}
		}
	}
	return res
}
