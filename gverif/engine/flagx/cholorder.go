package flagx

import (
	"fmt"
	"go/ast"
	"go/constant"
	"go/types"
	"strings"

	"gverif/core"

	"golang.org/x/tools/go/types/typeutil"
)

// RunCholOrder implements FLAG.cholorder. The positive-definite routines
// (Dpotrs, Dpbtrs, Dpocon, …) solve with A = UᵀU or A = LLᵀ by two successive
// triangular solves on the same factor: A⁻¹b = U⁻¹(U⁻ᵀ b), so with the upper
// factor the transposed solve comes first, and A⁻¹b = L⁻ᵀ(L⁻¹ b), so with the
// lower factor the untransposed solve comes first. For every pair of
// consecutive triangular-solve calls (Dtrsm, Dtrsv, Dtbsv, Dlatrs, Dlatbs) in
// one statement list of a Dp* routine with the same constant uplo and the
// transposes {Trans, NoTrans}, the order is the one the triangle dictates.
// Copying the Upper arm's order into the Lower arm solves with LᵀL instead.
func RunCholOrder(cfgc core.Config, scope core.Scope) *core.Result {
	res := core.NewResult("CHOLORDER")
	res.Rules = append(res.Rules, "FLAG.cholorder: in the positive-definite routines two consecutive triangular solves on one factor run Trans then NoTrans for blas.Upper and NoTrans then Trans for blas.Lower")
	res.Configs = append(res.Configs, cfgc.String())
	pkgs, err := core.Load(cfgc, scope.Patterns...)
	if err != nil {
		res.Brokenf("%v", err)
		return res
	}
	solves := map[string]bool{"Dtrsm": true, "Dtrsv": true, "Dtbsv": true, "Dlatrs": true, "Dlatbs": true}
	for _, pkg := range pkgs {
		info := pkg.TypesInfo
		constArg := func(c *ast.CallExpr, typ string) (string, bool) {
			for _, a := range c.Args {
				tv, ok := info.Types[a]
				if !ok || !isBlasNamed(tv.Type, typ) {
					continue
				}
				if tv.Value == nil {
					return "", false
				}
				v, _ := constant.Int64Val(tv.Value)
				return string(rune(v)), true
			}
			return "", false
		}
		for _, file := range pkg.Syntax {
			if !scope.InFile(file.Pos()) {
				continue
			}
			for _, d := range file.Decls {
				fd, ok := d.(*ast.FuncDecl)
				if !ok || fd.Body == nil || !strings.HasPrefix(fd.Name.Name, "Dp") {
					continue
				}
				name := core.FuncName(pkg, fd)
				ast.Inspect(fd.Body, func(n ast.Node) bool {
					var list []ast.Stmt
					switch x := n.(type) {
					case *ast.BlockStmt:
						list = x.List
					case *ast.CaseClause:
						list = x.Body
					default:
						return true
					}
					type sv struct {
						call        *ast.CallExpr
						uplo, trans string
						fn          string
					}
					var seq []sv
					for _, st := range list {
						var call *ast.CallExpr
						switch y := st.(type) {
						case *ast.ExprStmt:
							call, _ = y.X.(*ast.CallExpr)
						case *ast.AssignStmt:
							if len(y.Rhs) == 1 {
								call, _ = y.Rhs[0].(*ast.CallExpr)
							}
						}
						if call == nil {
							continue
						}
						fn, _ := typeutil.Callee(info, call).(*types.Func)
						if fn == nil || !solves[fn.Name()] {
							continue
						}
						u, ok1 := constArg(call, "Uplo")
						t, ok2 := constArg(call, "Transpose")
						if !ok1 || !ok2 {
							continue
						}
						seq = append(seq, sv{call, u, t, fn.Name()})
					}
					for i := 0; i+1 < len(seq); i += 2 {
						a, b := seq[i], seq[i+1]
						if a.fn != b.fn || a.uplo != b.uplo || a.trans == b.trans {
							continue
						}
						res.Obligations++
						res.Count("cholesky_solve_pairs", 1)
						wantFirst := "T" // Upper: Uᵀ first
						if a.uplo == "L" {
							wantFirst = "N"
						}
						if a.trans != wantFirst {
							res.Add(core.Finding{Rule: "FLAG.cholorder", Key: fmt.Sprintf("FLAG.cholorder|%s|%s", name, a.uplo), Pos: core.Pos(a.call.Pos()), Func: name,
								Msg: fmt.Sprintf("%s solves with the %s factor in the order (%s, %s): for A = UᵀU the transposed solve comes first, for A = LLᵀ the untransposed one; this order solves with the product taken the other way round", name, map[string]string{"U": "upper", "L": "lower"}[a.uplo], a.trans, b.trans)})
						}
					}
					return true
				})
			}
		}
	}
	return res
}
