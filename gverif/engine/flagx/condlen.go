package flagx

import (
	"fmt"
	"go/ast"
	"go/token"
	"go/types"
	"sort"
	"strings"

	"gverif/cfgx"
	"gverif/core"
)

// RunCondLen implements ARGS.condlen. Many LAPACK routines check the length
// of an optional operand only under a flag:
//
//	case (norm == lapack.MaxColumnSum || norm == lapack.MaxRowSum) && len(work) < n:
//	case wantz && len(z) < (n-1)*ldz+n:
//	if len(vt) < (n-1)*ldvt+ncvt && ncvt != 0 {
//
// The operand may then be nil or short whenever the flag condition is false,
// so the body must not touch it there. For every slice parameter P all of
// whose length checks are conditional, every truth assignment of the flag
// atoms that makes all the conditions false is turned into constraints on the
// flag variables (forced or excluded constants, forced booleans); the
// control-flow graph is pruned with them (three-valued, including the case
// expressions of `switch flag`), and any use of P that stays reachable —
// index, slice or range; handing P on whole is the callee's contract — is
// reported: the check was narrowed (or the use widened) and a valid call now
// faults at run time instead of meeting the documented panic.
func RunCondLen(cfgc core.Config, scope core.Scope) *core.Result {
	res := core.NewResult("CONDLEN")
	res.Rules = append(res.Rules, "ARGS.condlen: a slice parameter whose length is checked only under flag conditions is not indexed, sliced or ranged over anywhere the control-flow graph can reach when all those conditions are false")
	res.Configs = append(res.Configs, cfgc.String())
	pkgs, err := core.Load(cfgc, scope.Patterns...)
	if err != nil {
		res.Brokenf("%v", err)
		return res
	}
	for _, pkg := range pkgs {
		for _, file := range pkg.Syntax {
			if !scope.InFile(file.Pos()) {
				continue
			}
			for _, d := range file.Decls {
				if fd, ok := d.(*ast.FuncDecl); ok && fd.Body != nil && ast.IsExported(fd.Name.Name) {
					condLenFunc(res, pkg.TypesInfo, core.FuncName(pkg, fd), fd)
				}
			}
		}
	}
	return res
}

// LenChecks collects, for every slice parameter of fd, the flag parts of its
// conditional length checks (guards) and whether it also has an unconditional
// one; opaque marks parameters with a check whose flag part is not atomic.
// exts gives the extent expression of each check, parallel to guards (nil
// guard = unconditional).
type LenCheck struct {
	Guard  ast.Expr // nil: unconditional
	Extent ast.Expr
	Strict bool // len(p) < extent; otherwise len(p) <= extent
}

func (fe *FlagEnv) LenChecks() (checks map[types.Object][]LenCheck, opaque map[types.Object]bool) {
	info := fe.info
	checks = map[types.Object][]LenCheck{}
	opaque = map[types.Object]bool{}
	lenParam := func(e ast.Expr) (types.Object, ast.Expr, bool) {
		be, ok := ast.Unparen(e).(*ast.BinaryExpr)
		if !ok {
			return nil, nil, false
		}
		switch be.Op {
		case token.LSS, token.LEQ, token.NEQ, token.GTR, token.GEQ:
		default:
			return nil, nil, false
		}
		for k, side := range []ast.Expr{be.X, be.Y} {
			if c, ok := ast.Unparen(side).(*ast.CallExpr); ok && len(c.Args) == 1 {
				if id, ok := c.Fun.(*ast.Ident); ok && id.Name == "len" {
					if a, ok := ast.Unparen(c.Args[0]).(*ast.Ident); ok {
						if o := core.ObjOf(info, a); fe.params[o] {
							var ext ast.Expr
							if k == 0 && (be.Op == token.LSS || be.Op == token.LEQ) {
								ext = be.Y
							}
							return o, ext, be.Op == token.LSS
						}
					}
				}
			}
		}
		return nil, nil, false
	}
	var scan func(cond ast.Expr)
	scan = func(cond ast.Expr) {
		cond = ast.Unparen(cond)
		if be, ok := cond.(*ast.BinaryExpr); ok && be.Op == token.LOR {
			scan(be.X)
			scan(be.Y)
			return
		}
		var conj []ast.Expr
		var flat func(e ast.Expr)
		flat = func(e ast.Expr) {
			e = ast.Unparen(e)
			if be, ok := e.(*ast.BinaryExpr); ok && be.Op == token.LAND {
				flat(be.X)
				flat(be.Y)
				return
			}
			conj = append(conj, e)
		}
		flat(cond)
		var p types.Object
		var lc LenCheck
		var rest []ast.Expr
		for _, c := range conj {
			if o, ext, strict := lenParam(c); o != nil && p == nil {
				p, lc.Extent, lc.Strict = o, ext, strict
				continue
			}
			rest = append(rest, c)
		}
		if p == nil {
			return
		}
		if len(rest) == 0 {
			checks[p] = append(checks[p], lc)
			return
		}
		var g ast.Expr
		for _, r := range rest {
			if !fe.Atomic(r) {
				opaque[p] = true
				return
			}
			if g == nil {
				g = r
			} else {
				g = &ast.BinaryExpr{X: g, Op: token.LAND, Y: r}
			}
		}
		lc.Guard = g
		checks[p] = append(checks[p], lc)
	}
	panics := func(body []ast.Stmt) bool {
		if len(body) != 1 {
			return false
		}
		es, ok := body[0].(*ast.ExprStmt)
		if !ok {
			return false
		}
		c, ok := es.X.(*ast.CallExpr)
		return ok && cfgx.IsPanic(info, c)
	}
	ast.Inspect(fe.fd.Body, func(n ast.Node) bool {
		switch x := n.(type) {
		case *ast.FuncLit:
			return false
		case *ast.IfStmt:
			if panics(x.Body.List) {
				scan(x.Cond)
			}
		case *ast.SwitchStmt:
			if x.Tag == nil {
				for _, c := range x.Body.List {
					cc := c.(*ast.CaseClause)
					if panics(cc.Body) {
						for _, e := range cc.List {
							scan(e)
						}
					}
				}
			}
		}
		return true
	})
	return checks, opaque
}

func condLenFunc(res *core.Result, info *types.Info, name string, fd *ast.FuncDecl) {
	fe := NewFlagEnv(info, fd)
	checks, opaque := fe.LenChecks()
	var ps []types.Object
	guards := map[types.Object][]ast.Expr{}
	for p, cs := range checks {
		if opaque[p] {
			continue
		}
		uncond := false
		for _, c := range cs {
			if c.Guard == nil {
				uncond = true
			} else {
				guards[p] = append(guards[p], c.Guard)
			}
		}
		if !uncond && len(guards[p]) > 0 {
			ps = append(ps, p)
		}
	}
	if len(ps) == 0 {
		return
	}
	sort.Slice(ps, func(i, j int) bool { return ps[i].Pos() < ps[j].Pos() })
	par := cfgx.Parents(fd.Body)
	for _, p := range ps {
		res.Count("operands_with_conditional_length_checks_only", 1)
		var uses []ast.Node
		ast.Inspect(fd.Body, func(n ast.Node) bool {
			switch x := n.(type) {
			case *ast.FuncLit:
				return false
			case *ast.CallExpr:
				if id, ok := x.Fun.(*ast.Ident); ok && (id.Name == "len" || id.Name == "cap") {
					return false
				}
			case *ast.IndexExpr:
				if id, ok := ast.Unparen(x.X).(*ast.Ident); ok && info.Uses[id] == p {
					uses = append(uses, x)
				}
			case *ast.SliceExpr:
				if id, ok := ast.Unparen(x.X).(*ast.Ident); ok && info.Uses[id] == p {
					uses = append(uses, x)
				}
			case *ast.RangeStmt:
				if id, ok := ast.Unparen(x.X).(*ast.Ident); ok && info.Uses[id] == p {
					uses = append(uses, x.X)
				}
			}
			return true
		})
		// Only uses that the routine itself places under a branch on one of
		// the guard's flag variables are decided: flags re-encoded in derived
		// integers (Dsteqr's icompz) correlate paths this analysis cannot
		// follow, and their uses are counted as undecided.
		var decided []ast.Node
		for _, u := range uses {
			controlled := false
			for n := par[u]; n != nil; n = par[n] {
				switch x := n.(type) {
				case *ast.IfStmt:
					if fe.Mentions(x.Cond, guards[p]) {
						controlled = true
					}
				case *ast.CaseClause:
					for _, e := range x.List {
						if fe.Mentions(e, guards[p]) {
							controlled = true
						}
					}
					if sw, ok := par[par[x]].(*ast.SwitchStmt); ok && sw.Tag != nil && fe.Mentions(sw.Tag, guards[p]) {
						controlled = true
					}
				}
			}
			if controlled {
				decided = append(decided, u)
				res.Count("uses_under_a_branch_on_the_guard_flags", 1)
			} else {
				res.Count("uses_not_under_a_branch_on_the_guard_flags", 1)
			}
		}
		badUse, ok := fe.ReachableWhenAllFalse(guards[p], decided)
		if !ok {
			continue
		}
		res.Obligations += len(uses)
		res.Count("uses_of_conditionally_checked_operands", len(uses))
		if len(badUse) > 0 {
			var first ast.Node
			for u := range badUse {
				if first == nil || u.Pos() < first.Pos() {
					first = u
				}
			}
			var gs []string
			for _, f := range guards[p] {
				gs = append(gs, types.ExprString(f))
			}
			res.Add(core.Finding{Rule: "ARGS.condlen", Key: fmt.Sprintf("ARGS.condlen|%s|%s", name, p.Name()), Pos: core.Pos(first.Pos()), Func: name,
				Msg: fmt.Sprintf("the length of %s is checked only when %s, but %s is used here on a path that is feasible when that is false (%s): a short or nil %s then faults at run time instead of meeting the documented panic", p.Name(), strings.Join(gs, " or "), p.Name(), badUse[first], p.Name())})
		}
	}
}
