package flagx

import (
	"fmt"
	"go/ast"
	"go/token"
	"go/types"

	"gverif/cfgx"
	"gverif/core"

	"golang.org/x/tools/go/cfg"
)

// RunWorkInit implements WORK.init: LAPACK's work/iwork arguments are scratch
// space — "work contains temporary storage", its content on entry is
// unspecified (callers recycle it between calls and mat takes it from a pool
// without clearing). A routine therefore never reads an element of its work
// parameter, or updates one in place (`work[i] += …`), on a path on which it
// has not stored into work before, directly or by handing work (or a reslice
// of it) to a callee that may fill it. Reported: an element read or compound
// assignment of a parameter named work/iwork that some path from the entry
// reaches without passing such a store.
func RunWorkInit(cfgc core.Config, scope core.Scope) *core.Result {
	res := core.NewResult("WORKINIT")
	res.Rules = append(res.Rules, "WORK.init: every element read or in-place update of a work/iwork parameter is preceded on every path from the entry by a store into that parameter or a call that receives it")
	res.Configs = append(res.Configs, cfgc.String())
	pkgs, err := core.Load(cfgc, scope.Patterns...)
	if err != nil {
		res.Brokenf("%v", err)
		return res
	}
	for _, pkg := range pkgs {
		info := pkg.TypesInfo
		for _, file := range pkg.Syntax {
			if !scope.InFile(file.Pos()) {
				continue
			}
			for _, d := range file.Decls {
				fd, ok := d.(*ast.FuncDecl)
				if !ok || fd.Body == nil {
					continue
				}
				for _, fl := range fd.Type.Params.List {
					for _, n := range fl.Names {
						if n.Name != "work" && n.Name != "iwork" {
							continue
						}
						o := info.Defs[n]
						if o == nil {
							continue
						}
						if _, isSlice := o.Type().Underlying().(*types.Slice); !isSlice {
							continue
						}
						workInitFunc(res, info, core.FuncName(pkg, fd), fd, o)
					}
				}
			}
		}
	}
	return res
}

func workInitFunc(res *core.Result, info *types.Info, name string, fd *ast.FuncDecl, w types.Object) {
	// reslices of work are work: v := work[a:b]
	alias := map[types.Object]bool{w: true}
	for changed := true; changed; {
		changed = false
		ast.Inspect(fd.Body, func(n ast.Node) bool {
			as, ok := n.(*ast.AssignStmt)
			if !ok || len(as.Lhs) != len(as.Rhs) {
				return true
			}
			for i, l := range as.Lhs {
				id, ok := l.(*ast.Ident)
				if !ok {
					continue
				}
				r := ast.Unparen(as.Rhs[i])
				for {
					if se, ok := r.(*ast.SliceExpr); ok {
						r = ast.Unparen(se.X)
						continue
					}
					break
				}
				if rid, ok := r.(*ast.Ident); ok && alias[core.ObjOf(info, rid)] {
					if o := core.ObjOf(info, id); o != nil && !alias[o] {
						alias[o] = true
						changed = true
					}
				}
			}
			return true
		})
	}
	root := func(e ast.Expr) bool {
		for {
			switch x := ast.Unparen(e).(type) {
			case *ast.SliceExpr:
				e = x.X
			case *ast.IndexExpr:
				e = x.X
			case *ast.Ident:
				return alias[core.ObjOf(info, x)]
			default:
				return false
			}
		}
	}
	// classify nodes
	isInit := func(nd ast.Node) bool {
		found := false
		ast.Inspect(nd, func(y ast.Node) bool {
			switch x := y.(type) {
			case *ast.FuncLit:
				return false
			case *ast.AssignStmt:
				if x.Tok == token.ASSIGN || x.Tok == token.DEFINE {
					for _, l := range x.Lhs {
						if ix, ok := ast.Unparen(l).(*ast.IndexExpr); ok && root(ix.X) {
							found = true
						}
					}
				}
			case *ast.CallExpr:
				if id, ok := x.Fun.(*ast.Ident); ok && (id.Name == "len" || id.Name == "cap" || id.Name == "panic") {
					return false
				}
				for _, a := range x.Args {
					if _, isIdx := ast.Unparen(a).(*ast.IndexExpr); isIdx {
						continue
					}
					if root(a) {
						found = true
					}
				}
			}
			return !found
		})
		return found
	}
	type siteT struct {
		node ast.Node
		what string
	}
	var sites []siteT
	lhsPlain := map[ast.Node]bool{}
	ast.Inspect(fd.Body, func(n ast.Node) bool {
		switch x := n.(type) {
		case *ast.FuncLit:
			return false
		case *ast.AssignStmt:
			for _, l := range x.Lhs {
				if ix, ok := ast.Unparen(l).(*ast.IndexExpr); ok && root(ix.X) {
					if x.Tok == token.ASSIGN || x.Tok == token.DEFINE {
						lhsPlain[ix] = true
					} else {
						sites = append(sites, siteT{ix, types.ExprString(ix) + " " + x.Tok.String()})
						lhsPlain[ix] = true
					}
				}
			}
		case *ast.IncDecStmt:
			if ix, ok := ast.Unparen(x.X).(*ast.IndexExpr); ok && root(ix.X) {
				sites = append(sites, siteT{ix, types.ExprString(ix) + x.Tok.String()})
				lhsPlain[ix] = true
			}
		case *ast.IndexExpr:
			if !lhsPlain[x] && root(x.X) {
				sites = append(sites, siteT{x, "read of " + types.ExprString(x)})
			}
		}
		return true
	})
	if len(sites) == 0 {
		return
	}
	res.Count("routines_accessing_work_elements", 1)
	g := cfgx.New(fd.Body, info)
	// A loop whose body stores into work initialises it "for as many
	// elements as there are": when it runs zero times the loops that read
	// work run zero times too (same bounds). Passing the loop's condition
	// (or range expression) therefore counts as the initialisation.
	loopHead := map[int32]bool{}
	ast.Inspect(fd.Body, func(n ast.Node) bool {
		switch x := n.(type) {
		case *ast.ForStmt:
			if x.Cond != nil && isInit(x.Body) {
				if loc, ok := g.Where[x.Cond]; ok {
					loopHead[loc.Block] = true
				}
			}
		case *ast.RangeStmt:
			if isInit(x.Body) {
				if loc, ok := g.Where[x.X]; ok {
					loopHead[loc.Block] = true
				}
			}
		}
		return true
	})
	must := g.MustPass(func(b *cfg.Block) bool {
		if loopHead[b.Index] {
			return true
		}
		for _, nd := range b.Nodes {
			if isInit(nd) {
				return true
			}
		}
		return false
	})
	reported := false
	for _, s := range sites {
		res.Obligations++
		res.Count("work_element_reads_and_updates", 1)
		loc, ok := g.Where[s.node]
		if !ok || must[loc.Block] {
			continue
		}
		okHere := false
		for i := 0; i < loc.Index; i++ {
			if isInit(g.Blocks[loc.Block].Nodes[i]) {
				okHere = true
			}
		}
		// the same statement may store first (work[i] = f(work[i]) is a read, though)
		if okHere || reported {
			continue
		}
		reported = true
		res.Add(core.Finding{Rule: "WORK.init", Key: fmt.Sprintf("WORK.init|%s|%s", name, w.Name()), Pos: core.Pos(s.node.Pos()), Func: name,
			Msg: fmt.Sprintf("%s (%s) is reached on a path on which nothing has been stored into %s yet: the content of the workspace on entry is unspecified, so a recycled workspace changes the result", s.what, w.Name(), w.Name())})
	}
}
