package flagx

import (
	"fmt"
	"go/ast"
	"go/constant"
	"go/token"
	"go/types"

	"golang.org/x/tools/go/cfg"

	"gverif/cfgx"
	"gverif/core"
)

// RunSentinelIndex implements SENTINEL.index: a field of the receiver that some
// method of the package sets to the constant -1 ("none yet") and that is used
// as an index — in an index expression, or as the row/column argument of
// mat.Row, mat.Col, At, Set — is used only where it cannot still hold -1:
// on the control-flow graph of the using method pruned under "field == -1"
// (field < 0 true, field >= 0 false, …) the use is unreachable unless an
// assignment to the field precedes it.
func RunSentinelIndex(cfgc core.Config, scope core.Scope) *core.Result {
	res := core.NewResult("SENTINELIDX")
	res.Rules = append(res.Rules, "SENTINEL.index: a struct field that the package sets to -1 is used as an index only where, on the CFG pruned under field == -1, an assignment to the field precedes the use")
	res.Configs = append(res.Configs, cfgc.String())
	pkgs, err := core.Load(cfgc, scope.Patterns...)
	if err != nil {
		res.Brokenf("%v", err)
		return res
	}
	for _, pkg := range pkgs {
		info := pkg.TypesInfo
		isMinusOne := func(e ast.Expr) bool {
			tv, ok := info.Types[e]
			return ok && tv.Value != nil && tv.Value.Kind() == constant.Int && tv.Value.ExactString() == "-1"
		}
		fieldOf := func(e ast.Expr) *types.Var {
			sel, ok := ast.Unparen(e).(*ast.SelectorExpr)
			if !ok {
				return nil
			}
			v, _ := info.Uses[sel.Sel].(*types.Var)
			if v == nil || !v.IsField() {
				return nil
			}
			return v
		}
		sentinel := map[*types.Var]bool{}
		for _, f := range pkg.Syntax {
			ast.Inspect(f, func(n ast.Node) bool {
				switch x := n.(type) {
				case *ast.AssignStmt:
					if len(x.Lhs) == len(x.Rhs) {
						for i, l := range x.Lhs {
							if v := fieldOf(l); v != nil && isMinusOne(x.Rhs[i]) {
								sentinel[v] = true
							}
						}
					}
				case *ast.KeyValueExpr:
					if id, ok := x.Key.(*ast.Ident); ok && isMinusOne(x.Value) {
						if v, _ := info.Uses[id].(*types.Var); v != nil && v.IsField() {
							sentinel[v] = true
						}
					}
				}
				return true
			})
		}
		res.Count("fields_set_to_minus_one", len(sentinel))
		for _, f := range pkg.Syntax {
			if !scope.InFile(f.Pos()) {
				continue
			}
			for _, d := range f.Decls {
				fd, ok := d.(*ast.FuncDecl)
				if !ok || fd.Body == nil {
					continue
				}
				name := core.FuncName(pkg, fd)
				if fd.Recv == nil || len(fd.Recv.List) != 1 || len(fd.Recv.List[0].Names) != 1 {
					continue
				}
				recv := info.Defs[fd.Recv.List[0].Names[0]]
				onRecv := func(e ast.Expr) bool {
					sel, ok := ast.Unparen(e).(*ast.SelectorExpr)
					if !ok {
						return false
					}
					id, ok := ast.Unparen(sel.X).(*ast.Ident)
					return ok && recv != nil && core.ObjOf(info, id) == recv
				}
				type use struct {
					at  ast.Node
					v   *types.Var
					txt string
				}
				var uses []use
				ast.Inspect(fd.Body, func(n ast.Node) bool {
					switch x := n.(type) {
					case *ast.IndexExpr:
						if v := fieldOf(x.Index); v != nil && sentinel[v] && onRecv(x.Index) {
							uses = append(uses, use{x, v, types.ExprString(x)})
						}
					case *ast.CallExpr:
						var fn string
						switch f := x.Fun.(type) {
						case *ast.SelectorExpr:
							fn = f.Sel.Name
						case *ast.Ident:
							fn = f.Name
						}
						switch fn {
						case "Row", "Col", "At", "Set", "AtVec", "SetVec", "RowView", "ColView":
							for _, a := range x.Args {
								if v := fieldOf(a); v != nil && sentinel[v] && onRecv(a) {
									uses = append(uses, use{x, v, types.ExprString(x)})
								}
							}
						}
					}
					return true
				})
				for _, u := range uses {
					res.Obligations++
					res.Count("index_uses_of_sentinel_fields", 1)
					g := cfgx.New(fd.Body, info)
					g.Keep = cfgx.KeepUnder(cfgx.WithBoolDefs(info, fd.Body, func(e ast.Expr) (bool, bool) {
						be, ok := ast.Unparen(e).(*ast.BinaryExpr)
						if !ok {
							return false, false
						}
						x, y, op := be.X, be.Y, be.Op
						if fieldOf(y) == u.v {
							x, y = y, x
							switch op {
							case token.LSS:
								op = token.GTR
							case token.GTR:
								op = token.LSS
							case token.LEQ:
								op = token.GEQ
							case token.GEQ:
								op = token.LEQ
							}
						}
						if fieldOf(x) != u.v {
							return false, false
						}
						tv, ok := info.Types[y]
						if !ok || tv.Value == nil || tv.Value.Kind() != constant.Int {
							return false, false
						}
						c, _ := constant.Int64Val(tv.Value)
						// value of the field is -1
						switch op {
						case token.EQL:
							return c == -1, true
						case token.NEQ:
							return c != -1, true
						case token.LSS:
							return -1 < c, true
						case token.LEQ:
							return -1 <= c, true
						case token.GTR:
							return -1 > c, true
						case token.GEQ:
							return -1 >= c, true
						}
						return false, false
					}))
					loc, ok := g.Where[u.at]
					if !ok {
						continue
					}
					killAt := func(b *cfg.Block) int {
						for i, n := range b.Nodes {
							hit := false
							ast.Inspect(n, func(m ast.Node) bool {
								if as, ok := m.(*ast.AssignStmt); ok {
									for _, l := range as.Lhs {
										if fieldOf(l) == u.v {
											hit = true
										}
									}
								}
								return true
							})
							if hit {
								return i
							}
						}
						return -1
					}
					seen := make([]bool, len(g.Blocks))
					reached := false
					var walk func(b *cfg.Block)
					walk = func(b *cfg.Block) {
						if seen[b.Index] || reached {
							return
						}
						seen[b.Index] = true
						k := killAt(b)
						if int32(b.Index) == loc.Block {
							if k < 0 || k >= loc.Index {
								reached = true
							}
							return
						}
						if k >= 0 {
							return
						}
						for _, s := range g.Succs(b) {
							walk(s)
						}
					}
					if len(g.Blocks) > 0 {
						walk(g.Blocks[0])
					}
					if reached {
						res.Add(core.Finding{Rule: "SENTINEL.index", Key: fmt.Sprintf("SENTINEL.index|%s|%s", name, u.v.Name()), Pos: core.Pos(u.at.Pos()), Func: name,
							Msg: fmt.Sprintf("%s uses %s as an index in %s on a path where it can still hold the sentinel -1 it is initialised with: the access faults instead of handling 'none yet'", name, u.v.Name(), u.txt)})
					}
				}
			}
		}
	}
	return res
}
