package flagx

import (
	"fmt"
	"go/ast"
	"go/constant"
	"go/token"
	"go/types"

	"gverif/core"
)

// RunBetaZero implements BETA.noread: "beta == 0 overwrites": in the code
// selected by the test beta == 0 the result operand is assigned, never read.
// BLAS defines the result for beta == 0 without reference to the old content
// of y or C, so that NaN or Inf left in the output storage must not
// propagate; `c[i] *= beta`, `vc*beta + …` or a scaling kernel on that arm
// multiply the old content by zero instead.
//
// For every if/else or tagless-switch arm whose condition is exactly
// `beta == 0` on a parameter named beta, the operands stored in the arm
// (through local reslices, whose roots are resolved) are collected; an
// element read, a compound assignment, a value-carrying range or a call
// taking the operand in the same arm is reported.
func RunBetaZero(cfg core.Config, scope core.Scope) *core.Result {
	res := core.NewResult("BETA")
	res.Rules = append(res.Rules, "BETA.noread: in the arm selected by beta == 0 the operand being assigned is not read (no element read, compound assignment, value range or call on it)")
	res.Rules = append(res.Rules, "BETA.quickret: a routine with a beta parameter returns at once for alpha == 0 or for an empty inner dimension k == 0 only when beta == 1 also holds (three-valued evaluation of every bare-return guard with the output dimensions positive and beta different from 0 and 1)")
	res.Configs = append(res.Configs, cfg.String())
	pkgs, err := core.Load(cfg, scope.Patterns...)
	if err != nil {
		res.Brokenf("%v", err)
		return res
	}
	for _, pkg := range pkgs {
		info := pkg.TypesInfo
		for _, file := range pkg.Syntax {
			if !scope.InFile(file.Pos()) {
				continue
			}
			for _, d := range file.Decls {
				fd, ok := d.(*ast.FuncDecl)
				if !ok || fd.Body == nil {
					continue
				}
				var beta types.Object
				for _, fl := range fd.Type.Params.List {
					for _, n := range fl.Names {
						if n.Name == "beta" {
							beta = info.Defs[n]
						}
					}
				}
				if beta == nil {
					continue
				}
				name := core.FuncName(pkg, fd)
				// roots of local reslices: v := p[...]  ->  root(v) = root(p)
				root := map[types.Object]types.Object{}
				ast.Inspect(fd.Body, func(n ast.Node) bool {
					as, ok := n.(*ast.AssignStmt)
					if !ok || len(as.Lhs) != len(as.Rhs) {
						return true
					}
					for i, l := range as.Lhs {
						id, ok := l.(*ast.Ident)
						if !ok {
							continue
						}
						r := as.Rhs[i]
						for {
							if se, ok := r.(*ast.SliceExpr); ok {
								r = se.X
								continue
							}
							break
						}
						if rid, ok := r.(*ast.Ident); ok {
							lo, ro := core.ObjOf(info, id), core.ObjOf(info, rid)
							if lo != nil && ro != nil && lo != ro {
								if _, isSlice := lo.Type().Underlying().(*types.Slice); isSlice {
									root[lo] = ro
								}
							}
						}
					}
					return true
				})
				rootOf := func(o types.Object) types.Object {
					for i := 0; i < 8; i++ {
						if r, ok := root[o]; ok {
							o = r
						} else {
							break
						}
					}
					return o
				}
				sliceRoot := func(e ast.Expr) types.Object {
					for {
						switch x := e.(type) {
						case *ast.ParenExpr:
							e = x.X
						case *ast.SliceExpr:
							e = x.X
						case *ast.IndexExpr:
							e = x.X
						case *ast.Ident:
							o := core.ObjOf(info, x)
							if o == nil {
								return nil
							}
							if _, isSlice := o.Type().Underlying().(*types.Slice); !isSlice {
								return nil
							}
							return rootOf(o)
						default:
							return nil
						}
					}
				}
				isBetaZero := func(e ast.Expr) bool {
					be, ok := ast.Unparen(e).(*ast.BinaryExpr)
					if !ok || be.Op != token.EQL {
						return false
					}
					id, ok := ast.Unparen(be.X).(*ast.Ident)
					if !ok || core.ObjOf(info, id) != beta {
						return false
					}
					tv, ok := info.Types[be.Y]
					if !ok || tv.Value == nil {
						return false
					}
					switch tv.Value.Kind() {
					case constant.Int, constant.Float:
						return constant.Sign(tv.Value) == 0
					case constant.Complex:
						return constant.Sign(constant.Real(tv.Value)) == 0 && constant.Sign(constant.Imag(tv.Value)) == 0
					}
					return false
				}
				checkArm := func(body []ast.Stmt, at token.Pos) {
					res.Count("beta_zero_arms", 1)
					written := map[types.Object]bool{}
					for _, st := range body {
						ast.Inspect(st, func(n ast.Node) bool {
							if as, ok := n.(*ast.AssignStmt); ok {
								for _, l := range as.Lhs {
									if ix, ok := l.(*ast.IndexExpr); ok {
										if r := sliceRoot(ix.X); r != nil {
											written[r] = true
										}
									}
								}
							}
							return true
						})
					}
					if len(written) == 0 {
						return
					}
					res.Obligations++
					res.Count("beta_zero_arms_storing_an_operand", 1)
					report := func(pos token.Pos, what string) {
						res.Add(core.Finding{Rule: "BETA.noread", Key: fmt.Sprintf("BETA.noread|%s|%s", name, what), Pos: core.Pos(pos), Func: name,
							Msg: fmt.Sprintf("in the arm selected by beta == 0 (test at %s) %s: the old content of the result operand is read, so NaN/Inf left in the output storage propagates although beta == 0 defines the result without it", core.Pos(at), what)})
					}
					for _, st := range body {
						ast.Inspect(st, func(n ast.Node) bool {
							switch x := n.(type) {
							case *ast.AssignStmt:
								for _, l := range x.Lhs {
									if ix, ok := l.(*ast.IndexExpr); ok {
										if r := sliceRoot(ix.X); r != nil && written[r] && x.Tok != token.ASSIGN && x.Tok != token.DEFINE {
											report(x.Pos(), fmt.Sprintf("%s is updated with %s", types.ExprString(l), x.Tok))
										}
										// the index itself may read other things
										ast.Inspect(ix.Index, func(y ast.Node) bool { return true })
									}
								}
								for _, r := range x.Rhs {
									ast.Inspect(r, func(y ast.Node) bool {
										switch z := y.(type) {
										case *ast.IndexExpr:
											if rt := sliceRoot(z.X); rt != nil && written[rt] {
												report(z.Pos(), fmt.Sprintf("%s is read", types.ExprString(z)))
											}
										case *ast.CallExpr:
											if id, ok := z.Fun.(*ast.Ident); ok && (id.Name == "len" || id.Name == "cap") {
												return false
											}
											for _, a := range z.Args {
												if rt := sliceRoot(a); rt != nil && written[rt] {
													if _, isIdx := ast.Unparen(a).(*ast.IndexExpr); !isIdx {
														report(z.Pos(), fmt.Sprintf("%s is passed to %s", types.ExprString(a), types.ExprString(z.Fun)))
													}
												}
											}
										}
										return true
									})
								}
								return false
							case *ast.RangeStmt:
								if x.Value != nil {
									if id, ok := x.Value.(*ast.Ident); !ok || id.Name != "_" {
										if rt := sliceRoot(x.X); rt != nil && written[rt] {
											report(x.Pos(), fmt.Sprintf("the elements of %s are ranged over by value", types.ExprString(x.X)))
										}
									}
								}
							case *ast.ExprStmt:
								if c, ok := x.X.(*ast.CallExpr); ok {
									for _, a := range c.Args {
										if rt := sliceRoot(a); rt != nil && written[rt] {
											report(c.Pos(), fmt.Sprintf("%s is passed to %s", types.ExprString(a), types.ExprString(c.Fun)))
										}
									}
								}
							}
							return true
						})
					}
				}
				quickReturns(res, info, fd, name, beta)
				ast.Inspect(fd.Body, func(n ast.Node) bool {
					switch s := n.(type) {
					case *ast.IfStmt:
						if isBetaZero(s.Cond) {
							checkArm(s.Body.List, s.Pos())
						}
					case *ast.SwitchStmt:
						if s.Tag != nil {
							return true
						}
						for _, c := range s.Body.List {
							cc := c.(*ast.CaseClause)
							if len(cc.List) == 1 && isBetaZero(cc.List[0]) {
								checkArm(cc.Body, cc.Pos())
							}
						}
					}
					return true
				})
			}
		}
	}
	return res
}

// quickReturns implements BETA.quickret. With beta != 1 the result operand
// must be scaled by beta even when alpha == 0 or the inner dimension k is
// empty (C = beta*C); only an empty output (m == 0 or n == 0) needs no work.
// Every top-level `if cond { return }` of the routine is evaluated in
// three-valued logic under two scenarios, each with beta == 0 and beta == 1
// false and every other `dim == 0` false: (A) k == 0 true, alpha == 0 false;
// (B) alpha == 0 true, k == 0 false. A guard that is definitely true in a
// scenario returns without scaling the output.
func quickReturns(res *core.Result, info *types.Info, fd *ast.FuncDecl, name string, beta types.Object) {
	params := map[types.Object]string{}
	for _, fl := range fd.Type.Params.List {
		for _, n := range fl.Names {
			if o := info.Defs[n]; o != nil {
				params[o] = n.Name
			}
		}
	}
	const (
		f = iota
		t
		u
	)
	var eval func(e ast.Expr, scen string) int
	eval = func(e ast.Expr, scen string) int {
		switch x := ast.Unparen(e).(type) {
		case *ast.BinaryExpr:
			switch x.Op {
			case token.LAND:
				a, b := eval(x.X, scen), eval(x.Y, scen)
				if a == f || b == f {
					return f
				}
				if a == t && b == t {
					return t
				}
				return u
			case token.LOR:
				a, b := eval(x.X, scen), eval(x.Y, scen)
				if a == t || b == t {
					return t
				}
				if a == f && b == f {
					return f
				}
				return u
			case token.EQL, token.NEQ:
				id, ok := ast.Unparen(x.X).(*ast.Ident)
				if !ok {
					return u
				}
				pn, ok := params[core.ObjOf(info, id)]
				if !ok {
					return u
				}
				tv, ok := info.Types[x.Y]
				if !ok || tv.Value == nil {
					return u
				}
				v := f
				switch {
				case pn == "beta":
					v = f
				case pn == scen:
					if !isZeroConst(tv.Value) {
						return u
					}
					v = t
				default:
					if !isZeroConst(tv.Value) {
						return u
					}
					if _, isInt := core.ObjOf(info, id).Type().Underlying().(*types.Basic); !isInt {
						return u
					}
					v = f
				}
				if x.Op == token.NEQ {
					v = 1 - v
				}
				return v
			}
		case *ast.UnaryExpr:
			if x.Op == token.NOT {
				switch eval(x.X, scen) {
				case t:
					return f
				case f:
					return t
				}
			}
		}
		return u
	}
	// only the prologue is examined: the guards in front of the first
	// statement that can touch an operand (after `if beta != 1 { scale y }`
	// a return for alpha == 0 is correct)
	exitsOnly := func(body []ast.Stmt) bool {
		if len(body) == 0 {
			return false
		}
		switch l := body[len(body)-1].(type) {
		case *ast.ReturnStmt:
			return len(body) == 1
		case *ast.ExprStmt:
			if c, ok := l.X.(*ast.CallExpr); ok {
				if id, ok := c.Fun.(*ast.Ident); ok && id.Name == "panic" {
					return len(body) == 1
				}
			}
		}
		return false
	}
	for _, st := range fd.Body.List {
		switch x := st.(type) {
		case *ast.AssignStmt, *ast.DeclStmt:
			continue
		case *ast.SwitchStmt:
			all := true
			for _, c := range x.Body.List {
				if !exitsOnly(c.(*ast.CaseClause).Body) {
					all = false
				}
			}
			if all || scalarOnly(x) {
				continue
			}
			return
		case *ast.IfStmt:
			if x.Else == nil && exitsOnly(x.Body.List) {
				break
			}
			// if/else chains made of exits only
			chain, ok := ast.Stmt(x), true
			for chain != nil && ok {
				switch c := chain.(type) {
				case *ast.IfStmt:
					ok = exitsOnly(c.Body.List)
					chain = c.Else
				case *ast.BlockStmt:
					ok = exitsOnly(c.List)
					chain = nil
				default:
					ok = false
				}
			}
			if ok || scalarOnly(x) {
				continue
			}
			return
		default:
			return
		}
		is, ok := st.(*ast.IfStmt)
		if !ok || is.Else != nil || is.Init != nil || len(is.Body.List) != 1 {
			continue
		}
		rs, ok := is.Body.List[0].(*ast.ReturnStmt)
		if !ok || len(rs.Results) != 0 {
			continue
		}
		for _, scen := range []string{"k", "alpha"} {
			mentions := false
			ast.Inspect(is.Cond, func(n ast.Node) bool {
				if id, ok := n.(*ast.Ident); ok && params[core.ObjOf(info, id)] == scen {
					mentions = true
				}
				return true
			})
			if !mentions {
				continue
			}
			res.Obligations++
			res.Count("quick_return_guards_on_"+scen, 1)
			if eval(is.Cond, scen) == t {
				res.Add(core.Finding{Rule: "BETA.quickret", Key: fmt.Sprintf("BETA.quickret|%s|%s", name, scen), Pos: core.Pos(is.Pos()), Func: name,
					Msg: fmt.Sprintf("%s returns at once under `%s`, which holds for %s == 0 with a non-empty result and beta != 1: the result operand is then left unscaled although the operation defines it as beta times its old content", name, types.ExprString(is.Cond), scen)})
			}
		}
	}
}

func isZeroConst(v constant.Value) bool {
	switch v.Kind() {
	case constant.Int, constant.Float:
		return constant.Sign(v) == 0
	case constant.Complex:
		return constant.Sign(constant.Real(v)) == 0 && constant.Sign(constant.Imag(v)) == 0
	}
	return false
}

// scalarOnly reports whether an if/else chain only assigns to plain
// identifiers (lenX = n, ...), so that it cannot touch an operand.
func scalarOnly(is ast.Stmt) bool {
	ok := true
	ast.Inspect(is, func(n ast.Node) bool {
		switch x := n.(type) {
		case *ast.AssignStmt:
			for _, l := range x.Lhs {
				if _, isID := l.(*ast.Ident); !isID {
					ok = false
				}
			}
		case *ast.CallExpr:
			if id, isID := x.Fun.(*ast.Ident); !isID || (id.Name != "len" && id.Name != "min" && id.Name != "max" && id.Name != "panic") {
				ok = false
			}
		case *ast.ForStmt, *ast.RangeStmt, *ast.IncDecStmt, *ast.ReturnStmt:
			ok = false
		}
		return ok
	})
	return ok
}
