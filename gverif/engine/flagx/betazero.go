package flagx

import (
	"fmt"
	"go/ast"
	"go/constant"
	"go/token"
	"go/types"

	"gverif/core"
)

// RunBetaZero implements BETA.noread: "beta == 0 overwrites": in the code
// selected by the test beta == 0 the result operand is assigned, never read.
// BLAS defines the result for beta == 0 without reference to the old content
// of y or C, so that NaN or Inf left in the output storage must not
// propagate; `c[i] *= beta`, `vc*beta + …` or a scaling kernel on that arm
// multiply the old content by zero instead.
//
// For every if/else or tagless-switch arm whose condition is exactly
// `beta == 0` on a parameter named beta, the operands stored in the arm
// (through local reslices, whose roots are resolved) are collected; an
// element read, a compound assignment, a value-carrying range or a call
// taking the operand in the same arm is reported.
func RunBetaZero(cfg core.Config, scope core.Scope) *core.Result {
	res := core.NewResult("BETA")
	res.Rules = append(res.Rules, "BETA.noread: in the arm selected by beta == 0 the operand being assigned is not read (no element read, compound assignment, value range or call on it)")
	res.Configs = append(res.Configs, cfg.String())
	pkgs, err := core.Load(cfg, scope.Patterns...)
	if err != nil {
		res.Brokenf("%v", err)
		return res
	}
	for _, pkg := range pkgs {
		info := pkg.TypesInfo
		for _, file := range pkg.Syntax {
			if !scope.InFile(file.Pos()) {
				continue
			}
			for _, d := range file.Decls {
				fd, ok := d.(*ast.FuncDecl)
				if !ok || fd.Body == nil {
					continue
				}
				var beta types.Object
				for _, fl := range fd.Type.Params.List {
					for _, n := range fl.Names {
						if n.Name == "beta" {
							beta = info.Defs[n]
						}
					}
				}
				if beta == nil {
					continue
				}
				name := core.FuncName(pkg, fd)
				// roots of local reslices: v := p[...]  ->  root(v) = root(p)
				root := map[types.Object]types.Object{}
				ast.Inspect(fd.Body, func(n ast.Node) bool {
					as, ok := n.(*ast.AssignStmt)
					if !ok || len(as.Lhs) != len(as.Rhs) {
						return true
					}
					for i, l := range as.Lhs {
						id, ok := l.(*ast.Ident)
						if !ok {
							continue
						}
						r := as.Rhs[i]
						for {
							if se, ok := r.(*ast.SliceExpr); ok {
								r = se.X
								continue
							}
							break
						}
						if rid, ok := r.(*ast.Ident); ok {
							lo, ro := core.ObjOf(info, id), core.ObjOf(info, rid)
							if lo != nil && ro != nil && lo != ro {
								if _, isSlice := lo.Type().Underlying().(*types.Slice); isSlice {
									root[lo] = ro
								}
							}
						}
					}
					return true
				})
				rootOf := func(o types.Object) types.Object {
					for i := 0; i < 8; i++ {
						if r, ok := root[o]; ok {
							o = r
						} else {
							break
						}
					}
					return o
				}
				sliceRoot := func(e ast.Expr) types.Object {
					for {
						switch x := e.(type) {
						case *ast.ParenExpr:
							e = x.X
						case *ast.SliceExpr:
							e = x.X
						case *ast.IndexExpr:
							e = x.X
						case *ast.Ident:
							o := core.ObjOf(info, x)
							if o == nil {
								return nil
							}
							if _, isSlice := o.Type().Underlying().(*types.Slice); !isSlice {
								return nil
							}
							return rootOf(o)
						default:
							return nil
						}
					}
				}
				isBetaZero := func(e ast.Expr) bool {
					be, ok := ast.Unparen(e).(*ast.BinaryExpr)
					if !ok || be.Op != token.EQL {
						return false
					}
					id, ok := ast.Unparen(be.X).(*ast.Ident)
					if !ok || core.ObjOf(info, id) != beta {
						return false
					}
					tv, ok := info.Types[be.Y]
					if !ok || tv.Value == nil {
						return false
					}
					switch tv.Value.Kind() {
					case constant.Int, constant.Float:
						return constant.Sign(tv.Value) == 0
					case constant.Complex:
						return constant.Sign(constant.Real(tv.Value)) == 0 && constant.Sign(constant.Imag(tv.Value)) == 0
					}
					return false
				}
				checkArm := func(body []ast.Stmt, at token.Pos) {
					res.Count("beta_zero_arms", 1)
					written := map[types.Object]bool{}
					for _, st := range body {
						ast.Inspect(st, func(n ast.Node) bool {
							if as, ok := n.(*ast.AssignStmt); ok {
								for _, l := range as.Lhs {
									if ix, ok := l.(*ast.IndexExpr); ok {
										if r := sliceRoot(ix.X); r != nil {
											written[r] = true
										}
									}
								}
							}
							return true
						})
					}
					if len(written) == 0 {
						return
					}
					res.Obligations++
					res.Count("beta_zero_arms_storing_an_operand", 1)
					report := func(pos token.Pos, what string) {
						res.Add(core.Finding{Rule: "BETA.noread", Key: fmt.Sprintf("BETA.noread|%s|%s", name, what), Pos: core.Pos(pos), Func: name,
							Msg: fmt.Sprintf("in the arm selected by beta == 0 (test at %s) %s: the old content of the result operand is read, so NaN/Inf left in the output storage propagates although beta == 0 defines the result without it", core.Pos(at), what)})
					}
					for _, st := range body {
						ast.Inspect(st, func(n ast.Node) bool {
							switch x := n.(type) {
							case *ast.AssignStmt:
								for _, l := range x.Lhs {
									if ix, ok := l.(*ast.IndexExpr); ok {
										if r := sliceRoot(ix.X); r != nil && written[r] && x.Tok != token.ASSIGN && x.Tok != token.DEFINE {
											report(x.Pos(), fmt.Sprintf("%s is updated with %s", types.ExprString(l), x.Tok))
										}
										// the index itself may read other things
										ast.Inspect(ix.Index, func(y ast.Node) bool { return true })
									}
								}
								for _, r := range x.Rhs {
									ast.Inspect(r, func(y ast.Node) bool {
										switch z := y.(type) {
										case *ast.IndexExpr:
											if rt := sliceRoot(z.X); rt != nil && written[rt] {
												report(z.Pos(), fmt.Sprintf("%s is read", types.ExprString(z)))
											}
										case *ast.CallExpr:
											if id, ok := z.Fun.(*ast.Ident); ok && (id.Name == "len" || id.Name == "cap") {
												return false
											}
											for _, a := range z.Args {
												if rt := sliceRoot(a); rt != nil && written[rt] {
													if _, isIdx := ast.Unparen(a).(*ast.IndexExpr); !isIdx {
														report(z.Pos(), fmt.Sprintf("%s is passed to %s", types.ExprString(a), types.ExprString(z.Fun)))
													}
												}
											}
										}
										return true
									})
								}
								return false
							case *ast.RangeStmt:
								if x.Value != nil {
									if id, ok := x.Value.(*ast.Ident); !ok || id.Name != "_" {
										if rt := sliceRoot(x.X); rt != nil && written[rt] {
											report(x.Pos(), fmt.Sprintf("the elements of %s are ranged over by value", types.ExprString(x.X)))
										}
									}
								}
							case *ast.ExprStmt:
								if c, ok := x.X.(*ast.CallExpr); ok {
									for _, a := range c.Args {
										if rt := sliceRoot(a); rt != nil && written[rt] {
											report(c.Pos(), fmt.Sprintf("%s is passed to %s", types.ExprString(a), types.ExprString(c.Fun)))
										}
									}
								}
							}
							return true
						})
					}
				}
				ast.Inspect(fd.Body, func(n ast.Node) bool {
					switch s := n.(type) {
					case *ast.IfStmt:
						if isBetaZero(s.Cond) {
							checkArm(s.Body.List, s.Pos())
						}
					case *ast.SwitchStmt:
						if s.Tag != nil {
							return true
						}
						for _, c := range s.Body.List {
							cc := c.(*ast.CaseClause)
							if len(cc.List) == 1 && isBetaZero(cc.List[0]) {
								checkArm(cc.Body, cc.Pos())
							}
						}
					}
					return true
				})
			}
		}
	}
	return res
}
