package flagx

import (
	"fmt"
	"go/ast"
	"go/token"
	"go/types"
	"strings"

	"gverif/cfgx"
	"gverif/core"
)

// RunLenValue implements ARGS.lenvalue: the routines of blas/gonum and
// lapack/gonum take the problem dimensions as explicit integer arguments and
// only require their slice operands to be *long enough* (callers hand over
// reslices and over-allocated buffers), so the length of a slice parameter is
// a quantity to check against, never one to compute with: every len(p) of a
// slice parameter is an operand of a comparison. Used as an element count, a
// loop bound or a callee argument it makes the result depend on how much
// storage follows the operand (a Frobenius norm summed over len(a) elements
// instead of the m×n it was asked for).
func RunLenValue(cfgc core.Config, scope core.Scope) *core.Result {
	res := core.NewResult("LENVALUE")
	res.Rules = append(res.Rules, "ARGS.lenvalue: in blas/gonum and lapack/gonum len(p) of a slice parameter occurs only as an operand of a comparison (an argument check), never as a count, bound or argument")
	res.Configs = append(res.Configs, cfgc.String())
	pkgs, err := core.Load(cfgc, scope.Patterns...)
	if err != nil {
		res.Brokenf("%v", err)
		return res
	}
	for _, pkg := range pkgs {
		info := pkg.TypesInfo
		// the convenience layers (blas64, lapack64) derive dimensions from
		// their struct and slice arguments by design
		if !strings.HasSuffix(pkg.PkgPath, "/blas/gonum") && !strings.HasSuffix(pkg.PkgPath, "/lapack/gonum") {
			continue
		}
		for _, file := range pkg.Syntax {
			if !scope.InFile(file.Pos()) {
				continue
			}
			for _, d := range file.Decls {
				fd, ok := d.(*ast.FuncDecl)
				if !ok || fd.Body == nil || !ast.IsExported(fd.Name.Name) {
					continue
				}
				params := map[types.Object]bool{}
				hasInt := false
				for _, fl := range fd.Type.Params.List {
					for _, n := range fl.Names {
						o := info.Defs[n]
						if o == nil {
							continue
						}
						switch t := o.Type().Underlying().(type) {
						case *types.Slice:
							params[o] = true
						case *types.Basic:
							if t.Kind() == types.Int {
								hasInt = true
							}
						}
					}
				}
				if len(params) == 0 || !hasInt {
					continue
				}
				name := core.FuncName(pkg, fd)
				parents := cfgx.Parents(fd.Body)
				ast.Inspect(fd.Body, func(n ast.Node) bool {
					c, ok := n.(*ast.CallExpr)
					if !ok || len(c.Args) != 1 {
						return true
					}
					id, ok := c.Fun.(*ast.Ident)
					if !ok || id.Name != "len" {
						return true
					}
					if _, isBuiltin := info.Uses[id].(*types.Builtin); !isBuiltin {
						return true
					}
					pid, ok := ast.Unparen(c.Args[0]).(*ast.Ident)
					if !ok || !params[core.ObjOf(info, pid)] {
						return true
					}
					res.Obligations++
					res.Count("lengths_of_slice_parameters", 1)
					// climb through parentheses, arithmetic and min/max
					var climb func(start ast.Node, depth int) bool
					climb = func(start ast.Node, depth int) bool {
						var cur ast.Node = start
						compared := false
						for {
							p := parents[cur]
							switch x := p.(type) {
							case *ast.ParenExpr:
								cur = x
								continue
							case *ast.BinaryExpr:
								switch x.Op {
								case token.LSS, token.LEQ, token.GTR, token.GEQ, token.EQL, token.NEQ:
									compared = true
								case token.ADD, token.SUB, token.MUL, token.QUO:
									cur = x
									continue
								}
							case *ast.CallExpr:
								if f, ok := x.Fun.(*ast.Ident); ok && (f.Name == "min" || f.Name == "max") {
									cur = x
									continue
								}
							}
							// lx := len(x): every use of the local must be compared
							if as, ok := p.(*ast.AssignStmt); ok && depth < 2 && len(as.Lhs) == len(as.Rhs) {
								for i, r := range as.Rhs {
									if ast.Node(r) != cur {
										continue
									}
									lid, ok := as.Lhs[i].(*ast.Ident)
									if !ok {
										return false
									}
									o := core.ObjOf(info, lid)
									all, any := true, false
									ast.Inspect(fd.Body, func(k ast.Node) bool {
										if id, ok := k.(*ast.Ident); ok && id != lid && core.ObjOf(info, id) == o {
											any = true
											if !climb(id, depth+1) {
												all = false
											}
										}
										return true
									})
									return any && all
								}
							}
							break
						}
						return compared
					}
					compared := climb(c, 0)
					if !compared {
						res.Add(core.Finding{Rule: "ARGS.lenvalue", Key: fmt.Sprintf("ARGS.lenvalue|%s|%s", name, pid.Name), Pos: core.Pos(c.Pos()), Func: name,
							Msg: fmt.Sprintf("%s uses len(%s) as a value: the operand is only required to be long enough, so the result depends on how much storage follows the elements the call was asked to work on", name, pid.Name)})
					}
					return true
				})
			}
		}
	}
	return res
}
