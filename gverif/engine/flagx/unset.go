package flagx

import (
	"fmt"
	"go/ast"
	"go/constant"
	"go/token"
	"go/types"
	"os"
	"strings"

	"gverif/cfgx"
	"gverif/core"

	"golang.org/x/tools/go/cfg"
)

// RunUnset implements FLAG.unset: a job/flag variable of a blas or lapack
// enumeration whose zero value is not a member (all members are letters:
// lapack.GSVDJob, lapack.SVDJob, blas.Transpose, …) is assigned on every path
// before it is used. `var jobU lapack.GSVDJob` followed by an assignment under
// `if kind&GSVDU != 0` leaves the zero byte on the other path, which the
// LAPACK routine rejects as a bad job ("lapack: bad GSVDJobU").
func RunUnset(cfgc core.Config, scope core.Scope) *core.Result {
	res := core.NewResult("UNSET")
	res.Rules = append(res.Rules, "FLAG.unset: a local variable of a blas/lapack enumeration type without a zero member, declared without a value, is assigned on every control-flow path to each of its uses")
	res.Configs = append(res.Configs, cfgc.String())
	pkgs, err := core.Load(cfgc, scope.Patterns...)
	if err != nil {
		res.Brokenf("%v", err)
		return res
	}
	zeroless := map[*types.TypeName]bool{}
	isZeroless := func(t types.Type) bool {
		n, ok := t.(*types.Named)
		if !ok || n.Obj().Pkg() == nil {
			return false
		}
		p := n.Obj().Pkg().Path()
		if p != core.ModPath+"/blas" && p != core.ModPath+"/lapack" {
			return false
		}
		if v, ok := zeroless[n.Obj()]; ok {
			return v
		}
		b, ok := n.Underlying().(*types.Basic)
		if !ok || b.Info()&types.IsInteger == 0 {
			zeroless[n.Obj()] = false
			return false
		}
		members, hasZero := 0, false
		sc := n.Obj().Pkg().Scope()
		for _, nm := range sc.Names() {
			if c, ok := sc.Lookup(nm).(*types.Const); ok && types.Identical(c.Type(), n) {
				members++
				if v, ok := constant.Int64Val(c.Val()); ok && v == 0 {
					hasZero = true
				}
			}
		}
		zeroless[n.Obj()] = members > 0 && !hasZero
		return zeroless[n.Obj()]
	}
	for _, pkg := range pkgs {
		info := pkg.TypesInfo
		for _, file := range pkg.Syntax {
			if !scope.InFile(file.Pos()) {
				continue
			}
			for _, d := range file.Decls {
				fd, ok := d.(*ast.FuncDecl)
				if !ok || fd.Body == nil {
					continue
				}
				name := core.FuncName(pkg, fd)
				vars := map[types.Object]bool{}
				ast.Inspect(fd.Body, func(n ast.Node) bool {
					ds, ok := n.(*ast.DeclStmt)
					if !ok {
						return true
					}
					gd, ok := ds.Decl.(*ast.GenDecl)
					if !ok || gd.Tok != token.VAR {
						return true
					}
					for _, sp := range gd.Specs {
						vs := sp.(*ast.ValueSpec)
						if len(vs.Values) != 0 {
							continue
						}
						for _, nm := range vs.Names {
							if o := info.Defs[nm]; o != nil && isZeroless(o.Type()) {
								vars[o] = true
							}
						}
					}
					return true
				})
				if len(vars) == 0 {
					continue
				}
				g := cfgx.New(fd.Body, info)
				par := cfgx.Parents(fd.Body)
				// variables assigned at most once (their conditions are stable)
				nassign := map[types.Object]int{}
				ast.Inspect(fd.Body, func(n ast.Node) bool {
					switch x := n.(type) {
					case *ast.AssignStmt:
						for _, l := range x.Lhs {
							if id, ok := l.(*ast.Ident); ok {
								if o := core.ObjOf(info, id); o != nil {
									nassign[o]++
								}
							}
						}
					case *ast.IncDecStmt:
						if id, ok := x.X.(*ast.Ident); ok {
							if o := core.ObjOf(info, id); o != nil {
								nassign[o] += 2
							}
						}
					}
					return true
				})
				// atomKey: a branch condition made of stable variables and
				// constants only, with leading negations stripped
				atomKey := func(e ast.Expr) (string, bool, bool) {
					neg := false
					for {
						e = ast.Unparen(e)
						if u, ok := e.(*ast.UnaryExpr); ok && u.Op == token.NOT {
							neg = !neg
							e = u.X
							continue
						}
						break
					}
					stable := true
					ast.Inspect(e, func(n ast.Node) bool {
						switch x := n.(type) {
						case *ast.CallExpr, *ast.IndexExpr, *ast.StarExpr:
							stable = false
						case *ast.Ident:
							if o, ok := core.ObjOf(info, x).(*types.Var); ok && nassign[o] > 1 {
								stable = false
							}
						}
						return stable
					})
					return types.ExprString(e), neg, stable
				}
				for v := range vars {
					res.Count("flag_variables_declared_without_a_value", 1)
					assignsIn := func(n ast.Node) bool {
						found := false
						ast.Inspect(n, func(y ast.Node) bool {
							if as, ok := y.(*ast.AssignStmt); ok {
								for _, l := range as.Lhs {
									if id, ok := l.(*ast.Ident); ok && core.ObjOf(info, id) == v {
										found = true
									}
								}
							}
							return !found
						})
						return found
					}
					lhs := map[*ast.Ident]bool{}
					var uses []*ast.Ident
					var anchors []ast.Node
					ast.Inspect(fd.Body, func(n ast.Node) bool {
						switch x := n.(type) {
						case *ast.AssignStmt:
							for _, l := range x.Lhs {
								if id, ok := l.(*ast.Ident); ok {
									lhs[id] = true
									if core.ObjOf(info, id) == v {
										anchors = append(anchors, x)
									}
								}
							}
						case *ast.Ident:
							if !lhs[x] && info.Uses[x] == v {
								uses = append(uses, x)
								anchors = append(anchors, x)
							}
						}
						return true
					})
					// the conditions that control an assignment or a use
					atoms := map[string]bool{}
					var addAtoms func(e ast.Expr)
					addAtoms = func(e ast.Expr) {
						e = ast.Unparen(e)
						if be, ok := e.(*ast.BinaryExpr); ok && (be.Op == token.LAND || be.Op == token.LOR) {
							addAtoms(be.X)
							addAtoms(be.Y)
							return
						}
						if k, _, stable := atomKey(e); stable {
							atoms[k] = true
						}
					}
					for _, a := range anchors {
						for n := par[a]; n != nil; n = par[n] {
							switch x := n.(type) {
							case *ast.IfStmt:
								addAtoms(x.Cond)
							case *ast.CaseClause:
								for _, e := range x.List {
									addAtoms(e)
								}
								// earlier clauses of a tagless switch decide too
								if sw, ok := par[par[x]].(*ast.SwitchStmt); ok && sw.Tag == nil {
									for _, c := range sw.Body.List {
										for _, e := range c.(*ast.CaseClause).List {
											addAtoms(e)
										}
									}
								}
							}
						}
					}
					var keys []string
					for k := range atoms {
						keys = append(keys, k)
					}
					if len(keys) > 10 {
						keys = nil
					}
					if os.Getenv("GVERIF_DEBUG") != "" {
						fmt.Fprintf(os.Stderr, "unset %s %s atoms=%v\n", name, v.Name(), keys)
					}
					bad := map[*ast.Ident]bool{}
					for mask := 0; mask < 1<<len(keys); mask++ {
						val := map[string]bool{}
						for i, k := range keys {
							val[k] = mask&(1<<i) != 0
						}
						g.Keep = cfgx.KeepUnder(func(c ast.Expr) (bool, bool) {
							k, neg, stable := atomKey(c)
							if !stable {
								return false, false
							}
							t, ok := val[k]
							if !ok {
								return false, false
							}
							return t != neg, true
						})
						reach := g.Reachable()
						must := g.MustPass(func(b *cfg.Block) bool {
							for _, n := range b.Nodes {
								if assignsIn(n) {
									return true
								}
							}
							return false
						})
					nextUse:
						for _, id := range uses {
							loc, ok := g.Where[id]
							if !ok || !reach[loc.Block] || must[loc.Block] {
								continue
							}
							for i := 0; i < loc.Index; i++ {
								if assignsIn(g.Blocks[loc.Block].Nodes[i]) {
									continue nextUse
								}
							}
							bad[id] = true
							if os.Getenv("GVERIF_DEBUG") != "" {
								fmt.Fprintf(os.Stderr, "  bad mask=%d val=%v use=%s block=%d\n", mask, val, core.Pos(id.Pos()), loc.Block)
							}
						}
					}
					g.Keep = nil
					res.Count("branch_conditions_enumerated", len(keys))
					reported := false
					for _, id := range uses {
						res.Obligations++
						res.Count("flag_variable_uses", 1)
						if bad[id] && !reported {
							reported = true
							tn := strings.TrimPrefix(types.TypeString(v.Type(), nil), core.ModPath+"/")
							res.Add(core.Finding{Rule: "FLAG.unset", Key: fmt.Sprintf("FLAG.unset|%s|%s", name, v.Name()), Pos: core.Pos(id.Pos()), Func: name,
								Msg: fmt.Sprintf("%s (%s, declared without a value at %s) is used here although a path reaches this use without assigning it: it then holds 0, which is not a member of %s and is rejected by the routine it is passed to", v.Name(), tn, core.Pos(v.Pos()), tn)})
						}
					}
				}
			}
		}
	}
	return res
}
