package flagx

import (
	"fmt"
	"go/ast"
	"go/token"
	"go/types"

	"gverif/core"
)

// RunQuickRHS implements QUICKRET.rhs: a driver that factors its matrix in
// place and then solves for nrhs right-hand sides documents the factors as a
// result of the call, whatever nrhs is. A quick return on `nrhs == 0` placed
// in front of the factorization skips it: the matrix operands come back
// unfactored (and a singular matrix is reported as solved). On the syntax
// tree: in a routine with a prologue `if … || nrhs == 0 { return … }`, no
// slice parameter other than the right-hand side b is written after it —
// by an element store, or by a same-package callee that (transitively, to
// depth 3) stores into the parameter it receives it as.
func RunQuickRHS(cfgc core.Config, scope core.Scope) *core.Result {
	res := core.NewResult("QUICKRHS")
	res.Rules = append(res.Rules, "QUICKRET.rhs: a routine that returns early on nrhs == 0 writes no slice parameter other than the right-hand side b after that return (the factorization of A does not depend on nrhs)")
	res.Configs = append(res.Configs, cfgc.String())
	pkgs, err := core.Load(cfgc, scope.Patterns...)
	if err != nil {
		res.Brokenf("%v", err)
		return res
	}
	used := map[string]bool{}
	for _, pkg := range pkgs {
		info := pkg.TypesInfo
		decls := map[types.Object]*ast.FuncDecl{}
		for _, f := range pkg.Syntax {
			for _, d := range f.Decls {
				if fd, ok := d.(*ast.FuncDecl); ok && fd.Body != nil {
					decls[info.Defs[fd.Name]] = fd
				}
			}
		}
		paramAt := func(fd *ast.FuncDecl, i int) types.Object {
			k := 0
			for _, fl := range fd.Type.Params.List {
				for _, n := range fl.Names {
					if k == i {
						return info.Defs[n]
					}
					k++
				}
			}
			return nil
		}
		var writes func(fd *ast.FuncDecl, p types.Object, depth int) bool
		writes = func(fd *ast.FuncDecl, p types.Object, depth int) bool {
			if p == nil {
				return false
			}
			// aliases: q := p[…], q = p[:n]
			alias := map[types.Object]bool{p: true}
			rooted := func(e ast.Expr) bool {
				for {
					switch x := ast.Unparen(e).(type) {
					case *ast.SliceExpr:
						e = x.X
					case *ast.Ident:
						return alias[core.ObjOf(info, x)]
					default:
						return false
					}
				}
			}
			for changed := true; changed; {
				changed = false
				ast.Inspect(fd.Body, func(n ast.Node) bool {
					if as, ok := n.(*ast.AssignStmt); ok && len(as.Lhs) == len(as.Rhs) {
						for i, r := range as.Rhs {
							if id, ok := as.Lhs[i].(*ast.Ident); ok && rooted(r) {
								if o := core.ObjOf(info, id); o != nil && !alias[o] {
									alias[o] = true
									changed = true
								}
							}
						}
					}
					return true
				})
			}
			found := false
			ast.Inspect(fd.Body, func(n ast.Node) bool {
				switch x := n.(type) {
				case *ast.AssignStmt:
					for _, l := range x.Lhs {
						if ix, ok := ast.Unparen(l).(*ast.IndexExpr); ok && rooted(ix.X) {
							found = true
						}
					}
				case *ast.IncDecStmt:
					if ix, ok := ast.Unparen(x.X).(*ast.IndexExpr); ok && rooted(ix.X) {
						found = true
					}
				case *ast.CallExpr:
					if depth <= 0 {
						return true
					}
					var callee types.Object
					switch f := x.Fun.(type) {
					case *ast.SelectorExpr:
						callee = info.Uses[f.Sel]
					case *ast.Ident:
						callee = info.Uses[f]
					}
					cd := decls[callee]
					if cd == nil {
						return true
					}
					for i, a := range x.Args {
						if rooted(a) && writes(cd, paramAt(cd, i), depth-1) {
							found = true
						}
					}
				}
				return !found
			})
			return found
		}
		for _, f := range pkg.Syntax {
			if !scope.InFile(f.Pos()) {
				continue
			}
			for _, d := range f.Decls {
				fd, ok := d.(*ast.FuncDecl)
				if !ok || fd.Body == nil || !ast.IsExported(fd.Name.Name) {
					continue
				}
				var nrhs types.Object
				var slices []types.Object
				for _, fl := range fd.Type.Params.List {
					for _, n := range fl.Names {
						o := info.Defs[n]
						if o == nil {
							continue
						}
						if n.Name == "nrhs" {
							nrhs = o
						}
						if _, ok := o.Type().Underlying().(*types.Slice); ok && n.Name != "b" && n.Name != "x" && n.Name != "work" && n.Name != "iwork" {
							slices = append(slices, o)
						}
					}
				}
				if nrhs == nil {
					continue
				}
				// prologue quick return mentioning nrhs == 0
				var quick *ast.IfStmt
				for _, st := range fd.Body.List {
					is, ok := st.(*ast.IfStmt)
					if !ok || len(is.Body.List) != 1 {
						continue
					}
					if _, ok := is.Body.List[0].(*ast.ReturnStmt); !ok {
						continue
					}
					hit := false
					ast.Inspect(is.Cond, func(n ast.Node) bool {
						if be, ok := n.(*ast.BinaryExpr); ok && be.Op == token.EQL {
							if id, ok := ast.Unparen(be.X).(*ast.Ident); ok && core.ObjOf(info, id) == nrhs {
								if tv, ok := info.Types[be.Y]; ok && tv.Value != nil && tv.Value.ExactString() == "0" {
									hit = true
								}
							}
						}
						return !hit
					})
					if hit {
						quick = is
						break
					}
				}
				if quick == nil {
					continue
				}
				name := core.FuncName(pkg, fd)
				res.Obligations++
				res.Count("quick_returns_on_nrhs", 1)
				// the part of the body after the quick return
				rest := &ast.BlockStmt{}
				after := false
				for _, st := range fd.Body.List {
					if after {
						rest.List = append(rest.List, st)
					}
					if st == ast.Stmt(quick) {
						after = true
					}
				}
				tail := &ast.FuncDecl{Name: fd.Name, Type: fd.Type, Body: rest, Recv: fd.Recv}
				for _, p := range slices {
					if writes(tail, p, 3) {
						if _, ok := QuickRHSExempt[name]; ok {
							used[name] = true
							res.Count("quick_returns_exempt_by_table", 1)
							break
						}
						res.Add(core.Finding{Rule: "QUICKRET.rhs", Key: fmt.Sprintf("QUICKRET.rhs|%s|%s", name, p.Name()), Pos: core.Pos(quick.Pos()), Func: name,
							Msg: fmt.Sprintf("%s returns at `%s` before the code that overwrites %s, which does not depend on nrhs: with no right-hand side the documented factorization is not computed", name, types.ExprString(quick.Cond), p.Name())})
						break
					}
				}
			}
		}
	}
	for k := range QuickRHSExempt {
		if !used[k] {
			res.Stale("QUICKRET.rhs: stale exemption %s", k)
		}
	}
	return res
}

// QuickRHSExempt lists drivers whose early return on nrhs == 0 is the
// reference's own.
var QuickRHSExempt = map[string]string{}
