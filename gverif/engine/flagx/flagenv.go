package flagx

import (
	"fmt"
	"go/ast"
	"go/constant"
	"go/token"
	"go/types"
	"strings"

	"gverif/cfgx"
	"gverif/core"
)

// FlagEnv evaluates the flag conditions of one function: comparisons of
// stable integer variables (parameters never assigned, locals assigned once)
// with constants, stable booleans and booleans derived from those, and the
// case expressions of switches on a stable variable.
type FlagEnv struct {
	info    *types.Info
	fd      *ast.FuncDecl
	params  map[types.Object]bool
	nassign map[types.Object]int
	boolDef map[types.Object]ast.Expr
	caseTag map[ast.Expr]types.Object
	G       *cfgx.Graph
}

type clAtom struct {
	v    types.Object
	kind string // "bool", "eq" (v == c; v != 0 and v > 0 are its negation for c == 0)
	c    string // constant (exact string) for "eq"
}

func (a clAtom) key() string { return fmt.Sprintf("%p|%s|%s", a.v, a.kind, a.c) }

func NewFlagEnv(info *types.Info, fd *ast.FuncDecl) *FlagEnv {
	fe := &FlagEnv{info: info, fd: fd, params: map[types.Object]bool{}, nassign: map[types.Object]int{},
		boolDef: map[types.Object]ast.Expr{}, caseTag: map[ast.Expr]types.Object{}}
	for _, fl := range fd.Type.Params.List {
		for _, n := range fl.Names {
			if o := info.Defs[n]; o != nil {
				fe.params[o] = true
			}
		}
	}
	ast.Inspect(fd.Body, func(n ast.Node) bool {
		switch x := n.(type) {
		case *ast.AssignStmt:
			for _, l := range x.Lhs {
				if id, ok := l.(*ast.Ident); ok {
					if o := core.ObjOf(info, id); o != nil {
						fe.nassign[o]++
					}
				}
			}
		case *ast.IncDecStmt:
			if id, ok := x.X.(*ast.Ident); ok {
				if o := core.ObjOf(info, id); o != nil {
					fe.nassign[o] += 2
				}
			}
		}
		return true
	})
	ast.Inspect(fd.Body, func(n ast.Node) bool {
		as, ok := n.(*ast.AssignStmt)
		if !ok || len(as.Lhs) != len(as.Rhs) {
			return true
		}
		for i, l := range as.Lhs {
			if id, ok := l.(*ast.Ident); ok {
				if o := core.ObjOf(info, id); o != nil && fe.nassign[o] == 1 {
					if b, ok := o.Type().Underlying().(*types.Basic); ok && b.Kind() == types.Bool {
						fe.boolDef[o] = as.Rhs[i]
					}
				}
			}
		}
		return true
	})
	ast.Inspect(fd.Body, func(n ast.Node) bool {
		if sw, ok := n.(*ast.SwitchStmt); ok && sw.Tag != nil {
			if id, ok := ast.Unparen(sw.Tag).(*ast.Ident); ok && fe.stable(core.ObjOf(info, id)) {
				for _, c := range sw.Body.List {
					for _, e := range c.(*ast.CaseClause).List {
						fe.caseTag[e] = core.ObjOf(info, id)
					}
				}
			}
		}
		return true
	})
	fe.G = cfgx.New(fd.Body, info)
	return fe
}

func (fe *FlagEnv) stable(o types.Object) bool {
	if o == nil {
		return false
	}
	if fe.params[o] {
		return fe.nassign[o] == 0
	}
	_, isVar := o.(*types.Var)
	return isVar && fe.nassign[o] == 1
}

// atomOf recognises a flag atom and whether the expression is its negation.
func (fe *FlagEnv) atomOf(e ast.Expr) (clAtom, bool, bool) {
	info := fe.info
	e = ast.Unparen(e)
	switch x := e.(type) {
	case *ast.Ident:
		o := core.ObjOf(info, x)
		if o == nil {
			return clAtom{}, false, false
		}
		if b, ok := o.Type().Underlying().(*types.Basic); ok && b.Kind() == types.Bool && fe.stable(o) {
			return clAtom{v: o, kind: "bool"}, false, true
		}
	case *ast.UnaryExpr:
		if x.Op == token.NOT {
			if a, neg, ok := fe.atomOf(x.X); ok {
				return a, !neg, true
			}
		}
	case *ast.BinaryExpr:
		if tvx, ok := info.Types[x.X]; ok && tvx.Value != nil {
			// constant on the left: mirror the comparison
			if _, isID := ast.Unparen(x.Y).(*ast.Ident); isID {
				m := map[token.Token]token.Token{token.EQL: token.EQL, token.NEQ: token.NEQ, token.LSS: token.GTR, token.GTR: token.LSS, token.LEQ: token.GEQ, token.GEQ: token.LEQ}
				if op, ok := m[x.Op]; ok {
					return fe.atomOf(&ast.BinaryExpr{X: x.Y, Op: op, Y: x.X})
				}
			}
		}
		id, ok := ast.Unparen(x.X).(*ast.Ident)
		if !ok {
			return clAtom{}, false, false
		}
		o := core.ObjOf(info, id)
		tv, okc := info.Types[x.Y]
		if !fe.stable(o) || !okc || tv.Value == nil {
			return clAtom{}, false, false
		}
		b, isBasic := o.Type().Underlying().(*types.Basic)
		if !isBasic || b.Info()&types.IsInteger == 0 {
			return clAtom{}, false, false
		}
		zero := tv.Value.Kind() == constant.Int && constant.Sign(tv.Value) == 0
		one := tv.Value.Kind() == constant.Int && tv.Value.ExactString() == "1"
		switch x.Op {
		case token.EQL:
			return clAtom{v: o, kind: "eq", c: tv.Value.ExactString()}, false, true
		case token.NEQ:
			return clAtom{v: o, kind: "eq", c: tv.Value.ExactString()}, true, true
		case token.GTR:
			if zero {
				// v > 0 is treated as v != 0 (negative counts are rejected earlier)
				return clAtom{v: o, kind: "eq", c: "0"}, true, true
			}
		case token.LEQ:
			if zero { // v <= 0, i.e. v == 0 for a count
				return clAtom{v: o, kind: "eq", c: "0"}, false, true
			}
		case token.GEQ:
			if one { // v >= 1
				return clAtom{v: o, kind: "eq", c: "0"}, true, true
			}
		case token.LSS:
			if one { // v < 1
				return clAtom{v: o, kind: "eq", c: "0"}, false, true
			}
		}
	}
	return clAtom{}, false, false
}

// Atomic reports whether e is built from flag atoms with &&, || and !.
func (fe *FlagEnv) Atomic(e ast.Expr) bool {
	e = ast.Unparen(e)
	if be, ok := e.(*ast.BinaryExpr); ok && (be.Op == token.LAND || be.Op == token.LOR) {
		return fe.Atomic(be.X) && fe.Atomic(be.Y)
	}
	_, _, ok := fe.atomOf(e)
	return ok
}

func (fe *FlagEnv) atomsOf(guards []ast.Expr) []clAtom {
	var atoms []clAtom
	seen := map[string]bool{}
	for _, f := range guards {
		ast.Inspect(f, func(n ast.Node) bool {
			if e, ok := n.(ast.Expr); ok {
				if a, _, ok := fe.atomOf(e); ok {
					if !seen[a.key()] {
						seen[a.key()] = true
						atoms = append(atoms, a)
					}
					return false
				}
			}
			return true
		})
	}
	return atoms
}

// GuardVars returns the variables the guards test, derived booleans expanded.
func (fe *FlagEnv) Mentions(e ast.Node, guards []ast.Expr) bool {
	vars := map[types.Object]bool{}
	for _, a := range fe.atomsOf(guards) {
		vars[a.v] = true
	}
	found := false
	var walk func(n ast.Node, d int)
	walk = func(n ast.Node, d int) {
		ast.Inspect(n, func(y ast.Node) bool {
			if id, ok := y.(*ast.Ident); ok {
				o := core.ObjOf(fe.info, id)
				if vars[o] {
					found = true
				} else if def, ok := fe.boolDef[o]; ok && d < 4 {
					walk(def, d+1)
				}
			}
			return !found
		})
	}
	walk(e, 0)
	return found
}

// ReachableWhenAllFalse enumerates the truth assignments of the guards' atoms
// under which every guard is false, turns each into constraints on the flag
// variables (forced or excluded constants, forced booleans), prunes the
// control-flow graph with them and reports, for every site that stays
// reachable under some assignment, a description of that assignment. decided
// is false when the guards are not atomic or have too many atoms.
func (fe *FlagEnv) ReachableWhenAllFalse(guards []ast.Expr, sites []ast.Node) (out map[ast.Node]string, decided bool) {
	info := fe.info
	for _, f := range guards {
		if !fe.Atomic(f) {
			return nil, false
		}
	}
	atoms := fe.atomsOf(guards)
	if len(atoms) == 0 || len(atoms) > 8 {
		return nil, false
	}
	out = map[ast.Node]string{}
	g := fe.G
	for mask := 0; mask < 1<<len(atoms); mask++ {
		val := map[string]bool{}
		for i, a := range atoms {
			val[a.key()] = mask&(1<<i) != 0
		}
		atomTruth := func(e ast.Expr) (bool, bool) {
			a, neg, ok := fe.atomOf(e)
			if !ok {
				return false, false
			}
			t, ok := val[a.key()]
			if !ok {
				return false, false
			}
			return t != neg, true
		}
		allFalse := true
		for _, f := range guards {
			if v, known := cfgx.Eval3(f, atomTruth); !known || v {
				allFalse = false
			}
		}
		if !allFalse {
			continue
		}
		forced := map[types.Object]string{}
		excluded := map[types.Object]map[string]bool{}
		boolv := map[types.Object]bool{}
		feasible := true
		for _, a := range atoms {
			t := val[a.key()]
			switch a.kind {
			case "bool":
				boolv[a.v] = t
			case "eq":
				if t {
					if f, ok := forced[a.v]; ok && f != a.c {
						feasible = false
					}
					forced[a.v] = a.c
				} else {
					if excluded[a.v] == nil {
						excluded[a.v] = map[string]bool{}
					}
					excluded[a.v][a.c] = true
				}
			}
		}
		// A boolean flag defined once carries its definition with it:
		// wantz := initz || compz == lapack.EVOrig with wantz false gives
		// initz false and compz != EVOrig, and initz := compz == EVTridiag
		// false gives compz != EVTridiag.
		var propagate func(e ast.Expr, truth bool, depth int)
		propagate = func(e ast.Expr, truth bool, depth int) {
			if depth > 6 {
				return
			}
			e = ast.Unparen(e)
			switch x := e.(type) {
			case *ast.UnaryExpr:
				if x.Op == token.NOT {
					propagate(x.X, !truth, depth+1)
				}
				return
			case *ast.BinaryExpr:
				if x.Op == token.LOR && !truth || x.Op == token.LAND && truth {
					propagate(x.X, truth, depth+1)
					propagate(x.Y, truth, depth+1)
					return
				}
				if x.Op == token.LOR || x.Op == token.LAND {
					return
				}
			}
			a, neg, ok := fe.atomOf(e)
			if !ok {
				return
			}
			t := truth != neg
			switch a.kind {
			case "bool":
				if old, ok := boolv[a.v]; ok {
					if old != t {
						feasible = false
					}
					return
				}
				boolv[a.v] = t
				if def, ok := fe.boolDef[a.v]; ok {
					propagate(def, t, depth+1)
				}
			case "eq":
				if t {
					if f, ok := forced[a.v]; ok && f != a.c {
						feasible = false
					}
					forced[a.v] = a.c
				} else {
					if excluded[a.v] == nil {
						excluded[a.v] = map[string]bool{}
					}
					excluded[a.v][a.c] = true
				}
			}
		}
		for bv, t := range boolv {
			if def, ok := fe.boolDef[bv]; ok {
				propagate(def, t, 0)
			}
		}
		for v, f := range forced {
			if excluded[v][f] {
				feasible = false
			}
		}
		if !feasible {
			continue
		}
		var evalAtom func(e ast.Expr) (bool, bool)
		depth := 0
		evalAtom = func(e ast.Expr) (bool, bool) {
			// a derived boolean is evaluated through its definition
			if id, ok := ast.Unparen(e).(*ast.Ident); ok {
				o := core.ObjOf(info, id)
				if _, direct := boolv[o]; !direct {
					if def, ok := fe.boolDef[o]; ok && depth < 4 {
						depth++
						v, k := cfgx.Eval3(def, evalAtom)
						depth--
						return v, k
					}
				}
			}
			if tag, ok := fe.caseTag[e]; ok {
				tv, okc := info.Types[e]
				if !okc || tv.Value == nil {
					return false, false
				}
				c := tv.Value.ExactString()
				if f, ok := forced[tag]; ok {
					return f == c, true
				}
				if excluded[tag][c] {
					return false, true
				}
				return false, false
			}
			a, neg, ok := fe.atomOf(e)
			if !ok {
				return false, false
			}
			switch a.kind {
			case "bool":
				if t, ok := boolv[a.v]; ok {
					return t != neg, true
				}
			case "eq":
				if f, ok := forced[a.v]; ok {
					return (f == a.c) != neg, true
				}
				if excluded[a.v][a.c] {
					return neg, true
				}
			}
			return false, false
		}
		g.Keep = cfgx.KeepUnder(evalAtom)
		reach := g.Reachable()
		g.Keep = nil
		for _, u := range sites {
			loc, ok := g.Where[u]
			if !ok || !reach[loc.Block] {
				continue
			}
			if _, dup := out[u]; !dup {
				var parts []string
				for _, a := range atoms {
					switch a.kind {
					case "bool":
						parts = append(parts, fmt.Sprintf("%s=%v", a.v.Name(), val[a.key()]))
					case "eq":
						op := "!="
						if val[a.key()] {
							op = "=="
						}
						parts = append(parts, fmt.Sprintf("%s %s %s", a.v.Name(), op, a.c))
					}
				}
				out[u] = strings.Join(parts, ", ")
			}
		}
	}
	return out, true
}
