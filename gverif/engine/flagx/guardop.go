package flagx

import (
	"fmt"
	"go/ast"
	"go/token"
	"go/types"

	"gverif/core"
)

// RunGuardOperand implements GUARD.operand: a block that is executed only
// when a count parameter is positive (`if ncc > 0 { … }`) and consists of
// calls only works on the operand that count describes, so every call in it
// takes the count as an argument. Guarding the update of one optional
// operand with the count of another (copied from the neighbouring block)
// silently skips the update.
func RunGuardOperand(cfg core.Config, scope core.Scope) *core.Result {
	res := core.NewResult("GUARD")
	res.Rules = append(res.Rules, "GUARD.operand: a call-only block guarded by `count > 0` on an integer parameter passes that count to every call in it")
	res.Configs = append(res.Configs, cfg.String())
	pkgs, err := core.Load(cfg, scope.Patterns...)
	if err != nil {
		res.Brokenf("%v", err)
		return res
	}
	for _, pkg := range pkgs {
		info := pkg.TypesInfo
		for _, file := range pkg.Syntax {
			if !scope.InFile(file.Pos()) {
				continue
			}
			for _, d := range file.Decls {
				fd, ok := d.(*ast.FuncDecl)
				if !ok || fd.Body == nil {
					continue
				}
				name := core.FuncName(pkg, fd)
				params := map[types.Object]bool{}
				for _, fl := range fd.Type.Params.List {
					for _, n := range fl.Names {
						params[info.Defs[n]] = true
					}
				}
				ast.Inspect(fd.Body, func(n ast.Node) bool {
					is, ok := n.(*ast.IfStmt)
					if !ok || is.Else != nil || is.Init != nil {
						return true
					}
					be, ok := ast.Unparen(is.Cond).(*ast.BinaryExpr)
					if !ok || be.Op != token.GTR {
						return true
					}
					id, ok := ast.Unparen(be.X).(*ast.Ident)
					if !ok {
						return true
					}
					if tv, ok := info.Types[be.Y]; !ok || tv.Value == nil || tv.Value.ExactString() != "0" {
						return true
					}
					o := core.ObjOf(info, id)
					if !params[o] {
						return true
					}
					var calls []*ast.CallExpr
					for _, st := range is.Body.List {
						es, ok := st.(*ast.ExprStmt)
						if !ok {
							return true
						}
						c, ok := es.X.(*ast.CallExpr)
						if !ok {
							return true
						}
						calls = append(calls, c)
					}
					if len(calls) == 0 {
						return true
					}
					res.Obligations++
					res.Count("count_guarded_call_blocks", 1)
					for _, c := range calls {
						mentions := false
						for _, a := range c.Args {
							ast.Inspect(a, func(x ast.Node) bool {
								if xi, ok := x.(*ast.Ident); ok && core.ObjOf(info, xi) == o {
									mentions = true
								}
								return !mentions
							})
						}
						if !mentions {
							res.Add(core.Finding{Rule: "GUARD.operand", Key: fmt.Sprintf("GUARD.operand|%s|%s guards %s", name, id.Name, types.ExprString(c.Fun)),
								Pos: core.Pos(is.Pos()), Func: name,
								Msg: fmt.Sprintf("the block is executed only when %s > 0, but the call %s(…) in it does not take %s: it works on another operand, whose update is skipped whenever %s is zero", id.Name, types.ExprString(c.Fun), id.Name, id.Name)})
						}
					}
					return true
				})
			}
		}
	}
	return res
}
