package flagx

import (
	"fmt"
	"go/ast"
	"go/token"
	"go/types"
	"strings"

	"gverif/cfgx"
	"gverif/core"
)

// RunLdCols implements ARGS.ldcols: the leading-dimension check of a matrix
// operand admits no leading dimension smaller than the row length that the
// operand's own length check uses.
//
// A prologue checks a row-major matrix twice: `ldu < max(1, m)` (a row holds m
// elements) and `len(u) < (m-1)*ldu+m` (m rows of m elements, ldu apart).
// The additive term of the second extent is the row length C; the rule pairs
// every length check `[G &&] len(P) < R*ld + C` with the ld checks of the same
// ld parameter and requires one `[G' &&] ld < C'` with C' equal to C, max(1, C)
// or max(C, 1), (the flag parts are not compared: equivalent conditions are spelt
// differently, `nru != 0` / `nru > 0`). With a weaker ld check (`ldu < minmn` where the extent uses
// m) a call with C > ld >= C' passes the prologue, overlapping rows are
// written and a callee panics with an unrelated message.
func RunLdCols(cfgc core.Config, scope core.Scope) *core.Result {
	res := core.NewResult("LDCOLS")
	res.Rules = append(res.Rules, "ARGS.ldcols: every length check len(P) < R*ld+C of a matrix operand is matched by a check of the same ld parameter against C (ld < C, ld < max(1, C))")
	res.Configs = append(res.Configs, cfgc.String())
	pkgs, err := core.Load(cfgc, scope.Patterns...)
	if err != nil {
		res.Brokenf("%v", err)
		return res
	}
	for _, pkg := range pkgs {
		info := pkg.TypesInfo
		for _, file := range pkg.Syntax {
			if !scope.InFile(file.Pos()) {
				continue
			}
			for _, d := range file.Decls {
				fd, ok := d.(*ast.FuncDecl)
				if !ok || fd.Body == nil || !ast.IsExported(fd.Name.Name) {
					continue
				}
				ldColsFunc(res, info, core.FuncName(pkg, fd), fd)
			}
		}
	}
	return res
}

// LdDelegated lists "routine|operand" pairs whose leading dimension is checked
// by the callee that receives the operand first, with the reason.
var LdDelegated = map[string]string{
	"lapack/gonum.Implementation.Dorml2|c": "every statement that touches c hands it with ldc to Dlarf, whose prologue panics with the same badLdC before writing",
	"lapack/gonum.Implementation.Dormlq|c": "c is handed with ldc to Dorml2 (unblocked) or Dlarfb, which check the leading dimension of C before writing",
	"lapack/gonum.Implementation.Dormhr|c": "c is handed with ldc to Dormqr, whose prologue checks ldc < max(1, n)",
}

func ldColsFunc(res *core.Result, info *types.Info, name string, fd *ast.FuncDecl) {
	params := map[types.Object]bool{}
	for _, fl := range fd.Type.Params.List {
		for _, n := range fl.Names {
			if o := info.Defs[n]; o != nil {
				params[o] = true
			}
		}
	}
	isLd := func(e ast.Expr) types.Object {
		id, ok := ast.Unparen(e).(*ast.Ident)
		if !ok {
			return nil
		}
		o := core.ObjOf(info, id)
		if params[o] && strings.HasPrefix(o.Name(), "ld") && len(o.Name()) > 2 {
			return o
		}
		return nil
	}
	type lenCheck struct {
		p, ld types.Object
		cols  string
		flag  string
		pos   token.Pos
	}
	type ldCheck struct {
		ld    types.Object
		bound string
		flag  string
	}
	var lens []lenCheck
	var lds []ldCheck
	norm := func(e ast.Expr) string { return types.ExprString(ast.Unparen(e)) }
	// splitExtent: R*ld + C  ->  ld, C
	var splitExtent func(e ast.Expr) (types.Object, string)
	splitExtent = func(e ast.Expr) (types.Object, string) {
		add, ok := ast.Unparen(e).(*ast.BinaryExpr)
		if !ok || add.Op != token.ADD {
			return nil, ""
		}
		for _, pair := range [][2]ast.Expr{{add.X, add.Y}, {add.Y, add.X}} {
			mul, ok := ast.Unparen(pair[0]).(*ast.BinaryExpr)
			if !ok || mul.Op != token.MUL {
				continue
			}
			if ld := isLd(mul.X); ld != nil {
				return ld, norm(pair[1])
			}
			if ld := isLd(mul.Y); ld != nil {
				return ld, norm(pair[1])
			}
		}
		return nil, ""
	}
	scanConj := func(conj []ast.Expr) {
		var flags []string
		var lc *lenCheck
		var dc *ldCheck
		for _, c := range conj {
			be, ok := ast.Unparen(c).(*ast.BinaryExpr)
			if ok && be.Op == token.LSS {
				// len(P) < extent
				if call, ok := ast.Unparen(be.X).(*ast.CallExpr); ok && len(call.Args) == 1 {
					if id, ok := call.Fun.(*ast.Ident); ok && id.Name == "len" {
						if a, ok := ast.Unparen(call.Args[0]).(*ast.Ident); ok && params[core.ObjOf(info, a)] {
							if ld, cols := splitExtent(be.Y); ld != nil {
								lc = &lenCheck{p: core.ObjOf(info, a), ld: ld, cols: cols, pos: c.Pos()}
								continue
							}
						}
					}
				}
				if ld := isLd(be.X); ld != nil {
					dc = &ldCheck{ld: ld, bound: norm(be.Y)}
					continue
				}
			}
			flags = append(flags, norm(c))
		}
		f := strings.Join(flags, " && ")
		if lc != nil {
			lc.flag = f
			lens = append(lens, *lc)
		}
		if dc != nil {
			dc.flag = f
			lds = append(lds, *dc)
		}
	}
	var scan func(cond ast.Expr)
	scan = func(cond ast.Expr) {
		cond = ast.Unparen(cond)
		if be, ok := cond.(*ast.BinaryExpr); ok && be.Op == token.LOR {
			scan(be.X)
			scan(be.Y)
			return
		}
		var conj []ast.Expr
		var flat func(e ast.Expr)
		flat = func(e ast.Expr) {
			e = ast.Unparen(e)
			if be, ok := e.(*ast.BinaryExpr); ok && be.Op == token.LAND {
				flat(be.X)
				flat(be.Y)
				return
			}
			conj = append(conj, e)
		}
		flat(cond)
		scanConj(conj)
	}
	panics := func(body []ast.Stmt) bool {
		if len(body) != 1 {
			return false
		}
		es, ok := body[0].(*ast.ExprStmt)
		if !ok {
			return false
		}
		c, ok := es.X.(*ast.CallExpr)
		return ok && cfgx.IsPanic(info, c)
	}
	ast.Inspect(fd.Body, func(n ast.Node) bool {
		switch x := n.(type) {
		case *ast.FuncLit:
			return false
		case *ast.IfStmt:
			if panics(x.Body.List) {
				scan(x.Cond)
			}
		case *ast.SwitchStmt:
			if x.Tag == nil {
				for _, c := range x.Body.List {
					cc := c.(*ast.CaseClause)
					if panics(cc.Body) {
						for _, e := range cc.List {
							scan(e)
						}
					}
				}
			}
		}
		return true
	})
	// single-assignment locals used as the row length (minnqk := min(nq, k))
	defs := map[string][]string{}
	nassign := map[string]int{}
	ast.Inspect(fd.Body, func(n ast.Node) bool {
		if as, ok := n.(*ast.AssignStmt); ok && len(as.Lhs) == len(as.Rhs) {
			for i, l := range as.Lhs {
				if id, ok := l.(*ast.Ident); ok {
					nassign[id.Name]++
					defs[id.Name] = append(defs[id.Name], norm(as.Rhs[i]))
				}
			}
		}
		return true
	})
	for k := range defs {
		if nassign[k] != 1 {
			delete(defs, k)
		}
	}
	for _, lc := range lens {
		res.Obligations++
		res.Count("matrix_length_checks", 1)
		matched := false
		var seen []string
		for _, dc := range lds {
			if dc.ld != lc.ld {
				continue
			}
			d := dc.bound
			if dc.flag != "" {
				d = dc.flag + " && " + lc.ld.Name() + " < " + d
			}
			seen = append(seen, d)
			b := strings.ReplaceAll(dc.bound, " ", "")
			for _, c := range append([]string{lc.cols}, defs[lc.cols]...) {
				c = strings.ReplaceAll(c, " ", "")
				if b == c || b == "max(1,"+c+")" || b == "max("+c+",1)" {
					matched = true
					if dc.flag != "" && dc.flag != lc.flag {
						// the flag parts are compared as text only; differently
						// spelt but equivalent conditions (nru != 0 / nru > 0,
						// wantvas / wantva) are counted, not judged
						res.Count("ld_checks_matched_under_a_differently_spelt_flag", 1)
					}
				}
			}
		}
		if matched {
			continue
		}
		if len(seen) == 0 {
			res.Count("length_checks_without_any_ld_check", 1)
			if _, ok := LdDelegated[name+"|"+lc.p.Name()]; ok {
				res.Count("ld_checks_delegated_by_table", 1)
				continue
			}
			// the ld parameter handed to an unexported helper of the package
			// (a prologue split off into checkDims(…, lda, …)) is checked there
			handed := false
			ast.Inspect(fd.Body, func(n ast.Node) bool {
				c, ok := n.(*ast.CallExpr)
				if !ok {
					return true
				}
				var fn *types.Func
				switch f := c.Fun.(type) {
				case *ast.Ident:
					fn, _ = info.Uses[f].(*types.Func)
				case *ast.SelectorExpr:
					fn, _ = info.Uses[f.Sel].(*types.Func)
				}
				if fn == nil || fn.Exported() {
					return true
				}
				for _, a := range c.Args {
					if id, ok := ast.Unparen(a).(*ast.Ident); ok && core.ObjOf(info, id) == lc.ld {
						handed = true
					}
				}
				return !handed
			})
			if handed {
				res.Count("ld_checks_delegated_to_an_unexported_helper", 1)
				continue
			}
			res.Add(core.Finding{Rule: "ARGS.ldcols", Key: fmt.Sprintf("ARGS.ldcols|%s|%s|none", name, lc.p.Name()), Pos: core.Pos(lc.pos), Func: name,
				Msg: fmt.Sprintf("the length of %s is checked against rows of %s elements, but its leading dimension %s is not checked at all (a check of another operand's leading dimension written twice?): rows may overlap for an admitted %s", lc.p.Name(), lc.cols, lc.ld.Name(), lc.ld.Name())})
			continue
		}
		flag := ""
		if lc.flag != "" {
			flag = " under " + lc.flag
		}
		res.Add(core.Finding{Rule: "ARGS.ldcols", Key: fmt.Sprintf("ARGS.ldcols|%s|%s|%s", name, lc.p.Name(), lc.cols), Pos: core.Pos(lc.pos), Func: name,
			Msg: fmt.Sprintf("the length check of %s%s uses rows of %s elements, but no check of %s rejects a leading dimension below %s there (checks present: %s): rows may overlap for an admitted %s", lc.p.Name(), flag, lc.cols, lc.ld.Name(), lc.cols, strings.Join(seen, "; "), lc.ld.Name())})
	}
}

// RunWorkQuery implements ARGS.workquery: a routine with a workspace query
// (lwork == -1) stores the answer in work[0], so its shortWork check has to
// guarantee one element in query mode too: the extent that len(work) is
// compared with evaluates to at least 1 for lwork == -1 — `max(1, lwork)`,
// not the bare `lwork` (for which the comparison `len(work) < -1` is never
// true and an empty work is met by an index-out-of-range fault instead of the
// documented panic).
func RunWorkQuery(cfgc core.Config, scope core.Scope) *core.Result {
	res := core.NewResult("WORKQUERY")
	res.Rules = append(res.Rules, "ARGS.workquery: in a routine with an lwork parameter the extent of the shortWork check len(work) < E is at least 1 when lwork == -1 (E is max(1, …), not the bare lwork)")
	res.Configs = append(res.Configs, cfgc.String())
	pkgs, err := core.Load(cfgc, scope.Patterns...)
	if err != nil {
		res.Brokenf("%v", err)
		return res
	}
	for _, pkg := range pkgs {
		info := pkg.TypesInfo
		for _, file := range pkg.Syntax {
			if !scope.InFile(file.Pos()) {
				continue
			}
			for _, d := range file.Decls {
				fd, ok := d.(*ast.FuncDecl)
				if !ok || fd.Body == nil || !ast.IsExported(fd.Name.Name) {
					continue
				}
				var lwork, work types.Object
				for _, fl := range fd.Type.Params.List {
					for _, n := range fl.Names {
						switch n.Name {
						case "lwork":
							lwork = info.Defs[n]
						case "work":
							work = info.Defs[n]
						}
					}
				}
				if lwork == nil || work == nil {
					continue
				}
				name := core.FuncName(pkg, fd)
				ast.Inspect(fd.Body, func(n ast.Node) bool {
					be, ok := n.(*ast.BinaryExpr)
					if !ok || be.Op != token.LSS {
						return true
					}
					c, ok := ast.Unparen(be.X).(*ast.CallExpr)
					if !ok || len(c.Args) != 1 {
						return true
					}
					if id, ok := c.Fun.(*ast.Ident); !ok || id.Name != "len" {
						return true
					}
					if id, ok := ast.Unparen(c.Args[0]).(*ast.Ident); !ok || core.ObjOf(info, id) != work {
						return true
					}
					res.Obligations++
					res.Count("work_length_checks_in_query_routines", 1)
					// evaluate E with lwork = -1: bare lwork is -1
					if id, ok := ast.Unparen(be.Y).(*ast.Ident); ok && core.ObjOf(info, id) == lwork {
						res.Add(core.Finding{Rule: "ARGS.workquery", Key: "ARGS.workquery|" + name, Pos: core.Pos(be.Pos()), Func: name,
							Msg: fmt.Sprintf("%s checks len(work) < lwork: for a workspace query (lwork == -1) this is never true, so an empty work reaches the store of the answer into work[0] and faults with an index error instead of the documented shortWork panic; the check has to be len(work) < max(1, lwork)", name)})
					}
					return true
				})
			}
		}
	}
	return res
}
