package flagx

import (
	"fmt"
	"go/ast"
	"go/token"
	"go/types"
	"strings"

	"gverif/core"
)

// RunUploMap implements FLAG.uplomap: where a blas.Uplo flag is translated
// into another enumeration that also distinguishes the two triangles
// (lapack.MatrixType UpperTri/LowerTri, mat.TriKind Upper/Lower, ...), the
// branch taken for blas.Upper uses the other enumeration's Upper constant and
// the branch taken for blas.Lower its Lower constant. Constants of type
// blas.Uplo itself are not considered: passing blas.Lower under an Upper
// branch is how transposed operands are addressed.
func RunUploMap(cfg core.Config, scope core.Scope) *core.Result {
	res := core.NewResult("FLAG")
	res.Rules = append(res.Rules, "FLAG.uplomap: in the branch selected by uplo == blas.Upper (blas.Lower) no constant of another triangle-distinguishing enumeration names the opposite triangle")
	res.Configs = append(res.Configs, cfg.String())
	pkgs, err := core.Load(cfg, scope.Patterns...)
	if err != nil {
		res.Brokenf("%v", err)
		return res
	}
	for _, pkg := range pkgs {
		info := pkg.TypesInfo
		uploConst := func(e ast.Expr) string {
			var id *ast.Ident
			switch x := ast.Unparen(e).(type) {
			case *ast.SelectorExpr:
				id = x.Sel
			case *ast.Ident:
				id = x
			default:
				return ""
			}
			c, ok := core.ObjOf(info, id).(*types.Const)
			if !ok {
				return ""
			}
			n, ok := c.Type().(*types.Named)
			if !ok || n.Obj().Name() != "Uplo" || n.Obj().Pkg() == nil || !strings.HasSuffix(n.Obj().Pkg().Path(), "gonum/blas") {
				return ""
			}
			switch c.Name() {
			case "Upper", "Lower":
				return c.Name()
			}
			return ""
		}
		other := map[string]string{"Upper": "Lower", "Lower": "Upper"}
		for _, file := range pkg.Syntax {
			if !scope.InFile(file.Pos()) {
				continue
			}
			for _, d := range file.Decls {
				fd, ok := d.(*ast.FuncDecl)
				if !ok || fd.Body == nil {
					continue
				}
				name := core.FuncName(pkg, fd)
				// checkBranch reports constants of other enums naming the wrong triangle
				checkBranch := func(body ast.Node, tri string, at token.Pos) {
					if body == nil {
						return
					}
					ast.Inspect(body, func(n ast.Node) bool {
						// a nested test of an Uplo flag starts its own scope
						switch s := n.(type) {
						case *ast.IfStmt:
							if s != body {
								if be, ok := ast.Unparen(s.Cond).(*ast.BinaryExpr); ok && (uploConst(be.X) != "" || uploConst(be.Y) != "") {
									return false
								}
							}
						case *ast.FuncLit:
							return false
						}
						var id *ast.Ident
						switch x := n.(type) {
						case *ast.SelectorExpr:
							id = x.Sel
						case *ast.Ident:
							id = x
						default:
							return true
						}
						c, ok := core.ObjOf(info, id).(*types.Const)
						if !ok {
							return true
						}
						nt, ok := c.Type().(*types.Named)
						if !ok || nt.Obj().Pkg() == nil || !strings.HasPrefix(nt.Obj().Pkg().Path(), core.ModPath) {
							return true
						}
						if nt.Obj().Name() == "Uplo" && strings.HasSuffix(nt.Obj().Pkg().Path(), "gonum/blas") {
							return true
						}
						hasU, hasL := strings.Contains(c.Name(), "Upper"), strings.Contains(c.Name(), "Lower")
						if hasU == hasL {
							return true
						}
						res.Obligations++
						res.Count("cross_enum_triangle_constants", 1)
						if (tri == "Upper" && hasL) || (tri == "Lower" && hasU) {
							res.Add(core.Finding{Rule: "FLAG.uplomap", Key: fmt.Sprintf("FLAG.uplomap|%s|%s under %s", name, c.Name(), tri),
								Pos: core.Pos(id.Pos()), Func: name,
								Msg: fmt.Sprintf("%s.%s is used in the branch taken when the flag is blas.%s (test at %s): the other enumeration names the opposite triangle", nt.Obj().Pkg().Name(), c.Name(), tri, core.Pos(at))})
						}
						return true
					})
				}
				ast.Inspect(fd.Body, func(n ast.Node) bool {
					switch s := n.(type) {
					case *ast.IfStmt:
						be, ok := ast.Unparen(s.Cond).(*ast.BinaryExpr)
						if !ok || (be.Op != token.EQL && be.Op != token.NEQ) {
							return true
						}
						tri := uploConst(be.Y)
						if tri == "" {
							tri = uploConst(be.X)
						}
						if tri == "" {
							return true
						}
						res.Count("uplo_tests", 1)
						thenTri, elseTri := tri, other[tri]
						if be.Op == token.NEQ {
							thenTri, elseTri = elseTri, thenTri
						}
						checkBranch(s.Body, thenTri, s.Pos())
						if blk, ok := s.Else.(*ast.BlockStmt); ok {
							checkBranch(blk, elseTri, s.Pos())
						}
					case *ast.SwitchStmt:
						if s.Tag == nil {
							return true
						}
						for _, c := range s.Body.List {
							cc := c.(*ast.CaseClause)
							if len(cc.List) != 1 {
								continue
							}
							if tri := uploConst(cc.List[0]); tri != "" {
								res.Count("uplo_tests", 1)
								for _, st := range cc.Body {
									checkBranch(st, tri, cc.Pos())
								}
							}
						}
					}
					return true
				})
			}
		}
	}
	return res
}
