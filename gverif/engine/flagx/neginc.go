package flagx

import (
	"fmt"
	"go/ast"
	"go/constant"
	"go/token"
	"go/types"
	"strings"

	"gverif/cfgx"
	"gverif/core"

	"golang.org/x/tools/go/types/typeutil"
)

// RunNegInc implements FLAG.neginc. Some Level 1 routines define a negative
// increment as "nothing to do" (Dscal, Dnrm2, Dasum, Idamax and their S/C/Z
// forms return at once when incX < 0), whereas Level 2 routines walk a
// vector backwards for a negative increment. A routine that accepts negative
// values of its own increment parameter therefore must not hand that
// parameter unchanged to one of the quick-returning routines except under a
// test that it is positive (the other arm passes -incY): otherwise the
// operation is silently skipped for incY < 0.
//
// The quick-returning callees are discovered from their bodies (an `if incX <
// 0 { return … }` on an increment parameter), not listed.
func RunNegInc(cfg core.Config, scope core.Scope) *core.Result {
	res := core.NewResult("FLAG")
	res.Rules = append(res.Rules, "FLAG.neginc: an increment parameter that may be negative is passed unchanged to a routine that returns at once for negative increments only under a test that it is positive")
	res.Configs = append(res.Configs, cfg.String())
	pkgs, err := core.Load(cfg, scope.Patterns...)
	if err != nil {
		res.Brokenf("%v", err)
		return res
	}
	isZero := func(info *types.Info, e ast.Expr) bool {
		tv, ok := info.Types[e]
		if !ok || tv.Value == nil || tv.Value.Kind() != constant.Int {
			return false
		}
		v, ok := constant.Int64Val(tv.Value)
		return ok && v == 0
	}
	// pass 1: callees that quick-return on a negative increment: func -> param index
	negret := map[*types.Func]int{}
	for _, pkg := range pkgs {
		info := pkg.TypesInfo
		for _, file := range pkg.Syntax {
			for _, d := range file.Decls {
				fd, ok := d.(*ast.FuncDecl)
				if !ok || fd.Body == nil {
					continue
				}
				fn, _ := info.Defs[fd.Name].(*types.Func)
				if fn == nil {
					continue
				}
				sig := fn.Type().(*types.Signature)
				for _, st := range fd.Body.List {
					is, ok := st.(*ast.IfStmt)
					if !ok || is.Init != nil || len(is.Body.List) == 0 {
						continue
					}
					be, ok := ast.Unparen(is.Cond).(*ast.BinaryExpr)
					if !ok {
						continue
					}
					// incX < 0, incX < 1, incX <= 0
					neg := false
					if tv, has := info.Types[be.Y]; has && tv.Value != nil && tv.Value.Kind() == constant.Int {
						v, _ := constant.Int64Val(tv.Value)
						neg = (be.Op == token.LSS && (v == 0 || v == 1)) || (be.Op == token.LEQ && v == 0)
					}
					if !neg {
						continue
					}
					id, ok := ast.Unparen(be.X).(*ast.Ident)
					if !ok || !strings.HasPrefix(id.Name, "inc") {
						continue
					}
					if _, isRet := is.Body.List[len(is.Body.List)-1].(*ast.ReturnStmt); !isRet {
						continue
					}
					for i := 0; i < sig.Params().Len(); i++ {
						if sig.Params().At(i) == core.ObjOf(info, id) {
							negret[fn] = i
						}
					}
				}
			}
		}
	}
	res.Count("routines_returning_at_once_for_negative_increments", len(negret))
	// pass 2: callers
	for _, pkg := range pkgs {
		info := pkg.TypesInfo
		for _, file := range pkg.Syntax {
			if !scope.InFile(file.Pos()) {
				continue
			}
			for _, d := range file.Decls {
				fd, ok := d.(*ast.FuncDecl)
				if !ok || fd.Body == nil {
					continue
				}
				name := core.FuncName(pkg, fd)
				params := map[types.Object]bool{}
				for _, fl := range fd.Type.Params.List {
					for _, n := range fl.Names {
						params[info.Defs[n]] = true
					}
				}
				// increments the routine itself rejects or ignores when negative
				nonneg := map[types.Object]bool{}
				for _, st := range fd.Body.List {
					ast.Inspect(st, func(n ast.Node) bool {
						be, ok := n.(*ast.BinaryExpr)
						if !ok {
							return true
						}
						id, ok := ast.Unparen(be.X).(*ast.Ident)
						if !ok || !isZero(info, be.Y) {
							return true
						}
						if be.Op == token.LSS || be.Op == token.LEQ {
							// `incX < 0` / `incX <= 0` at the top of the routine followed by panic or return
							nonneg[core.ObjOf(info, id)] = true
						}
						return true
					})
					if _, isIf := st.(*ast.IfStmt); !isIf {
						if _, isSw := st.(*ast.SwitchStmt); !isSw {
							break
						}
					}
				}
				par := cfgx.Parents(fd.Body)
				ast.Inspect(fd.Body, func(n ast.Node) bool {
					call, ok := n.(*ast.CallExpr)
					if !ok {
						return true
					}
					fn, _ := typeutil.Callee(info, call).(*types.Func)
					idx, ok := negret[fn]
					if !ok || idx >= len(call.Args) {
						return true
					}
					arg, ok := ast.Unparen(call.Args[idx]).(*ast.Ident)
					if !ok {
						return true
					}
					o := core.ObjOf(info, arg)
					if !params[o] || !strings.HasPrefix(arg.Name, "inc") {
						return true
					}
					res.Obligations++
					res.Count("increment_parameters_forwarded_to_quick_returning_routines", 1)
					if nonneg[o] {
						res.Count("forwarded_increments_known_positive", 1)
						return true
					}
					// guarded by `inc > 0` (then-branch) or the else of `inc < 0`/`inc <= 0`
					guarded := false
					var child ast.Node = call
					for p := par[call]; p != nil; child, p = p, par[p] {
						is, ok := p.(*ast.IfStmt)
						if !ok {
							continue
						}
						be, ok := ast.Unparen(is.Cond).(*ast.BinaryExpr)
						if !ok {
							continue
						}
						id, ok := ast.Unparen(be.X).(*ast.Ident)
						if !ok || core.ObjOf(info, id) != o || !isZero(info, be.Y) {
							continue
						}
						inThen := child == ast.Node(is.Body)
						switch {
						case inThen && (be.Op == token.GTR || be.Op == token.GEQ):
							guarded = true
						case !inThen && (be.Op == token.LSS || be.Op == token.LEQ):
							guarded = true
						}
					}
					if !guarded {
						res.Add(core.Finding{Rule: "FLAG.neginc", Key: fmt.Sprintf("FLAG.neginc|%s|%s(%s)", name, fn.Name(), arg.Name),
							Pos: core.Pos(call.Pos()), Func: name,
							Msg: fmt.Sprintf("%s accepts negative %s, but passes it unchanged to %s, which returns at once for a negative increment: for %s < 0 the operation is silently skipped (the other Level 2 routines pass -%s on that arm)", strings.TrimPrefix(name, "blas/gonum."), arg.Name, fn.Name(), arg.Name, arg.Name)})
					}
					return true
				})
			}
		}
	}
	return res
}
