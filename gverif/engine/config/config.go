// Package config implements the CONFIG engine: every build configuration
// type-checks and exports the same API. See DESIGN.md §3.11.
package config

import (
	"bufio"
	"fmt"
	"go/types"
	"os"
	"path/filepath"
	"sort"
	"strings"
	"sync"

	"gverif/core"

	"golang.org/x/tools/go/packages"
)

// TaggedPackages scans the tree for non-test files with //go:build lines
// that mention one of the repository's own tags or an architecture, and
// returns their package directories as patterns.
func TaggedPackages() ([]string, map[string]int, error) {
	interesting := []string{"safe", "noasm", "bounds", "tomita", "debug", "amd64", "arm64", "386", "go1."}
	dirs := map[string]int{}
	err := filepath.Walk(core.RepoDir, func(path string, info os.FileInfo, err error) error {
		if err != nil {
			return err
		}
		if info.IsDir() {
			n := info.Name()
			if n == ".git" || n == "testdata" || strings.HasPrefix(n, "_") {
				return filepath.SkipDir
			}
			return nil
		}
		if !strings.HasSuffix(path, ".go") || strings.HasSuffix(path, "_test.go") {
			return nil
		}
		f, err := os.Open(path)
		if err != nil {
			return err
		}
		defer f.Close()
		sc := bufio.NewScanner(f)
		for i := 0; i < 40 && sc.Scan(); i++ {
			line := sc.Text()
			if strings.HasPrefix(line, "package ") {
				break
			}
			if strings.HasPrefix(line, "//go:build ") {
				if strings.Contains(line, "ignore") || strings.Contains(line, "tools") || strings.Contains(line, "fortran") || strings.Contains(line, "gofuzz") {
					continue
				}
				for _, t := range interesting {
					if strings.Contains(line, t) {
						rel, _ := filepath.Rel(core.RepoDir, filepath.Dir(path))
						dirs["./"+rel]++
						break
					}
				}
			}
		}
		return nil
	})
	var out []string
	for d := range dirs {
		out = append(out, d)
	}
	sort.Strings(out)
	return out, dirs, err
}

// anon strips parameter and result names from signatures: names are not API.
func anon(t types.Type) types.Type {
	sig, ok := t.(*types.Signature)
	if !ok {
		return t
	}
	tuple := func(tp *types.Tuple) *types.Tuple {
		var vs []*types.Var
		for i := 0; i < tp.Len(); i++ {
			vs = append(vs, types.NewVar(0, nil, "", anon(tp.At(i).Type())))
		}
		return types.NewTuple(vs...)
	}
	return types.NewSignatureType(nil, nil, nil, tuple(sig.Params()), tuple(sig.Results()), sig.Variadic())
}

// api renders the exported API of a package as name -> description.
func api(p *types.Package) map[string]string {
	out := map[string]string{}
	q := func(o *types.Package) string { return o.Path() }
	sc := p.Scope()
	for _, name := range sc.Names() {
		o := sc.Lookup(name)
		if !o.Exported() {
			continue
		}
		switch o := o.(type) {
		case *types.TypeName:
			out[name] = "type " + types.TypeString(o.Type().Underlying(), q)
			if st, ok := o.Type().Underlying().(*types.Struct); ok {
				// only exported fields are API
				var fs []string
				for i := 0; i < st.NumFields(); i++ {
					if st.Field(i).Exported() {
						fs = append(fs, st.Field(i).Name()+" "+types.TypeString(st.Field(i).Type(), q))
					}
				}
				out[name] = "type struct{" + strings.Join(fs, "; ") + "}"
			}
			if _, isIface := o.Type().Underlying().(*types.Interface); !isIface {
				ms := types.NewMethodSet(types.NewPointer(o.Type()))
				for i := 0; i < ms.Len(); i++ {
					m := ms.At(i).Obj()
					if m.Exported() {
						out[name+"."+m.Name()] = types.TypeString(anon(m.Type()), q)
					}
				}
			}
		case *types.Const:
			out[name] = "const " + types.TypeString(o.Type(), q) + " = " + o.Val().ExactString()
		default:
			out[name] = types.TypeString(anon(o.Type()), q)
		}
	}
	return out
}

// Run type-checks the patterns under every configuration and compares the
// exported API of each package with the first (reference) configuration.
func Run(cfgs []core.Config, patterns []string) *core.Result {
	res := core.NewResult("CONFIG")
	res.Rules = append(res.Rules,
		"CONFIG.build: every build configuration (tag set x GOARCH) loads and type-checks",
		"CONFIG.api: the exported API (objects, signatures, method sets, exported fields) of every package is identical in every configuration")
	type loaded struct {
		cfg  core.Config
		pkgs []*packages.Package
		err  error
	}
	out := make([]loaded, len(cfgs))
	var wg sync.WaitGroup
	sem := make(chan struct{}, 4)
	for i, c := range cfgs {
		wg.Add(1)
		go func(i int, c core.Config) {
			defer wg.Done()
			sem <- struct{}{}
			defer func() { <-sem }()
			p, err := core.Load(c, patterns...)
			out[i] = loaded{c, p, err}
		}(i, c)
	}
	wg.Wait()
	var ref map[string]map[string]string
	for i, l := range out {
		res.Configs = append(res.Configs, l.cfg.String())
		res.Obligations++
		res.Count("configurations", 1)
		if l.err != nil {
			res.Add(core.Finding{
				Rule: "CONFIG.build",
				Key:  "CONFIG.build|" + l.cfg.String(),
				Pos:  "(configuration " + l.cfg.String() + ")",
				Msg:  fmt.Sprintf("configuration %s does not load/type-check: %v", l.cfg, l.err),
			})
			continue
		}
		apis := map[string]map[string]string{}
		for _, p := range l.pkgs {
			if p.Types == nil {
				continue
			}
			apis[p.PkgPath] = api(p.Types)
			res.Count("package_configurations_type_checked", 1)
		}
		if i == 0 {
			ref = apis
			for _, a := range apis {
				res.Count("exported_api_entries_reference", len(a))
			}
			continue
		}
		for path, a := range apis {
			r, ok := ref[path]
			if !ok {
				// package exists only in this configuration (arch-specific): nothing to compare
				continue
			}
			res.Obligations++
			res.Count("package_api_comparisons", 1)
			names := map[string]bool{}
			for n := range a {
				names[n] = true
			}
			for n := range r {
				names[n] = true
			}
			var diffs []string
			for n := range names {
				if a[n] != r[n] {
					diffs = append(diffs, n)
				}
			}
			sort.Strings(diffs)
			for _, n := range diffs {
				res.Add(core.Finding{
					Rule: "CONFIG.api",
					Key:  fmt.Sprintf("CONFIG.api|%s|%s|%s", core.RelPkg(path), n, l.cfg.String()),
					Pos:  core.RelPkg(path),
					Msg: fmt.Sprintf("exported %s.%s differs between %s (%q) and %s (%q)", core.RelPkg(path), n,
						cfgs[0].String(), r[n], l.cfg.String(), a[n]),
				})
			}
		}
		for path := range ref {
			if _, ok := apis[path]; !ok {
				res.Add(core.Finding{
					Rule: "CONFIG.build",
					Key:  fmt.Sprintf("CONFIG.build|%s|%s", core.RelPkg(path), l.cfg.String()),
					Pos:  core.RelPkg(path),
					Msg:  fmt.Sprintf("package %s has no buildable files under %s", core.RelPkg(path), l.cfg.String()),
				})
			}
		}
		if len(res.Samples) < 4 {
			res.Sample(map[string]any{"rule": "CONFIG", "configuration": l.cfg.String(), "packages": len(apis)})
		}
	}
	return res
}

// Matrix returns the configuration matrix for a tier.
func Matrix(tier string) []core.Config {
	tags := []string{"", "noasm", "safe", "bounds", "tomita", "debug"}
	cfgs := []core.Config{}
	for _, t := range tags {
		cfgs = append(cfgs, core.Config{Tags: t})
	}
	cfgs = append(cfgs, core.Config{GOARCH: "arm64"}, core.Config{GOARCH: "386"})
	if tier == "thorough" {
		cfgs = append(cfgs, core.Config{Tags: "safe bounds"}, core.Config{Tags: "noasm bounds"}, core.Config{Tags: "safe tomita debug"})
		for _, arch := range []string{"arm64", "386"} {
			for _, t := range []string{"noasm", "safe", "bounds", "safe bounds"} {
				cfgs = append(cfgs, core.Config{Tags: t, GOARCH: arch})
			}
		}
	}
	return cfgs
}
