// Package worksize decides the clause "a workspace query reports a sufficient
// length": in every LAPACK routine with an lwork parameter, on every path
// that returns in query mode (lwork == -1), the value last stored to work[0]
// is provably not smaller than the minimum the same routine enforces with
// panic(badLWork).
//
// The routine's prologue is interpreted symbolically, path by path, over its
// syntax tree with lwork fixed to -1: integer variables hold values in a
// max/min-of-polynomials normal form over the routine's parameters, block
// sizes returned by Ilaenv (>= 1) and the answers of nested queries (>= 1);
// branch conditions of the forms x == 0, x < c, ... refine lower bounds of the
// atoms on each side. The inequality is discharged by coefficient-wise
// dominance after shifting every atom to its lower bound. No routine is run
// and no solver is called.
package worksize

import (
	"fmt"
	"go/ast"
	"go/constant"
	"go/token"
	"go/types"
	"regexp"
	"sort"
	"strings"

	"gverif/core"
)

// counterRE strips the per-path numbering of opaque atoms from finding keys.
var counterRE = regexp.MustCompile(`#\d+`)

type state struct {
	env     map[types.Object]nf
	benv    map[types.Object]int
	cenv    map[string]int
	f       facts
	work0   *nf
	workPos token.Pos
	minReq  *nf
	minPos  token.Pos
	trace   []string
	lost    string
}

func (s *state) clone() *state {
	c := &state{env: map[types.Object]nf{}, benv: map[types.Object]int{}, cenv: map[string]int{}, f: s.f.clone(),
		work0: s.work0, workPos: s.workPos, minReq: s.minReq, minPos: s.minPos, lost: s.lost}
	for k, v := range s.env {
		c.env[k] = v
	}
	for k, v := range s.benv {
		c.benv[k] = v
	}
	for k, v := range s.cenv {
		c.cenv[k] = v
	}
	c.trace = append([]string{}, s.trace...)
	return c
}

type shortPanic struct {
	name  string
	pos   token.Pos
	trace []string
}

type exit struct {
	st  *state
	pos token.Pos
}

type interp struct {
	info        *types.Info
	fd          *ast.FuncDecl
	lwork       types.Object
	work        types.Object
	params      map[types.Object]bool
	assigned    map[types.Object]bool
	exits       []exit
	fresh       int
	states      int
	over        bool
	breakSts    []*state // states that left the innermost switch by break
	short       map[string]string
	shortPanics []shortPanic
	usedShort   map[string]bool
}

const maxStates = 200000

func (ip *interp) opaque(what string) nf {
	ip.fresh++
	return single(atomPoly(fmt.Sprintf("?%s#%d", what, ip.fresh)))
}

func isIdentNamed(e ast.Expr, name string) bool {
	id, ok := ast.Unparen(e).(*ast.Ident)
	return ok && id.Name == name
}

// Run analyses every method of the scope that has an lwork parameter.
// Exempt names routines (by method name) whose query answer the prover
// cannot relate to the enforced minimum, with the reason; an entry that no
// longer suppresses anything is stale and fails the run.
func Run(cfg core.Config, scope core.Scope, exempt map[string]string) *core.Result {
	res := core.NewResult("WORKSIZE")
	res.Rules = append(res.Rules, "WORKSIZE.min: on every path returning in query mode (lwork == -1) the value stored to work[0] is >= the minimum lwork the routine enforces with panic(badLWork) (path-wise symbolic interpretation of the prologue, max/min-of-polynomials normal form, coefficient-wise dominance)",
		"WORKSIZE.set: every query-mode return is preceded by a store to work[0]",
		"WORKSIZE.querylen: no operand length panic (short*/badLen* other than shortWork) is reachable in query mode")
	res.Configs = append(res.Configs, cfg.String())
	pkgs, err := core.Load(cfg, scope.Patterns...)
	if err != nil {
		res.Brokenf("%v", err)
		return res
	}
	for _, pkg := range pkgs {
		info := pkg.TypesInfo
		for _, file := range pkg.Syntax {
			if !scope.InFile(file.Pos()) {
				continue
			}
			for _, d := range file.Decls {
				fd, ok := d.(*ast.FuncDecl)
				if !ok || fd.Body == nil || fd.Recv == nil || !fd.Name.IsExported() {
					continue
				}
				var lwork, work types.Object
				params := map[types.Object]bool{}
				for _, fl := range fd.Type.Params.List {
					for _, n := range fl.Names {
						o := info.Defs[n]
						params[o] = true
						if n.Name == "lwork" {
							lwork = o
						}
						if n.Name == "work" {
							work = o
						}
					}
				}
				if lwork == nil || work == nil {
					continue
				}
				before := len(res.Findings)
				analyse(res, pkg.PkgPath, info, fd, lwork, work, params)
				kept := res.Findings[:before:before]
				used := map[string]bool{}
				for _, f := range res.Findings[before:] {
					ek := fd.Name.Name
					if f.Rule == "WORKSIZE.querylen" {
						ek += "." + f.Key[strings.LastIndex(f.Key, "|")+1:]
					}
					if _, ok := exempt[ek]; ok {
						used[ek] = true
						res.Count("exempt_findings", 1)
						continue
					}
					kept = append(kept, f)
				}
				res.Findings = kept
				for ek := range exempt {
					if (ek == fd.Name.Name || strings.HasPrefix(ek, fd.Name.Name+".")) && !used[ek] {
						res.Stale("WORKSIZE: stale exemption %s (nothing to suppress)", ek)
					}
				}
			}
		}
	}
	return res
}

func analyse(res *core.Result, pkgPath string, info *types.Info, fd *ast.FuncDecl, lwork, work types.Object, params map[types.Object]bool) {
	name := core.RelPkg(pkgPath) + "." + fd.Name.Name
	ip := &interp{info: info, fd: fd, lwork: lwork, work: work, params: params, assigned: map[types.Object]bool{}}
	ast.Inspect(fd.Body, func(n ast.Node) bool {
		switch s := n.(type) {
		case *ast.AssignStmt:
			for _, l := range s.Lhs {
				if id, ok := l.(*ast.Ident); ok {
					if o := core.ObjOf(info, id); o != nil {
						ip.assigned[o] = true
					}
				}
			}
		case *ast.IncDecStmt:
			if id, ok := s.X.(*ast.Ident); ok {
				if o := core.ObjOf(info, id); o != nil {
					ip.assigned[o] = true
				}
			}
		}
		return true
	})
	st := &state{env: map[types.Object]nf{}, benv: map[types.Object]int{}, cenv: map[string]int{},
		f: facts{lb: map[string]int64{}, zero: map[string]bool{}}}
	st.env[lwork] = single(constPoly(-1))
	out := ip.execList(fd.Body.List, []*state{st})
	for _, s := range out { // falling off the end
		ip.exits = append(ip.exits, exit{s, fd.Body.Rbrace})
	}
	res.Count("routines_with_lwork", 1)
	if ip.over {
		res.Brokenf("WORKSIZE: %s: more than %d symbolic states", name, maxStates)
		return
	}
	seen := map[string]bool{}
	res.Count("query_mode_prologues", 1)
	res.Obligations++
	for _, sp := range ip.shortPanics {
		key := fmt.Sprintf("WORKSIZE.querylen|%s|%s", name, sp.name)
		if seen[key] {
			continue
		}
		seen[key] = true
		res.Add(core.Finding{Rule: "WORKSIZE.querylen", Key: key, Pos: core.Pos(sp.pos), Func: name,
			Msg:  fmt.Sprintf("panic(%s) is reachable in a workspace query (lwork == -1): a query must accept operands that are not allocated yet (the drivers query their subroutines with nil slices), so operand length checks belong after the query return", sp.name),
			Path: sp.trace})
	}
	hasMin := false
	for _, e := range ip.exits {
		s := e.st
		if s.lost != "" {
			res.Brokenf("WORKSIZE: %s: query-mode path left the interpreted fragment (%s) at %s", name, s.lost, core.Pos(e.pos))
			continue
		}
		res.Count("query_mode_exits", 1)
		if s.minReq == nil {
			continue
		}
		hasMin = true
		res.Obligations++
		if s.work0 == nil {
			key := fmt.Sprintf("WORKSIZE.set|%s|return", name)
			if !seen[key] {
				seen[key] = true
				res.Add(core.Finding{Rule: "WORKSIZE.set", Key: key, Pos: core.Pos(e.pos), Func: name,
					Msg:  "a workspace query (lwork == -1) returns here without having stored the required length to work[0]",
					Path: s.trace})
			}
			continue
		}
		if s.f.nfGeq(*s.work0, *s.minReq) {
			res.Count("query_answers_proved_sufficient", 1)
			if len(s.trace) > 0 {
				res.Sample(fmt.Sprintf("%s: work[0] = %s >= %s (minimum enforced at %s)", name, s.work0.String(), s.minReq.String(), core.Pos(s.minPos)))
			}
			continue
		}
		w, m := substNF(s.f, *s.work0), substNF(s.f, *s.minReq)
		key := fmt.Sprintf("WORKSIZE.min|%s|%s<%s", name, counterRE.ReplaceAllString(w.String(), ""), counterRE.ReplaceAllString(m.String(), ""))
		if seen[key] {
			continue
		}
		seen[key] = true
		res.Add(core.Finding{Rule: "WORKSIZE.min", Key: key, Pos: core.Pos(s.workPos), Func: name,
			Msg: fmt.Sprintf("a workspace query reports work[0] = %s, which is not provably >= the minimum %s that the routine itself enforces (panic(badLWork) at %s): a caller passing the queried length can be rejected",
				w.String(), m.String(), core.Pos(s.minPos)),
			Path: append(append([]string{"path conditions:"}, s.trace...), factsString(s.f))})
	}
	if hasMin {
		res.Count("routines_with_enforced_minimum", 1)
	}
}

func substNF(f facts, v nf) nf {
	var out [][]poly
	for _, a := range v.alts {
		var ls []poly
		for _, p := range a {
			ls = append(ls, f.subst(p))
		}
		out = append(out, ls)
	}
	return nf{alts: out}.norm()
}

func factsString(f facts) string {
	var parts []string
	for k := range f.zero {
		parts = append(parts, k+" = 0")
	}
	for k, v := range f.lb {
		if !f.zero[k] && !strings.HasPrefix(k, "?") {
			parts = append(parts, fmt.Sprintf("%s >= %d", k, v))
		}
	}
	sort.Strings(parts)
	return "facts: " + strings.Join(parts, ", ")
}

// ---------------------------------------------------------------------
// statements

func (ip *interp) execList(list []ast.Stmt, sts []*state) []*state {
	for _, s := range list {
		if len(sts) == 0 {
			return nil
		}
		sts = ip.exec(s, sts)
	}
	return sts
}

func (ip *interp) exec(s ast.Stmt, sts []*state) []*state {
	ip.states += len(sts)
	if ip.states > maxStates {
		ip.over = true
		return nil
	}
	switch s := s.(type) {
	case *ast.ReturnStmt:
		for _, st := range sts {
			ip.exits = append(ip.exits, exit{st, s.Pos()})
		}
		return nil
	case *ast.BlockStmt:
		return ip.execList(s.List, sts)
	case *ast.LabeledStmt:
		return ip.exec(s.Stmt, sts)
	case *ast.ExprStmt:
		call, ok := s.X.(*ast.CallExpr)
		if !ok {
			return sts
		}
		if id, ok := call.Fun.(*ast.Ident); ok && id.Name == "panic" {
			if _, b := ip.info.Uses[id].(*types.Builtin); b {
				if len(call.Args) == 1 {
					if a, ok := call.Args[0].(*ast.Ident); ok && (strings.HasPrefix(a.Name, "short") || strings.HasPrefix(a.Name, "badLen")) && a.Name != "shortWork" && len(sts) > 0 {
						ip.shortPanics = append(ip.shortPanics, shortPanic{a.Name, call.Pos(), sts[0].trace})
					}
				}
				return nil
			}
		}
		for _, st := range sts {
			ip.effectCall(call, st)
		}
		return sts
	case *ast.IncDecStmt:
		if id, ok := s.X.(*ast.Ident); ok {
			if o := core.ObjOf(ip.info, id); o != nil && isInt(o.Type()) {
				d := int64(1)
				if s.Tok == token.DEC {
					d = -1
				}
				for _, st := range sts {
					v := ip.eval(id, st)
					r, _ := nfAdd(v, single(constPoly(d)))
					st.env[o] = r
				}
			}
		}
		return sts
	case *ast.DeclStmt:
		gd, ok := s.Decl.(*ast.GenDecl)
		if !ok || gd.Tok != token.VAR {
			return sts
		}
		for _, sp := range gd.Specs {
			vs := sp.(*ast.ValueSpec)
			for i, n := range vs.Names {
				o := ip.info.Defs[n]
				if o == nil {
					continue
				}
				for _, st := range sts {
					if i < len(vs.Values) && len(vs.Values) == len(vs.Names) {
						ip.assign(o, vs.Values[i], st)
					} else if len(vs.Values) == 0 {
						if isInt(o.Type()) {
							st.env[o] = single(constPoly(0))
						} else if isBool(o.Type()) {
							st.benv[o] = -1
						}
					} else {
						ip.havoc(o, st)
					}
				}
			}
		}
		return sts
	case *ast.AssignStmt:
		for _, st := range sts {
			ip.execAssign(s, st)
		}
		return sts
	case *ast.IfStmt:
		if s.Init != nil {
			sts = ip.exec(s.Init, sts)
		}
		var ts, fs []*state
		for _, st := range sts {
			t, f := ip.split(s.Cond, st)
			ts = append(ts, t...)
			fs = append(fs, f...)
		}
		out := ip.execList(s.Body.List, ts)
		if s.Else != nil {
			out = append(out, ip.exec(s.Else, fs)...)
		} else {
			out = append(out, fs...)
		}
		return out
	case *ast.SwitchStmt:
		return ip.execSwitch(s, sts)
	case *ast.ForStmt, *ast.RangeStmt:
		// loops are not interpreted: every variable assigned inside is
		// forgotten; a return inside a loop on a query path is not modelled
		lostWhy := ""
		ast.Inspect(s, func(n ast.Node) bool {
			switch x := n.(type) {
			case *ast.FuncLit:
				return false
			case *ast.ReturnStmt:
				lostWhy = "return inside a loop"
			case *ast.AssignStmt:
				for _, l := range x.Lhs {
					ip.havocExpr(l, sts)
				}
			case *ast.IncDecStmt:
				ip.havocExpr(x.X, sts)
			case *ast.RangeStmt:
				if x.Key != nil {
					ip.havocExpr(x.Key, sts)
				}
				if x.Value != nil {
					ip.havocExpr(x.Value, sts)
				}
			case *ast.CallExpr:
				for _, a := range x.Args {
					if id, ok := a.(*ast.Ident); ok && core.ObjOf(ip.info, id) == ip.work {
						for _, st := range sts {
							v := ip.opaque("work0")
							st.work0 = &v
						}
					}
				}
			}
			return true
		})
		if lostWhy != "" {
			for _, st := range sts {
				st.lost = lostWhy
			}
		}
		return sts
	case *ast.BranchStmt:
		if s.Tok == token.BREAK && s.Label == nil {
			ip.breakSts = append(ip.breakSts, sts...)
			return nil
		}
		for _, st := range sts {
			st.lost = s.Tok.String()
			ip.exits = append(ip.exits, exit{st, s.Pos()})
		}
		return nil
	}
	return sts
}

func (ip *interp) havocExpr(l ast.Expr, sts []*state) {
	switch x := l.(type) {
	case *ast.Ident:
		if o := core.ObjOf(ip.info, x); o != nil {
			for _, st := range sts {
				ip.havoc(o, st)
			}
		}
	case *ast.IndexExpr:
		if ip.isWork0(x) {
			for _, st := range sts {
				v := ip.opaque("work0")
				st.work0 = &v
			}
		}
	}
}

func (ip *interp) havoc(o types.Object, st *state) {
	if isInt(o.Type()) {
		st.env[o] = ip.opaque(o.Name())
	}
	delete(st.benv, o)
}

func isInt(t types.Type) bool {
	b, ok := t.Underlying().(*types.Basic)
	return ok && b.Info()&types.IsInteger != 0
}
func isBool(t types.Type) bool {
	b, ok := t.Underlying().(*types.Basic)
	return ok && b.Info()&types.IsBoolean != 0
}

func (ip *interp) isWork0(ix *ast.IndexExpr) bool {
	id, ok := ix.X.(*ast.Ident)
	if !ok || core.ObjOf(ip.info, id) != ip.work {
		return false
	}
	tv, ok := ip.info.Types[ix.Index]
	if !ok || tv.Value == nil {
		return false
	}
	v, ok := constant.Int64Val(tv.Value)
	return ok && v == 0
}

func (ip *interp) assign(o types.Object, rhs ast.Expr, st *state) {
	switch {
	case isInt(o.Type()):
		st.env[o] = ip.eval(rhs, st)
	case isBool(o.Type()):
		if t := ip.tri(rhs, st); t != 0 {
			st.benv[o] = t
		} else {
			delete(st.benv, o)
		}
	}
}

func (ip *interp) execAssign(s *ast.AssignStmt, st *state) {
	if len(s.Lhs) != len(s.Rhs) {
		for _, l := range s.Lhs {
			ip.havocExpr(l, []*state{st})
		}
		for _, r := range s.Rhs {
			if c, ok := r.(*ast.CallExpr); ok {
				ip.effectCall(c, st)
			}
		}
		return
	}
	// evaluate all right-hand sides first (tuple assignment)
	type pend struct {
		o types.Object
		v nf
		b int
	}
	var ps []pend
	for i, l := range s.Lhs {
		r := s.Rhs[i]
		switch x := l.(type) {
		case *ast.Ident:
			o := core.ObjOf(ip.info, x)
			if o == nil {
				continue
			}
			switch {
			case isInt(o.Type()):
				var v nf
				switch s.Tok {
				case token.ASSIGN, token.DEFINE:
					v = ip.eval(r, st)
				case token.ADD_ASSIGN:
					v = ip.binop(token.ADD, ip.eval(x, st), ip.eval(r, st), st)
				case token.SUB_ASSIGN:
					v = ip.binop(token.SUB, ip.eval(x, st), ip.eval(r, st), st)
				case token.MUL_ASSIGN:
					v = ip.binop(token.MUL, ip.eval(x, st), ip.eval(r, st), st)
				default:
					v = ip.opaque(o.Name())
				}
				ps = append(ps, pend{o: o, v: v})
			case isBool(o.Type()):
				ps = append(ps, pend{o: o, b: ip.tri(r, st)})
			default:
				if c, ok := r.(*ast.CallExpr); ok {
					ip.effectCall(c, st)
				}
			}
		case *ast.IndexExpr:
			if ip.isWork0(x) {
				v := ip.eval(r, st)
				st.work0 = &v
				st.workPos = x.Pos()
			}
		}
	}
	for _, p := range ps {
		if isInt(p.o.Type()) {
			st.env[p.o] = p.v
		} else if p.b != 0 {
			st.benv[p.o] = p.b
		} else {
			delete(st.benv, p.o)
		}
	}
}

// effectCall models what a call statement does to work[0]: a nested
// workspace query stores its own answer there.
func (ip *interp) effectCall(call *ast.CallExpr, st *state) {
	passesWork := false
	for _, a := range call.Args {
		if id, ok := a.(*ast.Ident); ok && core.ObjOf(ip.info, id) == ip.work {
			passesWork = true
		}
	}
	if !passesWork {
		return
	}
	name := "call"
	if sel, ok := call.Fun.(*ast.SelectorExpr); ok {
		name = sel.Sel.Name
	}
	ip.fresh++
	atom := fmt.Sprintf("query(%s)#%d", name, ip.fresh)
	v := single(atomPoly(atom))
	st.f.lb[atom] = 1 // every routine's query answer is at least 1 (this rule, applied to the callee)
	st.work0 = &v
	st.workPos = call.Pos()
}

func (ip *interp) execSwitch(s *ast.SwitchStmt, sts []*state) []*state {
	if s.Init != nil {
		sts = ip.exec(s.Init, sts)
	}
	saved := ip.breakSts
	ip.breakSts = nil
	var out []*state
	cur := sts
	hasDefault := false
	var defaultBody []ast.Stmt
	for _, c := range s.Body.List {
		cc := c.(*ast.CaseClause)
		if cc.List == nil {
			hasDefault = true
			defaultBody = cc.Body
			continue
		}
		if s.Tag == nil {
			// a badLWork case states the enforced minimum
			if isPanicOf(ip.info, cc.Body, "badLWork") {
				for _, e := range cc.List {
					ip.recordMin(e, cur)
				}
			}
			var taken []*state
			for _, e := range cc.List {
				var next []*state
				for _, st := range cur {
					t, f := ip.split(e, st)
					taken = append(taken, t...)
					next = append(next, f...)
				}
				cur = next
			}
			out = append(out, ip.execList(cc.Body, taken)...)
		} else {
			// tagged switch: each clause may be taken; clause conditions are
			// kept as correlated facts when the tag is an unassigned parameter
			var taken []*state
			var next []*state
			for _, st := range cur {
				definitely := false
				for _, e := range cc.List {
					key := ip.condKey(&ast.BinaryExpr{X: s.Tag, Op: token.EQL, Y: e})
					t := 0
					if key != "" {
						t = st.cenv[key]
					}
					switch t {
					case 1:
						definitely = true
						taken = append(taken, st)
					case -1:
					default:
						c := st.clone()
						if key != "" {
							c.cenv[key] = 1
							st.cenv[key] = -1
						}
						c.trace = append(c.trace, fmt.Sprintf("%s == %s", types.ExprString(s.Tag), types.ExprString(e)))
						taken = append(taken, c)
					}
					if definitely {
						break
					}
				}
				if !definitely {
					next = append(next, st)
				}
			}
			cur = next
			out = append(out, ip.execList(cc.Body, taken)...)
		}
	}
	if hasDefault {
		out = append(out, ip.execList(defaultBody, cur)...)
	} else {
		out = append(out, cur...)
	}
	out = append(out, ip.breakSts...)
	ip.breakSts = saved
	return out
}

func isPanicOf(info *types.Info, body []ast.Stmt, constName string) bool {
	if len(body) != 1 {
		return false
	}
	es, ok := body[0].(*ast.ExprStmt)
	if !ok {
		return false
	}
	call, ok := es.X.(*ast.CallExpr)
	if !ok || len(call.Args) != 1 {
		return false
	}
	id, ok := call.Fun.(*ast.Ident)
	if !ok || id.Name != "panic" {
		return false
	}
	return isIdentNamed(call.Args[0], constName)
}

// recordMin finds `lwork < E` in a badLWork condition and records E.
func (ip *interp) recordMin(cond ast.Expr, sts []*state) {
	ast.Inspect(cond, func(n ast.Node) bool {
		be, ok := n.(*ast.BinaryExpr)
		if !ok {
			return true
		}
		var e ast.Expr
		switch {
		case be.Op == token.LSS && ip.isLwork(be.X):
			e = be.Y
		case be.Op == token.GTR && ip.isLwork(be.Y):
			e = be.X
		}
		if e != nil {
			for _, st := range sts {
				v := ip.eval(e, st)
				if st.minReq != nil {
					v = nfMax(*st.minReq, v)
				}
				st.minReq = &v
				st.minPos = be.Pos()
			}
		}
		return true
	})
}

func (ip *interp) isLwork(e ast.Expr) bool {
	id, ok := ast.Unparen(e).(*ast.Ident)
	return ok && core.ObjOf(ip.info, id) == ip.lwork
}

// ---------------------------------------------------------------------
// conditions

// condKey gives a stable key for flag comparisons between never-assigned
// parameters and constants, so that repeated tests correlate.
func (ip *interp) condKey(e ast.Expr) string {
	be, ok := ast.Unparen(e).(*ast.BinaryExpr)
	if !ok || (be.Op != token.EQL && be.Op != token.NEQ) {
		return ""
	}
	stable := func(x ast.Expr) bool {
		ok := true
		ast.Inspect(x, func(n ast.Node) bool {
			switch v := n.(type) {
			case *ast.Ident:
				o := core.ObjOf(ip.info, v)
				switch o.(type) {
				case *types.Const, *types.PkgName, *types.TypeName, nil:
				case *types.Var:
					if !ip.params[o] || ip.assigned[o] {
						ok = false
					}
				default:
					ok = false
				}
			case *ast.CallExpr:
				ok = false
			}
			return ok
		})
		return ok
	}
	if !stable(be.X) || !stable(be.Y) {
		return ""
	}
	a, b := types.ExprString(be.X), types.ExprString(be.Y)
	if a > b {
		a, b = b, a
	}
	return a + "==" + b
}

// tri evaluates a condition without splitting: 1, -1 or 0 (unknown).
func (ip *interp) tri(e ast.Expr, st *state) int {
	t, f := ip.split(e, st.clone())
	switch {
	case len(t) > 0 && len(f) == 0:
		return 1
	case len(f) > 0 && len(t) == 0:
		return -1
	}
	return 0
}

// split returns the states in which e holds and those in which it does not.
func (ip *interp) split(e ast.Expr, st *state) (ts, fs []*state) {
	e = ast.Unparen(e)
	if tv, ok := ip.info.Types[e]; ok && tv.Value != nil && tv.Value.Kind() == constant.Bool {
		if constant.BoolVal(tv.Value) {
			return []*state{st}, nil
		}
		return nil, []*state{st}
	}
	switch x := e.(type) {
	case *ast.UnaryExpr:
		if x.Op == token.NOT {
			t, f := ip.split(x.X, st)
			return f, t
		}
	case *ast.Ident:
		if o := core.ObjOf(ip.info, x); o != nil {
			switch st.benv[o] {
			case 1:
				return []*state{st}, nil
			case -1:
				return nil, []*state{st}
			}
			t, f := st.clone(), st
			t.benv[o], f.benv[o] = 1, -1
			t.trace = append(t.trace, x.Name)
			f.trace = append(f.trace, "!"+x.Name)
			return []*state{t}, []*state{f}
		}
	case *ast.BinaryExpr:
		switch x.Op {
		case token.LAND:
			t1, f1 := ip.split(x.X, st)
			for _, s := range t1 {
				t2, f2 := ip.split(x.Y, s)
				ts = append(ts, t2...)
				fs = append(fs, f2...)
			}
			return ts, append(f1, fs...)
		case token.LOR:
			t1, f1 := ip.split(x.X, st)
			for _, s := range f1 {
				t2, f2 := ip.split(x.Y, s)
				ts = append(ts, t2...)
				fs = append(fs, f2...)
			}
			return append(t1, ts...), fs
		case token.EQL, token.NEQ, token.LSS, token.LEQ, token.GTR, token.GEQ:
			if tvx, ok := ip.info.Types[x.X]; ok && isInt(tvx.Type) {
				return ip.splitCmp(x, st)
			}
			if key := ip.condKey(x); key != "" {
				want := 1
				if x.Op == token.NEQ {
					want = -1
				}
				switch st.cenv[key] * want {
				case 1:
					return []*state{st}, nil
				case -1:
					return nil, []*state{st}
				}
				t, f := st.clone(), st
				t.cenv[key], f.cenv[key] = want, -want
				t.trace = append(t.trace, types.ExprString(x))
				f.trace = append(f.trace, "!("+types.ExprString(x)+")")
				return []*state{t}, []*state{f}
			}
		}
	}
	// unknown condition: both outcomes, nothing learnt
	return []*state{st.clone()}, []*state{st}
}

func isConstPoly(p poly) bool { _, ok := p.isConst(); return ok }

func flip(op token.Token) token.Token {
	switch op {
	case token.LSS:
		return token.GTR
	case token.GTR:
		return token.LSS
	case token.LEQ:
		return token.GEQ
	case token.GEQ:
		return token.LEQ
	}
	return op
}

func negate(op token.Token) token.Token {
	switch op {
	case token.LSS:
		return token.GEQ
	case token.GEQ:
		return token.LSS
	case token.GTR:
		return token.LEQ
	case token.LEQ:
		return token.GTR
	case token.EQL:
		return token.NEQ
	case token.NEQ:
		return token.EQL
	}
	return op
}

// splitCmp handles integer comparisons.
func (ip *interp) splitCmp(x *ast.BinaryExpr, st *state) (ts, fs []*state) {
	l, r := ip.eval(x.X, st), ip.eval(x.Y, st)
	op := x.Op
	// decide when both sides reduce to constants under the facts
	lp, lok := l.isPoly()
	rp, rok := r.isPoly()
	if lok && rok {
		d := st.f.subst(padd(lp, rp, -1))
		if c, ok := d.isConst(); ok {
			var v bool
			switch op {
			case token.EQL:
				v = c == 0
			case token.NEQ:
				v = c != 0
			case token.LSS:
				v = c < 0
			case token.LEQ:
				v = c <= 0
			case token.GTR:
				v = c > 0
			case token.GEQ:
				v = c >= 0
			}
			if v {
				return []*state{st}, nil
			}
			return nil, []*state{st}
		}
	}
	// the same comparison of the same values decided earlier on this path
	// (atoms denote fixed values, so its outcome cannot change)
	ckey := "cmp:" + l.String() + "|" + op.String() + "|" + r.String()
	nkey := "cmp:" + l.String() + "|" + negate(op).String() + "|" + r.String()
	switch {
	case st.cenv[ckey] == 1 || st.cenv[nkey] == -1:
		return []*state{st}, nil
	case st.cenv[ckey] == -1 || st.cenv[nkey] == 1:
		return nil, []*state{st}
	}
	// decide by dominance
	one := single(constPoly(1))
	l1, _ := nfAdd(l, one)
	r1, _ := nfAdd(r, one)
	switch op {
	case token.LSS:
		if st.f.nfGeq(l, r) {
			return nil, []*state{st}
		}
		if st.f.nfGeq(r, l1) {
			return []*state{st}, nil
		}
	case token.GEQ:
		if st.f.nfGeq(l, r) {
			return []*state{st}, nil
		}
		if st.f.nfGeq(r, l1) {
			return nil, []*state{st}
		}
	case token.GTR:
		if st.f.nfGeq(r, l) {
			return nil, []*state{st}
		}
		if st.f.nfGeq(l, r1) {
			return []*state{st}, nil
		}
	case token.LEQ:
		if st.f.nfGeq(r, l) {
			return []*state{st}, nil
		}
		if st.f.nfGeq(l, r1) {
			return nil, []*state{st}
		}
	}
	remember := func(t, f *state) {
		t.cenv[ckey] = 1
		f.cenv[ckey] = -1
	}
	// learn: normalise to  value OP constant
	var val nf
	var c int64
	switch {
	case rok && isConstPoly(rp):
		val = l
		c, _ = rp.isConst()
	case lok && isConstPoly(lp):
		val = r
		c, _ = lp.isConst()
		op = flip(op)
	default:
		t, f := st.clone(), st
		remember(t, f)
		return []*state{t}, []*state{f}
	}
	t, f := st.clone(), st
	remember(t, f)
	desc := types.ExprString(x)
	t.trace = append(t.trace, desc)
	f.trace = append(f.trace, "!("+desc+")")
	tl := ip.learn(val, op, c, t)
	fl := ip.learn(val, negate(op), c, f)
	return tl, fl
}

// learn refines st with  val OP c ; it may split (min(a,b) == 0) or find the
// state infeasible (nil).
func (ip *interp) learn(val nf, op token.Token, c int64, st *state) []*state {
	atomsOf := func(a []poly) ([]string, bool) {
		var out []string
		for _, p := range a {
			if len(p) != 1 {
				return nil, false
			}
			for m, k := range p {
				if k != 1 || m == "" || strings.Contains(string(m), "*") {
					return nil, false
				}
				out = append(out, string(m))
			}
		}
		return out, true
	}
	if len(val.alts) != 1 {
		// max(a, b) >= c etc.: nothing learnt
		return []*state{st}
	}
	atoms, ok := atomsOf(val.alts[0])
	if !ok {
		return []*state{st}
	}
	// lower-bound facts:  min(atoms) >= k  ==> every atom >= k
	raise := func(k int64) []*state {
		for _, a := range atoms {
			if st.f.zero[a] && k > 0 {
				return nil
			}
			if cur, ok := st.f.lb[a]; !ok || cur < k {
				st.f.lb[a] = k
			}
		}
		return []*state{st}
	}
	switch op {
	case token.GEQ:
		return raise(c)
	case token.GTR:
		return raise(c + 1)
	case token.NEQ:
		if c == 0 {
			all := true
			for _, a := range atoms {
				if lb, ok := st.f.lb[a]; !ok || lb < 0 {
					all = false
				}
			}
			if all {
				return raise(1)
			}
		}
	case token.EQL, token.LEQ:
		// min(atoms) == 0 (or <= 0 with atoms >= 0): some atom is zero
		if c != 0 {
			return []*state{st}
		}
		for _, a := range atoms {
			if lb, ok := st.f.lb[a]; !ok || lb < 0 {
				if op == token.LEQ || len(atoms) > 1 {
					return []*state{st}
				}
			}
		}
		var out []*state
		for _, a := range atoms {
			if st.f.lb[a] >= 1 {
				continue
			}
			s := st
			if len(atoms) > 1 {
				s = st.clone()
			}
			s.f.zero[a] = true
			out = append(out, s)
		}
		return out
	case token.LSS:
		if c == 1 { // min(atoms) < 1 with atoms >= 0
			return ip.learn(val, token.LEQ, 0, st)
		}
	}
	return []*state{st}
}

// ---------------------------------------------------------------------
// expressions

func (ip *interp) binop(op token.Token, l, r nf, st *state) nf {
	switch op {
	case token.ADD:
		if v, ok := nfAdd(l, r); ok {
			return v
		}
	case token.SUB:
		if p, ok := r.isPoly(); ok {
			return nfSubPoly(l, p)
		}
	case token.MUL:
		if v, ok := nfMul(l, r, st.f.nonneg); ok {
			return v
		}
	case token.QUO:
		lp, lok := l.isPoly()
		rp, rok := r.isPoly()
		if lok && rok {
			a, aok := lp.isConst()
			b, bok := rp.isConst()
			if aok && bok && b != 0 {
				return single(constPoly(a / b))
			}
		}
	}
	// opaque, canonical by value so that equal expressions cancel
	return single(atomPoly(fmt.Sprintf("?(%s %s %s)", l.String(), op, r.String())))
}

func (ip *interp) eval(e ast.Expr, st *state) nf {
	e = ast.Unparen(e)
	if tv, ok := ip.info.Types[e]; ok && tv.Value != nil {
		switch tv.Value.Kind() {
		case constant.Int:
			if v, ok := constant.Int64Val(tv.Value); ok {
				return single(constPoly(v))
			}
		case constant.Float:
			if f, ok := constant.Float64Val(tv.Value); ok && f == float64(int64(f)) {
				return single(constPoly(int64(f)))
			}
		}
	}
	switch x := e.(type) {
	case *ast.Ident:
		o := core.ObjOf(ip.info, x)
		if o == nil {
			return ip.opaque(x.Name)
		}
		if v, ok := st.env[o]; ok {
			return v
		}
		if ip.params[o] {
			return single(atomPoly(o.Name()))
		}
		return ip.opaque(x.Name)
	case *ast.UnaryExpr:
		if x.Op == token.SUB {
			if p, ok := ip.eval(x.X, st).isPoly(); ok {
				return single(padd(poly{}, p, -1))
			}
		}
		if x.Op == token.ADD {
			return ip.eval(x.X, st)
		}
	case *ast.BinaryExpr:
		return ip.binop(x.Op, ip.eval(x.X, st), ip.eval(x.Y, st), st)
	case *ast.IndexExpr:
		if ip.isWork0(x) && st.work0 != nil {
			return *st.work0
		}
	case *ast.CallExpr:
		// conversions
		if tv, ok := ip.info.Types[x.Fun]; ok && tv.IsType() && len(x.Args) == 1 {
			return ip.eval(x.Args[0], st)
		}
		fname := ""
		switch f := x.Fun.(type) {
		case *ast.Ident:
			fname = f.Name
		case *ast.SelectorExpr:
			fname = f.Sel.Name
			if id, ok := f.X.(*ast.Ident); ok {
				if _, isPkg := core.ObjOf(ip.info, id).(*types.PkgName); isPkg {
					fname = id.Name + "." + fname
				}
			}
		}
		switch fname {
		case "max", "math.Max":
			if len(x.Args) >= 1 {
				v := ip.eval(x.Args[0], st)
				for _, a := range x.Args[1:] {
					v = nfMax(v, ip.eval(a, st))
				}
				return v
			}
		case "min", "math.Min":
			if len(x.Args) >= 1 {
				v := ip.eval(x.Args[0], st)
				for _, a := range x.Args[1:] {
					w, ok := nfMin(v, ip.eval(a, st))
					if !ok {
						return ip.opaque("min")
					}
					v = w
				}
				return v
			}
		case "len":
			atom := "len(" + types.ExprString(x.Args[0]) + ")"
			st.f.lb[atom] = 0
			return single(atomPoly(atom))
		case "Ilaenv":
			// block sizes and crossover points: ispec 1 is a block size >= 1
			var parts []string
			for _, a := range x.Args {
				if tv, ok := ip.info.Types[a]; ok && tv.Value != nil {
					parts = append(parts, tv.Value.ExactString())
				} else {
					parts = append(parts, ip.eval(a, st).String())
				}
			}
			full := "Ilaenv(" + strings.Join(parts, ",") + ")"
			if ip.short == nil {
				ip.short = map[string]string{}
			}
			atom, ok := ip.short[full]
			if !ok {
				// a readable, deterministic name: nb_<routine>[_k] for the k-th distinct argument tuple
				base := "ilaenv"
				if len(parts) > 1 {
					base = "nb_" + strings.Trim(parts[1], "\"")
					if parts[0] != "1" {
						base = "ilaenv" + parts[0] + "_" + strings.Trim(parts[1], "\"")
					}
				}
				atom = base
				for k := 2; ip.usedShort[atom]; k++ {
					atom = fmt.Sprintf("%s_%d", base, k)
				}
				if ip.usedShort == nil {
					ip.usedShort = map[string]bool{}
				}
				ip.usedShort[atom] = true
				ip.short[full] = atom
			}
			if len(parts) > 0 && parts[0] == "1" {
				st.f.lb[atom] = 1
			}
			return single(atomPoly(atom))
		}
		return ip.opaque(fname)
	}
	return ip.opaque("expr")
}
