package worksize

import (
	"fmt"
	"go/ast"
	"go/constant"
	"go/token"
	"go/types"
	"strings"

	"gverif/core"
)

// RunArms checks two structural properties of slice-length checks.
//
// ARGS.arms: a check written with one arm per sign of the increment,
//
//	(incX > 0 && C1) || (incX < 0 && C2)
//
// tests the same extent on both arms: after substituting incX := -incX in
// C2, the two comparisons of len(x) are the same polynomial inequality with
// the same strictness.
//
// ARGS.strict: a comparison of len(v) with an extent that involves a stride
// (inc*/ld*) has the strictness its form requires. With every dimension set
// to 1 (locals take the value of their definitions) an extent evaluates to 0
// for strides 0 and 1 alike when it is a largest index ((n-1)*incX,
// ix+(n-1)*incX: the slice is too short iff len <= extent) and to at least 1
// for one of them when it is an element count ((m-1)*lda+n, 1+(n-2)*|incX|,
// rows*ldab: too short iff len < extent).
func RunArms(cfg core.Config, scope core.Scope) *core.Result {
	res := core.NewResult("ARMS")
	res.Rules = append(res.Rules,
		"ARGS.arms: the positive- and negative-increment arms of a length check compare len(v) with the same extent and the same strictness (polynomial normal form after incV := -incV)",
		"ARGS.fullrow: the extent a matrix operand's length is compared with is not a pure multiple of its leading dimension (rows*ld would reject the exactly-minimal (rows-1)*ld+cols)",
		"ARGS.strict: len(v) compared with a strided extent uses <= for a largest-index form and < for an element-count form (extent evaluated with strides 0, other variables 1)")
	res.Configs = append(res.Configs, cfg.String())
	pkgs, err := core.Load(cfg, scope.Patterns...)
	if err != nil {
		res.Brokenf("%v", err)
		return res
	}
	for _, pkg := range pkgs {
		info := pkg.TypesInfo
		for _, file := range pkg.Syntax {
			if !scope.InFile(file.Pos()) {
				continue
			}
			for _, d := range file.Decls {
				fd, ok := d.(*ast.FuncDecl)
				if !ok || fd.Body == nil {
					continue
				}
				name := core.FuncName(pkg, fd)
				a := &armsCheck{info: info, res: res, fn: name, defs: map[types.Object][]ast.Expr{}, unknown: map[types.Object]bool{}}
				a.collectDefs(fd)
				ast.Inspect(fd.Body, func(n ast.Node) bool {
					be, ok := n.(*ast.BinaryExpr)
					if !ok {
						return true
					}
					switch be.Op {
					case token.LOR:
						a.arms(be)
					case token.LSS, token.LEQ, token.GTR, token.GEQ:
						a.strict(be)
					}
					return true
				})
			}
		}
	}
	return res
}

type armsCheck struct {
	info    *types.Info
	res     *core.Result
	fn      string
	defs    map[types.Object][]ast.Expr // plain assignments to local integer variables
	unknown map[types.Object]bool       // locals also updated some other way
	stride  int64                       // value given to stride variables by evalAt
	busy    map[types.Object]bool
}

// collectDefs records, for every local integer variable, the expressions
// assigned to it (nil for a zero-valued declaration).
func (a *armsCheck) collectDefs(fd *ast.FuncDecl) {
	params := map[types.Object]bool{}
	for _, fl := range fd.Type.Params.List {
		for _, n := range fl.Names {
			params[a.info.Defs[n]] = true
		}
	}
	note := func(l ast.Expr, r ast.Expr, plain bool) {
		id, ok := l.(*ast.Ident)
		if !ok {
			return
		}
		o := core.ObjOf(a.info, id)
		if o == nil || params[o] || !isInt(o.Type()) {
			return
		}
		if !plain {
			a.unknown[o] = true
			return
		}
		a.defs[o] = append(a.defs[o], r)
	}
	ast.Inspect(fd.Body, func(n ast.Node) bool {
		switch s := n.(type) {
		case *ast.AssignStmt:
			if len(s.Lhs) == len(s.Rhs) {
				for i := range s.Lhs {
					note(s.Lhs[i], s.Rhs[i], s.Tok == token.ASSIGN || s.Tok == token.DEFINE)
				}
			} else {
				for _, l := range s.Lhs {
					note(l, nil, false)
				}
			}
		case *ast.IncDecStmt:
			note(s.X, nil, false)
		case *ast.RangeStmt:
			if s.Key != nil {
				note(s.Key, nil, false)
			}
			if s.Value != nil {
				note(s.Value, nil, false)
			}
		case *ast.ValueSpec:
			for i, nm := range s.Names {
				if len(s.Values) == len(s.Names) {
					note(nm, s.Values[i], true)
				} else if len(s.Values) == 0 {
					note(nm, nil, true)
				} else {
					note(nm, nil, false)
				}
			}
		}
		return true
	})
}

// lenCmp normalises a comparison to  len(v) OP extent  with OP in {<, <=}
// ("the panic condition"); ok is false for anything else.
func (a *armsCheck) lenCmp(e ast.Expr) (v string, op token.Token, ext ast.Expr, ok bool) {
	be, isBin := ast.Unparen(e).(*ast.BinaryExpr)
	if !isBin {
		return
	}
	lenOf := func(x ast.Expr) string {
		c, ok := ast.Unparen(x).(*ast.CallExpr)
		if !ok || len(c.Args) != 1 {
			return ""
		}
		id, ok := c.Fun.(*ast.Ident)
		if !ok || id.Name != "len" {
			return ""
		}
		if _, b := a.info.Uses[id].(*types.Builtin); !b {
			return ""
		}
		return types.ExprString(c.Args[0])
	}
	if l := lenOf(be.X); l != "" {
		switch be.Op {
		case token.LSS, token.LEQ:
			return l, be.Op, be.Y, true
		}
		return
	}
	if l := lenOf(be.Y); l != "" {
		switch be.Op {
		case token.GTR:
			return l, token.LSS, be.X, true
		case token.GEQ:
			return l, token.LEQ, be.X, true
		}
	}
	return
}

func isStrideName(n string) bool {
	return (strings.HasPrefix(n, "inc") && len(n) > 3) || (strings.HasPrefix(n, "ld") && len(n) > 2)
}

// signTest recognises  inc > 0  /  inc < 0  (or 0 < inc, 0 > inc).
func (a *armsCheck) signTest(e ast.Expr) (obj types.Object, sign int) {
	be, ok := ast.Unparen(e).(*ast.BinaryExpr)
	if !ok {
		return nil, 0
	}
	isZero := func(x ast.Expr) bool {
		tv, ok := a.info.Types[x]
		if !ok || tv.Value == nil || tv.Value.Kind() != constant.Int {
			return false
		}
		v, ok := constant.Int64Val(tv.Value)
		return ok && v == 0
	}
	x, y, op := be.X, be.Y, be.Op
	if isZero(x) {
		x, y = y, x
		switch op {
		case token.LSS:
			op = token.GTR
		case token.GTR:
			op = token.LSS
		}
	}
	id, ok := ast.Unparen(x).(*ast.Ident)
	if !ok || !isZero(y) {
		return nil, 0
	}
	switch op {
	case token.GTR:
		return core.ObjOf(a.info, id), 1
	case token.LSS:
		return core.ObjOf(a.info, id), -1
	}
	return nil, 0
}

func (a *armsCheck) arms(or *ast.BinaryExpr) {
	l, ok1 := ast.Unparen(or.X).(*ast.BinaryExpr)
	r, ok2 := ast.Unparen(or.Y).(*ast.BinaryExpr)
	if !ok1 || !ok2 || l.Op != token.LAND || r.Op != token.LAND {
		return
	}
	o1, s1 := a.signTest(l.X)
	o2, s2 := a.signTest(r.X)
	if o1 == nil || o1 != o2 || s1*s2 != -1 {
		return
	}
	v1, op1, e1, okA := a.lenCmp(l.Y)
	v2, op2, e2, okB := a.lenCmp(r.Y)
	if !okA || !okB {
		return
	}
	a.res.Obligations++
	a.res.Count("two_arm_length_checks", 1)
	key := fmt.Sprintf("ARGS.arms|%s|%s", a.fn, v1)
	bad := func(msg string) {
		a.res.Add(core.Finding{Rule: "ARGS.arms", Key: key, Pos: core.Pos(or.Pos()), Func: a.fn,
			Msg: fmt.Sprintf("the two increment-sign arms of the length check of %s disagree: %s (%s vs %s)", v1, msg, types.ExprString(l.Y), types.ExprString(r.Y))})
	}
	if v1 != v2 {
		bad("they test different slices")
		return
	}
	if op1 != op2 {
		bad("one arm is strict and the other is not, although both bound the same largest index (n-1)*|inc|")
		return
	}
	p1, okP := a.polyOf(e1)
	p2, okQ := a.polyOf(e2)
	if !okP || !okQ {
		a.res.Count("two_arm_checks_not_polynomial", 1)
		return
	}
	// substitute inc := -inc in the arm guarded by inc < 0
	neg := p2
	if s1 == -1 {
		neg = p1
	}
	flipped := poly{}
	for m, c := range neg {
		k := 0
		if m != "" {
			for _, at := range strings.Split(string(m), "*") {
				if at == o1.Name() {
					k++
				}
			}
		}
		if k%2 == 1 {
			c = -c
		}
		flipped[m] = c
	}
	pos := p1
	if s1 == -1 {
		pos = p2
	}
	if len(padd(pos, flipped, -1)) != 0 {
		bad(fmt.Sprintf("the extents differ: %s for %s > 0 but %s for %s < 0 (after %s := -%s)", pos.String(), o1.Name(), flipped.String(), o1.Name(), o1.Name(), o1.Name()))
	}
}

// polyOf builds a polynomial over identifier names.
func (a *armsCheck) polyOf(e ast.Expr) (poly, bool) {
	e = ast.Unparen(e)
	if tv, ok := a.info.Types[e]; ok && tv.Value != nil && tv.Value.Kind() == constant.Int {
		if v, ok := constant.Int64Val(tv.Value); ok {
			return constPoly(v), true
		}
	}
	switch x := e.(type) {
	case *ast.Ident:
		return atomPoly(x.Name), true
	case *ast.UnaryExpr:
		if p, ok := a.polyOf(x.X); ok {
			switch x.Op {
			case token.SUB:
				return padd(poly{}, p, -1), true
			case token.ADD:
				return p, true
			}
		}
	case *ast.BinaryExpr:
		p, ok1 := a.polyOf(x.X)
		q, ok2 := a.polyOf(x.Y)
		if ok1 && ok2 {
			switch x.Op {
			case token.ADD:
				return padd(p, q, 1), true
			case token.SUB:
				return padd(p, q, -1), true
			case token.MUL:
				return pmul(p, q), true
			}
		}
	}
	return nil, false
}

// evalAt evaluates an integer expression with strides 0 and every other
// variable 1.
func (a *armsCheck) evalAt(e ast.Expr, hasStride *bool) (int64, bool) {
	e = ast.Unparen(e)
	if tv, ok := a.info.Types[e]; ok && tv.Value != nil && tv.Value.Kind() == constant.Int {
		v, ok := constant.Int64Val(tv.Value)
		return v, ok
	}
	switch x := e.(type) {
	case *ast.Ident:
		o := core.ObjOf(a.info, x)
		if v, ok := o.(*types.Var); ok && isInt(v.Type()) {
			if isStrideName(x.Name) {
				*hasStride = true
				return a.stride, true
			}
			// a local takes the value of its definitions when they agree
			if ds, ok := a.defs[o]; ok && !a.unknown[o] && !a.busy[o] {
				if a.busy == nil {
					a.busy = map[types.Object]bool{}
				}
				a.busy[o] = true
				defer delete(a.busy, o)
				var val int64
				for i, d := range ds {
					var dv int64
					if d != nil {
						var ok bool
						if dv, ok = a.evalAt(d, hasStride); !ok {
							return 0, false
						}
					}
					if i > 0 && dv != val {
						return 0, false
					}
					val = dv
				}
				return val, true
			}
			if a.unknown[o] {
				return 0, false
			}
			return 1, true
		}
	case *ast.UnaryExpr:
		if v, ok := a.evalAt(x.X, hasStride); ok {
			switch x.Op {
			case token.SUB:
				return -v, true
			case token.ADD:
				return v, true
			}
		}
	case *ast.BinaryExpr:
		l, ok1 := a.evalAt(x.X, hasStride)
		r, ok2 := a.evalAt(x.Y, hasStride)
		if ok1 && ok2 {
			switch x.Op {
			case token.ADD:
				return l + r, true
			case token.SUB:
				return l - r, true
			case token.MUL:
				return l * r, true
			case token.QUO:
				if r != 0 {
					return l / r, true
				}
			}
		}
	case *ast.CallExpr:
		id, ok := x.Fun.(*ast.Ident)
		if !ok {
			return 0, false
		}
		var vals []int64
		for _, arg := range x.Args {
			v, ok := a.evalAt(arg, hasStride)
			if !ok {
				return 0, false
			}
			vals = append(vals, v)
		}
		if len(vals) == 0 {
			return 0, false
		}
		switch id.Name {
		case "min", "max":
			r := vals[0]
			for _, v := range vals[1:] {
				if (id.Name == "min" && v < r) || (id.Name == "max" && v > r) {
					r = v
				}
			}
			return r, true
		case "abs":
			if vals[0] < 0 {
				return -vals[0], true
			}
			return vals[0], true
		case "int":
			return vals[0], true
		}
	}
	return 0, false
}

func (a *armsCheck) strict(be *ast.BinaryExpr) {
	v, op, ext, ok := a.lenCmp(be)
	if !ok {
		return
	}
	hasStride := false
	a.stride = 0
	v0, ok0 := a.evalAt(ext, &hasStride)
	a.stride = 1
	v1, ok1 := a.evalAt(ext, &hasStride)
	if !ok0 || !ok1 || !hasStride {
		return
	}
	val := max(v0, v1)
	a.res.Obligations++
	a.res.Count("strided_length_comparisons", 1)
	want := token.LSS
	form := "an element count"
	if val == 0 {
		want = token.LEQ
		form = "a largest index"
	} else if val < 0 {
		a.res.Count("strided_length_comparisons_unclassified", 1)
		return
	}
	// ARGS.fullrow: a matrix needs (rows-1)*ld + cols elements; an extent that
	// is a pure multiple of the leading dimension (rows*ld) demands a full last
	// row and rejects an exactly-minimal slice (a column-sliced view).
	if p, ok := a.polyOf(ext); ok {
		var ld string
		for m := range p {
			if m == "" {
				continue
			}
			for _, at := range strings.Split(string(m), "*") {
				if strings.HasPrefix(at, "ld") && len(at) > 2 {
					ld = at
				}
			}
		}
		if ld != "" {
			a.res.Obligations++
			a.res.Count("matrix_extent_polynomials", 1)
			rest := false
			for m := range p {
				has := false
				if m != "" {
					for _, at := range strings.Split(string(m), "*") {
						if at == ld {
							has = true
						}
					}
				}
				if !has {
					rest = true
				}
			}
			if !rest {
				a.res.Add(core.Finding{Rule: "ARGS.fullrow", Key: fmt.Sprintf("ARGS.fullrow|%s|%s", a.fn, v), Pos: core.Pos(be.Pos()), Func: a.fn,
					Msg: fmt.Sprintf("%s: the extent %s is a pure multiple of the leading dimension %s: it demands a full last row, so an exactly-minimal slice of (rows-1)*%s+cols elements (a column-sliced view) is rejected", types.ExprString(be), types.ExprString(ext), ld, ld)})
			}
		}
	}
	if op == want {
		return
	}
	a.res.Add(core.Finding{Rule: "ARGS.strict", Key: fmt.Sprintf("ARGS.strict|%s|%s", a.fn, v), Pos: core.Pos(be.Pos()), Func: a.fn,
		Msg: fmt.Sprintf("%s: the extent %s is %s (at unit dimensions its largest value over strides 0 and 1 is %d), so the slice is too short exactly when len(%s) %s extent; the comparison is written with %s, which %s",
			types.ExprString(be), types.ExprString(ext), form, val, v, want, op,
			map[token.Token]string{token.LSS: "accepts a slice that is one element short", token.LEQ: "rejects an exactly-minimal slice"}[op])})
}
