package worksize

import (
	"fmt"
	"go/ast"
	"go/token"
	"go/types"
	"strings"

	"gverif/cfgx"
	"gverif/core"
)

// RunFallback implements WORKSIZE.fallback: when the supplied workspace is
// too small for the optimal block size, the routines reduce nb so that the
// blocked code fits:
//
//	if lwork < W(nb) { nb = F(lwork) }
//
// With W = A + B*nb (A, B free of nb) the largest block size that fits is
// nb = (lwork - A) / B. The rule checks that F is exactly that quotient
// (possibly clamped by max(…, 1) or min(…, nbmax)): a fallback computed with
// another divisor lets the blocked code run past the end of work, or makes a
// callee panic on a workspace the routine itself accepted.
func RunFallback(cfg core.Config, scope core.Scope) *core.Result {
	res := core.NewResult("WORKSIZE")
	res.Rules = append(res.Rules, "WORKSIZE.fallback: under `if lwork < A + B*nb` the reduced block size is nb = (lwork - A)/B (polynomial identity of numerator and divisor)")
	res.Configs = append(res.Configs, cfg.String())
	pkgs, err := core.Load(cfg, scope.Patterns...)
	if err != nil {
		res.Brokenf("%v", err)
		return res
	}
	for _, pkg := range pkgs {
		info := pkg.TypesInfo
		for _, file := range pkg.Syntax {
			if !scope.InFile(file.Pos()) {
				continue
			}
			for _, d := range file.Decls {
				fd, ok := d.(*ast.FuncDecl)
				if !ok || fd.Body == nil {
					continue
				}
				name := core.FuncName(pkg, fd)
				a := &armsCheck{info: info, res: res, fn: name}
				par := cfgx.Parents(fd.Body)
				mentions := func(e ast.Node, id string) bool {
					found := false
					ast.Inspect(e, func(n ast.Node) bool {
						if x, ok := n.(*ast.Ident); ok && x.Name == id {
							found = true
						}
						return !found
					})
					return found
				}
				// strip max/min clamps: keep the argument that mentions id
				var core_ func(e ast.Expr, id string) ast.Expr
				core_ = func(e ast.Expr, id string) ast.Expr {
					e = ast.Unparen(e)
					if c, ok := e.(*ast.CallExpr); ok {
						if f, ok := c.Fun.(*ast.Ident); ok && (f.Name == "max" || f.Name == "min") {
							for _, arg := range c.Args {
								if mentions(arg, id) {
									return core_(arg, id)
								}
							}
						}
					}
					return e
				}
				ast.Inspect(fd.Body, func(n ast.Node) bool {
					as, ok := n.(*ast.AssignStmt)
					if !ok || as.Tok != token.ASSIGN || len(as.Lhs) != 1 || len(as.Rhs) != 1 {
						return true
					}
					lhs, ok := as.Lhs[0].(*ast.Ident)
					if !ok || lhs.Name != "nb" || !mentions(as.Rhs[0], "lwork") {
						return true
					}
					// nearest enclosing `if lwork < W`
					var w ast.Expr
					var ifs *ast.IfStmt
					for p := par[as]; p != nil && w == nil; p = par[p] {
						is, ok := p.(*ast.IfStmt)
						if !ok {
							continue
						}
						be, ok := ast.Unparen(is.Cond).(*ast.BinaryExpr)
						if !ok || be.Op != token.LSS {
							continue
						}
						if id, ok := ast.Unparen(be.X).(*ast.Ident); ok && id.Name == "lwork" {
							w, ifs = be.Y, is
						}
					}
					if w == nil {
						return true
					}
					res.Obligations++
					res.Count("block_size_fallbacks", 1)
					// W given by a variable: the assignment that precedes the test in the same statement list
					if wid, ok := ast.Unparen(w).(*ast.Ident); ok {
						var def ast.Expr
						if blk, ok := par[ifs].(*ast.BlockStmt); ok {
							for _, st := range blk.List {
								if st == ast.Stmt(ifs) {
									break
								}
								if d, ok := st.(*ast.AssignStmt); ok && len(d.Lhs) == 1 && len(d.Rhs) == 1 {
									if l, ok := d.Lhs[0].(*ast.Ident); ok && l.Name == wid.Name {
										def = d.Rhs[0]
									}
								}
							}
						}
						if def == nil {
							// the only assignment to the variable anywhere before the test
							// (lwkopt := n*nb + tsize in an enclosing block)
							cnt := 0
							ast.Inspect(fd.Body, func(x ast.Node) bool {
								if d, ok := x.(*ast.AssignStmt); ok && len(d.Lhs) == 1 && len(d.Rhs) == 1 && d.Pos() < ifs.Pos() {
									if l, ok := d.Lhs[0].(*ast.Ident); ok && l.Name == wid.Name {
										cnt++
										def = d.Rhs[0]
									}
								}
								return true
							})
							if cnt != 1 {
								def = nil
							}
						}
						if def == nil {
							res.Count("fallbacks_with_unresolved_bound", 1)
							return true
						}
						w = def
					}
					// substitute single-definition locals that carry nb (ldwork = nb)
					wp, okW := a.polyOf(core_(w, "nb"))
					if !okW {
						res.Count("fallbacks_with_non_polynomial_bound", 1)
						return true
					}
					// alias: ldwork := nb style locals are treated as nb
					aliases := map[string]bool{"nb": true}
					ast.Inspect(fd.Body, func(x ast.Node) bool {
						if d, ok := x.(*ast.AssignStmt); ok && len(d.Lhs) == 1 && len(d.Rhs) == 1 {
							if l, ok := d.Lhs[0].(*ast.Ident); ok {
								if r, ok := ast.Unparen(d.Rhs[0]).(*ast.Ident); ok && r.Name == "nb" && l.Name != "nb" {
									aliases[l.Name] = true
								}
							}
						}
						return true
					})
					A, B := poly{}, poly{}
					for m, c := range wp {
						var rest []string
						deg := 0
						if m != "" {
							for _, at := range strings.Split(string(m), "*") {
								if aliases[at] {
									deg++
								} else {
									rest = append(rest, at)
								}
							}
						}
						key := mono(strings.Join(rest, "*"))
						switch deg {
						case 0:
							A[m] += c
						case 1:
							B[key] += c
						default:
							res.Count("fallbacks_with_non_affine_bound", 1)
							return true
						}
					}
					if len(B) == 0 {
						res.Count("fallbacks_with_bound_free_of_nb", 1)
						return true
					}
					f := core_(as.Rhs[0], "lwork")
					q, ok := ast.Unparen(f).(*ast.BinaryExpr)
					bad := func(msg string) {
						res.Add(core.Finding{Rule: "WORKSIZE.fallback", Key: fmt.Sprintf("WORKSIZE.fallback|%s", name), Pos: core.Pos(as.Pos()), Func: name,
							Msg: fmt.Sprintf("under `lwork < %s` the block size is reduced to %s, but the largest nb with %s <= lwork is (lwork - (%s)) / (%s): %s",
								types.ExprString(w), types.ExprString(as.Rhs[0]), types.ExprString(w), A.String(), B.String(), msg)})
					}
					if !ok || q.Op != token.QUO {
						bad("the fallback is not a quotient")
						return true
					}
					np, ok1 := a.polyOf(q.X)
					dp, ok2 := a.polyOf(q.Y)
					if !ok1 || !ok2 {
						res.Count("fallbacks_with_non_polynomial_quotient", 1)
						return true
					}
					wantN := padd(atomPoly("lwork"), A, -1)
					if len(padd(np, wantN, -1)) != 0 {
						bad(fmt.Sprintf("the numerator is %s", np.String()))
						return true
					}
					if len(padd(dp, B, -1)) != 0 {
						bad(fmt.Sprintf("the divisor is %s", dp.String()))
						return true
					}
					res.Count("fallbacks_verified", 1)
					return true
				})
			}
		}
	}
	return res
}
