package worksize

import (
	"fmt"
	"sort"
	"strings"
)

// A value is kept in the normal form
//
//	max over alternatives i of ( min over leaves j of polynomial p_ij )
//
// over integer atoms. The lattice identities used to keep it are exact;
// products are formed only between values whose leaves are syntactically
// non-negative (all coefficients >= 0 over atoms with a known lower bound
// >= 0), for which (min p)(min q) = min(pq) and (max p)(max q) = max(pq).
// Anything else becomes a fresh opaque atom without a lower bound, which can
// only cancel against itself in a proof.

type mono string // sorted atom names joined by '*'; "" is the constant term

type poly map[mono]int64

type nf struct {
	alts [][]poly
}

const maxLeaves = 4096

func constPoly(c int64) poly {
	if c == 0 {
		return poly{}
	}
	return poly{"": c}
}
func atomPoly(a string) poly { return poly{mono(a): 1} }

func (p poly) clone() poly {
	q := poly{}
	for k, v := range p {
		q[k] = v
	}
	return q
}

func padd(p, q poly, sign int64) poly {
	r := p.clone()
	for k, v := range q {
		r[k] += sign * v
		if r[k] == 0 {
			delete(r, k)
		}
	}
	return r
}

func mmul(a, b mono) mono {
	if a == "" {
		return b
	}
	if b == "" {
		return a
	}
	parts := append(strings.Split(string(a), "*"), strings.Split(string(b), "*")...)
	sort.Strings(parts)
	return mono(strings.Join(parts, "*"))
}

func pmul(p, q poly) poly {
	r := poly{}
	for k1, v1 := range p {
		for k2, v2 := range q {
			m := mmul(k1, k2)
			r[m] += v1 * v2
			if r[m] == 0 {
				delete(r, m)
			}
		}
	}
	return r
}

func (p poly) String() string {
	if len(p) == 0 {
		return "0"
	}
	keys := make([]string, 0, len(p))
	for k := range p {
		keys = append(keys, string(k))
	}
	sort.Strings(keys)
	var sb strings.Builder
	for i, k := range keys {
		v := p[mono(k)]
		if i > 0 {
			if v >= 0 {
				sb.WriteString(" + ")
			} else {
				sb.WriteString(" - ")
				v = -v
			}
		} else if v < 0 {
			sb.WriteString("-")
			v = -v
		}
		switch {
		case k == "":
			fmt.Fprintf(&sb, "%d", v)
		case v == 1:
			sb.WriteString(k)
		default:
			fmt.Fprintf(&sb, "%d*%s", v, k)
		}
	}
	return sb.String()
}

func (p poly) isConst() (int64, bool) {
	switch len(p) {
	case 0:
		return 0, true
	case 1:
		if v, ok := p[""]; ok {
			return v, true
		}
	}
	return 0, false
}

func single(p poly) nf { return nf{alts: [][]poly{{p}}} }

func (v nf) isPoly() (poly, bool) {
	if len(v.alts) == 1 && len(v.alts[0]) == 1 {
		return v.alts[0][0], true
	}
	return nil, false
}

func (v nf) size() int {
	n := 0
	for _, a := range v.alts {
		n += len(a)
	}
	return n
}

func (v nf) String() string {
	var alts []string
	for _, a := range v.alts {
		var ls []string
		for _, p := range a {
			ls = append(ls, p.String())
		}
		sort.Strings(ls)
		if len(ls) == 1 {
			alts = append(alts, ls[0])
		} else {
			alts = append(alts, "min("+strings.Join(ls, ", ")+")")
		}
	}
	sort.Strings(alts)
	if len(alts) == 1 {
		return alts[0]
	}
	return "max(" + strings.Join(alts, ", ") + ")"
}

func dedupe(ps []poly) []poly {
	seen := map[string]bool{}
	var out []poly
	for _, p := range ps {
		s := p.String()
		if !seen[s] {
			seen[s] = true
			out = append(out, p)
		}
	}
	return out
}

func (v nf) norm() nf {
	seen := map[string]bool{}
	var out [][]poly
	for _, a := range v.alts {
		a = dedupe(a)
		s := nf{alts: [][]poly{a}}.String()
		if !seen[s] {
			seen[s] = true
			out = append(out, a)
		}
	}
	return nf{alts: out}
}

func nfMax(a, b nf) nf {
	return nf{alts: append(append([][]poly{}, a.alts...), b.alts...)}.norm()
}

func nfMin(a, b nf) (nf, bool) {
	if len(a.alts)*len(b.alts) > maxLeaves {
		return nf{}, false
	}
	var out [][]poly
	for _, x := range a.alts {
		for _, y := range b.alts {
			out = append(out, append(append([]poly{}, x...), y...))
		}
	}
	r := nf{alts: out}.norm()
	return r, r.size() <= maxLeaves
}

func nfAdd(a, b nf) (nf, bool) {
	if a.size()*b.size() > maxLeaves {
		return nf{}, false
	}
	var out [][]poly
	for _, x := range a.alts {
		for _, y := range b.alts {
			var leaves []poly
			for _, p := range x {
				for _, q := range y {
					leaves = append(leaves, padd(p, q, 1))
				}
			}
			out = append(out, leaves)
		}
	}
	return nf{alts: out}.norm(), true
}

// nfSubPoly subtracts a single polynomial from every leaf (exact).
func nfSubPoly(a nf, q poly) nf {
	var out [][]poly
	for _, x := range a.alts {
		var leaves []poly
		for _, p := range x {
			leaves = append(leaves, padd(p, q, -1))
		}
		out = append(out, leaves)
	}
	return nf{alts: out}.norm()
}

// nfMul multiplies two values; nonneg says whether a polynomial is
// syntactically non-negative under the current facts.
func nfMul(a, b nf, nonneg func(poly) bool) (nf, bool) {
	if pa, ok := a.isPoly(); ok {
		if pb, ok := b.isPoly(); ok {
			return single(pmul(pa, pb)), true
		}
	}
	if a.size()*b.size() > maxLeaves {
		return nf{}, false
	}
	// c * max_i min_j p_ij = max_i min_j c*p_ij for a single c >= 0
	for k, v := range []nf{a, b} {
		if c, ok := v.isPoly(); ok && nonneg(c) {
			o := b
			if k == 1 {
				o = a
			}
			var out [][]poly
			for _, x := range o.alts {
				var leaves []poly
				for _, p := range x {
					leaves = append(leaves, pmul(c, p))
				}
				out = append(out, leaves)
			}
			return nf{alts: out}.norm(), true
		}
	}
	for _, v := range []nf{a, b} {
		for _, x := range v.alts {
			for _, p := range x {
				if !nonneg(p) {
					return nf{}, false
				}
			}
		}
	}
	var out [][]poly
	for _, x := range a.alts {
		for _, y := range b.alts {
			var leaves []poly
			for _, p := range x {
				for _, q := range y {
					leaves = append(leaves, pmul(p, q))
				}
			}
			out = append(out, leaves)
		}
	}
	return nf{alts: out}.norm(), true
}

// facts about atoms on one path.
type facts struct {
	lb   map[string]int64 // known lower bounds
	zero map[string]bool  // known to be zero
}

func (f facts) clone() facts {
	g := facts{lb: map[string]int64{}, zero: map[string]bool{}}
	for k, v := range f.lb {
		g.lb[k] = v
	}
	for k := range f.zero {
		g.zero[k] = true
	}
	return g
}

// subst applies x := 0 facts.
func (f facts) subst(p poly) poly {
	r := poly{}
	for m, c := range p {
		dead := false
		if m != "" {
			for _, a := range strings.Split(string(m), "*") {
				if f.zero[a] {
					dead = true
				}
			}
		}
		if !dead {
			r[m] = c
		}
	}
	return r
}

// shift rewrites p in terms of a' = a - lb(a) >= 0; ok is false when an
// atom without a lower bound occurs.
func (f facts) shift(p poly) (poly, bool) {
	r := poly{}
	for m, c := range p {
		term := poly{"": c}
		if m != "" {
			for _, a := range strings.Split(string(m), "*") {
				lb, ok := f.lb[a]
				if !ok {
					return nil, false
				}
				fac := poly{mono(a): 1}
				if lb != 0 {
					fac[""] = lb
				}
				term = pmul(term, fac)
			}
		}
		for k, v := range term {
			if v == 0 {
				continue
			}
			r[k] += v
			if r[k] == 0 {
				delete(r, k)
			}
		}
	}
	return r, true
}

// nonneg: every coefficient of the shifted polynomial is >= 0.
func (f facts) nonneg(p poly) bool {
	s, ok := f.shift(f.subst(p))
	if !ok {
		return false
	}
	for _, c := range s {
		if c < 0 {
			return false
		}
	}
	return true
}

// geq proves p >= q for all admissible atom values (sufficient test).
func (f facts) geq(p, q poly) bool {
	return f.nonneg(padd(p, q, -1))
}

// nfGeq proves a >= b: for every alternative of b some alternative of a
// dominates it leafwise (for all leaves of a's alternative there is a leaf of
// b's alternative below it).
func (f facts) nfGeq(a, b nf) bool {
	for _, bk := range b.alts {
		found := false
		for _, ai := range a.alts {
			all := true
			for _, p := range ai {
				some := false
				for _, q := range bk {
					if f.geq(p, q) {
						some = true
						break
					}
				}
				if !some {
					all = false
					break
				}
			}
			if all {
				found = true
				break
			}
		}
		if !found {
			return false
		}
	}
	return true
}
