package worksize

import (
	"fmt"
	"go/ast"
	"go/constant"
	"go/token"
	"go/types"
	"strings"

	"gverif/core"
	"gverif/engine/flagx"

	"golang.org/x/tools/go/types/typeutil"
)

// RunCallee implements ARGS.callee, a cross-check of beliefs between a routine
// and the routines it calls: when R hands its slice parameter P (whole, or the
// suffix P[off:]) to a callee S together with dimension arguments built from
// R's own parameters, S's unconditional length requirement for that operand,
// translated to R's terms (S's parameters replaced by the argument
// expressions, plus off), is a requirement on len(P) that R has to have
// checked itself: if it is provably larger than what R's own unconditional
// check of P demands — for all admissible values, by coefficient-wise
// dominance of the polynomial normal forms with every dimension >= 0 and every
// ld >= 1 — then R admits a P that its callee rejects, after R may already
// have modified other operands. Loop variables must cancel
// (len(d[i:]) >= n-i  <=>  len(d) >= n); call sites where they do not, or
// whose arguments involve reassigned locals, are counted as undecided.
func RunCallee(cfg core.Config, scope core.Scope) *core.Result {
	res := core.NewResult("CALLEE")
	res.Rules = append(res.Rules, "ARGS.callee: the unconditional length requirement of a callee for an operand that is the caller's own parameter P or a suffix P[off:], translated to the caller's parameters, is not provably larger than the caller's own unconditional length requirement for P")
	res.Configs = append(res.Configs, cfg.String())
	pkgs, err := core.Load(cfg, scope.Patterns...)
	if err != nil {
		res.Brokenf("%v", err)
		return res
	}
	type req struct {
		e      ast.Expr
		strict bool // len(p) < e (needs >= e); otherwise len(p) <= e (needs >= e+1)
	}
	type fnInfo struct {
		fd   *ast.FuncDecl
		info *types.Info
		reqs map[int]req // param index -> first unconditional requirement
		all  map[int][]flagx.LenCheck
		fe   *flagx.FlagEnv
		idx  map[types.Object]int
		defs map[types.Object]ast.Expr // single-assignment int locals
	}
	fns := map[*types.Func]*fnInfo{}
	usedExempt := map[string]bool{}
	for _, pkg := range pkgs {
		info := pkg.TypesInfo
		for _, file := range pkg.Syntax {
			for _, d := range file.Decls {
				fd, ok := d.(*ast.FuncDecl)
				if !ok || fd.Body == nil || !ast.IsExported(fd.Name.Name) {
					continue
				}
				fn, _ := info.Defs[fd.Name].(*types.Func)
				if fn == nil {
					continue
				}
				fi := &fnInfo{fd: fd, info: info, reqs: map[int]req{}, all: map[int][]flagx.LenCheck{}, idx: map[types.Object]int{}, defs: map[types.Object]ast.Expr{}}
				k := 0
				for _, fl := range fd.Type.Params.List {
					for _, n := range fl.Names {
						if o := info.Defs[n]; o != nil {
							fi.idx[o] = k
						}
						k++
					}
				}
				nassign := map[types.Object]int{}
				ast.Inspect(fd.Body, func(n ast.Node) bool {
					switch x := n.(type) {
					case *ast.AssignStmt:
						for i, l := range x.Lhs {
							if id, ok := l.(*ast.Ident); ok {
								if o := core.ObjOf(info, id); o != nil {
									nassign[o]++
									if len(x.Lhs) == len(x.Rhs) && x.Tok == token.DEFINE {
										fi.defs[o] = x.Rhs[i]
									} else {
										nassign[o]++
									}
								}
							}
						}
					case *ast.IncDecStmt:
						if id, ok := x.X.(*ast.Ident); ok {
							if o := core.ObjOf(info, id); o != nil {
								nassign[o] += 2
							}
						}
					case *ast.RangeStmt:
						for _, e := range []ast.Expr{x.Key, x.Value} {
							if id, ok := e.(*ast.Ident); ok {
								if o := core.ObjOf(info, id); o != nil {
									nassign[o] += 2
								}
							}
						}
					}
					return true
				})
				for o := range fi.defs {
					if nassign[o] != 1 {
						delete(fi.defs, o)
					}
				}
				fi.fe = flagx.NewFlagEnv(info, fd)
				checks, opaque := fi.fe.LenChecks()
				for p, cs := range checks {
					i, isParam := fi.idx[p]
					if !isParam || opaque[p] {
						continue
					}
					for _, c := range cs {
						if c.Extent == nil {
							continue
						}
						fi.all[i] = append(fi.all[i], c)
						if _, dup := fi.reqs[i]; !dup && c.Guard == nil {
							fi.reqs[i] = req{c.Extent, c.Strict}
						}
					}
				}
				fns[fn] = fi
			}
		}
	}
	// evaluator
	type envT func(o types.Object) (nf, bool)
	var eval func(fi *fnInfo, e ast.Expr, env envT, depth int) (nf, bool)
	eval = func(fi *fnInfo, e ast.Expr, env envT, depth int) (nf, bool) {
		if depth > 12 {
			return nf{}, false
		}
		e = ast.Unparen(e)
		if tv, ok := fi.info.Types[e]; ok && tv.Value != nil && tv.Value.Kind() == constant.Int {
			if v, ok := constant.Int64Val(tv.Value); ok {
				return single(constPoly(v)), true
			}
		}
		switch x := e.(type) {
		case *ast.Ident:
			o := core.ObjOf(fi.info, x)
			if o == nil {
				return nf{}, false
			}
			if v, ok := env(o); ok {
				return v, true
			}
			if def, ok := fi.defs[o]; ok {
				return eval(fi, def, env, depth+1)
			}
			return nf{}, false
		case *ast.BinaryExpr:
			a, ok1 := eval(fi, x.X, env, depth+1)
			b, ok2 := eval(fi, x.Y, env, depth+1)
			if !ok1 || !ok2 {
				return nf{}, false
			}
			switch x.Op {
			case token.ADD:
				return nfAdd(a, b)
			case token.SUB:
				if q, ok := b.isPoly(); ok {
					return nfSubPoly(a, q), true
				}
			case token.MUL:
				return nfMul(a, b, lbFacts.nonneg)
			}
		case *ast.CallExpr:
			if id, ok := x.Fun.(*ast.Ident); ok && (id.Name == "min" || id.Name == "max") && len(x.Args) >= 2 {
				acc, ok := eval(fi, x.Args[0], env, depth+1)
				if !ok {
					return nf{}, false
				}
				for _, a := range x.Args[1:] {
					v, ok := eval(fi, a, env, depth+1)
					if !ok {
						return nf{}, false
					}
					if id.Name == "max" {
						acc = nfMax(acc, v)
					} else if acc, ok = nfMin(acc, v); !ok {
						return nf{}, false
					}
				}
				return acc, true
			}
		}
		return nf{}, false
	}
	atoms := func(v nf) map[string]bool {
		out := map[string]bool{}
		for _, alt := range v.alts {
			for _, p := range alt {
				for m := range p {
					if m == "" {
						continue
					}
					for _, a := range strings.Split(string(m), "*") {
						out[a] = true
					}
				}
			}
		}
		return out
	}
	for _, pkg := range pkgs {
		info := pkg.TypesInfo
		for _, file := range pkg.Syntax {
			if !scope.InFile(file.Pos()) {
				continue
			}
			for _, d := range file.Decls {
				fd, ok := d.(*ast.FuncDecl)
				if !ok || fd.Body == nil {
					continue
				}
				rfn, _ := info.Defs[fd.Name].(*types.Func)
				R := fns[rfn]
				if R == nil || len(R.all) == 0 {
					continue
				}
				name := core.FuncName(pkg, fd)
				// caller environment: parameters are atoms named after themselves
				paramAtom := map[types.Object]string{}
				for o := range R.idx {
					paramAtom[o] = o.Name()
				}
				// loop variables and other locals become opaque atoms
				// (prefixed so that they can be recognised afterwards)
				envR := func(o types.Object) (nf, bool) {
					if a, ok := paramAtom[o]; ok {
						return single(atomPoly(a)), true
					}
					if _, isDef := R.defs[o]; isDef {
						return nf{}, false // expand through the definition
					}
					if v, ok := o.(*types.Var); ok {
						if b, ok := v.Type().Underlying().(*types.Basic); ok && b.Info()&types.IsInteger != 0 {
							return single(atomPoly("~" + v.Name())), true
						}
					}
					return nf{}, false
				}
				ast.Inspect(fd.Body, func(n ast.Node) bool {
					call, ok := n.(*ast.CallExpr)
					if !ok {
						return true
					}
					sfn, _ := typeutil.Callee(info, call).(*types.Func)
					S := fns[sfn]
					if S == nil || S == R {
						return true
					}
					sig := sfn.Type().(*types.Signature)
					if sig.Params().Len() != len(call.Args) {
						return true
					}
					// S's parameter objects by index
					sparams := make([]types.Object, sig.Params().Len())
					for o, i := range S.idx {
						sparams[i] = o
					}
					for qi, rq := range S.reqs {
						arg := ast.Unparen(call.Args[qi])
						var off ast.Expr
						if se, ok := arg.(*ast.SliceExpr); ok {
							if se.High != nil || se.Max != nil {
								continue
							}
							off = se.Low
							arg = ast.Unparen(se.X)
						}
						pid, ok := arg.(*ast.Ident)
						if !ok {
							continue
						}
						pobj := core.ObjOf(info, pid)
						pi, isParam := R.idx[pobj]
						if !isParam {
							continue
						}
						if len(R.all[pi]) == 0 {
							continue
						}
						res.Count("operand_delegations_with_both_requirements", 1)
						// callee requirement in caller terms
						envS := func(o types.Object) (nf, bool) {
							for i, so := range sparams {
								if so == o {
									return eval(R, call.Args[i], envR, 0)
								}
							}
							return nf{}, false
						}
						need, ok := eval(S, rq.e, envS, 0)
						if ok && !rq.strict {
							need, ok = nfAdd(need, single(constPoly(1)))
						}
						if ok && off != nil {
							var o nf
							if o, ok = eval(R, off, envR, 0); ok {
								need, ok = nfAdd(need, o)
							}
						}
						// the caller's requirement at this call: the largest
						// extent among its checks of P whose flag condition
						// holds whenever the call is reached
						var have nf
						ok2, any := true, false
						for _, c := range R.all[pi] {
							if c.Guard != nil {
								r, decided := R.fe.ReachableWhenAllFalse([]ast.Expr{c.Guard}, []ast.Node{call})
								if !decided || len(r) > 0 {
									continue
								}
							}
							h, okh := eval(R, c.Extent, envR, 0)
							if okh && !c.Strict {
								h, okh = nfAdd(h, single(constPoly(1)))
							}
							if !okh {
								ok2 = false
								break
							}
							if !any {
								have, any = h, true
							} else {
								have = nfMax(have, h)
							}
						}
						if !any {
							ok2 = false
						}
						if !ok || !ok2 {
							res.Count("delegations_undecided_unsupported_expression", 1)
							continue
						}
						local := false
						for a := range atoms(need) {
							if strings.HasPrefix(a, "~") {
								local = true
							}
						}
						for a := range atoms(have) {
							if strings.HasPrefix(a, "~") {
								local = true
							}
						}
						if local {
							res.Count("delegations_undecided_loop_variable_remains", 1)
							continue
						}
						res.Obligations++
						res.Count("delegations_compared", 1)
						f := lbFactsFor(atoms(need), atoms(have))
						havePlus1, _ := nfAdd(have, single(constPoly(1)))
						if f.nfGeq(need, havePlus1) {
							ek := fmt.Sprintf("%s|%s->%s", name, pobj.Name(), sfn.Name())
							if _, ok := CalleeExempt[ek]; ok {
								usedExempt[ek] = true
								res.Count("delegations_exempt_by_table", 1)
								continue
							}
							res.Add(core.Finding{Rule: "ARGS.callee", Key: fmt.Sprintf("ARGS.callee|%s|%s->%s", name, pobj.Name(), sfn.Name()),
								Pos: core.Pos(call.Pos()), Func: name,
								Msg: fmt.Sprintf("%s accepts len(%s) >= %s, but passes %s to %s, whose own check needs len(%s) >= %s in the caller's terms: a %s of the admitted minimal length is rejected by the callee, after %s may already have modified its operands",
									name, pobj.Name(), have.String(), types.ExprString(call.Args[qi]), sfn.Name(), pobj.Name(), need.String(), pobj.Name(), name)})
						}
					}
					return true
				})
			}
		}
	}
	for k := range CalleeExempt {
		if !usedExempt[k] {
			res.Stale("ARGS.callee: stale exemption %s", k)
		}
	}
	return res
}

// CalleeExempt lists "caller|param->callee" delegations whose mismatch is
// real in the text but could not be demonstrated with an input.
var CalleeExempt = map[string]string{
	"lapack/gonum.Implementation.Dlasq1|e->Dlascl": "reached only on the info == 2 arm (dqds exceeded its iteration limit), where e[i] for i < n and Dlascl(…, n, 1, e, 1) need n elements while the prologue admits n-1 (the reference declares E(N)); no input that makes Dlasq2 return 2 was found (2e6 random extreme-valued inputs), so the defect is latent and recorded in DESIGN §6 rather than repaired",
}

// lbFacts: every dimension is >= 0 (checked by the prologues); used for the
// sign test inside products.
var lbFacts = facts{lb: map[string]int64{}, zero: map[string]bool{}}

func lbFactsFor(sets ...map[string]bool) facts {
	f := facts{lb: map[string]int64{}, zero: map[string]bool{}}
	for _, s := range sets {
		for a := range s {
			if strings.HasPrefix(a, "ld") {
				f.lb[a] = 1
			} else {
				f.lb[a] = 0
			}
		}
	}
	return f
}
