package stride

import (
	"fmt"
	"go/ast"
	"go/constant"
	"go/token"
	"go/types"
	"sort"
	"strings"

	"gverif/core"
)

// RunArgmaxBase implements STRIDE.argmaxbase: I?amax returns a position
// relative to the slice it is given, so where a routine turns that position
// into one relative to the whole operand, `B + I?amax(cnt, x[O:], inc)`, the
// base B it adds is the offset it sliced by: B == O for inc == 1, and
// B*ld + (terms without ld) == O for a column walk with inc == ld. Both
// sides are compared as polynomials over the routine's variables.
func RunArgmaxBase(cfg core.Config, scope core.Scope) *core.Result {
	res := core.NewResult("ARGMAXBASE")
	res.Rules = append(res.Rules, "STRIDE.argmaxbase: in B + I?amax(cnt, x[O:], inc) the base B equals the slice offset O (inc == 1) or the coefficient of inc in O (inc a leading dimension), as polynomials")
	res.Configs = append(res.Configs, cfg.String())
	pkgs, err := core.Load(cfg, scope.Patterns...)
	if err != nil {
		res.Brokenf("%v", err)
		return res
	}
	type poly map[string]int64
	used := map[string]bool{}
	defer func() {
		for k := range ArgmaxExempt {
			if !used[k] {
				res.Stale("STRIDE.argmaxbase: stale exemption %s", k)
			}
		}
	}()
	for _, pkg := range pkgs {
		info := pkg.TypesInfo
		var eval func(e ast.Expr) (poly, bool)
		mul := func(a, b poly) poly {
			out := poly{}
			for ta, ca := range a {
				for tb, cb := range b {
					var atoms []string
					if ta != "" {
						atoms = append(atoms, strings.Split(ta, "*")...)
					}
					if tb != "" {
						atoms = append(atoms, strings.Split(tb, "*")...)
					}
					sort.Strings(atoms)
					out[strings.Join(atoms, "*")] += ca * cb
				}
			}
			return out
		}
		eval = func(e ast.Expr) (poly, bool) {
			e = ast.Unparen(e)
			if tv, ok := info.Types[e]; ok && tv.Value != nil && tv.Value.Kind() == constant.Int {
				if v, ok := constant.Int64Val(tv.Value); ok {
					return poly{"": v}, true
				}
			}
			switch x := e.(type) {
			case *ast.Ident:
				return poly{x.Name: 1}, true
			case *ast.BinaryExpr:
				a, ok1 := eval(x.X)
				b, ok2 := eval(x.Y)
				if !ok1 || !ok2 {
					return nil, false
				}
				switch x.Op {
				case token.ADD, token.SUB:
					out := poly{}
					for t, c := range a {
						out[t] += c
					}
					for t, c := range b {
						if x.Op == token.ADD {
							out[t] += c
						} else {
							out[t] -= c
						}
					}
					return out, true
				case token.MUL:
					return mul(a, b), true
				}
			}
			return nil, false
		}
		equal := func(a, b poly) bool {
			for t, c := range a {
				if b[t] != c {
					return false
				}
			}
			for t, c := range b {
				if a[t] != c {
					return false
				}
			}
			return true
		}
		for _, f := range pkg.Syntax {
			if !scope.InFile(f.Pos()) {
				continue
			}
			for _, d := range f.Decls {
				fd, ok := d.(*ast.FuncDecl)
				if !ok || fd.Body == nil {
					continue
				}
				name := core.FuncName(pkg, fd)
				amax := func(e ast.Expr) *ast.CallExpr {
					c, ok := ast.Unparen(e).(*ast.CallExpr)
					if !ok || len(c.Args) != 3 {
						return nil
					}
					sel, ok := c.Fun.(*ast.SelectorExpr)
					if !ok {
						return nil
					}
					switch sel.Sel.Name {
					case "Idamax", "Isamax", "Izamax", "Icamax":
						return c
					}
					return nil
				}
				ast.Inspect(fd.Body, func(n ast.Node) bool {
					be, ok := n.(*ast.BinaryExpr)
					if !ok || be.Op != token.ADD {
						return true
					}
					var call *ast.CallExpr
					var base ast.Expr
					if c := amax(be.Y); c != nil {
						call, base = c, be.X
					} else if c := amax(be.X); c != nil {
						call, base = c, be.Y
					} else {
						return true
					}
					se, ok := ast.Unparen(call.Args[1]).(*ast.SliceExpr)
					if !ok || se.Low == nil {
						return true
					}
					res.Obligations++
					res.Count("rebased_argmax_positions", 1)
					B, ok1 := eval(base)
					O, ok2 := eval(se.Low)
					inc, ok3 := eval(call.Args[2])
					good := false
					if ok1 && ok2 && ok3 {
						if len(inc) == 1 && inc[""] == 1 {
							good = equal(B, O)
						} else if len(inc) == 1 {
							var ld string
							for t, c := range inc {
								if c == 1 && !strings.Contains(t, "*") {
									ld = t
								}
							}
							if ld != "" {
								coef := poly{}
								for t, c := range O {
									atoms := strings.Split(t, "*")
									for i, a := range atoms {
										if a == ld {
											rest := append(append([]string{}, atoms[:i]...), atoms[i+1:]...)
											coef[strings.Join(rest, "*")] += c
											break
										}
									}
								}
								good = equal(B, coef)
							}
						}
					}
					if !good {
						if _, ok := ArgmaxExempt[name]; ok {
							used[name] = true
							res.Count("rebased_positions_exempt_by_table", 1)
							return true
						}
						res.Add(core.Finding{Rule: "STRIDE.argmaxbase", Key: fmt.Sprintf("STRIDE.argmaxbase|%s|%s", name, types.ExprString(be)), Pos: core.Pos(be.Pos()), Func: name,
							Msg: fmt.Sprintf("%s: %s adds the base %s to a position that %s returns relative to %s: the base is not the offset the operand was sliced by, so the resulting index names a neighbouring element", name, types.ExprString(be), types.ExprString(base), types.ExprString(call.Fun), types.ExprString(call.Args[1]))})
					}
					return true
				})
			}
		}
	}
	return res
}

// ArgmaxExempt lists routines whose mismatch is real in the text but has no
// demonstrated effect on a documented result.
var ArgmaxExempt = map[string]string{
	"lapack/gonum.Implementation.Dlatrs": "the Lower/NoTrans careful arm rebases Idamax(n-j-1, x[j+1:], 1) with j where the reference (one-based J + IDAMAX) and the sibling Dlatbs use j+1, so xmax is read from the element before the largest one; xmax only steers how early x is halved against bignum = 1/smlnum (about 5e291, sixteen orders below overflow), and in 2e7 random extreme-valued systems the returned (scale, x) pair always satisfied A*x = scale*b without Inf or NaN (the choice of scale differed from the mirrored Upper solve by factors of two); latent, recorded in DESIGN §6 rather than repaired",
}
