package stride

import (
	"fmt"
	"go/ast"
	"go/types"

	"gverif/core"
)

// RunWholeCopy implements STRIDE.wholecopy: the Data slice of a blas64/
// cblas128 vector or matrix value is only *at least* as long as the elements
// it describes (a view keeps the rest of its parent's storage behind it), so
// a copy out of it bounds the source by an explicit slice expression:
// `copy(dst, x.Data[:n])`, never `copy(dst, x.Data)`, which transfers
// min(len(dst), len(x.Data)) elements and writes whatever follows the
// operand's own elements into the destination's following rows.
func RunWholeCopy(cfg core.Config, scope core.Scope) *core.Result {
	res := core.NewResult("WHOLECOPY")
	res.Rules = append(res.Rules, "STRIDE.wholecopy: the source of a copy that is the Data field of a raw vector/matrix struct is bounded by a slice expression")
	res.Configs = append(res.Configs, cfg.String())
	pkgs, err := core.Load(cfg, scope.Patterns...)
	if err != nil {
		res.Brokenf("%v", err)
		return res
	}
	for _, pkg := range pkgs {
		info := pkg.TypesInfo
		for _, f := range pkg.Syntax {
			if !scope.InFile(f.Pos()) {
				continue
			}
			for _, d := range f.Decls {
				fd, ok := d.(*ast.FuncDecl)
				if !ok || fd.Body == nil {
					continue
				}
				name := core.FuncName(pkg, fd)
				ast.Inspect(fd.Body, func(n ast.Node) bool {
					c, ok := n.(*ast.CallExpr)
					if !ok || len(c.Args) != 2 {
						return true
					}
					id, ok := c.Fun.(*ast.Ident)
					if !ok || id.Name != "copy" {
						return true
					}
					if _, isBuiltin := info.Uses[id].(*types.Builtin); !isBuiltin {
						return true
					}
					src := ast.Unparen(c.Args[1])
					base := src
					sliced := false
					if se, ok := src.(*ast.SliceExpr); ok {
						base = ast.Unparen(se.X)
						sliced = se.High != nil
					}
					sel, ok := base.(*ast.SelectorExpr)
					if !ok || sel.Sel.Name != "Data" {
						return true
					}
					if tv, ok := info.Types[sel.X]; !ok || !dataStruct(tv.Type) {
						return true
					}
					res.Obligations++
					res.Count("copies_out_of_a_raw_data_slice", 1)
					if !sliced {
						res.Add(core.Finding{Rule: "STRIDE.wholecopy", Key: fmt.Sprintf("STRIDE.wholecopy|%s|%s", name, types.ExprString(c)), Pos: core.Pos(c.Pos()), Func: name,
							Msg: fmt.Sprintf("%s copies out of %s without an upper bound: the slice may be longer than the elements it describes, and the surplus lands behind the destination's own elements", name, types.ExprString(src))})
					}
					return true
				})
			}
		}
	}
	return res
}
