package stride

import (
	"fmt"
	"go/ast"
	"go/token"
	"go/types"
	"strings"

	"gverif/core"
)

// RunStepBound implements STRIDE.stepbound: a loop that walks storage in
// steps of an increment (`for i := 0; i < B; i += inc`) visits B/inc
// elements, so for it to visit n elements its bound has to be a storage
// extent — a product with that same increment (`n*inc`) or the length of the
// slice — not the bare element count.
func RunStepBound(cfg core.Config, scope core.Scope) *core.Result {
	res := core.NewResult("STEPBOUND")
	res.Rules = append(res.Rules, "STRIDE.stepbound: a loop from 0 that advances its index by an increment or stride is bounded by an expression containing that same increment (n*inc) or by a slice length, not by a bare element count")
	res.Configs = append(res.Configs, cfg.String())
	pkgs, err := core.Load(cfg, scope.Patterns...)
	if err != nil {
		res.Brokenf("%v", err)
		return res
	}
	isInc := func(e ast.Expr) bool {
		var nm string
		switch x := ast.Unparen(e).(type) {
		case *ast.Ident:
			nm = x.Name
		case *ast.SelectorExpr:
			nm = x.Sel.Name
		default:
			return false
		}
		if _, ok := isStrideName(nm); ok {
			return true
		}
		l := strings.ToLower(nm)
		return l == "inc" || l == "stride"
	}
	for _, pkg := range pkgs {
		info := pkg.TypesInfo
		for _, f := range pkg.Syntax {
			if !scope.InFile(f.Pos()) {
				continue
			}
			for _, d := range f.Decls {
				fd, ok := d.(*ast.FuncDecl)
				if !ok || fd.Body == nil {
					continue
				}
				name := core.FuncName(pkg, fd)
				ast.Inspect(fd.Body, func(n ast.Node) bool {
					fs, ok := n.(*ast.ForStmt)
					if !ok || fs.Init == nil || fs.Cond == nil || fs.Post == nil {
						return true
					}
					post, ok := fs.Post.(*ast.AssignStmt)
					if !ok || post.Tok != token.ADD_ASSIGN || len(post.Lhs) != 1 || !isInc(post.Rhs[0]) {
						return true
					}
					iv, ok := post.Lhs[0].(*ast.Ident)
					if !ok {
						return true
					}
					init, ok := fs.Init.(*ast.AssignStmt)
					if !ok || len(init.Lhs) != 1 || len(init.Rhs) != 1 {
						return true
					}
					if id, ok := init.Lhs[0].(*ast.Ident); !ok || info.Defs[id] == nil || info.Defs[id] != core.ObjOf(info, iv) {
						return true
					}
					if tv, ok := info.Types[init.Rhs[0]]; !ok || tv.Value == nil || tv.Value.String() != "0" {
						return true
					}
					cond, ok := fs.Cond.(*ast.BinaryExpr)
					if !ok || cond.Op != token.LSS {
						return true
					}
					if id, ok := ast.Unparen(cond.X).(*ast.Ident); !ok || core.ObjOf(info, id) != core.ObjOf(info, iv) {
						return true
					}
					res.Obligations++
					res.Count("loops_stepping_by_an_increment", 1)
					step := types.ExprString(post.Rhs[0])
					okBound := false
					bound := cond.Y
					// `end := n * inc; for i := 0; i < end; i += inc`
					if id, ok := ast.Unparen(bound).(*ast.Ident); ok {
						if o := core.ObjOf(info, id); o != nil {
							cnt := 0
							var def ast.Expr
							ast.Inspect(fd.Body, func(k ast.Node) bool {
								if a, ok := k.(*ast.AssignStmt); ok && len(a.Lhs) == len(a.Rhs) {
									for i, l := range a.Lhs {
										if lid, ok := l.(*ast.Ident); ok && core.ObjOf(info, lid) == o {
											cnt++
											def = a.Rhs[i]
										}
									}
								}
								return true
							})
							if cnt == 1 && def != nil {
								bound = def
							}
						}
					}
					ast.Inspect(bound, func(m ast.Node) bool {
						switch x := m.(type) {
						case *ast.CallExpr:
							if id, ok := x.Fun.(*ast.Ident); ok && id.Name == "len" {
								okBound = true
							}
						case ast.Expr:
							if types.ExprString(x) == step {
								okBound = true
							}
						}
						return !okBound
					})
					if !okBound {
						res.Add(core.Finding{Rule: "STRIDE.stepbound", Key: fmt.Sprintf("STRIDE.stepbound|%s|%s", name, types.ExprString(cond)), Pos: core.Pos(fs.Pos()), Func: name,
							Msg: fmt.Sprintf("%s: the loop advances %s by %s but is bounded by %s, which does not contain that increment: it visits ceil(%s/%s) elements instead of %s", name, iv.Name, step, types.ExprString(cond.Y), types.ExprString(cond.Y), step, types.ExprString(cond.Y))})
					}
					return true
				})
			}
		}
	}
	return res
}
